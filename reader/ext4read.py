#!/usr/bin/env python3
"""Independent reader of the ext2/3/4 on-disk format (pure python3, stdlib only).

Nothing of libext2fs is used: the structures were written down from the format headers
(lib/ext2fs/ext2_fs.h, ext3_extents.h, ext2_ext_attr.h, kernel-jbd.h); checksums (crc32c, crc16),
directory hashes (legacy, half-MD4, TEA) and all walkers are this file's own.

    project(path, offset=0) -> dict      the abstract state `Ext4Abs` (DESIGN.md Appendix A.2) + "loc"
    python3 ext4read.py IMAGE [-o out.json] [--no-loc]

The reader never raises on a corrupted image: each parse failure is a *named* entry of an `*_err` list.
All integers of the projection are < 2^31 (sizes are [hi, lo] with lo < 2^31; times are [epoch_bits, secs]
split the same way); block sets are sorted lists of inclusive ranges [[a, b], ...].
"""
import sys, os, struct, hashlib, json

M31 = 1 << 31
u16 = struct.Struct("<H").unpack_from
u32 = struct.Struct("<I").unpack_from
be32 = struct.Struct(">I").unpack_from

# ------------------------------------------------------------------------------------------------
# checksums
# ------------------------------------------------------------------------------------------------


def _mk_crc32c():
    poly = 0x82F63B78  # Castagnoli, reflected
    t0 = []
    for i in range(256):
        c = i
        for _ in range(8):
            c = (c >> 1) ^ poly if c & 1 else c >> 1
        t0.append(c)
    tabs = [t0]
    for k in range(1, 8):
        prev = tabs[-1]
        tabs.append([(prev[i] >> 8) ^ t0[prev[i] & 0xFF] for i in range(256)])
    return tabs


_C = _mk_crc32c()
_C0, _C1, _C2, _C3, _C4, _C5, _C6, _C7 = _C
_Q = struct.Struct("<Q")


def crc32c(crc, data):
    """Raw CRC32C update (no pre/post inversion): the convention of every ext4/jbd2 checksum."""
    n = len(data)
    i = 0
    if n >= 8:
        c0, c1, c2, c3, c4, c5, c6, c7 = _C0, _C1, _C2, _C3, _C4, _C5, _C6, _C7
        end = n - (n & 7)
        for (q,) in _Q.iter_unpack(memoryview(data)[:end]):
            q ^= crc
            crc = (c7[q & 0xFF] ^ c6[(q >> 8) & 0xFF] ^ c5[(q >> 16) & 0xFF] ^ c4[(q >> 24) & 0xFF] ^
                   c3[(q >> 32) & 0xFF] ^ c2[(q >> 40) & 0xFF] ^ c1[(q >> 48) & 0xFF] ^ c0[q >> 56])
        i = end
    t = _C0
    while i < n:
        crc = (crc >> 8) ^ t[(crc ^ data[i]) & 0xFF]
        i += 1
    return crc


def _mk_crc16():
    t = []
    for i in range(256):
        c = i
        for _ in range(8):
            c = (c >> 1) ^ 0xA001 if c & 1 else c >> 1
        t.append(c)
    return t


_T16 = _mk_crc16()


def crc16(crc, data):
    t = _T16
    for b in data:
        crc = (crc >> 8) ^ t[(crc ^ b) & 0xFF]
    return crc


# ------------------------------------------------------------------------------------------------
# directory hashes
# ------------------------------------------------------------------------------------------------
MASK = 0xFFFFFFFF


def _legacy_hash(name, signed):
    h0, h1 = 0x12A3FE2D, 0x37ABE8F9
    for c in name:
        if signed and c >= 128:
            c -= 256
        h = (h1 + (h0 ^ ((c * 7152373) & MASK))) & MASK
        if h & 0x80000000:
            h = (h - 0x7FFFFFFF) & MASK
        h1, h0 = h0, h
    return (h0 << 1) & MASK


def _str2hashbuf(msg, num, signed):
    ln = len(msg)
    pad = ln | (ln << 8)
    pad = (pad | (pad << 16)) & MASK
    out = []
    val = pad
    if ln > num * 4:
        ln = num * 4
    for i in range(ln):
        c = msg[i]
        if signed and c >= 128:
            c -= 256
        val = (c + (val << 8)) & MASK
        if i % 4 == 3:
            out.append(val)
            val = pad
            num -= 1
    num -= 1
    if num >= 0:
        out.append(val)
    while num > 0:
        num -= 1
        out.append(pad)
    return out


def _mk_half_md4():
    """straight-line half-MD4 transform (24 steps) generated once at import: python loops are too slow here"""
    L = ["def _half_md4(buf, d):", "    a, b, c, e = buf", "    M = 0xFFFFFFFF",
         "    d0, d1, d2, d3, d4, d5, d6, d7 = d"]
    F = "({z} ^ ({x} & ({y} ^ {z})))"
    G = "((({x} & {y}) + (({x} ^ {y}) & {z})) & M)"
    H = "({x} ^ {y} ^ {z})"
    rounds = ((F, 0, (0, 1, 2, 3, 4, 5, 6, 7), (3, 7, 11, 19)),
              (G, 0x5A827999, (1, 3, 5, 7, 0, 2, 4, 6), (3, 5, 9, 13)),
              (H, 0x6ED9EBA1, (3, 7, 2, 6, 1, 5, 0, 4), (3, 9, 11, 15)))
    regs = ["a", "b", "c", "e"]
    for f, k, order, shifts in rounds:
        for j in range(8):
            r = j & 3
            # step r updates register t using the other three in the order (x, y, z)
            t, x, y, z = [("a", "b", "c", "e"), ("e", "a", "b", "c"), ("c", "e", "a", "b"), ("b", "c", "e", "a")][r]
            sft = shifts[r]
            L.append("    t = (%s + %s + d%d + %d) & M" % (t, f.format(x=x, y=y, z=z), order[j], k))
            L.append("    %s = ((t << %d) | (t >> %d)) & M" % (t, sft, 32 - sft))
    L.append("    buf[0] = (buf[0] + a) & M")
    L.append("    buf[1] = (buf[1] + b) & M")
    L.append("    buf[2] = (buf[2] + c) & M")
    L.append("    buf[3] = (buf[3] + e) & M")
    ns = {}
    exec("\n".join(L), ns)
    return ns["_half_md4"]


_half_md4 = _mk_half_md4()


def _tea(buf, d):
    s = 0
    b0, b1 = buf[0], buf[1]
    a, b, c, dd = d
    for _ in range(16):
        s = (s + 0x9E3779B9) & MASK
        b0 = (b0 + ((((b1 << 4) + a) & MASK) ^ ((b1 + s) & MASK) ^ (((b1 >> 5) + b) & MASK))) & MASK
        b1 = (b1 + ((((b0 << 4) + c) & MASK) ^ ((b0 + s) & MASK) ^ (((b0 >> 5) + dd) & MASK))) & MASK
    buf[0] = (buf[0] + b0) & MASK
    buf[1] = (buf[1] + b1) & MASK


def dirhash(version, name, seed=None):
    """(hash, minor) of a directory entry name; version 0..5 (3..5 = unsigned-char variants). None if unknown."""
    signed = version < 3
    v = version % 3 if version < 6 else version
    buf = [0x67452301, 0xEFCDAB89, 0x98BADCFE, 0x10325476]
    if seed and any(seed):
        buf = list(seed)
    minor = 0
    if v == 0:
        h = _legacy_hash(name, signed)
    elif v == 1:
        p = name
        while True:
            _half_md4(buf, _str2hashbuf(p, 8, signed))
            p = p[32:]
            if not p:
                break
        h, minor = buf[1], buf[2]
    elif v == 2:
        p = name
        while True:
            _tea(buf, _str2hashbuf(p, 4, signed))
            p = p[16:]
            if not p:
                break
        h, minor = buf[0], buf[1]
    else:
        return None
    h &= ~1 & MASK
    if h == 0xFFFFFFFE:
        h = 0xFFFFFFFC
    return h, minor


# ------------------------------------------------------------------------------------------------
# small helpers
# ------------------------------------------------------------------------------------------------


def to_ranges(sorted_ints):
    """sorted iterable of distinct ints -> [[a,b],...]"""
    out = []
    a = b = None
    for x in sorted_ints:
        if a is None:
            a = b = x
        elif x == b + 1:
            b = x
        else:
            out.append([a, b])
            a = b = x
    if a is not None:
        out.append([a, b])
    return out


def set_to_ranges(s):
    return to_ranges(sorted(s))


def merge_ranges(rs):
    """list of [a,b] (any order, may overlap) -> sorted, merged"""
    out = []
    for a, b in sorted(rs):
        if out and a <= out[-1][1] + 1:
            if b > out[-1][1]:
                out[-1][1] = b
        else:
            out.append([a, b])
    return out


def split64(v):
    """64-bit (or 32-bit) quantity -> [hi, lo] with lo < 2^31 (hi clipped to < 2^31)."""
    return [min(v >> 31, M31 - 1), v & (M31 - 1)]


def clip(v):
    return v if -M31 < v < M31 else (M31 - 1 if v > 0 else -(M31 - 1))


def jname(b):
    """bytes -> JSON-safe str: printable ASCII kept, everything else (and backslash) as \\xNN."""
    if b.isascii() and b.isalnum():
        return b.decode("ascii")
    out = []
    for c in b:
        if 0x20 <= c < 0x7F and c != 0x5C:
            out.append(chr(c))
        else:
            out.append("\\x%02x" % c)
    return "".join(out)


def bits_to_ranges(buf, nbits, base):
    """set bits of a little-endian bitmap (first nbits) as ranges of (base + bit index)"""
    out = []
    n = int.from_bytes(buf[:(nbits + 7) // 8], "little")
    if nbits % 8:
        n &= (1 << nbits) - 1
    pos = 0
    while n:
        low = n & -n
        tz = low.bit_length() - 1
        n >>= tz
        pos += tz
        # run of ones
        inv = ~n
        run = (inv & -inv).bit_length() - 1
        out.append([base + pos, base + pos + run - 1])
        n >>= run
        pos += run
    return out


# ------------------------------------------------------------------------------------------------
# feature and flag names
# ------------------------------------------------------------------------------------------------
COMPAT = {0x1: "dir_prealloc", 0x2: "imagic_inodes", 0x4: "has_journal", 0x8: "ext_attr", 0x10: "resize_inode",
          0x20: "dir_index", 0x40: "lazy_bg", 0x100: "snapshot_bitmap", 0x200: "sparse_super2", 0x400: "fast_commit",
          0x800: "stable_inodes", 0x1000: "orphan_file"}
RO_COMPAT = {0x1: "sparse_super", 0x2: "large_file", 0x8: "huge_file", 0x10: "uninit_bg", 0x20: "dir_nlink",
             0x40: "extra_isize", 0x100: "quota", 0x200: "bigalloc", 0x400: "metadata_csum", 0x800: "replica",
             0x1000: "read-only", 0x2000: "project", 0x4000: "shared_blocks", 0x8000: "verity",
             0x10000: "orphan_present"}
INCOMPAT = {0x1: "compression", 0x2: "filetype", 0x4: "needs_recovery", 0x8: "journal_dev", 0x10: "meta_bg",
            0x40: "extent", 0x80: "64bit", 0x100: "mmp", 0x200: "flex_bg", 0x400: "ea_inode", 0x1000: "dirdata",
            0x2000: "metadata_csum_seed", 0x4000: "large_dir", 0x8000: "inline_data", 0x10000: "encrypt",
            0x20000: "casefold"}
IFLAGS = {0x1: "SECRM", 0x2: "UNRM", 0x4: "COMPR", 0x8: "SYNC", 0x10: "IMMUTABLE", 0x20: "APPEND", 0x40: "NODUMP",
          0x80: "NOATIME", 0x100: "DIRTY", 0x200: "COMPRBLK", 0x400: "NOCOMPR", 0x800: "ENCRYPT", 0x1000: "INDEX",
          0x2000: "IMAGIC", 0x4000: "JOURNAL_DATA", 0x8000: "NOTAIL", 0x10000: "DIRSYNC", 0x20000: "TOPDIR",
          0x40000: "HUGE_FILE", 0x80000: "EXTENTS", 0x100000: "VERITY", 0x200000: "EA_INODE", 0x400000: "EOFBLOCKS",
          0x800000: "NOCOW", 0x1000000: "SNAPFILE", 0x2000000: "DAX", 0x4000000: "SNAPFILE_DELETED",
          0x8000000: "SNAPFILE_SHRUNK", 0x10000000: "INLINE_DATA", 0x20000000: "PROJINHERIT", 0x40000000: "CASEFOLD",
          0x80000000: "RESERVED"}
BGFLAGS = {1: "INODE_UNINIT", 2: "BLOCK_UNINIT", 4: "ITABLE_ZEROED"}
FTYPES = {0o140000: "sock", 0o120000: "lnk", 0o100000: "reg", 0o060000: "blk", 0o040000: "dir", 0o020000: "chr",
          0o010000: "fifo"}
FT_OF_TYPE = {"reg": 1, "dir": 2, "chr": 3, "blk": 4, "fifo": 5, "sock": 6, "lnk": 7}
XATTR_PREFIX = {0: "", 1: "user.", 2: "system.posix_acl_access", 3: "system.posix_acl_default", 4: "trusted.",
                6: "security.", 7: "system.", 8: "system.richacl"}


def names(bits, table, width=32):
    out = []
    for i in range(width):
        m = 1 << i
        if bits & m:
            out.append(table.get(m, "bit%d" % i))
    return out


def s32(v):
    """unsigned 32-bit -> the integer TLC can hold (two's complement)"""
    v &= MASK
    return v - (1 << 32) if v >= M31 else v


class Fatal(Exception):
    pass


class Reader:
    MAX_IMAGE = 1 << 30

    def __init__(self, path, offset=0):
        with open(path, "rb") as f:
            if offset:
                f.seek(offset)
            self.img = f.read(self.MAX_IMAGE)
        self.size = len(self.img)
        self.err = {}          # list name -> [strings]
        self.loc = {}
        self.short_reads = 0

    def e(self, lst, msg):
        self.err.setdefault(lst, []).append(msg)

    # ---- raw access -------------------------------------------------------------------------
    def blk(self, b):
        """bytes of fs block b (zero-filled past the end of the image; never raises for b >= 0)"""
        bs = self.bs
        off = b * bs
        d = self.img[off:off + bs]
        if len(d) < bs:
            self.short_reads += 1
            d = d + bytes(bs - len(d))
        return d

    def valid_blk(self, b):
        return self.first <= b < self.blocks

    # ---- superblock -------------------------------------------------------------------------
    def read_super(self):
        if self.size < 2048:
            raise Fatal("image shorter than 2048 bytes")
        sb = self.img[1024:2048]
        self.sbraw = sb
        if u16(sb, 0x38)[0] != 0xEF53:
            raise Fatal("bad superblock magic")
        g = self.parse_super(sb)
        for k, v in g.items():
            setattr(self, k, v)
        # sanity needed to go on at all
        if self.log_bs > 6:
            raise Fatal("s_log_block_size %d" % self.log_bs)
        if self.bpg == 0 or self.ipg == 0 or self.cpg == 0:
            raise Fatal("zero blocks/clusters/inodes per group")
        if self.blocks <= self.first:
            raise Fatal("blocks_count <= first_data_block")
        if self.blocks > (1 << 31) - 1:
            raise Fatal("blocks_count too large for this reader")
        if self.log_cs < self.log_bs or self.log_cs - self.log_bs > 16:
            if self.bigalloc:
                raise Fatal("bad cluster size")
            self.log_cs = self.log_bs
        self.cr = (1 << (self.log_cs - self.log_bs)) if self.bigalloc else 1
        if self.isize < 128 or self.isize > self.bs or (self.isize & (self.isize - 1)):
            raise Fatal("bad inode size %d" % self.isize)
        if self.bpg > 8 * self.bs * self.cr or self.cpg > 8 * self.bs or self.ipg > 8 * self.bs:
            raise Fatal("per-group count exceeds bitmap block")
        if self.bigalloc and self.bpg != self.cpg * self.cr:
            raise Fatal("blocks_per_group != clusters_per_group * ratio")
        if not self.bigalloc and self.bpg != self.cpg:
            self.e("sb_err", "clusters_per_group != blocks_per_group")
        self.gdc = (self.blocks - self.first + self.bpg - 1) // self.bpg
        if self.gdc > (1 << 20):
            raise Fatal("too many groups")
        if self.gdc * self.ipg != self.inodes:
            raise Fatal("inodes_count %d != groups %d * inodes_per_group %d" % (self.inodes, self.gdc, self.ipg))
        if self.has64:
            if self.dsize < 64 or self.dsize > 1024 or (self.dsize & (self.dsize - 1)):
                raise Fatal("bad desc size %d" % self.dsize)
        else:
            self.dsize = 32
        self.dpb = self.bs // self.dsize
        self.descblks = (self.gdc + self.dpb - 1) // self.dpb
        self.ipb = self.bs // self.isize
        self.itb = (self.ipg + self.ipb - 1) // self.ipb
        if self.first_ino < 11 or self.first_ino > self.inodes:
            raise Fatal("bad first_ino %d" % self.first_ino)
        if self.first != (1 if self.bs == 1024 and self.cr == 1 else 0):
            # the format ties first_data_block to the block size (bigalloc: always 0)
            if not (self.bs == 1024 and self.first == 0) and not (self.first == 0):
                raise Fatal("first_data_block %d with block size %d" % (self.first, self.bs))
            self.e("sb_err", "first_data_block %d unexpected for block size %d" % (self.first, self.bs))
        self.loc["sb"] = 1024
        # checksum machinery
        self.csum_kind = "crc32c" if self.meta_csum else ("crc16" if self.gdt_csum else "none")
        if self.meta_csum:
            self.seed = u32(sb, 0x270)[0] if self.csum_seed_feat else crc32c(MASK, self.uuid)
            self.sb_csum_ok = crc32c(MASK, sb[:0x3FC]) == u32(sb, 0x3FC)[0]
            if sb[0x175] != 1:
                self.e("sb_err", "checksum_type %d" % sb[0x175])
        else:
            self.seed = 0
            self.sb_csum_ok = True

    def parse_super(self, sb):
        """decode the fields used for geometry from 1024 superblock bytes (also used for the backups)"""
        g = {}
        g["inodes"] = u32(sb, 0)[0]
        g["blocks"] = u32(sb, 4)[0]
        g["first"] = u32(sb, 0x14)[0]
        g["log_bs"] = u32(sb, 0x18)[0]
        g["log_cs"] = u32(sb, 0x1C)[0]
        g["bpg"] = u32(sb, 0x20)[0]
        g["cpg"] = u32(sb, 0x24)[0]
        g["ipg"] = u32(sb, 0x28)[0]
        g["state"] = u16(sb, 0x3A)[0]
        g["rev"] = u32(sb, 0x4C)[0]
        rev = g["rev"]
        g["first_ino"] = u32(sb, 0x54)[0] if rev >= 1 else 11
        g["isize"] = u16(sb, 0x58)[0] if rev >= 1 else 128
        g["sb_group"] = u16(sb, 0x5A)[0]
        g["f_compat"] = u32(sb, 0x5C)[0]
        g["f_incompat"] = u32(sb, 0x60)[0]
        g["f_ro"] = u32(sb, 0x64)[0]
        g["uuid"] = bytes(sb[0x68:0x78])
        g["rsvgdt"] = u16(sb, 0xCE)[0]
        g["dsize"] = u16(sb, 0xFE)[0]
        g["first_meta_bg"] = u32(sb, 0x104)[0]
        g["log_flex"] = sb[0x174]
        g["backup_bgs"] = [u32(sb, 0x24C)[0], u32(sb, 0x250)[0]]
        inc, ro, co = g["f_incompat"], g["f_ro"], g["f_compat"]
        g["has64"] = bool(inc & 0x80)
        if g["has64"]:
            g["blocks"] |= u32(sb, 0x150)[0] << 32
        g["bigalloc"] = bool(ro & 0x200)
        g["meta_csum"] = bool(ro & 0x400)
        g["gdt_csum"] = bool(ro & 0x10)
        g["csum_seed_feat"] = bool(inc & 0x2000)
        g["meta_bg"] = bool(inc & 0x10)
        g["flex_bg"] = bool(inc & 0x200)
        g["sparse"] = bool(ro & 0x1)
        g["sparse2"] = bool(co & 0x200)
        g["filetype"] = bool(inc & 0x2)
        g["extents_feat"] = bool(inc & 0x40)
        g["huge_file"] = bool(ro & 0x8)
        g["large_file"] = bool(ro & 0x2)
        g["dir_nlink"] = bool(ro & 0x20)
        g["inline_feat"] = bool(inc & 0x8000)
        g["ea_inode_feat"] = bool(inc & 0x400)
        g["largedir"] = bool(inc & 0x4000)
        g["casefold_feat"] = bool(inc & 0x20000)
        g["encrypt_feat"] = bool(inc & 0x10000)
        g["resize_feat"] = bool(co & 0x10)
        g["ext_attr_feat"] = bool(co & 0x8)
        g["journal_feat"] = bool(co & 0x4)
        g["journal_dev"] = bool(inc & 0x8)
        g["dir_index"] = bool(co & 0x20)
        g["quota_feat"] = bool(ro & 0x100)
        g["project_feat"] = bool(ro & 0x2000)
        g["orphan_file_feat"] = bool(co & 0x1000)
        g["orphan_present"] = bool(ro & 0x10000)
        g["mmp_feat"] = bool(inc & 0x100)
        g["bs"] = 1024 << min(g["log_bs"], 16)
        return g

    # ---- layout -----------------------------------------------------------------------------
    def has_super(self, g):
        if g == 0:
            return True
        if self.sparse2:
            return g == self.backup_bgs[0] or g == self.backup_bgs[1]
        if g <= 1 or not self.sparse:
            return True
        if not g & 1:
            return False
        for p in (3, 5, 7):
            x = p
            while x < g:
                x *= p
            if x == g:
                return True
        return False

    def group_first(self, g):
        return self.first + g * self.bpg

    def group_last(self, g):
        return min(self.group_first(g) + self.bpg, self.blocks) - 1

    def sb_block_of(self, g):
        b = self.group_first(g)
        if b == 0 and self.bs == 1024:
            b = 1      # 1 KiB blocks with first_data_block 0 (bigalloc): the superblock is block 1
        return b

    def desc_block_loc(self, i, backup_group=0):
        """fs block holding descriptor block i (primary when backup_group == 0)"""
        if not self.meta_bg or i < self.first_meta_bg:
            return self.sb_block_of(backup_group) + 1 + i
        g = i * self.dpb
        adj = 1 if (self.bs == 1024 and self.first == 0) else 0
        return self.group_first(g) + (1 if self.has_super(g) else 0) + adj

    def layout(self):
        """fixed-metadata ranges by class; per-group list of (class, lo, hi) for the computed bitmaps"""
        fx = {"sb": [], "gdt": [], "rsvgdt": [], "bb": [], "ib": [], "it": [], "mmp": []}
        per_group = [[] for _ in range(self.gdc)]
        old_desc = min(self.first_meta_bg, self.descblks) if self.meta_bg else self.descblks
        rsv = 0 if self.meta_bg else self.rsvgdt

        def add(cls, g, lo, hi):
            hi = min(hi, self.blocks - 1)
            if lo > hi:
                return
            fx[cls].append([lo, hi])
        for g in range(self.gdc):
            if self.has_super(g):
                sbb = self.sb_block_of(g)
                add("sb", g, sbb, sbb)
                if g == 0 and sbb == 1 and self.first == 0:
                    add("sb", g, 0, 0)      # boot block shares cluster 0 / lies inside the fs
                if old_desc:
                    add("gdt", g, sbb + 1, sbb + old_desc)
                if rsv:
                    add("rsvgdt", g, sbb + 1 + old_desc, sbb + old_desc + rsv)
            elif g == 0:
                pass
            if self.meta_bg:
                mg = g // self.dpb
                if mg >= self.first_meta_bg and mg < self.descblks:
                    pos = g % self.dpb
                    last = self.dpb - 1
                    if pos in (0, 1, last):
                        b = self.group_first(g) + (1 if self.has_super(g) else 0)
                        if self.bs == 1024 and self.first == 0 and g == 0:
                            b += 1
                        add("gdt", g, b, b)
        if self.first == 0 and self.bs > 1024:
            pass  # block 0 holds the superblock itself (already added as group 0's sb block)
        return fx

    # ---- group descriptors ------------------------------------------------------------------
    def read_gds(self):
        self.gd = []
        self.gdraw = []
        ds = self.dsize
        for g in range(self.gdc):
            i = g // self.dpb
            b = self.desc_block_loc(i)
            off = b * self.bs + (g % self.dpb) * ds
            raw = self.img[off:off + ds]
            if len(raw) < ds:
                raw = raw + bytes(ds - len(raw))
                self.e("gd_err", "g%d:descriptor beyond image" % g)
            self.gdraw.append(raw)
            self.loc["gd%d" % g] = off
            d = self.parse_gd(raw)
            d["g"] = g
            d["csum_ok"] = self.gd_csum(g, raw) == d["csum"] if self.csum_kind != "none" else True
            self.gd.append(d)

    def parse_gd(self, raw):
        bb, ib, it, fb, fi, ud, fl = struct.unpack_from("<IIIHHHH", raw, 0)
        bbc, ibc, unused, cs = struct.unpack_from("<HHHH", raw, 0x18)
        if self.has64 and len(raw) >= 64:
            bbh, ibh, ith, fbh, fih, udh, unh = struct.unpack_from("<IIIHHHH", raw, 0x20)
            bbch, ibch = struct.unpack_from("<HH", raw, 0x38)
            bb |= bbh << 32
            ib |= ibh << 32
            it |= ith << 32
            fb |= fbh << 16
            fi |= fih << 16
            ud |= udh << 16
            unused |= unh << 16
            bbc |= bbch << 16
            ibc |= ibch << 16
        return {"bb": bb, "ib": ib, "it": it, "free_b": fb, "free_i": fi, "dirs": ud, "flagbits": fl,
                "unused": unused, "csum": cs, "bbcsum": bbc, "ibcsum": ibc}

    def gd_csum(self, g, raw):
        grp = struct.pack("<I", g)
        if self.csum_kind == "crc32c":
            c = crc32c(self.seed, grp)
            c = crc32c(c, raw[:0x1E])
            c = crc32c(c, b"\0\0")
            if len(raw) > 0x20:
                c = crc32c(c, raw[0x20:])
            return c & 0xFFFF
        c = crc16(0xFFFF, self.uuid)
        c = crc16(c, grp)
        c = crc16(c, raw[:0x1E])
        if self.has64 and len(raw) > 0x20:
            c = crc16(c, raw[0x20:])
        return c

    # ---- bitmaps ----------------------------------------------------------------------------
    def read_bitmaps(self, fx):
        """block bitmap as ranges of cluster index c (cluster c = blocks [first + c*cr, first + (c+1)*cr)),
        inode bitmap as ranges of inode numbers; *_UNINIT groups get the content the format defines."""
        bb_all, ib_all = [], []
        have_csum = self.csum_kind != "none"
        # every bitmap / inode-table range, to compute BLOCK_UNINIT content
        meta = []
        for cls in ("sb", "gdt", "rsvgdt", "bb", "ib", "it", "mmp"):
            meta += fx[cls]
        meta = merge_ranges(meta)
        nclusters_total = (self.blocks - self.first + self.cr - 1) // self.cr
        for g, d in enumerate(self.gd):
            fl = d["flagbits"]
            cbase = g * self.cpg
            nbits = self.cpg
            # ---- block bitmap
            d["bbcsum_ok"] = True
            d["bb_pad_ok"] = True
            if have_csum and fl & 2:
                lo_b, hi_b = self.group_first(g), self.group_last(g)
                for a, b in meta:
                    if b < lo_b or a > hi_b:
                        continue
                    a2, b2 = max(a, lo_b), min(b, hi_b)
                    bb_all.append([(a2 - self.first) // self.cr, (b2 - self.first) // self.cr])
                # padding of a short last group is "set" by definition
                if cbase + nbits > nclusters_total:
                    bb_all.append([nclusters_total, cbase + nbits - 1])
            elif self.valid_blk(d["bb"]):
                raw = self.blk(d["bb"])
                self.loc["bb%d" % g] = d["bb"] * self.bs
                rs = bits_to_ranges(raw, nbits, cbase)
                bb_all += rs
                if self.meta_csum:
                    c = crc32c(self.seed, raw[:self.cpg // 8])
                    want = d["bbcsum"]
                    if self.dsize < 64:
                        c &= 0xFFFF
                        want &= 0xFFFF
                    d["bbcsum_ok"] = c == want
                if cbase + nbits > nclusters_total:
                    # padding bits of the last group must be set
                    need = [nclusters_total, cbase + nbits - 1]
                    d["bb_pad_ok"] = any(a <= need[0] and need[1] <= b for a, b in rs)
            else:
                self.e("gd_err", "g%d:block bitmap location %d out of range" % (g, clip(d["bb"])))
            # ---- inode bitmap
            d["ibcsum_ok"] = True
            if have_csum and fl & 1:
                pass
            elif self.valid_blk(d["ib"]):
                raw = self.blk(d["ib"])
                self.loc["ib%d" % g] = d["ib"] * self.bs
                ib_all += bits_to_ranges(raw, self.ipg, g * self.ipg + 1)
                if self.meta_csum:
                    c = crc32c(self.seed, raw[:self.ipg // 8])
                    want = d["ibcsum"]
                    if self.dsize < 64:
                        c &= 0xFFFF
                        want &= 0xFFFF
                    d["ibcsum_ok"] = c == want
            else:
                self.e("gd_err", "g%d:inode bitmap location %d out of range" % (g, clip(d["ib"])))
        return merge_ranges(bb_all), merge_ranges(ib_all)

    # ---- inodes -----------------------------------------------------------------------------
    _IN = struct.Struct("<HHIIIIIHHIII60sIIII12s")

    def inode_off(self, ino):
        g = (ino - 1) // self.ipg
        idx = (ino - 1) % self.ipg
        it = self.gd[g]["it"]
        if not self.valid_blk(it) or it + self.itb > self.blocks:
            return None
        return it * self.bs + idx * self.isize

    def raw_inode(self, ino):
        if ino < 1 or ino > self.inodes:
            return None
        off = self.inode_off(ino)
        if off is None:
            return None
        raw = self.img[off:off + self.isize]
        if len(raw) < self.isize:
            raw = raw + bytes(self.isize - len(raw))
        return raw

    def parse_inode(self, ino, raw):
        (mode, uid, size, atime, ctime, mtime, dtime, gid, links, blocks, flags, osd1, iblock, gen, facl, size_hi,
         faddr, osd2) = self._IN.unpack_from(raw, 0)
        blocks_hi, facl_hi, uid_hi, gid_hi, csum_lo, _r = struct.unpack("<HHHHHH", osd2)
        I = {"ino": ino, "mode_raw": mode, "links": links, "flagbits": flags, "iblock": iblock, "gen": gen,
             "dtime": dtime, "raw": raw}
        hurd = self.creator_os == 1
        I["uid"] = uid | (uid_hi << 16)
        I["gid"] = gid | (gid_hi << 16)
        I["size"] = size | (size_hi << 32)
        I["facl"] = facl | ((facl_hi << 32) if (self.has64 and not hurd) else 0)
        I["iblocks_raw"] = blocks | ((blocks_hi << 32) if (self.huge_file and not hurd) else 0)
        I["type"] = FTYPES.get(mode & 0o170000, "unknown")
        extra = 0
        ax = cx = mx = 0
        csum_hi = None
        if self.isize > 128:
            extra = u16(raw, 128)[0]
            if extra >= 4:
                csum_hi = u16(raw, 130)[0]
            if extra >= 8:
                cx = u32(raw, 132)[0]
            if extra >= 12:
                mx = u32(raw, 136)[0]
            if extra >= 16:
                ax = u32(raw, 140)[0]
            if extra >= 32:
                I["projid"] = u32(raw, 156)[0]
        I["extra"] = extra
        I["atime"] = atime | ((ax & 3) << 32)
        I["ctime"] = ctime | ((cx & 3) << 32)
        I["mtime"] = mtime | ((mx & 3) << 32)
        # checksum
        ok = True
        if self.meta_csum:
            c = crc32c(self.seed, struct.pack("<I", ino))
            c = crc32c(c, raw[100:104])
            seed_i = c
            if csum_hi is not None and 128 + extra <= self.isize:
                c = crc32c(c, raw[:124] + b"\0\0" + raw[126:130] + b"\0\0" + raw[132:])
                ok = c == (csum_lo | (csum_hi << 16))
            else:
                c = crc32c(c, raw[:124] + b"\0\0" + raw[126:])
                ok = (c & 0xFFFF) == csum_lo
            I["seed"] = seed_i
            if not ok and not any(raw):
                ok = True       # a never-initialised (all zero) inode carries no checksum
        I["csum_ok"] = ok
        return I

    # ---- block maps -------------------------------------------------------------------------
    def walk_extents(self, I, errs):
        """-> (runs [(lblk, len, pblk, uninit)], index_blocks [blk])   runs in tree order"""
        runs, index = [], []
        bs = self.bs
        seed = I.get("seed", 0)
        ino = I["ino"]
        budget = [200000]

        def node(buf, cap, depth_expect, lo_bound, where, nodeblk):
            if budget[0] <= 0:
                errs.append("extent:too_many_nodes")
                return
            magic, entries, mx, depth, _gen = struct.unpack_from("<HHHHI", buf, 0)
            if magic != 0xF30A:
                errs.append("extent:bad_magic@%s" % where)
                return
            if mx > cap or mx == 0:
                errs.append("extent:bad_max@%s" % where)
                if mx == 0:
                    return
            elif mx < cap - 2:
                errs.append("extent:small_max@%s" % where)
            if entries > mx or entries > cap:
                errs.append("extent:entries_gt_max@%s" % where)
                return
            if depth_expect is None:
                if depth > 5:
                    I.setdefault("info", []).append("extent:depth_%d_gt_5" % depth)
                if depth > 32:
                    errs.append("extent:depth_gt_32")
                    return
            elif depth != depth_expect:
                errs.append("extent:depth_mismatch@%s" % where)
                return
            if nodeblk is not None and self.meta_csum:
                o = 12 + 12 * mx
                if o + 4 <= bs:
                    if crc32c(seed, buf[:o]) != u32(buf, o)[0]:
                        errs.append("csum:extent_block@%d" % nodeblk)
                else:
                    errs.append("extent:no_room_for_tail@%s" % where)
            if entries == 0 and nodeblk is not None:
                errs.append("extent:empty_node@%s" % where)
            prev_end = lo_bound      # first lblk an entry of this node may start at
            first = True
            for k in range(entries):
                budget[0] -= 1
                o = 12 + 12 * k
                if depth == 0:
                    lblk, ln, hi16, lo32 = struct.unpack_from("<IHHI", buf, o)
                    pblk = lo32 | (hi16 << 32)
                    un = 0
                    if ln > 32768:
                        ln -= 32768
                        un = 1
                    w = "%s/%d" % (where, k)
                    if ln == 0:
                        errs.append("extent:zero_len@%s" % w)
                        continue
                    if lblk < prev_end:
                        errs.append("extent:out_of_order@%s" % w)
                        continue
                    if first and nodeblk is not None and lblk != lo_bound:
                        errs.append("extent:index_start@%s" % w)
                    first = False
                    if lblk + ln > (1 << 32):
                        errs.append("extent:lblk_overflow@%s" % w)
                        continue
                    if pblk < self.first or pblk == 0 or pblk + ln > self.blocks:
                        errs.append("range:extent@%s" % w)
                        prev_end = lblk + ln
                        continue
                    runs.append((lblk, ln, pblk, un))
                    prev_end = lblk + ln
                else:
                    lblk, lo32, hi16, _u = struct.unpack_from("<IIHH", buf, o)
                    child = lo32 | (hi16 << 32)
                    w = "%s/%d" % (where, k)
                    if lblk < prev_end:
                        errs.append("extent:out_of_order@%s" % w)
                        continue
                    if first and nodeblk is not None and lblk != lo_bound:
                        errs.append("extent:index_start@%s" % w)
                    first = False
                    if not self.valid_blk(child) or child == 0:
                        errs.append("range:extent_index@%s" % w)
                        prev_end = lblk
                        continue
                    index.append(child)
                    self.loc.setdefault("extblk", {})[str(child)] = child * bs
                    n0 = len(runs)
                    node(self.blk(child), (bs - 12) // 12, depth - 1, lblk, w, child)
                    # coverage: everything below the child must stay below the next index entry
                    prev_end = max(lblk, runs[-1][0] + runs[-1][1] if len(runs) > n0 else lblk)
        node(I["iblock"], 4, None, 0, "i", None)
        return runs, index

    def walk_indirect(self, I, errs, nblocks_limit=None):
        """-> (runs, ind_blocks)"""
        bs = self.bs
        apb = bs // 4
        ib = struct.unpack("<15I", I["iblock"])
        runs = []
        ind = []
        cur = None      # [lblk, len, pblk]
        first, blocks = self.first, self.blocks

        def leafs(ptrs, lbase):
            nonlocal cur
            l = lbase
            for p in ptrs:
                if p:
                    if p < first or p >= blocks:
                        errs.append("range:ind_data@l%d" % l)
                    elif cur is not None and cur[0] + cur[1] == l and cur[2] + cur[1] == p:
                        cur[1] += 1
                    else:
                        if cur is not None:
                            runs.append((cur[0], cur[1], cur[2], 0))
                        cur = [l, 1, p]
                l += 1

        def level(p, lvl, lbase, what):
            """p: block holding pointers of level lvl (1 = pointers to data)"""
            if p < first or p >= blocks:
                errs.append("range:%s@l%d" % (what, lbase))
                return
            ind.append(p)
            self.loc.setdefault("indblk", {})[str(p)] = p * bs
            if len(ind) > 70000:
                errs.append("ind:too_many")
                return
            buf = self.blk(p)
            if not any(buf):
                return
            ptrs = struct.unpack("<%dI" % apb, buf)
            if lvl == 1:
                leafs(ptrs, lbase)
            else:
                span = apb ** (lvl - 1)
                for k, q in enumerate(ptrs):
                    if q:
                        level(q, lvl - 1, lbase + k * span, ("ind", "dind")[lvl - 2])
        leafs(ib[:12], 0)
        if ib[12]:
            level(ib[12], 1, 12, "ind")
        if ib[13]:
            level(ib[13], 2, 12 + apb, "dind")
        if ib[14]:
            level(ib[14], 3, 12 + apb + apb * apb, "tind")
        if cur is not None:
            runs.append((cur[0], cur[1], cur[2], 0))
        return runs, ind

    # ---- extended attributes ----------------------------------------------------------------
    @staticmethod
    def xattr_name(idx, name):
        p = XATTR_PREFIX.get(idx)
        if p is None:
            p = "idx%d." % idx
        return p + jname(name)

    @staticmethod
    def xattr_entry_hash(name, value, signed=False):
        h = 0
        for c in name:
            if signed and c >= 128:
                c = (c - 256) & MASK
            h = ((h << 5) & MASK) ^ (h >> 27) ^ c
        if value is not None:
            pad = (-len(value)) % 4
            if pad:
                value = value + bytes(pad)
            for (w,) in struct.iter_unpack("<I", value):
                h = ((h << 16) & MASK) ^ (h >> 16) ^ w
        return h

    def parse_xattr_entries(self, buf, start, end, vbase, vlimit, errs, where, in_block):
        """entries from buf[start:end]; values at vbase + e_value_offs, must end <= vlimit.
        -> list of dict(name, idx, rawname, off, voff, vsize, vinum, hash, value (bytes or None))"""
        out = []
        pos = start
        used = []       # (lo, hi) byte regions of values
        while True:
            if pos + 4 > end:
                errs.append("xattr:no_terminator@%s" % where)
                break
            if buf[pos:pos + 4] == b"\0\0\0\0":
                break
            if pos + 16 > end:
                errs.append("xattr:entry_overruns@%s" % where)
                break
            nl, idx, voff, vinum, vsize, eh = struct.unpack_from("<BBHIII", buf, pos)
            if pos + 16 + nl > end:
                errs.append("xattr:name_overruns@%s" % where)
                break
            rawname = bytes(buf[pos + 16:pos + 16 + nl])
            ent = {"idx": idx, "rawname": rawname, "name": self.xattr_name(idx, rawname), "off": pos, "voff": voff,
                   "vsize": vsize, "vinum": vinum, "hash": eh, "value": None}
            if vinum:
                if not self.ea_inode_feat:
                    errs.append("xattr:value_inum_without_feature@%s" % where)
            elif vsize:
                a = vbase + voff
                if vsize > (1 << 24) or a + vsize > vlimit or a < 0:
                    errs.append("xattr:value_out_of_bounds@%s:%s" % (where, ent["name"]))
                    ent["bad"] = True
                else:
                    ent["value"] = bytes(buf[a:a + vsize])
                    used.append((a, a + ((vsize + 3) & ~3)))
            else:
                ent["value"] = b""
            out.append(ent)
            pos += (16 + nl + 3) & ~3
            if len(out) > 4096:
                errs.append("xattr:too_many@%s" % where)
                break
        ents_end = pos + 4
        used.sort()
        for i, (a, b) in enumerate(used):
            if a < ents_end and in_block is not None:
                errs.append("xattr:value_overlaps_entries@%s" % where)
                break
            if i and a < used[i - 1][1]:
                errs.append("xattr:values_overlap@%s" % where)
                break
        return out

    def ibody_xattrs(self, I, errs):
        if self.isize <= 128:
            return []
        extra = I["extra"]
        st = 128 + extra
        raw = I["raw"]
        if extra < 4 and extra != 0:
            return []
        if st + 4 > self.isize:
            return []
        if u32(raw, st)[0] != 0xEA020000:
            return []
        return self.parse_xattr_entries(raw, st + 4, self.isize, st + 4, self.isize, errs, "ibody", None)

    def xattr_block(self, blk):
        """parse (once) the xattr block blk -> record"""
        xb = self.xblocks.get(blk)
        if xb is not None:
            return xb
        errs = []
        buf = self.blk(blk)
        magic, refc, nblk, hh, cs = struct.unpack_from("<IIIII", buf, 0)
        xb = {"blk": blk, "refcount": clip(refc), "err": errs, "csum_ok": True, "sorted": True, "hash_ok": True,
              "bhash_ok": True, "entries": []}
        self.xblocks[blk] = xb
        self.loc.setdefault("xblk", {})[str(blk)] = blk * self.bs
        if magic != 0xEA020000:
            errs.append("xattr:bad_block_magic" + (":v1" if magic == 0xEA010000 else ""))
            return xb
        if nblk != 1:
            errs.append("xattr:h_blocks_%d" % clip(nblk))
        if self.meta_csum:
            c = crc32c(self.seed, struct.pack("<Q", blk))
            c = crc32c(c, buf[:16] + b"\0\0\0\0" + buf[20:])
            xb["csum_ok"] = c == cs
        ents = self.parse_xattr_entries(buf, 32, self.bs, 0, self.bs, errs, "blk%d" % blk, blk)
        xb["entries"] = ents
        prev = None
        bh = 0
        zero = False
        for en in ents:
            key = (en["idx"], len(en["rawname"]), en["rawname"])
            if prev is not None and key < prev:
                xb["sorted"] = False
            prev = key
            if en["vinum"] == 0 and en["value"] is not None:
                h = self.xattr_entry_hash(en["rawname"], en["value"])
                if h != en["hash"] and self.xattr_entry_hash(en["rawname"], en["value"], True) != en["hash"]:
                    xb["hash_ok"] = False
            if en["hash"] == 0:
                zero = True
            bh = ((bh << 16) & MASK) ^ (bh >> 16) ^ en["hash"]
        if zero:
            bh = 0
        xb["bhash_ok"] = bh == hh
        return xb

    def ea_inode_value(self, vinum, vsize, errs, where):
        """value stored in an EA inode -> (bytes or None)"""
        J = self.get_inode(vinum)
        if J is None:
            errs.append("xattr:ea_inode_invalid@%s" % where)
            return None
        if not (J["flagbits"] & 0x200000) or J["type"] != "reg":
            errs.append("xattr:ea_inode_not_flagged@%s" % where)
        self.finish_inode(J)
        if J["size"] != vsize:
            errs.append("xattr:ea_inode_size@%s" % where)
        data = self.file_bytes(J, min(J["size"], 1 << 24))
        return data

    # ---- file content -----------------------------------------------------------------------
    def file_bytes(self, I, n):
        """first n bytes of the file through the reader's own block map (holes / uninit = zeros)"""
        if I["map"] == "inline":
            return (I.get("inline_data") or b"")[:n]
        if I["map"] in ("fast-symlink",):
            return bytes(I["iblock"][:n])
        bs = self.bs
        out = bytearray(n)
        img = self.img
        for lblk, ln, pblk, un in I["runs"]:
            if un:
                continue
            o = lblk * bs
            if o >= n:
                continue
            m = min(ln * bs, n - o)
            d = img[pblk * bs:pblk * bs + m]
            out[o:o + len(d)] = d
        return bytes(out)

    def digest(self, I):
        size = I["size"]
        if I["map"] in ("inline", "fast-symlink"):
            return "sha256:" + hashlib.sha256(self.file_bytes(I, min(size, 1 << 20))).hexdigest()
        bs = self.bs
        h = hashlib.sha256()
        if size > (1 << 28):
            # too sparse to stream zeros: digest of (size, mapped runs with their content below EOF)
            h.update(b"huge:%d\n" % size)
            for lblk, ln, pblk, un in sorted(I["runs"]):
                o = lblk * bs
                if un or o >= size:
                    continue
                m = min(ln * bs, size - o)
                h.update(b"%d:%d\n" % (lblk, m))
                h.update(self.img[pblk * bs:pblk * bs + m])
            return "sha256h:" + h.hexdigest()
        pos = 0
        img = self.img
        zeros = bytes(1 << 16)
        for lblk, ln, pblk, un in sorted(I["runs"]):
            o = lblk * bs
            if o >= size:
                break
            if un:
                continue
            if o < pos:
                continue        # overlapping runs: shape error elsewhere; first mapping wins
            gap = o - pos
            while gap > 0:
                k = min(gap, 1 << 16)
                h.update(zeros[:k])
                gap -= k
            m = min(ln * bs, size - o)
            d = img[pblk * bs:pblk * bs + m]
            h.update(d)
            if len(d) < m:
                h.update(bytes(m - len(d)))
            pos = o + m
        gap = size - pos
        while gap > 0:
            k = min(gap, 1 << 16)
            h.update(zeros[:k])
            gap -= k
        return "sha256:" + h.hexdigest()

    # ---- per-inode analysis -----------------------------------------------------------------
    def get_inode(self, ino):
        I = self.inodes_by_no.get(ino)
        if I is not None:
            return I
        raw = self.raw_inode(ino)
        if raw is None:
            return None
        try:
            I = self.parse_inode(ino, raw)
        except Exception as ex:      # pragma: no cover - defensive
            self.e("inode_err", "ino%d:parse:%s" % (ino, type(ex).__name__))
            return None
        self.inodes_by_no[ino] = I
        off = self.inode_off(ino)
        self.loc.setdefault("inode", {})[str(ino)] = off
        return I

    MAX_BLOCKMAP_SIZE = {}

    def finish_inode(self, I):
        if "map" in I:
            return
        errs = I["shape_err"] = []
        I["runs"], I["index"], I["ind"] = [], [], []
        I["map"] = "none"
        try:
            self._finish_inode(I, errs)
        except RecursionError:
            errs.append("reader:recursion")
        except Exception as ex:
            errs.append("reader:exception:%s:%s" % (type(ex).__name__, str(ex)[:60]))

    def _finish_inode(self, I, errs):
        ino, typ, fl, size = I["ino"], I["type"], I["flagbits"], I["size"]
        bs = self.bs
        special = ino < self.first_ino and ino != 2
        I["xattrs"] = {}
        I["xplace"] = []
        I["ea_inodes"] = []
        I["ea_quota_clusters"] = 0
        I["xattr_blk"] = 0
        # ---- xattrs in the inode body
        ents = self.ibody_xattrs(I, errs)
        inline_extra = None
        for en in ents:
            self.note_xattr(I, en, "ibody", errs)
            if en["idx"] == 7 and en["rawname"] == b"data":
                inline_extra = en["value"] if en["value"] is not None else b""
            if en["vinum"] == 0 and en["value"] is not None and en["hash"] != 0:
                if (self.xattr_entry_hash(en["rawname"], en["value"]) != en["hash"] and
                        self.xattr_entry_hash(en["rawname"], en["value"], True) != en["hash"]):
                    errs.append("xattr:ibody_hash:%s" % en["name"])
        # ---- xattr block
        facl = I["facl"]
        if not self.has64 and self.creator_os != 1 and u16(I["raw"], 118)[0]:
            errs.append("xattr:file_acl_high_without_64bit")
        if facl and not self.ext_attr_feat:
            errs.append("xattr:file_acl_without_feature")
        elif facl:
            if not self.valid_blk(facl):
                errs.append("range:file_acl")
            else:
                I["xattr_blk"] = facl
                xb = self.xattr_block(facl)
                xb.setdefault("referrers", []).append(ino)
                for en in xb["entries"]:
                    self.note_xattr(I, en, "block", errs)
        # ---- mapping
        if ino == 7 and typ in ("reg", "unknown"):
            self.resize_inode(I, errs)
        elif fl & 0x10000000:
            I["map"] = "inline"
            if not self.inline_feat:
                errs.append("inline:flag_without_feature")
            if fl & 0x80000:
                errs.append("inline:with_extents_flag")
            if inline_extra is None:
                errs.append("inline:no_system_data")
                inline_extra = b""
            data = bytes(I["iblock"]) + inline_extra
            cap = len(data)
            if typ == "dir":
                if size != cap:
                    errs.append("size:inline_dir")
            elif typ == "lnk":
                if size != cap and not (size <= 60 and not inline_extra):
                    errs.append("size:inline_symlink")
            else:
                if size > cap:
                    errs.append("size:inline_beyond_capacity")
                if size > 60 and size != cap:
                    errs.append("size:inline")
            I["inline_cap"] = cap
            I["inline_data"] = data[:size] if size <= cap else data
        elif typ in ("chr", "blk", "fifo", "sock"):
            I["map"] = "none"
            if size:
                errs.append("size:special_nonzero")
            if fl & 0x1000:
                errs.append("flags:special_with_index")
        elif typ == "lnk" and 0 < size < 60:
            I["map"] = "fast-symlink"
            if fl & 0x80000:
                errs.append("symlink:fast_with_extents_flag")
        else:
            if fl & 0x80000:
                I["map"] = "extent"
                if not self.extents_feat:
                    errs.append("extent:flag_without_feature")
                I["runs"], I["index"] = self.walk_extents(I, errs)
            else:
                if any(I["iblock"]):
                    I["map"] = "indirect"
                    I["runs"], I["ind"] = self.walk_indirect(I, errs)
                else:
                    I["map"] = "none" if typ not in ("reg", "dir", "lnk") else "indirect"
            self.check_size_blocks(I, errs)
        # ---- type specific
        if typ == "lnk":
            self.check_symlink(I, errs)
        elif typ in ("chr", "blk"):
            w = struct.unpack_from("<II", I["iblock"], 0)
            if w[0]:
                I["rdev"] = [(w[0] >> 8) & 0xFF, w[0] & 0xFF]
            else:
                I["rdev"] = [(w[1] & 0xFFF00) >> 8, (w[1] & 0xFF) | ((w[1] >> 12) & 0xFFF00)]
        if typ == "unknown" and not special:
            errs.append("mode:bad_type")
        if I["dtime"] and I["links"] and not special:
            errs.append("dtime:set_on_live_inode")
        if fl & 0x1000 and typ != "dir" and typ not in ("chr", "blk", "fifo", "sock"):
            errs.append("flags:index_on_nondir")
        if typ == "dir" and fl & 0x1000 and not self.dir_index:
            errs.append("flags:index_without_feature")
        if self.isize > 128:
            ex = I["extra"]
            if ex and (ex < 4 or ex & 3 or 128 + ex > self.isize):
                errs.append("extra_isize:%d" % ex)
        self.check_iblocks(I, errs)

    def note_xattr(self, I, en, place, errs):
        name = en["name"]
        if name in I["xattrs"]:
            errs.append("xattr:duplicate:%s" % name)
        val = en["value"]
        if en["vinum"]:
            place = "ea_inode"
            I["ea_inodes"].append(en["vinum"])
            w = "%s:%s" % (I["ino"], name)
            if en["vinum"] < self.first_ino or en["vinum"] > self.inodes or en["vinum"] == I["ino"]:
                errs.append("xattr:ea_inode_number@%s" % w)
                val = None
            else:
                val = self.ea_inode_value(en["vinum"], en["vsize"], errs, w)
                J = self.inodes_by_no.get(en["vinum"])
                if J is not None:
                    J.setdefault("ea_referrers", []).append(I["ino"])
                    stored = J["atime"] & MASK
                    nh = self.xattr_entry_hash(en["rawname"], None)
                    nh_s = self.xattr_entry_hash(en["rawname"], None, True)
                    ok = False
                    for h0 in (nh, nh_s):
                        if (((h0 << 16) & MASK) ^ (h0 >> 16) ^ stored) == en["hash"]:
                            ok = True
                    lustre = (J["mtime"] & MASK) == I["ino"] and J["gen"] == I["gen"]
                    if ok:
                        cb = self.bs * self.cr
                        I["ea_quota_clusters"] += (en["vsize"] + cb - 1) // cb
                    elif not lustre:
                        errs.append("xattr:ea_inode_hash@%s" % w)
                    if val is not None and crc32c(self.seed, val) != stored and not lustre:
                        I.setdefault("info", []).append("ea_inode_value_crc@%s" % w)
        I["xattrs"][name] = ("sha256:" + hashlib.sha256(val).hexdigest()) if val is not None else "unreadable"
        I["xplace"].append([name, place])

    def check_size_blocks(self, I, errs):
        """i_size against the mapping (format rule; the tolerances are the documented ones)"""
        runs = I["runs"]
        size, typ, bs = I["size"], I["type"], self.bs
        if I["ino"] < self.first_ino and I["ino"] != 2:
            return
        # overlapping / unsorted logical ranges
        srt = sorted(runs)
        for a, b in zip(srt, srt[1:]):
            if a[0] + a[1] > b[0]:
                errs.append("map:logical_overlap@l%d" % b[0])
                break
        last = max((r[0] + r[1] - 1 for r in runs), default=-1)
        last_init = max((r[0] + r[1] - 1 for r in runs if not r[3]), default=-1)
        if typ == "dir":
            if size & (bs - 1):
                errs.append("size:dir_not_block_multiple")
            else:
                nb = size // bs
                if nb > last + 1:
                    errs.append("size:dir_beyond_mapping")
                elif nb < last + 1 and (last + 1 - nb) > self.prealloc_dir_blocks:
                    errs.append("size:dir_smaller_than_mapping")
            if last < 0:
                errs.append("dir:no_blocks")
            # no holes, no uninitialised blocks
            nxt = 0
            for r in srt:
                if r[0] > nxt:
                    errs.append("dir:hole@l%d" % nxt)
                    break
                nxt = max(nxt, r[0] + r[1])
            if any(r[3] for r in runs):
                errs.append("dir:uninit_extent")
            if last + 1 > (1 << 32) // bs * 0 + (1 << 21) * 4096 // bs and not self.largedir:
                pass
        elif typ in ("reg", "lnk", "unknown"):
            if typ != "lnk":
                if last_init >= 0 and size < last_init * bs and not (I["flagbits"] & 0x100000):
                    errs.append("size:smaller_than_mapping")
                if I["map"] == "extent":
                    if size > (1 << (32 + self.log_bs + 10)) - 1:
                        errs.append("size:too_big_for_extents")
                else:
                    apb = bs // 4
                    mx = (12 + apb + apb * apb + apb ** 3) * bs
                    mx = min(mx, ((1 << 32) - 1) * 512 if not self.huge_file else mx, (1 << 32) * bs - 1)
                    if size > mx:
                        errs.append("size:too_big_for_blockmap")
        if typ == "reg" and size >= (1 << 31) and not self.large_file and self.rev >= 0:
            I.setdefault("info", []).append("large_file_without_feature")

    def check_symlink(self, I, errs):
        size = I["size"]
        fl = I["flagbits"]
        if size == 0 or size >> 32 or fl & 0x1000:
            errs.append("symlink:bad_size_or_flags")
            return
        enc = bool(fl & 0x800)
        if I["map"] == "inline":
            tgt = I.get("inline_data", b"")
            if size != I.get("inline_cap") and not enc:
                # inline symlink: i_size is the inline area size
                errs.append("symlink:inline_size")
            I["target"] = jname(tgt.split(b"\0")[0][:size])
            return
        if I["map"] == "fast-symlink":
            buf = bytes(I["iblock"])
        else:
            runs = I["runs"]
            if len(runs) != 1 or runs[0][0] != 0 or runs[0][1] != 1 or I["index"]:
                errs.append("symlink:slow_not_one_block")
                return
            if I["map"] == "indirect" and (len(I["ind"]) or any(I["iblock"][4:])):
                errs.append("symlink:slow_extra_pointers")
                return
            buf = self.blk(runs[0][2])
        if enc:
            ln = u16(buf, 0)[0] + 2
        else:
            z = buf.find(b"\0")
            ln = len(buf) if z < 0 else z
        if ln >= len(buf) or ln != size:
            errs.append("symlink:target_length")
        I["target"] = jname(buf[:size])

    def check_iblocks(self, I, errs):
        if self.creator_os == 1:
            return
        cr = self.cr
        if I["map"] in ("extent", "indirect", "resize") or I["index"] or I["ind"]:
            if cr == 1:
                n = sum(r[1] for r in I["runs"]) + len(I["index"]) + len(I["ind"])
                if I["map"] == "resize":
                    n = I.get("resize_blocks", 0)
            else:
                cl = set()
                f = self.first
                for r in I["runs"]:
                    cl.update(range((r[2] - f) // cr, (r[2] + r[1] - 1 - f) // cr + 1))
                for b in I["index"]:
                    cl.add((b - f) // cr)
                for b in I["ind"]:
                    cl.add((b - f) // cr)
                n = len(cl)
                if I["map"] == "resize":
                    n = I.get("resize_blocks", 0)
        else:
            n = 0
        if I["xattr_blk"]:
            n += 1
            xb = self.xblocks.get(I["xattr_blk"])
        n += I["ea_quota_clusters"]
        if I["map"] == "resize":
            unit = self.bs // 512
            expect = n * unit * cr
        else:
            huge = self.huge_file and (I["flagbits"] & 0x40000)
            unit = 1 if huge else self.bs // 512
            expect = n * unit * cr
            if huge and (I["iblocks_raw"] >> 32):
                errs.append("iblocks:hi_set_with_huge_flag")
        I["iblocks_expect"] = expect
        I["iblocks_unit"] = unit
        if expect != I["iblocks_raw"]:
            errs.append("iblocks:%d!=%d" % (clip(I["iblocks_raw"]), clip(expect)))

    def resize_inode(self, I, errs):
        """inode 7: only the double-indirect block is owned; reserved GDT blocks are fixed metadata"""
        I["map"] = "resize"
        ib = struct.unpack("<15I", I["iblock"])
        if not self.resize_feat:
            if any(ib):
                errs.append("resize:blocks_without_feature")
            I["map"] = "none"
            return
        if any(ib[:13]) or ib[14]:
            errs.append("resize:unexpected_pointers")
        dind = ib[13]
        if not dind or not self.valid_blk(dind):
            errs.append("resize:bad_dind")
            return
        if I["type"] != "reg" or I["links"] == 0:
            errs.append("resize:bad_mode_or_links")
        I["ind"] = [dind]
        self.loc.setdefault("indblk", {})[str(dind)] = dind * self.bs
        apb = self.bs // 4
        ptrs = struct.unpack("<%dI" % apb, self.blk(dind))
        sbb = self.sb_block_of(0)
        first_rsv = sbb + 1 + self.descblks
        nblocks = 1
        backups = [g for g in range(1, self.gdc) if self.has_super(g)]
        expect_slots = {}
        for i in range(self.rsvgdt):
            pblk = first_rsv + i
            expect_slots[(self.descblks + i) % apb] = pblk
        for k, p in enumerate(ptrs):
            want = expect_slots.get(k, 0)
            if p != want:
                errs.append("resize:dind_slot%d" % k)
                break
        for k, pblk in sorted(expect_slots.items()):
            if ptrs[k] != pblk:
                continue
            nblocks += 1
            sub = struct.unpack("<%dI" % apb, self.blk(pblk))
            for j, g in enumerate(backups):
                if j >= apb:
                    break
                want = pblk + g * self.bpg
                if sub[j] != want:
                    errs.append("resize:backup_slot@%d/%d" % (pblk, j))
                    break
                nblocks += 1
        I["resize_blocks"] = nblocks

    # ---- directories ------------------------------------------------------------------------
    def parse_dirents(self, buf, start, end, errs, where, ents, ino_dir, seen_names, hashes=None, hver=None):
        """walk the rec_len chain of buf[start:end]; live entries appended to ents.  -> True if chain is sound"""
        pos = start
        ft_feat = self.filetype
        maxino = self.inodes
        first_ino = self.first_ino
        bsz = end - start
        local = set()
        while pos < end:
            if pos + 8 > end:
                errs.append("dir:chain_overruns@%s+%d" % (where, pos - start))
                return False
            ino, rl, nl, ft = struct.unpack_from("<IHBB", buf, pos)
            if bsz >= 65536:
                if rl == 65535 or rl == 0:
                    rl = 65536
                else:
                    rl = (rl & 65532) | ((rl & 3) << 16)
            if rl < 12 or rl & 3 or pos + rl > end or ((nl + 8 + 3) & ~3) > rl:
                errs.append("dir:bad_rec_len@%s+%d" % (where, pos - start))
                return False
            if not ft_feat and ft:
                if ino:
                    errs.append("dir:filetype_without_feature@%s+%d" % (where, pos - start))
                ft = 0
            if ino:
                name = bytes(buf[pos + 8:pos + 8 + nl])
                w = "%s+%d" % (where, pos - start)
                if nl == 0:
                    errs.append("dir:null_name@" + w)
                elif b"/" in name or b"\0" in name:
                    errs.append("dir:bad_name_char@" + w)
                if ino > maxino or (ino < first_ino and ino != 2 and not (nl <= 2 and name in (b".", b".."))):
                    errs.append("dir:bad_inode_number@" + w)
                if ft >= 8 and not (ft == 0xDE and False):
                    errs.append("dir:bad_file_type@" + w)
                if name in local:
                    errs.append("dir:duplicate_in_block@" + w)
                elif name in seen_names:
                    self.dir_info.append("dir%d:duplicate_across_blocks:%s" % (ino_dir, jname(name)))
                local.add(name)
                ents.append((name, ino, ft, where, pos))
                if hashes is not None:
                    hv = dirhash(hver, name, self.hash_seed)
                    hashes.append(hv[0] if hv else None)
            pos += rl
        seen_names |= local
        return True

    def dir_block_csum(self, I, buf, errs, where):
        """metadata_csum tail of a linear / leaf directory block"""
        bs = self.bs
        ino0, rl, nl, ft = struct.unpack_from("<IHBB", buf, bs - 12)
        if ino0 != 0 or rl != 12 or nl != 0 or ft != 0xDE:
            errs.append("dir:missing_csum_tail@%s" % where)
            return
        if crc32c(I["seed"], buf[:bs - 12]) != u32(buf, bs - 4)[0]:
            errs.append("csum:dir_block@%s" % where)

    def read_dir(self, I):
        ino = I["ino"]
        errs = []
        ents = []
        D = {"dir": ino, "kind": "linear", "err": errs, "ents": ents, "dot": 0, "dotdot": 0, "levels": 0}
        try:
            self._read_dir(I, D, errs, ents)
        except Exception as ex:
            errs.append("reader:exception:%s:%s" % (type(ex).__name__, str(ex)[:60]))
        return D

    def _read_dir(self, I, D, errs, ents):
        ino = I["ino"]
        bs = self.bs
        seen = set()
        if I["map"] == "inline":
            D["kind"] = "inline"
            data = I.get("inline_data", b"")
            raw = bytes(I["iblock"])
            parent = u32(raw, 0)[0]
            D["dot"] = ino
            D["dotdot"] = parent
            ents.append((b".", ino, 2 if self.filetype else 0, "syn", 0))
            ents.append((b"..", parent, 2 if self.filetype else 0, "syn", 0))
            self.parse_dirents(raw, 4, 60, errs, "inl", ents, ino, seen)
            if len(data) > 60:
                self.parse_dirents(data, 60, len(data), errs, "inlx", ents, ino, seen)
            return
        # logical -> physical
        lmap = {}
        for lblk, ln, pblk, un in I["runs"]:
            if ln > (1 << 16):
                errs.append("dir:huge_run")
                ln = 1 << 16
            for k in range(ln):
                lmap.setdefault(lblk + k, pblk + k)
        nblocks = (max(lmap) + 1) if lmap else 0
        if nblocks > (1 << 16):
            errs.append("dir:too_many_blocks")
            return
        D["nblocks"] = nblocks
        dloc = self.loc.setdefault("dirblk", {})
        for l, p in lmap.items():
            dloc["%d:%d" % (ino, l)] = p * bs
        is_dx = bool(I["flagbits"] & 0x1000) and self.dir_index
        casefold = bool(I["flagbits"] & 0x40000000) and self.casefold_feat
        leaf_range = {}     # lblk -> (lo, hi)
        interior = set()
        if is_dx and 0 in lmap:
            D["kind"] = "htree"
            hver = self.htree(I, D, lmap, nblocks, errs, leaf_range, interior)
            if casefold or (I["flagbits"] & 0x800):
                hver = None
                self.unsupported.add("htree hash of casefolded/encrypted directory %d not verified" % ino)
        else:
            hver = None
        csum = self.meta_csum
        for l in range(nblocks):
            p = lmap.get(l)
            if p is None:
                continue
            if l in interior:
                continue
            buf = self.blk(p)
            where = "l%d" % l
            n0 = len(ents)
            hashes = [] if (hver is not None and l in leaf_range) else None
            if l == 0 and D["kind"] == "htree":
                # root: '.' and '..' only
                self.parse_dirents(buf, 0, bs, errs, where, ents, ino, seen)
            else:
                ok = self.parse_dirents(buf, 0, bs, errs, where, ents, ino, seen, hashes, hver)
                if csum:
                    self.dir_block_csum(I, buf, errs, where)
                if hashes:
                    lo, hi = leaf_range[l]
                    for h in hashes:
                        if h is not None and not (lo <= h <= hi):
                            errs.append("htree:leaf_hash_out_of_range@%s" % where)
                            break
            if l == 0:
                blk0 = ents[n0:]
                if len(blk0) >= 1 and blk0[0][0] == b"." and blk0[0][4] == 0:
                    D["dot"] = blk0[0][1]
                else:
                    errs.append("dir:missing_dot")
                if len(blk0) >= 2 and blk0[1][0] == b"..":
                    D["dotdot"] = blk0[1][1]
                    if blk0[0][0] == b"." and u16(buf, 4)[0] != 12:
                        self.dir_info.append("dir%d:big_dot_entry" % ino)
                else:
                    errs.append("dir:missing_dotdot")
                for e_ in blk0[2:]:
                    if e_[0] in (b".", b".."):
                        errs.append("dir:extra_dot_entry")
            else:
                for e_ in ents[n0:]:
                    if e_[0] in (b".", b".."):
                        errs.append("dir:dot_entry_outside_first_block@%s" % where)
                        break

    def htree(self, I, D, lmap, nblocks, errs, leaf_range, interior):
        """validate the index of an htree directory; fills leaf_range / interior; -> hash version or None"""
        bs = self.bs
        ino = I["ino"]
        root = self.blk(lmap[0])
        csz = 8 if self.meta_csum else 0
        # '.' and '..' headers
        d_ino, d_rl, d_nl, _ = struct.unpack_from("<IHBB", root, 0)
        if d_rl != 12 or d_nl != 1 or root[8:9] != b".":
            errs.append("htree:root_dot")
            return None
        dd_ino, dd_rl, dd_nl, _ = struct.unpack_from("<IHBB", root, 12)
        if dd_rl != bs - 12 or dd_nl != 2 or root[20:22] != b"..":
            errs.append("htree:root_dotdot")
            return None
        rz, hver, ilen, levels, uflags = struct.unpack_from("<IBBBB", root, 24)
        if rz != 0 or ilen != 8:
            errs.append("htree:root_info")
            return None
        if hver > 2 and hver != 6:
            errs.append("htree:hash_version_%d" % hver)
            return None
        maxlev = 2 if self.largedir else 1
        if levels > maxlev:
            errs.append("htree:indirect_levels_%d" % levels)
            return None
        D["levels"] = levels + 1
        D["hash_version"] = hver
        if hver <= 2 and self.hash_unsigned:
            hver += 3
        referenced = {0}

        def node(buf, off, lblk, level, lo, hi):
            """index node whose countlimit sits at off; children cover [lo, hi]"""
            limit, count = struct.unpack_from("<HH", buf, off)
            expect = (bs - off - csz) // 8
            if limit != expect:
                errs.append("htree:bad_limit@l%d" % lblk)
                return
            if count > limit or count == 0:
                errs.append("htree:bad_count@l%d" % lblk)
                return
            if csz:
                t = off + limit * 8
                c = crc32c(I["seed"], buf[:off + count * 8])
                c = crc32c(c, buf[t:t + 4] + b"\0\0\0\0")
                if c != u32(buf, t + 4)[0]:
                    errs.append("csum:dx_node@l%d" % lblk)
            hs = [lo]
            bl = [u32(buf, off + 4)[0] & 0x0FFFFFFF]
            for k in range(1, count):
                h, b = struct.unpack_from("<II", buf, off + 8 * k)
                hs.append(h & ~1 & MASK)
                bl.append(b & 0x0FFFFFFF)
            for k in range(count):
                if k and hs[k] < hs[k - 1]:
                    errs.append("htree:hash_order@l%d/%d" % (lblk, k))
                    return
                if k == 1 and hs[1] < lo:
                    errs.append("htree:hash_below_node_range@l%d" % lblk)
                    return
            if hs[-1] > hi:
                errs.append("htree:hash_above_node_range@l%d" % lblk)
                return
            for k in range(count):
                b = bl[k]
                clo = hs[k]
                chi = hs[k + 1] if k + 1 < count else hi
                if b >= nblocks or b not in lmap:
                    errs.append("htree:bad_block_ref@l%d/%d" % (lblk, k))
                    continue
                if b in referenced:
                    errs.append("htree:dup_ref@l%d/%d" % (lblk, k))
                    continue
                referenced.add(b)
                if level > 0:
                    interior.add(b)
                    cb = self.blk(lmap[b])
                    f_ino, f_rl, f_nl, _ft = struct.unpack_from("<IHBB", cb, 0)
                    if f_ino != 0 or f_rl != bs or f_nl != 0:
                        if bs >= 65536 and f_rl in (0, 65535) and f_ino == 0:
                            pass
                        else:
                            errs.append("htree:interior_header@l%d" % b)
                            continue
                    node(cb, 8, b, level - 1, clo, chi)
                else:
                    leaf_range[b] = (clo, chi)
        interior.add(0)
        node(root, 32, 0, levels, 0, 0xFFFFFFFE)
        interior.discard(0)
        if not any(x.startswith("htree:") for x in errs):
            for l in range(1, nblocks):
                if l in lmap and l not in referenced:
                    errs.append("htree:block_not_referenced@l%d" % l)
                    break
        return hver

    # ---- journal, orphans, quota, MMP, backups ----------------------------------------------
    def journal_summary(self):
        J = {"present": self.journal_feat, "err": [], "csum_ok": True, "external": False, "dirty": False}
        errs = J["err"]
        if not self.journal_feat:
            if self.journal_inum:
                J["info"] = ["journal_inum_without_feature"]
            if self.needs_recovery:
                errs.append("journal:needs_recovery_without_journal")
            return J
        if self.journal_dev_num or any(self.journal_uuid):
            if not self.journal_inum:
                J["external"] = True
                return J
        ino = self.journal_inum
        J["ino"] = ino
        if ino == 0:
            errs.append("journal:no_inode")
            return J
        I = self.inodes_by_no.get(ino) or self.get_inode(ino)
        if I is None:
            errs.append("journal:inode_unreadable")
            return J
        self.finish_inode(I)
        if I["type"] != "reg" or I["links"] == 0:
            errs.append("journal:inode_not_regular_or_unlinked")
        if I["shape_err"]:
            errs.append("journal:inode_shape")
        first = None
        for r in sorted(I["runs"]):
            if r[0] == 0:
                first = r[2]
            break
        if first is None:
            errs.append("journal:no_block_0")
            return J
        jsb = self.blk(first)
        self.loc["jsb"] = first * self.bs
        self.parse_jsb(jsb, J, errs, sum(r[1] for r in I["runs"]))
        # backup of i_block in the superblock
        if self.jnl_backup_type == 1:
            bk = self.sbraw[0x10C:0x10C + 60]
            if bk != bytes(I["iblock"]):
                J.setdefault("info", []).append("jnl_blocks_backup_differs")
        return J

    def parse_jsb(self, jsb, J, errs, nblocks_mapped):
        magic, btype, _seq = struct.unpack_from(">III", jsb, 0)
        J["magic_ok"] = magic == 0xC03B3998
        if not J["magic_ok"]:
            errs.append("journal:bad_magic")
            return
        J["blocktype"] = clip(btype)
        if btype not in (3, 4):
            errs.append("journal:bad_superblock_type")
            return
        bsz, maxlen, first, seq, start, errno_ = struct.unpack_from(">IIIIIi", jsb, 12)
        J.update({"blocksize": clip(bsz), "maxlen": clip(maxlen), "first": clip(first), "sequence": s32(seq),
                  "start": clip(start), "errno": errno_})
        if bsz != self.bs:
            errs.append("journal:blocksize")
        if maxlen < 1024 or (nblocks_mapped is not None and maxlen > nblocks_mapped):
            errs.append("journal:maxlen")
        if first == 0 or first >= maxlen:
            errs.append("journal:first")
        if start and (start < first or start >= maxlen):
            errs.append("journal:start")
        if btype == 4:
            fc, fi, fr = struct.unpack_from(">III", jsb, 0x24)
            inc_names = {1: "revoke", 2: "64bit", 4: "async_commit", 8: "csum_v2", 16: "csum_v3", 32: "fast_commit"}
            J["compat"] = names(fc, {1: "checksum"})
            J["incompat"] = names(fi, inc_names)
            J["ro_compat"] = names(fr, {})
            if fi & ~0x3F or fr:
                errs.append("journal:unknown_features")
            nr_users = be32(jsb, 0x40)[0]
            J["nr_users"] = clip(nr_users)
            if nr_users > 48 or (nr_users != 1 and "external" not in J):
                errs.append("journal:nr_users")
            if (fi & 8) and (fi & 16):
                errs.append("journal:csum_v2_and_v3")
            if (fi & 0x18) and (fc & 1):
                errs.append("journal:csum_v1_and_v23")
            if fi & 0x18:
                c = crc32c(MASK, jsb[:0xFC] + b"\0\0\0\0" + jsb[0x100:1024])
                J["csum_ok"] = c == be32(jsb, 0xFC)[0]
                if jsb[0x50] != 4:
                    errs.append("journal:checksum_type")
            else:
                J["csum_ok"] = True
        else:
            J["csum_ok"] = True
        if start != 0:
            J["dirty"] = True
        if errno_:
            J.setdefault("info", []).append("journal_errno_%d" % errno_)

    def orphan_summary(self):
        O = {"last_orphan": s32(self.last_orphan), "chain": [], "err": [],
             "file": {"ino": 0, "blocks": 0, "entries": [], "err": [], "csum_err": []}}
        errs = O["err"]
        # classic list: s_last_orphan -> i_dtime chain
        seen = set()
        cur = self.last_orphan
        while cur:
            if cur in seen or len(seen) > 10000:
                errs.append("orphan:loop")
                break
            if cur < self.first_ino or cur > self.inodes:
                errs.append("orphan:bad_inode_%d" % clip(cur))
                break
            seen.add(cur)
            O["chain"].append(cur)
            I = self.get_inode(cur)
            if I is None:
                errs.append("orphan:unreadable")
                break
            cur = I["dtime"]
        if self.orphan_file_feat:
            ino = self.orphan_file_inum
            F = {"ino": ino, "blocks": 0, "entries": [], "err": [], "csum_err": []}
            O["file"] = F
            I = self.get_inode(ino) if ino else None
            if I is None:
                F["err"].append("orphan_file:no_inode")
            else:
                self.finish_inode(I)
                if I["type"] != "reg" or I["links"] == 0:
                    F["err"].append("orphan_file:bad_inode")
                bs = self.bs
                n = 0
                if I["size"] % bs or I["size"] == 0:
                    F["err"].append("orphan_file:size")
                lmap = {}
                for lblk, ln, pblk, un in I["runs"]:
                    for k in range(min(ln, 4096)):
                        lmap[lblk + k] = pblk + k
                for l in range(min(I["size"] // bs, 4096)):
                    p = lmap.get(l)
                    if p is None:
                        F["err"].append("orphan_file:hole@l%d" % l)
                        continue
                    n += 1
                    buf = self.blk(p)
                    self.loc.setdefault("orphanblk", {})[str(l)] = p * bs
                    if u32(buf, bs - 8)[0] != 0x0B10CA04:
                        F["err"].append("orphan_file:bad_magic@l%d" % l)
                        continue
                    if self.meta_csum:
                        c = crc32c(I["seed"], struct.pack("<Q", p))
                        c = crc32c(c, buf[:bs - 8])
                        if c != u32(buf, bs - 4)[0]:
                            F["csum_err"].append("csum:orphan_block@l%d" % l)
                    for (x,) in struct.iter_unpack("<I", buf[:bs - 8]):
                        if x:
                            F["entries"].append(s32(x))
                F["blocks"] = n
        elif self.orphan_file_inum:
            O.setdefault("info", []).append("orphan_file_inum_without_feature")
        if self.orphan_present and not self.orphan_file_feat:
            errs.append("orphan:present_without_file_feature")
        return O

    def quota_summary(self):
        Q = []
        for kind, ino in (("usr", self.usr_quota_inum), ("grp", self.grp_quota_inum), ("prj", self.prj_quota_inum)):
            if not ino:
                continue
            q = {"kind": kind, "ino": clip(ino), "ok": True, "err": []}
            I = self.get_inode(ino) if ino <= self.inodes else None
            if I is None:
                q["ok"] = False
                q["err"].append("quota:inode_unreadable")
            else:
                self.finish_inode(I)
                if I["type"] != "reg" or I["links"] == 0:
                    q["ok"] = False
                    q["err"].append("quota:inode_not_regular")
                hdr = self.file_bytes(I, 8) if I["size"] >= 8 else b""
                magic = {"usr": 0xD9C01F11, "grp": 0xD9C01927, "prj": 0xD9C03F14}[kind]
                if len(hdr) < 8 or u32(hdr, 0)[0] != magic or u32(hdr, 4)[0] > 1:
                    q["ok"] = False
                    q["err"].append("quota:bad_header")
            Q.append(q)
        return Q

    def mmp_summary(self, fx):
        if not self.mmp_feat:
            return {"present": False, "err": [], "magic_ok": True, "csum_ok": True}
        M = {"present": True, "blk": clip(self.mmp_block), "err": [], "magic_ok": True, "csum_ok": True}
        b = self.mmp_block
        if not self.valid_blk(b) or b == 0:
            M["err"].append("mmp:block_out_of_range")
            return M
        fx["mmp"].append([b, b])
        buf = self.blk(b)
        self.loc["mmp"] = b * self.bs
        M["magic_ok"] = u32(buf, 0)[0] == 0x004D4D50
        M["seq"] = s32(u32(buf, 4)[0])
        M["clean"] = u32(buf, 4)[0] == 0xFF4D4D50
        M["csum_ok"] = True
        if self.meta_csum:
            M["csum_ok"] = crc32c(self.seed, buf[:1020]) == u32(buf, 1020)[0]
        return M

    GEO_KEYS = ("inodes", "blocks", "first", "log_bs", "log_cs", "bpg", "cpg", "ipg", "rev", "first_ino", "isize",
                "f_compat", "f_incompat", "f_ro", "uuid", "rsvgdt", "dsize", "first_meta_bg", "log_flex", "backup_bgs")

    def backups_summary(self):
        out = []
        prim_desc = []
        for i in range(self.descblks):
            prim_desc.append(self.blk(self.desc_block_loc(i)))
        for g in range(1, self.gdc):
            rec = None
            if self.has_super(g):
                rec = {"g": g, "sb_ok": True, "geo_eq": True, "gdt_eq": True, "group_field_ok": True, "err": []}
                sbb = self.group_first(g)
                raw = self.blk(sbb)[:1024]
                self.loc["sb_backup%d" % g] = sbb * self.bs
                if u16(raw, 0x38)[0] != 0xEF53:
                    rec["sb_ok"] = False
                    rec["geo_eq"] = False
                    rec["err"].append("backup:sb_magic")
                else:
                    try:
                        p = self.parse_super(raw)
                        diffs = [k for k in self.GEO_KEYS if p[k] != getattr(self, k)]
                        # state / needs_recovery / orphan_present may legitimately differ in backups
                        d2 = []
                        for k in diffs:
                            if k == "f_incompat" and (p[k] ^ self.f_incompat) & ~0x4 == 0:
                                continue
                            if k == "f_ro" and (p[k] ^ self.f_ro) & ~0x10000 == 0:
                                continue
                            d2.append(k)
                        if d2:
                            rec["geo_eq"] = False
                            rec["err"].append("backup:geometry:" + ",".join(d2))
                        rec["group_field_ok"] = p["sb_group"] == (g & 0xFFFF)
                        if self.meta_csum and crc32c(MASK, raw[:0x3FC]) != u32(raw, 0x3FC)[0]:
                            rec["sb_ok"] = False
                            rec["err"].append("csum:backup_sb")
                    except Exception as ex:
                        rec["sb_ok"] = False
                        rec["err"].append("backup:parse:%s" % type(ex).__name__)
                nold = min(self.first_meta_bg, self.descblks) if self.meta_bg else self.descblks
                for i in range(nold):
                    b = sbb + 1 + i
                    if b >= self.blocks or self.blk(b) != prim_desc[i]:
                        rec["gdt_eq"] = False
                        rec["err"].append("backup:gdt_block_%d" % i)
                        break
            if self.meta_bg:
                mg = g // self.dpb
                pos = g % self.dpb
                if mg >= self.first_meta_bg and mg < self.descblks and pos in (1, self.dpb - 1):
                    if rec is None:
                        rec = {"g": g, "err": []}
                    b = self.group_first(g) + (1 if self.has_super(g) else 0)
                    eq = b < self.blocks and self.blk(b) == prim_desc[mg]
                    rec["meta_bg_eq"] = eq
                    if not eq:
                        rec["err"].append("backup:meta_bg_desc")
            if rec is not None:
                out.append(rec)
        return out

    # ---- assembly ---------------------------------------------------------------------------
    def read_super_extra(self):
        sb = self.sbraw
        self.creator_os = u32(sb, 0x48)[0]
        self.free_blocks = u32(sb, 0x0C)[0] | ((u32(sb, 0x158)[0] << 32) if self.has64 else 0)
        self.free_inodes = u32(sb, 0x10)[0]
        self.prealloc_dir_blocks = sb[0xCD]
        self.journal_uuid = bytes(sb[0xD0:0xE0])
        self.journal_inum = u32(sb, 0xE0)[0]
        self.journal_dev_num = u32(sb, 0xE4)[0]
        self.last_orphan = u32(sb, 0xE8)[0]
        self.hash_seed = struct.unpack_from("<4I", sb, 0xEC)
        self.def_hash_version = sb[0xFC]
        self.jnl_backup_type = sb[0xFD]
        self.s_flags = u32(sb, 0x160)[0]
        self.hash_unsigned = bool(self.s_flags & 2)
        self.mmp_block = struct.unpack_from("<Q", sb, 0x168)[0]
        self.usr_quota_inum = u32(sb, 0x240)[0]
        self.grp_quota_inum = u32(sb, 0x244)[0]
        self.prj_quota_inum = u32(sb, 0x26C)[0]
        self.lpf_ino = u32(sb, 0x268)[0]
        self.orphan_file_inum = u32(sb, 0x280)[0]
        self.needs_recovery = bool(self.f_incompat & 0x4)
        self.error_count = u32(sb, 0x194)[0]
        self.min_extra = u16(sb, 0x15C)[0]
        self.want_extra = u16(sb, 0x15E)[0]

    def project(self):
        try:
            self.read_super()
            self.read_super_extra()
        except Fatal as f:
            return {"fatal": str(f)}
        except Exception as ex:
            return {"fatal": "superblock:%s:%s" % (type(ex).__name__, ex)}
        self.inodes_by_no = {}
        self.xblocks = {}
        self.dir_info = []
        self.unsupported = set()
        P = {}
        try:
            self._project(P)
        except Exception as ex:
            import traceback
            P["reader_err"] = ["exception:%s:%s" % (type(ex).__name__, ex), traceback.format_exc()[-600:]]
        return P

    def _project(self, P):
        bs = self.bs
        feats_c, feats_i, feats_r = names(self.f_compat, COMPAT), names(self.f_incompat, INCOMPAT), names(self.f_ro, RO_COMPAT)
        flex = (1 << self.log_flex) if (self.flex_bg and self.log_flex < 31) else 1
        P["geo"] = {"bs": bs, "cr": self.cr, "blocks": self.blocks, "first": self.first, "bpg": self.bpg,
                    "cpg": self.cpg, "ipg": self.ipg, "inodes": self.inodes, "isize": self.isize,
                    "dsize": self.dsize, "gdc": self.gdc, "descblks": self.descblks, "rsvgdt": self.rsvgdt,
                    "itb": self.itb, "flex": min(flex, M31 - 1), "first_meta_bg": clip(self.first_meta_bg),
                    "compat": feats_c, "incompat": feats_i, "ro_compat": feats_r,
                    "features": feats_c + feats_i + feats_r, "first_ino": self.first_ino, "rev": clip(self.rev),
                    "csum": self.csum_kind, "backup_bgs": [clip(x) for x in self.backup_bgs],
                    "creator_os": clip(self.creator_os), "bbitmap_unit": "cluster" if self.cr > 1 else "block-first",
                    "image_blocks": self.size // bs}
        if self.size < self.blocks * bs:
            self.e("sb_err", "image_shorter_than_filesystem")
        unknown = [n for n in P["geo"]["features"] if n.startswith("bit")]
        for n in ("compression", "journal_dev", "dirdata", "replica", "snapshot_bitmap", "imagic_inodes"):
            if n in P["geo"]["features"]:
                unknown.append(n)
        if unknown:
            self.e("sb_err", "unsupported_features:" + ",".join(unknown))
        self.read_gds()
        fx = self.layout()
        for g, d in enumerate(self.gd):
            lo, hi = (self.first, self.blocks - 1) if self.flex_bg else (self.group_first(g), self.group_last(g))
            for cls, key, n in (("bb", "bb", 1), ("ib", "ib", 1), ("it", "it", self.itb)):
                b = d[key]
                if b < lo or b + n - 1 > hi or b == 0:
                    self.e("gd_err", "g%d:%s_location" % (g, key))
                    if b < self.first or b + n - 1 >= self.blocks:
                        continue
                fx[cls].append([b, b + n - 1])
        mmp = self.mmp_summary(fx)
        have_csum_early = self.csum_kind != "none"
        for k in fx:
            fx[k].sort()
        bbitmap, ibitmap = self.read_bitmaps(fx)
        P["fixed"] = fx
        P["fixed_list"] = sorted([a, b, cls] for cls in fx for a, b in fx[cls])
        P["geo"]["ncl"] = (self.blocks - self.first + self.cr - 1) // self.cr
        P["geo"]["csum_feature"] = have_csum_early
        P["bbitmap"], P["ibitmap"] = bbitmap, ibitmap
        have_csum = self.csum_kind != "none"
        # ---- candidate inodes
        ibits = set()
        for a, b in ibitmap:
            ibits.update(range(a, b + 1))
        cand = set(ibits)
        cand.update(range(1, self.first_ino))
        free_csum_bad = []
        P["free_inode_csum_err"] = free_csum_bad
        isz = self.isize
        for g, d in enumerate(self.gd):
            it = d["it"]
            if not self.valid_blk(it) or it + self.itb > self.blocks:
                continue
            n = self.ipg
            if have_csum:
                if d["flagbits"] & 1:
                    continue
                n = max(0, n - min(d["unused"], n))
            tb = self.img[it * bs:it * bs + n * isz]
            lo, hi = tb[26::isz], tb[27::isz]
            base = g * self.ipg + 1
            for k in range(min(len(lo), len(hi))):
                if lo[k] or hi[k]:
                    cand.add(base + k)
            if self.meta_csum:
                zero = bytes(isz)
                for k in range(len(tb) // isz):
                    if base + k in cand:
                        continue
                    raw = tb[k * isz:(k + 1) * isz]
                    if raw != zero:
                        try:
                            if not self.parse_inode(base + k, raw)["csum_ok"]:
                                free_csum_bad.append(base + k)
                        except Exception:
                            free_csum_bad.append(base + k)
        for ino in sorted(cand):
            I = self.get_inode(ino)
            if I is not None:
                self.finish_inode(I)
            else:
                self.e("inode_err", "ino%d:unreadable" % ino)
        # ---- directories (every in-use directory inode)
        dirs = []
        done = set()
        queue = [I for I in self.inodes_by_no.values() if I["type"] == "dir" and (I["links"] or I["ino"] == 2)]
        queue.sort(key=lambda I: I["ino"])
        while queue:
            nxt = []
            for I in queue:
                if I["ino"] in done:
                    continue
                done.add(I["ino"])
                self.finish_inode(I)
                D = self.read_dir(I)
                dirs.append(D)
                for e_ in D["ents"]:
                    t = e_[1]
                    if 1 <= t <= self.inodes and t not in self.inodes_by_no:
                        J = self.get_inode(t)
                        if J is not None:
                            self.finish_inode(J)
            queue = nxt
        dirs.sort(key=lambda D: D["dir"])
        if self.encrypt_feat:
            for D in dirs:
                I = self.inodes_by_no[D["dir"]]
                if not I["flagbits"] & 0x800:
                    continue
                pol = I["xattrs"].get("idx9.c")
                for name, t, ft, where, pos in D["ents"]:
                    if name in (b".", b".."):
                        continue
                    if len(name) < 16:
                        D["err"].append("dir:encrypted_name_too_short@%s+%d" % (where, pos))
                    J = self.inodes_by_no.get(t)
                    if J is not None and J["type"] in ("reg", "dir", "lnk"):
                        if not J["flagbits"] & 0x800:
                            D["err"].append("dir:unencrypted_inode_in_encrypted_dir@%s+%d" % (where, pos))
                        elif J["xattrs"].get("idx9.c") != pol:
                            D["err"].append("dir:encryption_policy_differs@%s+%d" % (where, pos))
        # ---- output: inodes
        inodes_sorted = sorted(self.inodes_by_no.values(), key=lambda I: I["ino"])
        ix_of = {I["ino"]: k + 1 for k, I in enumerate(inodes_sorted)}
        first_ino = self.first_ino

        def in_use(I):
            return I["links"] > 0 or I["ino"] < first_ino
        claims = []       # [lo, hi, ino, class 1 data / 2 index / 3 ind / 4 xattr, index of the inode record, position]
        xrefs = []        # [xattr block, referring in-use inode]
        xb_used = set()
        out_inodes = []
        for I in inodes_sorted:
            self.finish_inode(I)
            data = sorted([r[2], r[2] + r[1] - 1] for r in I["runs"])
            index = [[b, b] for b in sorted(I["index"])]
            ind = [[b, b] for b in sorted(I["ind"])]
            own = {"data": data, "index": index, "ind": ind, "xattr": I["xattr_blk"], "ea_inodes": [clip(x) for x in I["ea_inodes"]]}
            rec = {"ino": I["ino"], "type": I["type"], "mode": I["mode_raw"] & 0o7777, "uid": s32(I["uid"]),
                   "gid": s32(I["gid"]), "links": I["links"], "size": split64(I["size"]),
                   "flags": names(I["flagbits"], IFLAGS), "iblocks": clip(I["iblocks_raw"]),
                   "iblocks_expect": clip(I.get("iblocks_expect", 0)), "gen": s32(I["gen"]),
                   "dtime": s32(I["dtime"]), "mtime": split64(I["mtime"]), "atime": split64(I["atime"]),
                   "ctime": split64(I["ctime"]), "file_acl": clip(I["facl"]), "extra_isize": I["extra"],
                   "csum_ok": I["csum_ok"], "map": I["map"], "own": own,
                   "runs": [list(r) for r in I["runs"]], "shape_ok": not I["shape_err"],
                   "shape_err": [x for x in I["shape_err"] if not x.startswith(("range:", "csum:"))],
                   "range_err": [x for x in I["shape_err"] if x.startswith("range:")],
                   "csum_err": [x for x in I["shape_err"] if x.startswith("csum:")],
                   "xattrs": I["xattrs"], "xplace": I["xplace"], "inline": I["map"] == "inline",
                   "bit": I["ino"] in ibits, "special": I["ino"] < first_ino,
                   "ea_inode": bool(I["flagbits"] & 0x200000),
                   "ea_refs": len(I.get("ea_referrers", ())), "rlo": 0, "rhi": -1}
            if rec["ea_inode"]:
                rec["ea_refcount"] = split64(((I["ctime"] & MASK) << 32) | u32(I["raw"], 36)[0])
            if "target" in I:
                rec["target"] = I["target"]
            if "rdev" in I:
                rec["rdev"] = I["rdev"]
            if "info" in I:
                rec["info"] = I["info"]
            if I["type"] in ("reg", "lnk") and I["ino"] >= first_ino and in_use(I):
                try:
                    rec["digest"] = self.digest(I)
                except Exception as ex:
                    rec["digest"] = "error:%s" % type(ex).__name__
            else:
                rec["digest"] = ""
            out_inodes.append(rec)
            rec["coff"] = len(claims)
            if in_use(I):
                ix = len(out_inodes)
                for code, cls in ((1, "data"), (2, "index"), (3, "ind")):
                    for pos, (a, b) in enumerate(own[cls]):
                        claims.append([a, b, I["ino"], code, ix, pos + 1])
                if I["xattr_blk"]:
                    xb_used.add(I["xattr_blk"])
                    xrefs.append([I["xattr_blk"], I["ino"]])
        for b in sorted(xb_used):
            claims.append([b, b, 0, 4, 0, 0])
        claims.sort()
        xrefs.sort()
        P["inodes"] = out_inodes
        P["claims"] = claims
        P["xrefs"] = xrefs
        # ---- output: directories + reference certificate
        out_dirs = []
        refs = []
        for dp, D in enumerate(dirs):
            ents = []
            for ep, (name, t, ft, where, pos) in enumerate(D["ents"]):
                dot = 1 if name == b"." else (2 if name == b".." else 0)
                ents.append([clip(t), ft, ix_of.get(t, 0), dot, jname(name)])
                refs.append([clip(t), dp + 1, ep + 1])
            out_dirs.append({"dir": D["dir"], "ix": ix_of[D["dir"]], "eoff": len(refs) - len(ents),
                             "kind": D["kind"], "levels": D["levels"],
                             "ok": not D["err"], "err": [x for x in D["err"] if not x.startswith("csum:")],
                             "csum_err": [x for x in D["err"] if x.startswith("csum:")],
                             "dot": clip(D["dot"]), "dotdot": clip(D["dotdot"]),
                             "ents": ents, "depth": -1})
        refs.sort()
        P["dirs"] = out_dirs
        P["refs"] = refs
        k = 0
        n = len(refs)
        while k < n:
            j = k
            t = refs[k][0]
            while j + 1 < n and refs[j + 1][0] == t:
                j += 1
            ix = ix_of.get(t, 0)
            if ix:
                out_inodes[ix - 1]["rlo"] = k + 1
                out_inodes[ix - 1]["rhi"] = j + 1
            k = j + 1
        # ---- depth certificate (distance from the root through non-dot entries)
        dpos = {D["dir"]: k for k, D in enumerate(out_dirs)}
        if 2 in dpos:
            out_dirs[dpos[2]]["depth"] = 0
            frontier = [2]
            while frontier:
                nf = []
                for d in frontier:
                    D = out_dirs[dpos[d]]
                    for en in D["ents"]:
                        if en[3]:
                            continue
                        c = dpos.get(en[0])
                        if c is not None and out_dirs[c]["depth"] < 0:
                            out_dirs[c]["depth"] = D["depth"] + 1
                            nf.append(en[0])
                frontier = nf
        # ---- xattr blocks
        xbs = []
        xlo, xhi = {}, {}
        for k, (b, _i) in enumerate(xrefs):
            xlo.setdefault(b, k + 1)
            xhi[b] = k + 1
        for b in sorted(self.xblocks):
            x = self.xblocks[b]
            xbs.append({"blk": b, "refcount": x["refcount"], "referrers": sorted(x.get("referrers", [])),
                        "xlo": xlo.get(b, 0), "xhi": xhi.get(b, -1),
                        "csum_ok": x["csum_ok"], "sorted": x["sorted"], "hash_ok": x["hash_ok"],
                        "bhash_ok": x["bhash_ok"], "ok": not x["err"], "err": x["err"],
                        "names": [e_["name"] for e_ in x["entries"]]})
        P["xblocks"] = xbs
        # ---- the rest
        P["journal"] = self.journal_summary()
        P["orphans"] = self.orphan_summary()
        P["quota"] = self.quota_summary()
        P["mmp"] = mmp
        P["backups"] = self.backups_summary()
        sb = self.sbraw
        P["sb"] = {"state": self.state, "valid": bool(self.state & 1), "error_fs": bool(self.state & 2),
                   "orphan_fs": bool(self.state & 4), "free_blocks": clip(self.free_blocks),
                   "free_inodes": clip(self.free_inodes), "needs_recovery": self.needs_recovery,
                   "last_orphan": s32(self.last_orphan), "orphan_file_ino": clip(self.orphan_file_inum),
                   "journal_inum": clip(self.journal_inum), "usr_quota": clip(self.usr_quota_inum),
                   "grp_quota": clip(self.grp_quota_inum), "prj_quota": clip(self.prj_quota_inum),
                   "uuid": self.uuid.hex(), "seed": "%08x" % self.seed, "csum_ok": self.sb_csum_ok,
                   "mmp_block": clip(self.mmp_block), "lpf_ino": clip(self.lpf_ino),
                   "hash_version": self.def_hash_version, "hash_unsigned": self.hash_unsigned,
                   "error_count": clip(self.error_count), "min_extra_isize": self.min_extra,
                   "want_extra_isize": self.want_extra, "orphan_present": self.orphan_present,
                   "prealloc_dir_blocks": self.prealloc_dir_blocks}
        P["gd"] = [{"g": d["g"], "bb": clip(d["bb"]), "ib": clip(d["ib"]), "it": clip(d["it"]),
                    "free_b": d["free_b"], "free_i": d["free_i"], "dirs": d["dirs"],
                    "flags": names(d["flagbits"], BGFLAGS, 16), "unused": d["unused"], "csum_ok": d["csum_ok"],
                    "bbcsum_ok": d["bbcsum_ok"], "ibcsum_ok": d["ibcsum_ok"], "bb_pad_ok": d["bb_pad_ok"]}
                   for d in self.gd]
        for k in ("sb_err", "gd_err", "inode_err"):
            P[k] = self.err.get(k, [])
        P["dir_info"] = self.dir_info
        P["unsupported"] = sorted(self.unsupported)
        P["short_reads"] = self.short_reads
        P["tree"] = self.tree(out_inodes, out_dirs, ix_of, dpos)
        _sanitize(P)
        P["loc"] = self.loc

    def tree(self, out_inodes, out_dirs, ix_of, dpos):
        out = []
        if 2 not in dpos:
            return out
        seen_dirs = set()
        stack = [("/", 2)]
        limit = 200000
        while stack and len(out) < limit:
            path, ino = stack.pop()
            ix = ix_of.get(ino)
            if not ix:
                out.append({"path": path, "ino": ino, "type": "missing"})
                continue
            r = out_inodes[ix - 1]
            t = {"path": path, "ino": ino, "type": r["type"], "size": r["size"], "mode": r["mode"], "uid": r["uid"],
                 "gid": r["gid"], "nlink": r["links"], "mtime": r["mtime"], "xattrs": r["xattrs"]}
            if r["type"] == "reg":
                t["digest"] = r["digest"]
            if r["type"] == "lnk":
                t["target"] = r.get("target", "")
            if "rdev" in r:
                t["rdev"] = r["rdev"]
            if r["type"] == "dir":
                t["size"] = [0, 0]      # representation detail (number of directory blocks)
                if ino in seen_dirs:
                    t["type"] = "dir-again"
                    out.append(t)
                    continue
                seen_dirs.add(ino)
                D = out_dirs[dpos[ino]] if ino in dpos else None
                if D is not None:
                    for en in sorted((e_ for e_ in D["ents"] if not e_[3]), key=lambda e_: e_[4], reverse=True):
                        stack.append((path.rstrip("/") + "/" + en[4], en[0]))
            out.append(t)
        out.sort(key=lambda t: t["path"])
        return out


def _sanitize(x):
    """enforce the contract of the projection: every integer fits TLC (|v| < 2^31); out-of-range values clip"""
    if isinstance(x, dict):
        for k, v in x.items():
            if type(v) is int:
                if not -M31 < v < M31:
                    x[k] = clip(v)
            elif isinstance(v, (dict, list)):
                _sanitize(v)
    elif isinstance(x, list):
        for k, v in enumerate(x):
            if type(v) is int:
                if not -M31 < v < M31:
                    x[k] = clip(v)
            elif isinstance(v, (dict, list)):
                _sanitize(v)


def project(path, offset=0):
    try:
        r = Reader(path, offset)
    except Exception as ex:
        return {"fatal": "open:%s:%s" % (type(ex).__name__, ex)}
    return r.project()


def main(argv):
    import argparse
    ap = argparse.ArgumentParser(description="independent ext2/3/4 reader -> Ext4Abs projection (JSON)")
    ap.add_argument("image")
    ap.add_argument("-o", "--out")
    ap.add_argument("--offset", type=int, default=0)
    ap.add_argument("--no-loc", action="store_true")
    ap.add_argument("--summary", action="store_true", help="print error lists only")
    a = ap.parse_args(argv)
    P = project(a.image, a.offset)
    if a.no_loc:
        P.pop("loc", None)
    if a.summary:
        S = {k: v for k, v in P.items() if k.endswith("_err") or k in ("fatal", "unsupported", "dir_info")}
        S["inode_shape"] = {i["ino"]: i["shape_err"] for i in P.get("inodes", []) if i["shape_err"]}
        S["inode_csum"] = [i["ino"] for i in P.get("inodes", []) if not i["csum_ok"]]
        S["dir_err"] = {d["dir"]: d["err"] for d in P.get("dirs", []) if d["err"]}
        S["xblock_err"] = {x["blk"]: x["err"] for x in P.get("xblocks", []) if x["err"]}
        P = S
    txt = json.dumps(P, separators=(",", ":"))
    if a.out:
        with open(a.out, "w") as f:
            f.write(txt)
    else:
        sys.stdout.write(txt + "\n")


if __name__ == "__main__":
    main(sys.argv[1:])
