"""Trace validation driver: split an ndjson trace made of independent behaviours into chunks, validate every chunk
with one TLC process (-workers 1, POSTCONDITION TraceAccepted), locate the first rejected line of a failing chunk,
and confirm a rejection by re-running the single behaviour that contains it."""
import os, re, json, tempfile, shutil, concurrent.futures as cf
from common import NPROC, fast_tmp
import tlc as T


def split_behaviours(lines, is_reset):
    """lines: list[str]; returns list of behaviours (each a list[str] starting with a reset line)."""
    out, cur = [], []
    for ln in lines:
        if is_reset(ln) and cur:
            out.append(cur); cur = []
        cur.append(ln)
    if cur:
        out.append(cur)
    return out


def _run_chunk(args):
    module, cfg, path, nlines, timeout, dfs = args
    r = T.tlc(module, cfg, workers=1, timeout=timeout, env={"TRACE": path}, xmx="3g", dfs=dfs)
    accepted = (r.rc == 0 and r.violated is None and r.error is None)
    rejected = bool(re.search(r"postcondition|Invariant \S+ is violated", r.out, re.I)) and not re.search(r"Error evaluating|evaluating the expression|was not in the domain|Attempted to", r.out)
    if not accepted and not rejected:
        r.violated = None
        r.error = r.error or "TLC evaluation error"
    # longest matched prefix = diameter - 1
    matched = None
    m = re.search(r"The depth of the complete state graph search is (\d+)", r.out)
    if m:
        matched = int(m.group(1)) - 1
    inv = None if r.violated == "POSTCONDITION" else r.violated      # a failed postcondition = plain rejection
    return dict(path=path, accepted=accepted, matched=matched, violated=inv, error=r.error, rc=r.rc,
                distinct=r.distinct, generated=r.generated, wall=r.wall, out_tail=r.out[-3000:])


def validate(behaviours, module, cfg, workdir, chunk_lines=4000, timeout=900, jobs=None, dfs=False):
    """behaviours: list of list[str].  Returns dict(accepted=n, failures=[...], stats)."""
    jobs = jobs or NPROC
    chunks, cur, curlen, index = [], [], 0, []
    for bi, b in enumerate(behaviours):
        if cur and curlen + len(b) > chunk_lines:
            chunks.append(cur); cur = []; curlen = 0
        cur.append(bi); curlen += len(b)
    if cur:
        chunks.append(cur)
    tasks = []
    for ci, ch in enumerate(chunks):
        p = os.path.join(workdir, "chunk%05d.ndjson" % ci)
        n = 0
        with open(p, "w") as f:
            for bi in ch:
                for ln in behaviours[bi]:
                    f.write(ln if ln.endswith("\n") else ln + "\n"); n += 1
        tasks.append((module, cfg, p, n, timeout, dfs))
    failures, broken = [], []
    tot_d = tot_g = 0
    nchunks = len(chunks)
    rounds = 0
    while tasks:
        rounds += 1
        with cf.ThreadPoolExecutor(max_workers=jobs) as ex:
            res = list(ex.map(_run_chunk, tasks))
        ntasks, nchunk_list = [], []
        for ci, r in enumerate(res):
            tot_d += r["distinct"]; tot_g += r["generated"]
            if r["accepted"]:
                continue
            if r["error"] and r["violated"] is None:
                broken.append(r); continue
            # locate the behaviour holding the first unmatched line
            m = r["matched"] if r["matched"] is not None else 0
            if r["violated"] and m > 0:
                m -= 1      # an invariant failed in the state REACHED by line m-1 (that line was consumed): it is the offending one
            pos = 0; hit = None
            for bi in chunks[ci]:
                if m < pos + len(behaviours[bi]):
                    hit = bi; break
                pos += len(behaviours[bi])
            if hit is None:
                hit = chunks[ci][-1]; pos -= len(behaviours[hit])
            failures.append(dict(behaviour=hit, line_in_behaviour=m - pos, violated=r["violated"], chunk=r["path"], tail=r["out_tail"]))
            # a chunk stops at its first failure: the behaviours behind it have not been looked at yet -- run them as a new chunk
            # (one behaviour per process: the JVM start is cheaper than the repeated rounds a chunk with many failures would need)
            rest = chunks[ci][chunks[ci].index(hit) + 1:]
            for bi in rest:
                p = os.path.join(workdir, "chunk%05d_r%d.ndjson" % (len(nchunk_list), rounds))
                with open(p, "w") as f:
                    for ln in behaviours[bi]:
                        f.write(ln if ln.endswith("\n") else ln + "\n")
                ntasks.append((module, cfg, p, len(behaviours[bi]), timeout, dfs)); nchunk_list.append([bi])
        tasks, chunks = ntasks, nchunk_list
    return dict(chunks=nchunks, failures=failures, broken=broken, distinct=tot_d, generated=tot_g)


def confirm(behaviour, module, cfg, workdir, timeout=300, dfs=False):
    """Re-run one behaviour alone; returns (rejected: bool, line index of the first unmatched line, tlc tail)."""
    p = os.path.join(workdir, "confirm_%d.ndjson" % os.getpid())
    with open(p, "w") as f:
        for ln in behaviour:
            f.write(ln if ln.endswith("\n") else ln + "\n")
    r = _run_chunk((module, cfg, p, len(behaviour), timeout, dfs))
    return (not r["accepted"]), r["matched"], r["violated"], r["out_tail"], r


def _run_lines(args):
    module, cfg, path, n, timeout = args
    r = T.tlc(module, cfg, workers=1, timeout=timeout, env={"TRACE": path}, xmx="3g")
    bad = [int(x) for x in re.findall(r'<<"BADLINE", (\d+)>>', r.out)]
    complete = (r.rc == 0 and r.violated is None and r.error is None)
    return dict(bad=bad, complete=complete, error=r.error or r.violated, tail=r.out[-2000:], distinct=r.distinct, generated=r.generated)


def validate_lines(lines, module, cfg, workdir, chunk=300, timeout=900, jobs=None):
    """Independent lines (stateless per-line oracle written so that a failing line prints BADLINE and the scan continues).
    Returns dict(bad=[indices], broken=[...], distinct, generated)."""
    jobs = jobs or NPROC
    tasks, spans = [], []
    for ci, i in enumerate(range(0, len(lines), chunk)):
        p = os.path.join(workdir, "lines%05d.ndjson" % ci)
        part = lines[i:i + chunk]
        with open(p, "w") as f:
            for ln in part:
                f.write(ln if ln.endswith("\n") else ln + "\n")
        tasks.append((module, cfg, p, len(part), timeout)); spans.append(i)
    with cf.ThreadPoolExecutor(max_workers=jobs) as ex:
        res = list(ex.map(_run_lines, tasks))
    bad, broken, d, g = [], [], 0, 0
    for base, r in zip(spans, res):
        d += r["distinct"]; g += r["generated"]
        if not r["complete"]:
            broken.append(r); continue
        bad += [base + k - 1 for k in r["bad"]]
    return dict(bad=sorted(set(bad)), broken=broken, distinct=d, generated=g)
