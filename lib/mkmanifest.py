#!/usr/bin/env python3
"""Regenerates /verif/MANIFEST.json from the table below (one place to keep it current)."""
import json, os, sys
VERIF = os.path.dirname(os.path.dirname(os.path.abspath(__file__)))
ALL = ["C%02d" % i for i in range(1, 21)]

# id -> dict(level, text, note, technique, design_ref, engine)
CHECKS = {}
NA = {}

def load():
    sys.path.insert(0, os.path.join(VERIF, "lib"))
    import manifest_table as t
    reg = getattr(t, 'REGISTERED', None)
    checks = {k: v for k, v in t.CHECKS.items() if reg is None or k in reg}
    return checks, t.NA, t.HOOK_COMMITS

def main():
    checks, na, hook_commits = load()
    out = {
        "version": 1,
        "setup_cmd": "make -C /verif/harness -s all && python3 -m compileall -q /verif/lib /verif/checks /verif/reader /verif/gen",
        "hooks": {
            "guard": "E2FSPROGS_VERIF",
            "enable": "lib/build.py copies /repo's working tree to $VERIF_SCRATCH and runs ./configure CFLAGS='-g -O1 -DE2FSPROGS_VERIF' && make there; hooks emit ndjson only when VERIF_TRACE is set",
            "baseline_off_cmd": "make -C /repo -j8 check",
            "source_commits": hook_commits,
            "add_only": True,
        },
        "engines": [{"name": "tlc", "path": "/verif/spec", "serves_properties": sorted(checks),
                     "kind_free_text": "explicit TLA+ specifications checked with TLC; bound to the code by replaying TLC behaviours into the real code and by validating traces recorded from the real code"}],
        "checks": [],
        "not_applicable": [],
        "notes": "See DESIGN.md. Every check: bin/check <id> --tier quick|thorough; exit 2 = check broken (never a VIOLATION).",
    }
    for pid in ALL:
        if pid in checks:
            c = checks[pid]
            out["checks"].append({
                "property_id": pid,
                "quick_cmd": "bin/check %s --tier quick" % pid,
                "thorough_cmd": "bin/check %s --tier thorough" % pid,
                "evidence_file": "/verif/evidence/%s.json" % pid,
                "replay_cmd_template": "bin/check %s --replay {path}" % pid,
                "engine": "tlc",
                "level_claimed": {"category": c["level"], "text": c["text"], "design_ref": c.get("design_ref", "DESIGN.md §5 " + pid)},
                "level_note": c["note"],
                "technique": c["technique"],
            })
        else:
            out["not_applicable"].append({"property_id": pid, "reason": na.get(pid, "check not built yet in this commit; planned, see DESIGN.md §5")})
    with open(os.path.join(VERIF, "MANIFEST.json"), "w") as f:
        json.dump(out, f, indent=1)
    # validate
    try:
        import jsonschema
        jsonschema.validate(out, json.load(open("/root/.vp/MANIFEST.schema.json")))
    except ImportError:
        pass
    print("MANIFEST.json: %d checks, %d not_applicable" % (len(out["checks"]), len(out["not_applicable"])))

main()
