"""Scratch build of the repository's current working tree with the verification guard on.

The source list is `git ls-files -co --exclude-standard` (tracked + untracked, not ignored), copied by
checksum into one scratch directory per flavour; make then rebuilds only what changed.  A stamp file holds
the content hash of the source list so that several checks invoked on the same tree share one build."""
import os, sys, subprocess, hashlib, shutil, time
from common import REPO, SCRATCH, GUARD, NPROC, Lock, run

FLAVOURS = {
    "plain": dict(cc="gcc", cflags="-g -O1 -D%s" % GUARD, ldflags=""),
    "asan": dict(cc="clang", cflags="-g -O1 -fsanitize=address,undefined -fno-omit-frame-pointer -fno-sanitize-recover=undefined -D%s" % GUARD,
                 ldflags="-fsanitize=address,undefined"),
}


def source_list(repo):
    rc, out, err = run(["git", "-C", repo, "ls-files", "-c", "-z"], timeout=120)
    if rc == 0 and out:
        files = [f for f in out.decode().split("\0") if f]
        # untracked files count only when they look like sources (a running `make check` in the tree creates and
        # removes scratch files all the time; those must neither break the copy nor change the tree hash)
        rc2, out2, err2 = run(["git", "-C", repo, "ls-files", "-o", "--exclude-standard", "-z"], timeout=120)
        SRC = (".c", ".h", ".in", ".ac", ".am", ".m4", ".y", ".l", ".et", ".ct", ".sed", ".awk", ".pl", ".sh", ".conf", ".mk", ".texinfo", ".1", ".5", ".8")
        for f in (out2.decode().split("\0") if rc2 == 0 else []):
            if f and f.endswith(SRC) and not f.startswith("tests/"):
                files.append(f)
    else:  # not a git tree: walk and filter build products
        files = []
        for d, ds, fs in os.walk(repo):
            ds[:] = [x for x in ds if x not in (".git",)]
            for f in fs:
                if f.endswith((".o", ".a", ".so", ".log")):
                    continue
                files.append(os.path.relpath(os.path.join(d, f), repo))
    files = [f for f in files if os.path.isfile(os.path.join(repo, f)) or os.path.islink(os.path.join(repo, f))]
    files.sort()
    return files


def tree_hash(repo, files):
    h = hashlib.sha256()
    for f in files:
        p = os.path.join(repo, f)
        h.update(f.encode() + b"\0")
        try:
            if os.path.islink(p):
                h.update(os.readlink(p).encode())
            else:
                with open(p, "rb") as fh:
                    h.update(hashlib.sha256(fh.read()).digest())
                h.update(b"x" if os.access(p, os.X_OK) else b"-")
        except OSError:
            h.update(b"?")
    return h.hexdigest()


def build(flavour="plain", repo=None, quiet=True):
    """Return the path of an up-to-date build of `repo` (default /repo working tree)."""
    repo = repo or REPO
    fl = FLAVOURS[flavour]
    tag = hashlib.sha1(os.path.abspath(repo).encode()).hexdigest()[:8]
    bdir = os.path.join(SCRATCH, "build-%s-%s" % (flavour, tag))
    os.makedirs(SCRATCH, exist_ok=True)
    with Lock(bdir + ".lock"):
        files = source_list(repo)
        h = tree_hash(repo, files)
        stamp = os.path.join(bdir, ".verif_stamp")
        if os.path.exists(stamp) and open(stamp).read().strip() == h:
            return bdir
        t0 = time.time()
        os.makedirs(bdir, exist_ok=True)
        if os.path.exists(stamp):
            os.unlink(stamp)
        lst = bdir + ".files"
        with open(lst, "w") as f:
            f.write("\n".join(files) + "\n")
        rc, out, err = run(["rsync", "-a", "-c", "--files-from=" + lst, repo + "/", bdir + "/"], timeout=600)
        if rc not in (0, 23, 24):
            raise RuntimeError("rsync failed: " + err.decode()[-1000:])
        # remove sources that disappeared from the tree since the previous build
        prev = bdir + ".files.prev"
        if os.path.exists(prev):
            gone = set(open(prev).read().split("\n")) - set(files)
            for g in gone:
                p = os.path.join(bdir, g)
                if g and os.path.isfile(p):
                    os.unlink(p)
        shutil.copy(lst, prev)
        log = bdir + ".log"
        env = dict(os.environ)
        env.update({"CC": fl["cc"], "CFLAGS": fl["cflags"], "LDFLAGS": fl["ldflags"]})
        with open(log, "w") as lf:
            if not os.path.exists(os.path.join(bdir, "Makefile")):
                p = subprocess.run(["./configure", "--disable-nls", "--disable-fuse2fs"], cwd=bdir, env=env, stdout=lf, stderr=lf)
                if p.returncode != 0:
                    raise RuntimeError("configure failed, see " + log)
            p = subprocess.run(["make", "-j%d" % NPROC], cwd=bdir, stdout=lf, stderr=lf)
            if p.returncode != 0:
                # one retry without parallelism (generated headers)
                p = subprocess.run(["make"], cwd=bdir, stdout=lf, stderr=lf)
                if p.returncode != 0:
                    raise RuntimeError("build of the working tree failed, see " + log)
        with open(stamp, "w") as f:
            f.write(h)
        if not quiet:
            sys.stderr.write("built %s in %.1fs\n" % (bdir, time.time() - t0))
        return bdir


if __name__ == "__main__":
    print(build(sys.argv[1] if len(sys.argv) > 1 else "plain", quiet=False))


def driver(bdir, name, extra_libs=(), cflags=()):
    """Compile /verif/harness/<name>.c against the scratch build (cached by source + build stamp)."""
    from common import VERIF
    src = os.path.join(VERIF, "harness", name + ".c")
    outd = os.path.join(bdir, "verif-drv")
    os.makedirs(outd, exist_ok=True)
    out = os.path.join(outd, name)
    stamp = open(os.path.join(bdir, ".verif_stamp")).read().strip()
    key = hashlib.sha256((stamp + open(src).read()).encode()).hexdigest()
    kf = out + ".key"
    with Lock(out + ".lock"):
        if os.path.exists(out) and os.path.exists(kf) and open(kf).read() == key:
            return out
        cc = "clang" if "asan" in os.path.basename(bdir) else "gcc"
        cmd = [cc, "-g", "-O1", "-D" + GUARD, "-DHAVE_CONFIG_H", "-I" + os.path.join(bdir, "lib"), "-I" + bdir, "-o", out, src] + list(cflags)
        cmd += [os.path.join(bdir, "lib", l) for l in ("libsupport.a", "libext2fs.a", "libe2p.a", "libcom_err.a")] + list(extra_libs) + ["-lpthread"]
        if cc == "clang":
            cmd.insert(1, "-fsanitize=address,undefined")
        rc, o, e = run(cmd, timeout=300)
        if rc != 0:
            raise RuntimeError("driver %s does not compile against the working tree:\n%s" % (name, e.decode()[-3000:]))
        with open(kf, "w") as f:
            f.write(key)
    return out
