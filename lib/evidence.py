"""Evidence writer (schema: /root/.vp/EVIDENCE.schema.json) and known-findings handling."""
import json, os, time, sys
from common import VERIF, seed

LEVELS = {"exploration", "fault_enumeration", "model_checking", "proof", "translation_validation", "other"}


class Evidence:
    def __init__(self, pid, tier, level):
        assert level in LEVELS
        self.pid, self.tier, self.level = pid, tier, level
        self.t0 = time.time()
        self.cov = {"evaluations": 0, "distinct_nontrivial": 0, "rule": "", "samples": [], "states": 0,
                    "transitions": 0, "traces_validated_against_impl": 0}
        self.assumptions = []
        self.violations = 0
        self._nt = set()

    def add_tlc(self, r, label=None):
        self.cov["states"] += r.distinct
        self.cov["transitions"] += r.generated
        self.cov.setdefault("tlc_runs", []).append({"label": label, "distinct": r.distinct, "generated": r.generated,
                                                     "depth": r.depth, "wall_s": round(r.wall, 1)})

    def nontrivial(self, key):
        self._nt.add(key)

    def sample(self, s, maxn=5):
        if len(self.cov["samples"]) < maxn:
            self.cov["samples"].append(s)

    def write(self):
        self.cov["distinct_nontrivial"] = len(self._nt) if self._nt else self.cov.get("distinct_nontrivial", 0)
        d = {"property_id": self.pid, "tier": self.tier, "seed": seed(), "level": self.level,
             "coverage": self.cov, "assumptions": self.assumptions,
             "wall_s": round(time.time() - self.t0, 2), "violations": self.violations}
        edir = os.environ.get("VERIF_EVIDENCE_DIR", os.path.join(VERIF, "evidence"))
        os.makedirs(edir, exist_ok=True)
        p = os.path.join(edir, self.pid + ".json")
        with open(p + ".tmp", "w") as f:
            json.dump(d, f, indent=1, sort_keys=True, default=str)
        os.replace(p + ".tmp", p)
        return p


def load_findings(pid):
    """known_findings.txt: one JSON object per line for a known finding: {property, status: known|fixed, key, what, ...}."""
    out = []
    p = os.path.join(VERIF, "known_findings.txt")
    if os.path.exists(p):
        for l in open(p):
            l = l.strip()
            if not l or l.startswith("#") or l.startswith("fixed:"):
                continue
            d = json.loads(l)
            if d.get("property") == pid and d.get("status", "known") == "known":
                out.append(d)
    return out


class Verdict:
    """Collects violations; known findings are matched by exact key and printed as KNOWN-FINDING."""
    def __init__(self, pid, ev):
        self.pid, self.ev = pid, ev
        # a finding is identified by its "key"; a finding that covers several exactly named universe elements lists them under "keys"
        self.known = {}
        for f in load_findings(pid):
            for k in [f["key"]] + list(f.get("keys", [])):
                self.known[k] = f
        self.hit_known = {}
        self.viol = []

    def violation(self, key, what, replay_obj):
        if key in self.known:
            self.hit_known.setdefault(key, what)
            return False
        # save replay artefact
        d = os.path.join(os.environ["VERIF_EVIDENCE_DIR"], "replays", self.pid) if "VERIF_EVIDENCE_DIR" in os.environ else os.path.join(VERIF, "replays", self.pid)
        os.makedirs(d, exist_ok=True)
        path = os.path.join(d, "viol_%d_%d.json" % (os.getpid(), len(self.viol)))
        with open(path, "w") as f:
            json.dump({"property": self.pid, "key": key, "what": what, "replay": replay_obj}, f, indent=1, default=str)
        self.viol.append((key, what, path))
        return True

    def finish(self):
        printed = set()
        for k, w in self.hit_known.items():
            f = self.known[k]
            if f["key"] in printed:
                continue
            printed.add(f["key"])
            print("KNOWN-FINDING: property=%s %s" % (self.pid, f.get("what", w)))
        self.ev.cov["known_findings_hit"] = sorted(self.hit_known)
        self.ev.violations = len(self.viol)
        self.ev.write()
        for k, w, p in self.viol[:20]:
            print("VIOLATION property=%s replay=%s  (%s)" % (self.pid, p, w))
        sys.stdout.flush()
        return 1 if self.viol else 0
