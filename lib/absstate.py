"""Evaluate Ext4Abs!Consistent on projected filesystem states with TLC, many states per JVM.

    evaluate(states)            -> [{"consistent": bool, "failed": [conjunct names]}, ...]
    evaluate(states, pairs=[(i, j), ...])  -> (verdicts, [bool TreeEq(states[i], states[j]) ...])   (0-based indices)

States are the dicts returned by reader/ext4read.project().  Before a state reaches TLC the location map
("loc") and the per-inode logical map ("runs") are dropped and every integer is checked to be below 2^31
(`ndJsonDeserialize` wraps silently).  A TLC failure (exit status, timeout, unparsable output) raises
AbsStateError: it means the check is broken, never that a state is inconsistent.
"""
import os, sys, json, shutil, tempfile, concurrent.futures
sys.path.insert(0, os.path.dirname(os.path.abspath(__file__)))
from common import VERIF, NPROC, fast_tmp
import tlc as tlcmod

SPEC = os.path.join(VERIF, "spec")
M31 = 1 << 31
CHUNK = 48


# the per-inode facts Ext4Abs.tla reads (the rest -- times, owner, digests, xattrs -- reaches TLC through "tree")
INODE_KEYS = ("ino", "type", "links", "flags", "own", "shape_err", "range_err", "csum_err", "csum_ok", "bit",
              "special", "ea_inode", "ea_refs", "rlo", "rhi", "coff", "map")


class AbsStateError(RuntimeError):
    pass


def _check_ints(x, path="st"):
    if isinstance(x, bool) or x is None or isinstance(x, str):
        if x is None:
            raise ValueError("null at %s (TLC's Json module has no null)" % path)
        return
    if isinstance(x, int):
        if not -M31 < x < M31:
            raise ValueError("integer %d at %s does not fit TLC" % (x, path))
        return
    if isinstance(x, float):
        raise ValueError("float at %s" % path)
    if isinstance(x, dict):
        for k, v in x.items():
            _check_ints(v, path + "." + str(k))
        return
    if isinstance(x, (list, tuple)):
        for i, v in enumerate(x):
            _check_ints(v, "%s[%d]" % (path, i))
        return
    raise ValueError("unsupported value %r at %s" % (type(x), path))


def strip(st, keep_tree=True):
    """the part of a projection that is handed to TLC"""
    if "fatal" in st:
        return {"fatal": str(st["fatal"])}
    out = {k: v for k, v in st.items() if k != "loc"}
    if not keep_tree:
        out["tree"] = []
    out["inodes"] = [{k: i[k] for k in INODE_KEYS if k in i} for i in st.get("inodes", ())]
    dirs = []
    for d in st.get("dirs", ()):
        e = dict(d)
        e["ents"] = [en[:4] for en in d["ents"]]        # <<ino, ft, ix, dot>>; names travel in "tree"
        dirs.append(e)
    out["dirs"] = dirs
    for k in ("dir_info", "unsupported", "backups", "short_reads"):
        out.pop(k, None)
    return out


def _run_chunk(states, pairs, timeout):
    work = fast_tmp()
    try:
        sp = os.path.join(work, "states.ndjson")
        op = os.path.join(work, "out.ndjson")
        with open(sp, "w") as f:
            for s in states:
                f.write(json.dumps(s, separators=(",", ":")))
                f.write("\n")
        env = {"STATES": sp, "OUT": op, "PAIRS": ""}
        if pairs:
            pp = os.path.join(work, "pairs.ndjson")
            with open(pp, "w") as f:
                for a, b in pairs:
                    f.write("[%d,%d]\n" % (a + 1, b + 1))
            env["PAIRS"] = pp
        r = tlcmod.tlc(os.path.join(SPEC, "EvalAbs.tla"), os.path.join(SPEC, "EvalAbs.cfg"), workers=1,
                       timeout=timeout, env=env, xmx="4g")
        if r.rc != 0 or not os.path.exists(op):
            raise AbsStateError("TLC failed (rc=%s): %s" % (r.rc, r.out[-1500:]))
        res = [json.loads(l) for l in open(op) if l.strip()]
        if len(res) != len(states):
            raise AbsStateError("TLC returned %d verdicts for %d states" % (len(res), len(states)))
        for v in res:
            v["failed"] = sorted(v.get("failed") or [])
            v["consistent"] = bool(v["consistent"])
        eq = []
        if pairs:
            eq = [bool(json.loads(l)["eq"]) for l in open(op + ".pairs") if l.strip()]
            if len(eq) != len(pairs):
                raise AbsStateError("TLC returned %d tree verdicts for %d pairs" % (len(eq), len(pairs)))
        return res, eq, r.wall
    finally:
        shutil.rmtree(work, ignore_errors=True)


def evaluate(states, pairs=None, keep_tree=None, chunk=CHUNK, jobs=None, timeout=900, stats=None):
    """One TLC process per `chunk` states (chunks run in parallel).  With `pairs` everything runs in one process
    per connected batch, so pairs must index states of the same call; the trees are kept automatically."""
    if keep_tree is None:
        keep_tree = bool(pairs)
    prepared = []
    for n, s in enumerate(states):
        t = strip(s, keep_tree)
        _check_ints(t, "states[%d]" % n)
        prepared.append(t)
    if pairs:
        res, eq, wall = _run_chunk(prepared, list(pairs), timeout)
        if stats is not None:
            stats["tlc_wall"] = stats.get("tlc_wall", 0.0) + wall
        return res, eq
    if not prepared:
        return []
    chunks = [prepared[i:i + chunk] for i in range(0, len(prepared), chunk)]
    jobs = jobs or max(1, min(len(chunks), NPROC // 2))
    out = []
    walls = []

    def one(c):
        try:
            return _run_chunk(c, None, timeout)
        except AbsStateError:
            if len(c) == 1:
                raise
            # find the offending state: evaluate one by one so that the error names it
            r = []
            w = 0.0
            for k, s in enumerate(c):
                try:
                    a, _, ww = _run_chunk([s], None, timeout)
                except AbsStateError as ex:
                    raise AbsStateError("state %d of the chunk: %s" % (k, ex))
                r += a
                w += ww
            return r, [], w
    with concurrent.futures.ThreadPoolExecutor(max_workers=jobs) as ex:
        for res, _, wall in ex.map(one, chunks):
            out += res
            walls.append(wall)
    if stats is not None:
        stats["tlc_wall"] = stats.get("tlc_wall", 0.0) + sum(walls)
        stats["tlc_runs"] = stats.get("tlc_runs", 0) + len(walls)
    return out


if __name__ == "__main__":
    # python3 absstate.py IMAGE...   -> verdict per image
    sys.path.insert(0, os.path.join(VERIF, "reader"))
    import ext4read
    sts = [ext4read.project(p) for p in sys.argv[1:]]
    for p, v in zip(sys.argv[1:], evaluate(sts)):
        print(p, json.dumps(v))
