"""Run TLC (model checking, simulation, trace validation) and parse what it reports."""
import os, re, subprocess, tempfile, shutil, time, json
from common import VERIF, SCRATCH, NPROC, seed, run

JAR = "/opt/veriftools/tla/tla2tools.jar:/opt/veriftools/tla/CommunityModules-deps.jar"
SPEC = os.path.join(VERIF, "spec")


class TlcResult:
    def __init__(self):
        self.rc = None; self.out = ""; self.generated = 0; self.distinct = 0; self.depth = 0
        self.violated = None; self.error = None; self.coverage = {}; self.wall = 0.0; self.printed = []

    @property
    def ok(self):
        return self.rc == 0 and self.violated is None and self.error is None


def write_cfg(path, constants=None, spec=None, init=None, next=None, invariants=(), properties=(),
              constraints=(), view=None, deadlock=False, postcondition=None, symmetry=None, action_constraints=()):
    L = []
    if spec:
        L.append("SPECIFICATION %s" % spec)
    else:
        L.append("INIT %s" % (init or "Init")); L.append("NEXT %s" % (next or "Next"))
    if constants:
        L.append("CONSTANTS")
        for k, v in constants.items():
            L.append("  %s = %s" % (k, v))
    for i in invariants: L.append("INVARIANT %s" % i)
    for p in properties: L.append("PROPERTY %s" % p)
    for c in constraints: L.append("CONSTRAINT %s" % c)
    for c in action_constraints: L.append("ACTION_CONSTRAINT %s" % c)
    if view: L.append("VIEW %s" % view)
    if symmetry: L.append("SYMMETRY %s" % symmetry)
    if postcondition: L.append("POSTCONDITION %s" % postcondition)
    L.append("CHECK_DEADLOCK %s" % ("TRUE" if deadlock else "FALSE"))
    with open(path, "w") as f:
        f.write("\n".join(L) + "\n")


def tlc(module, cfg, workers=None, timeout=900, simulate=None, depth=None, coverage=False, env=None,
        xmx="8g", extra=(), cwd=None, dfs=False, seedval=None):
    """module: path to .tla (its directory and /verif/spec are on the module path); cfg: path to .cfg."""
    r = TlcResult()
    meta = tempfile.mkdtemp(prefix="tlcmeta", dir=_metabase())
    moddir = os.path.dirname(os.path.abspath(module))
    javaopts = ["-XX:+UseParallelGC", "-Xmx" + xmx, "-Xss64m", "-DTLA-Library=" + SPEC + os.pathsep + moddir]
    if dfs:
        javaopts.append("-Dtlc2.tool.queue.IStateQueue=StateDeque")
    cmd = ["java"] + javaopts + ["-cp", JAR, "tlc2.TLC", "-metadir", meta, "-config", cfg,
                                 "-workers", str(workers or NPROC), "-noGenerateSpecTE"]
    if simulate is not None:
        cmd += ["-simulate", "num=%d" % simulate, "-seed", str(seedval if seedval is not None else seed())]
        if depth: cmd += ["-depth", str(depth)]
    if coverage: cmd += ["-coverage", "1"]
    cmd += list(extra) + [module]
    e = dict(os.environ)
    if env: e.update(env)
    t0 = time.time()
    rc, out, err = run(cmd, timeout=timeout, env=e, cwd=cwd or moddir)
    r.wall = time.time() - t0
    shutil.rmtree(meta, ignore_errors=True)
    r.rc = rc
    r.out = out.decode("utf8", "replace") + err.decode("utf8", "replace")
    r.cmd = " ".join(cmd)
    parse(r)
    return r


def _metabase():
    base = os.environ.get("VERIF_FAST_TMP", SCRATCH)
    d = os.path.join(base, "verif-tlcmeta")
    os.makedirs(d, exist_ok=True)
    return d


def parse(r):
    o = r.out
    m = None
    for m in re.finditer(r"(\d+) states generated, (\d+) distinct states found", o):
        pass
    if m:
        r.generated = int(m.group(1)); r.distinct = int(m.group(2))
    if not m:      # simulation mode reports only the number of states it generated
        m2 = re.search(r"The number of states generated: (\d+)", o)
        if m2:
            r.generated = int(m2.group(1)); r.distinct = r.generated
    m = re.search(r"The depth of the complete state graph search is (\d+)", o)
    if m: r.depth = int(m.group(1))
    m = re.search(r"Invariant (\S+) is violated", o)
    if m: r.violated = m.group(1)
    m = re.search(r"Temporal properties were violated|Action property (\S+) is violated|Deadlock reached", o)
    if m and not r.violated: r.violated = m.group(1) or m.group(0)
    m = re.search(r"The postcondition has failed|Postcondition \S+ .* is false|Evaluating assumption .* failed|Assumption .* is false", o)
    if m and not r.violated: r.violated = "POSTCONDITION"
    if r.rc == 124:
        r.error = "timeout"
    elif r.violated is None and r.rc not in (0,):
        m = re.search(r"(Error: .*|Parsing or semantic analysis failed.*|.*Exception.*)", o)
        r.error = (m.group(1) if m else "tlc exit %s" % r.rc)
    # coverage lines:  <Action line ..., col ... of module M>: 12:34
    for m in re.finditer(r"<(\w+) line \d+, col \d+ to line \d+, col \d+ of module (\w+)>: (\d+):(\d+)", o):
        r.coverage[m.group(1)] = (int(m.group(3)), int(m.group(4)))
    return r


def sany(module):
    moddir = os.path.dirname(os.path.abspath(module))
    rc, out, err = run(["java", "-DTLA-Library=" + SPEC + os.pathsep + moddir, "-cp", JAR, "tla2sany.SANY", module], timeout=120, cwd=moddir)
    return rc, out.decode() + err.decode()
