"""Shared paths, environment and small helpers for the /verif machinery."""
import os, sys, subprocess, json, hashlib, time, shutil, fcntl, random, tempfile

VERIF = os.path.dirname(os.path.dirname(os.path.abspath(__file__)))
REPO = os.environ.get("VERIF_REPO", "/repo")
SCRATCH = os.environ.get("VERIF_SCRATCH", "/var/tmp/verif-scratch")
GUARD = "E2FSPROGS_VERIF"
NPROC = int(os.environ.get("VERIF_JOBS", str(os.cpu_count() or 8)))


def seed():
    try:
        return int(os.environ.get("VERIF_SEED", "1"))
    except ValueError:
        return 1


def fast_tmp():
    """A per-invocation work directory.  Not under /dev/shm by default: the repository's own test m_devdir builds an
    image from /dev and is skipped when /dev/shm holds more than a few MB, so scratch data there would disturb the suite.
    (VERIF_FAST_TMP=/dev/shm may be set for speed during development.)"""
    base = os.environ.get("VERIF_FAST_TMP", SCRATCH)
    os.makedirs(base + "/verif-work", exist_ok=True)
    return tempfile.mkdtemp(prefix="w", dir=base + "/verif-work")


def run(cmd, timeout=600, env=None, cwd=None, input=None, check=False):
    """Run a command, return (rc, stdout, stderr); rc = -signal if killed, 124 on timeout."""
    try:
        p = subprocess.run(cmd, stdout=subprocess.PIPE, stderr=subprocess.PIPE, timeout=timeout,
                           env=env, cwd=cwd, input=input)
        rc = p.returncode
        out, err = p.stdout, p.stderr
    except subprocess.TimeoutExpired as e:
        rc, out, err = 124, e.stdout or b"", e.stderr or b""
    if check and rc != 0:
        raise RuntimeError("command failed rc=%s: %s\n%s" % (rc, cmd, err.decode("utf8", "replace")[-2000:]))
    return rc, out, err


def tool_env(build, extra=None):
    """Environment used for every tool run: no host config, fixed clocks, fixed locale."""
    e = {
        "PATH": "/usr/sbin:/usr/bin:/sbin:/bin",
        "LC_ALL": "C", "TZ": "GMT0",
        "E2FSCK_CONFIG": "/dev/null",
        "MKE2FS_CONFIG": os.path.join(build, "tests", "mke2fs.conf.in"),
        "E2FSPROGS_SKIP_PROGRESS": "yes",
        "DEBUGFS_PAGER": "__none__",
        "E2FSPROGS_FAKE_TIME": "1600000000",
        "E2FSCK_TIME": "1600000000",
        "MKE2FS_DETERMINISTIC": "1",
        "HOME": "/nonexistent",
    }
    if extra:
        e.update(extra)
    return e


class Lock:
    def __init__(self, path):
        self.path = path

    def __enter__(self):
        os.makedirs(os.path.dirname(self.path), exist_ok=True)
        self.f = open(self.path, "w")
        fcntl.flock(self.f, fcntl.LOCK_EX)
        return self

    def __exit__(self, *a):
        fcntl.flock(self.f, fcntl.LOCK_UN)
        self.f.close()


def sha(b):
    return hashlib.sha256(b).hexdigest()


def die_broken(msg):
    """The check itself is broken (model failure, build failure): exit 2, never a VIOLATION."""
    sys.stdout.write("CHECK-BROKEN: %s\n" % msg)
    sys.stdout.flush()
    sys.exit(2)
