"""Minimal independent superblock / backup-location parser (struct offsets from the ext4 disk layout documentation).
Used where only geometry is needed; the full independent reader is reader/ext4read.py."""
import struct

COMPAT = {0x1: "dir_prealloc", 0x2: "imagic_inodes", 0x4: "has_journal", 0x8: "ext_attr", 0x10: "resize_inode", 0x20: "dir_index",
          0x200: "sparse_super2", 0x400: "fast_commit", 0x800: "stable_inodes", 0x1000: "orphan_file"}
INCOMPAT = {0x1: "compression", 0x2: "filetype", 0x4: "needs_recovery", 0x8: "journal_dev", 0x10: "meta_bg", 0x40: "extent",
            0x80: "64bit", 0x100: "mmp", 0x200: "flex_bg", 0x400: "ea_inode", 0x1000: "dirdata", 0x2000: "metadata_csum_seed",
            0x4000: "largedir", 0x8000: "inline_data", 0x10000: "encrypt", 0x20000: "casefold"}
ROCOMPAT = {0x1: "sparse_super", 0x2: "large_file", 0x4: "btree_dir", 0x8: "huge_file", 0x10: "uninit_bg", 0x20: "dir_nlink",
            0x40: "extra_isize", 0x80: "has_snapshot", 0x100: "quota", 0x200: "bigalloc", 0x400: "metadata_csum", 0x800: "replica",
            0x1000: "readonly", 0x2000: "project", 0x4000: "shared_blocks", 0x8000: "verity", 0x10000: "orphan_present"}


def parse_sb(b):
    """b: 1024 bytes of a superblock."""
    u32 = lambda o: struct.unpack_from("<I", b, o)[0]
    u16 = lambda o: struct.unpack_from("<H", b, o)[0]
    if u16(56) != 0xEF53:
        return None
    compat, incompat, ro = u32(92), u32(96), u32(100)
    feats = [n for m, n in COMPAT.items() if compat & m] + [n for m, n in INCOMPAT.items() if incompat & m] + [n for m, n in ROCOMPAT.items() if ro & m]
    bs = 1024 << u32(24)
    is64 = bool(incompat & 0x80)
    d = dict(inodes=u32(0), blocks=u32(4) + ((u32(0x150) << 32) if is64 else 0), first=u32(20), bs=bs, cluster=1024 << u32(28),
             bpg=u32(32), cpg=u32(36), ipg=u32(40), state=u16(58), isz=u16(88) if u32(76) >= 1 else 128, group_nr=u16(90),
             rsv=u16(0xCE), desc_size=(u16(0xFE) if is64 else 32), first_meta_bg=u32(0x104), features=sorted(feats),
             backup_bgs=[u32(0x24C), u32(0x250)], log_flex=b[0x174], uuid=b[104:120].hex(),
             free_blocks=u32(12), free_inodes=u32(16), r_blocks=u32(8), first_ino=u32(84), rev=u32(76), errors=u16(60),
             mnt_count=u16(52), max_mnt=u16(54), checkinterval=u32(68), label=b[120:136].split(b"\0")[0].decode("latin1"),
             def_mount_opts=u32(0x100), journal_inum=u32(0xE0), hash_seed=b[0xEC:0xFC].hex(), def_hash=b[0xFC],
             csum_seed=u32(0x270), min_extra_isize=u16(0x15C), want_extra_isize=u16(0x15E), flags=u32(0x160),
             usr_quota=u32(0x240), grp_quota=u32(0x244), prj_quota=u32(0x26C), mmp_block=u32(0x168), mmp_interval=u16(0x166),
             orphan_file_inum=u32(0x280), last_orphan=u32(0xE8), kbytes_written=u32(0x178), wtime=u32(48), mtime=u32(44))
    d["gdc"] = (d["blocks"] - d["first"] + d["bpg"] - 1) // d["bpg"] if d["bpg"] else 0
    d["itb"] = (d["ipg"] * d["isz"] + bs - 1) // bs
    return d


def read_primary(path, offset=0):
    with open(path, "rb") as f:
        f.seek(offset + 1024)
        b = f.read(1024)
    return parse_sb(b) if len(b) == 1024 else None


def backup_groups(path, sb, offset=0):
    """Groups (other than 0) whose first block holds a superblock copy with the right magic and group number."""
    out = []
    with open(path, "rb") as f:
        for g in range(1, sb["gdc"]):
            blk = sb["first"] + g * sb["bpg"]
            f.seek(offset + blk * sb["bs"])
            b = f.read(1024)
            if len(b) < 1024:
                continue
            p = parse_sb(b)
            if p and p["group_nr"] == g:
                out.append(g)
    return out


_T = None
def crc32c(crc, data):
    """CRC-32C (Castagnoli), reflected, table driven; no pre/post inversion (callers pass the seed)."""
    global _T
    if _T is None:
        _T = []
        for i in range(256):
            c = i
            for _ in range(8):
                c = (c >> 1) ^ 0x82F63B78 if c & 1 else c >> 1
            _T.append(c)
    for b in data:
        crc = _T[(crc ^ b) & 0xFF] ^ (crc >> 8)
    return crc


def sb_csum_ok(b):
    """b: 1024 bytes of a superblock copy.  True when the filesystem has no metadata_csum or the stored checksum verifies."""
    ro = struct.unpack_from("<I", b, 100)[0]
    if not ro & 0x400:
        return True
    return crc32c(0xFFFFFFFF, b[:0x3FC]) == struct.unpack_from("<I", b, 0x3FC)[0]


def bad_backup_csums(path, sb, groups, offset=0):
    out = []
    with open(path, "rb") as f:
        for g in groups:
            if g == 0:
                f.seek(offset + 1024)
            else:
                f.seek(offset + (sb["first"] + g * sb["bpg"]) * sb["bs"])
            b = f.read(1024)
            if len(b) == 1024 and not sb_csum_ok(b):
                out.append(g)
    return out
