"""The table MANIFEST.json is generated from (lib/mkmanifest.py)."""
HOOK_COMMITS = ["f3136985"]
CHECKS = {
 "C16": dict(level="model_checking",
   text="TLC exhaustively model-checks BitmapRb.tla (line-by-line transcription of blkmap64_rb.c: extent list + three cursors) against a mathematical set "
        "(Structural, Refines, ResultsAgree) for every operation with every argument on a small range; the real library (bitarray, rbtree, legacy 32-bit) is then stepped "
        "through seeded operation histories and every logged step -- result on each back end, rbtree extents and cursors from hook H2, full bit vector of each back end -- "
        "is validated by TLC as the step the specification takes, with all invariants evaluated after each step.",
   note="Trusted: TLC, the driver harness/bmdrv.c, hook H2 (read-only dump). rbtree.c balancing is not modelled (only the in-order content). "
        "Bulk get/set and arguments follow the preconditions in-tree callers satisfy (byte alignment, in-range). Histories are sampled (seeded), the model is exhaustive only at small range.",
   technique="TLA+ refinement model checking (TLC) + trace validation of real-library histories against the same spec"),
 "C07": dict(level="model_checking",
   text="TLC evaluates Geometry.tla (transcription of ext2fs_initialize's geometry arithmetic, retry loops and ext2fs_bg_has_super) over a lattice of ~12k configurations and checks the "
        "arithmetic invariants; the real mke2fs is then run on a universe of option combinations and boundary sizes and every run is a trace line validated by TLC (Trace_Geometry): an accepted "
        "configuration must have exactly the geometry Geometry!Compute predicts (read back by an independent superblock parser), backups exactly at BgHasSuper, the requested features, "
        "e2fsck -fn = 0, Consistent by the independent reader, no device write under -n (syscall recorder) and byte-identical output on a second run.",
   note="Trusted: TLC, lib/sbparse.py (independent superblock parser), reader/ext4read.py + Ext4Abs.Consistent when present, iotrace.so. bigalloc geometry arithmetic is not modelled "
        "(those configurations get the consistency, -n and reproducibility clauses only). Journal size/location, RAID and offset options are not varied yet. Universe is sampled in quick, enumerated in thorough.",
   technique="TLA+ spec of the geometry arithmetic model-checked with TLC + trace validation of real mke2fs runs against it"),
 "C08": dict(level="model_checking",
   text="Crash clause: ResizeCrash.tla models the device (durable state + writes pending until fsync, any subset lost at a crash) and states CrashInvariant (a visible modification outside the primary "
        "superblock implies the error flag in every crash image); every real resize2fs run (14 profiles x grow/shrink/-M targets) is recorded at system-call level, classified against a shadow image "
        "and validated by TLC with the invariant evaluated on every prefix; thorough rebuilds sampled crash images and runs the real e2fsck -p on them. Main clause (Tree/Consistent/size) is "
        "evaluated through the independent reader when present.",
   note="Trusted: TLC, iotrace.so recorder (checked per run: replaying the recorded payloads must reproduce the final image), the classification rule (bytes beyond the old filesystem end are not "
        "part of the filesystem; superblock-internal writes other than s_state are not modifications). 32/64-bit conversion (-b/-s) not exercised yet.",
   technique="TLA+ device/crash model checked with TLC + trace validation of recorded resize2fs write streams; fault enumeration of crash images on the real e2fsck"),
 "C14": dict(level="other",
   text="Partially decided by the specification (DESIGN.md section 6). (c) The CRC primitives are written in TLA+ as their bit-serial definitions (Crc.tla) and TLC compares the real library's results "
        "with them for every length 0..48 (64 thorough) x alignment 0..7 x 4 content patterns x 3 algorithms. (a) 'every object carries the format's checksum' is the conjunct Csums of "
        "Ext4Abs.Consistent evaluated by TLC on projections of tool-produced images, with the recomputation done by the independent reader. (b) covered-byte flips of live metadata objects must be "
        "detected by e2fsck -fn and the library (fault enumeration guided by the reader's location map).",
   note="Level 'other' because the decisive recomputation for clause (a) sits in the observation layer (python reader), TLA+ only states the invariant; CRC reference limited to short buffers "
        "(TLC cannot fold kilobytes). Truncated (16-bit) checksum collisions are excluded from clause (b) obligations.",
   technique="TLA+ bit-serial CRC definitions evaluated by TLC against the library; Consistent.Csums on projected images; spec-guided fault enumeration"),
}
NA = {}
