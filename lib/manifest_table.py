"""The table MANIFEST.json is generated from (lib/mkmanifest.py)."""
HOOK_COMMITS = []
CHECKS = {}
NA = {}
