"""The table MANIFEST.json is generated from (lib/mkmanifest.py)."""
HOOK_COMMITS = ["f3136985"]
CHECKS = {
 "C16": dict(level="model_checking",
   text="TLC exhaustively model-checks BitmapRb.tla (line-by-line transcription of blkmap64_rb.c: extent list + three cursors) against a mathematical set "
        "(Structural, Refines, ResultsAgree) for every operation with every argument on a small range; the real library (bitarray, rbtree, legacy 32-bit) is then stepped "
        "through seeded operation histories and every logged step -- result on each back end, rbtree extents and cursors from hook H2, full bit vector of each back end -- "
        "is validated by TLC as the step the specification takes, with all invariants evaluated after each step.",
   note="Trusted: TLC, the driver harness/bmdrv.c, hook H2 (read-only dump). rbtree.c balancing is not modelled (only the in-order content). "
        "Bulk get/set and arguments follow the preconditions in-tree callers satisfy (byte alignment, in-range). Histories are sampled (seeded), the model is exhaustive only at small range.",
   technique="TLA+ refinement model checking (TLC) + trace validation of real-library histories against the same spec"),
}
NA = {}
