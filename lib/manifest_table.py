"""The table MANIFEST.json is generated from (lib/mkmanifest.py)."""
HOOK_COMMITS = ["f3136985"]
CHECKS = {
 "C16": dict(level="model_checking",
   text="TLC exhaustively model-checks BitmapRb.tla (line-by-line transcription of blkmap64_rb.c: extent list + three cursors) against a mathematical set "
        "(Structural, Refines, ResultsAgree) for every operation with every argument on a small range; the real library (bitarray, rbtree, legacy 32-bit) is then stepped "
        "through seeded operation histories and every logged step -- result on each back end, rbtree extents and cursors from hook H2, full bit vector of each back end -- "
        "is validated by TLC as the step the specification takes, with all invariants evaluated after each step.",
   note="Trusted: TLC, the driver harness/bmdrv.c, hook H2 (read-only dump). rbtree.c balancing is not modelled (only the in-order content). "
        "Bulk get/set and arguments follow the preconditions in-tree callers satisfy (byte alignment, in-range). Histories are sampled (seeded), the model is exhaustive only at small range.",
   technique="TLA+ refinement model checking (TLC) + trace validation of real-library histories against the same spec"),
 "C07": dict(level="model_checking",
   text="TLC evaluates Geometry.tla (transcription of ext2fs_initialize's geometry arithmetic with its retry loop in closed form, ext2fs_bg_has_super, the sparse_super2 backup slots as mke2fs fills them, "
        "-E resize=, the resize inode's double-indirect map and per-block backup lists, and single-field option families) over a lattice of 23 532 configurations and checks the arithmetic invariants; "
        "the real mke2fs is then run on a universe built from the catalogue TLC writes (option combinations, boundary sizes, 24 sparse_super2 cells, -G / -m / RAID / quotatype / -T / -J / -E families incl. "
        "rejects) and every run is a trace line validated by TLC (Trace_Geometry): an accepted configuration must have exactly the geometry Geometry!Compute predicts (read back by an independent parser, "
        "incl. s_backup_bgs and the raw resize-inode map), backups exactly at BgHasSuper with valid checksums, the requested features and fields, e2fsck -fn = 0, Consistent by the independent reader, no "
        "device write under -n (syscall recorder) and byte-identical output on a second run under a shifted clock.",
   note="Trusted: TLC, lib/sbparse.py (independent superblock parser), reader/ext4read.py + Ext4Abs.Consistent, iotrace.so. bigalloc geometry arithmetic and the layout effect of -J location= / "
        "packed_meta_blocks are not predicted by the spec (those configurations get the consistency, -n and reproducibility clauses only). Universe is sampled in quick (catalogue cells always), enumerated in thorough.",
   technique="TLA+ spec of the geometry arithmetic model-checked with TLC + trace validation of real mke2fs runs against it"),
 "C08": dict(level="model_checking",
   text="Resize.tla / ResizeOps.tla model resize2fs in the shape of the code over an abstract filesystem (groups with BLOCK_UNINIT, backups, occupancy classes, inode tables): the blocks_to_move scan incl. the "
        "BLOCK_UNINIT skip, inode_scan_and_fix (start_to_move, renumbering), move_itables and fix_resize_inode as the device program of a run executed through ResizeCrash.tla (durable state + writes "
        "pending until fsync, any subset lost at a crash); TLC checks NoBlockLost, InodesBijective, CrashInvariant (a visible modification outside the primary superblock implies the error flag in every "
        "crash image), EndsClean on every shape of up to 4 groups x every target, with three literal faulty variants that must fail. TLC enumerates a boundary catalogue of 12 starting shapes x requests; "
        "the check BUILDS each (mke2fs + debugfs), a TLC guard confirms through the independent reader that the image has the shape, then every real resize2fs run (catalogue + 14 profiles x "
        "grow/shrink/-M/-b/-s targets) is recorded at system-call level and validated by TLC with the invariant on every prefix; the main clause (Consistent and TreeEq through the reader, e2fsck -fn, "
        "reported size, refused => unchanged) is evaluated by TLC on every run; thorough rebuilds crash images and runs the real e2fsck -p on them.",
   note="Trusted: TLC, iotrace.so recorder (checked per run: replaying the recorded payloads must reproduce the final image), the classification rule (bytes beyond the end of the filesystem the superblock "
        "describes are not part of it; superblock-internal writes other than s_state are not modifications), the reader. Inode-table moves are specified exactly for the non-flex layout only.",
   technique="TLA+ device/crash model checked with TLC + trace validation of recorded resize2fs write streams; fault enumeration of crash images on the real e2fsck"),
 "C14": dict(level="other",
   text="Partially decided by the specification (DESIGN.md section 6). (c) The CRC primitives are written in TLA+ as their bit-serial definitions (Crc.tla) and TLC compares the real library's results "
        "with them for every length 0..48 (64 thorough) x alignment 0..7 x 4 content patterns x 3 algorithms. (a) 'every object carries the format's checksum' is the conjunct Csums of "
        "Ext4Abs.Consistent evaluated by TLC on projections (independent reader, own crc32c/crc16) of images produced by mke2fs, debugfs -w, tune2fs (-U, csum seed, csum off/on), resize2fs and e2fsck -fyD "
        "on 12 feature profiles. (b) CsumCoverage.tla states per object type which bytes the format covers (TLC checks it against the format's length formulas); one bit of a covered / boundary byte of a live "
        "superblock, descriptor, bitmap, inode, extent block, directory leaf, htree node, xattr block, MMP block is flipped; the reader says whether the stored checksum is stale; e2fsck -fn and the "
        "library read path of that object type (harness/csumdrv.c) must both detect; TLC decides every line (Trace_CsumCoverage) and reports reader/spec disagreement as check-broken. CsumUniverse.tla adds the geometry catalogue (descriptor 32/64/128 x inode 128/256/512 x crc16/crc32c), a dependency catalogue (which inputs enter each object's checksum, which a tool operation changes: Required(op, kind) pre-states) and tool-written journals (debugfs jo/jw/jc, tune2fs -J: csum v0-v3, escaped blocks, full descriptor/revoke blocks) recomputed by the independent journal decoder.",
   note="Level 'other' because the decisive recomputation for clause (a) sits in the observation layer (python reader), TLA+ only states the invariant; CRC reference limited to short buffers "
        "(TLC cannot fold kilobytes). Truncated (16-bit) checksum collisions are excluded from clause (b) obligations. Journal descriptor/commit/revoke block checksums are covered by C03's damaged journals, "
        "not here. Two known findings: the library never reports a group-descriptor checksum mismatch; e2fsck -fn reports it but exits 0 (declined pass-0 problem forgotten).",
   technique="TLA+ bit-serial CRC definitions and checksum-coverage function evaluated by TLC against the library; Consistent.Csums on projected images; spec-guided byte-flip fault enumeration"),
}

CHECKS.update({
 "C03": dict(level="model_checking",
   text="TLC model-checks Jbd2.tla: a format-level journal generator (WriteTxn / Checkpoint / Damage), the property-level Final computed from the generator's history, and Recover = "
        "a transcription of recovery.c's three passes (scan / revoke / replay, checksum v1/v2/v3, async commit, 64bit tags, wrap-around); ReplayExact holds with all deviation constants off, "
        "ReplayExactOrDev with the pinned tree's named deviations on. Conformance: seeded stratified abstract journals from the same universe are encoded into real images by an independent "
        "encoder, recovered three ways (e2fsck -E journal_only, e2fsck -fy, debugfs jr), read back by an independent decoder and validated by TLC as behaviours of Trace_Jbd2 (Recover must produce "
        "exactly the observed block versions, journal emptied, needs_recovery cleared, front-ends agree); the repository's own j_* images are run the same way. Jbd2.tla also states JsbAfter (s_start = 0 and the s_sequence every front end must leave) and Jbd2Gen.tla a second life of the log (restart at the announced sequence over the old ring, crash, second replay): Final of the second replay must not contain first-life blocks.",
   note="Trusted: TLC, gen/jbd2write.py (own encoder/decoder, own crc32c/crc32_be). Fast-commit replay is not modelled. Two known findings (named deviations DevReplayPastBadTag, DevScanAbort) "
        "are kernel-compatible behaviours that contradict the property text; they are listed in known_findings.txt. External journals only through the repository's images.",
   technique="TLA+ spec of jbd2 recovery model-checked with TLC + trace validation of real e2fsck/debugfs recoveries of spec-generated journals"),
 "C09": dict(level="model_checking",
   text="TLC model-checks FileData.tla (property level: a file is a byte map with holes), FileBuf.tla (the one-block buffer of fileio.c refining it), ExtentMap.tla and IndMap.tla "
        "(extent-leaf list under set_bmap / punch; indirect-map punch arithmetic) on small constants. Histories over the same operation alphabet are concretised (cut points -> byte offsets from a "
        "boundary catalogue per filesystem profile: ext4 1k/4k, ext2, bigalloc, inline_data, nearly full) and executed by harness/filedrv.c through the public file API; every logged line "
        "(read results, sizes, mapped blocks, leaf-extent list, ENOSPC outcomes, e2fsck -fn at close) is validated by TLC against Trace_FileData / Trace_ExtentMap / Trace_IndMap. SpaceAcct.tla adds space accounting (every unit free / owned once / leaked; i_blocks; on-disk bitmap with dirty flag) with protocols Grow / Prealloc / Release / Unmount / Mount; a spec-enumerated ENOSPC ladder (free count r x tree-growth situation x operation) and open..close session shapes run on the real library with an accounting record on every trace line.",
   note="Trusted: TLC, harness/filedrv.c, e2fsck -fn as the consistency oracle at close. Offsets come from a boundary catalogue, not all 2^64; histories are seeded samples inside the spec's constants. "
        "One known finding (fallocate leaks claimed blocks when the extent insert fails: its repair changes the expected output of tests/f_jnl_etb_alloc_fail).",
   technique="TLA+ refinement model checking (TLC) + trace validation of real-library file I/O histories"),
 "C10": dict(level="model_checking",
   text="TLC model-checks Dir.tla (namespace, link counts vs references, inode/block release), DirBlock.tla (link_proc / unlink_proc / expand with the true 1 KiB rec_len arithmetic) and HTree.tla "
        "(dx_lookup / dx_split_leaf / dx_grow_tree with scaled node limits). Seeded operation histories are executed through harness/dirdrv.c (libext2fs API) and debugfs -w -f, interleaved with "
        "e2fsck -fyD, on linear / dir_index / metadata_csum / inline_data / no-filetype / dir_nlink profiles x 1k/4k; after every step the whole filesystem is observed (listings, types, link "
        "counts, in-use sets, exact slot layout of every directory block, htree index, free counts) and validated by TLC against Trace_Dir with all invariants at every line.",
   note="Trusted: TLC, harness/dirdrv.c's observer, e2fsck -fn verdict at the end of a history. Directory sizes reach the 2-level htree only in thorough. Encrypted / casefolded directories are not exercised.",
   technique="TLA+ model checking (TLC) of directory-block and htree transcriptions + trace validation of real library/debugfs histories"),
 "C11": dict(level="model_checking",
   text="Tune.tla transcribes the request/effect relation of misc/tune2fs.c (update_feature_set, main: Refused / Effect / AllowedChange / rewrite obligations); TLC explores every sequence of <= 3 "
        "accepted requests from each starting profile and checks that no reachable feature set is one the library or e2fsck rejects and that every checksum-key change is followed by a rewrite covering "
        "every checksummed object class. Conformance: the request universe is enumerated by the spec (Emit_Tune), each request sequence runs the real tune2fs on populated base images and each step "
        "is a trace line validated by TLC (Trace_Tune): abstract(after) = Effect(op, before), changed superblock fields inside AllowedChange, requested e2fsck succeeded, e2fsck -fn clean, tree equal. Tune.tla defines the starting-image catalogue every profile must contain (20 owners per quota type, extent tree of depth 2, directory extent tree of depth 1, full dx root and interior node) and RealUsage / QuotaFileOK; an independent quota-tree parser and the reader's per-class stale-checksum report are mandatory observations on the lines that need them. The journalling mode is one 2-bit field of the abstract state (FieldPairs: every transition between its values through -o), QuotaInoAllowed states which inodes a quota file may occupy (catalogue variant with inode 11 free), AllocSeqs orders requests that allocate.",
   note="Trusted: TLC, lib/sbparse.py, lib/absstate.py tree digest (via debugfs rdump + stat listing), e2fsck -fn. -I inode resize only 128->256; external journals and mounted-filesystem paths not exercised.",
   technique="TLA+ spec of tune2fs's feature-change contract model-checked with TLC + trace validation of real tune2fs runs enumerated by the spec"),
 "C13": dict(level="model_checking",
   text="ToolRun.tla models one tool invocation over a device (Open / DevWrite / DevTruncate / DevFallocate / DevFsync / Close / Exit / Killed) with ReadOnlyNeverModifies, RoUnmodified; ToolRunZ.tla adds "
        "auxiliary files (the -z undo file, the undo log e2undo replays: writes there never touch the target); ToolRunUniv.tla holds the catalogues TLC enumerates (60 read-only -z invocations, journal x orphan "
        "image axes, 272 e2undo dry runs per profile with the outcome a model of e2undo's guard chain expects); TLC checks them exhaustively. Conformance: image states (7 profiles x {clean, journal needing recovery, orphans, MMP, quota, ~40 corruption recipes, seeded metadata damage}) x every documented read-only "
        "command line of every tool and every debugfs request without -w run under LD_PRELOAD=iotrace.so; the recorded event stream + {exit, signal, sha256 before = after} is validated by TLC "
        "against Trace_ToolRun: any write-class call on a writable descriptor of the target, O_TRUNC/O_CREAT open or changed digest rejects the trace. The target is a set: the image and, when the filesystem names one, its external journal device (ExtJRuns); a write to either rejects.",
   note="Trusted: TLC, harness/iotrace.so (control runs prove it sees writes), sha256 of the image. mmap writes and direct syscalls are not interposed (the tools use neither). Block devices are not available in the sandbox.",
   technique="TLA+ protocol spec (TLC) + trace validation of system-call recordings of real read-only tool runs"),
 "C15": dict(level="model_checking",
   text="TLC model-checks XattrPlace.tla (transcription of ext_attr.c: xattr_array_update, ext2fs_xattrs_write, prep_ea_block_for_write, value inodes) against the property-level map of Xattr.tla "
        "(Refines, NoOverflow, SortedBlock, BlockIffEntries, EaRefs, PeerIntact, Charge...) exhaustively over set/remove sequences on inode sizes 128/256/1024, ea_inode on/off, inline-data files. "
        "Seeded histories are stepped through the real library (harness/xattrdrv.c) and debugfs ea_set/ea_rm/ea_get; after EVERY step the image is parsed by an independent parser "
        "(gen/xattrparse.py) and the step validated by TLC against Trace_XattrPlace: exact placement, order, sizes, refcounts, free-block/inode and i_blocks accounting, get = model map. XattrPlace.tla also models the inline-data subsystem as a second writer of the attribute area (PWrite, PTrunc, PISet, PIExpand, PPunch, PMkdirIn; DataIffInline).",
   note="Trusted: TLC, gen/xattrparse.py, e2fsck -fn at the end of every history. One known finding (DevCowNoEaRef: copy-on-write of a shared block does not take references on EA inodes). "
        "POSIX ACL conversion is exercised only through the system.posix_acl_* names the driver sets.",
   technique="TLA+ refinement model checking (TLC) + per-step trace validation of real-library xattr histories through an independent image parser"),
 "C17": dict(level="model_checking",
   text="Cache: TLC model-checks UnixIoCache.tla (one action per unix_io manager entry point, LRU, write-through, bounce, failures) exhaustively at K in {3,4} slots against IoChannel.tla (Coherent, "
        "DurableAfterFlush, ErrorReported, refinement) and by simulation at the real constants K=8; seeded histories run through the real unix_io_manager (harness/iodrv.c) under 10 channel "
        "configurations incl. injected device write failures; every call (arguments, return, data tags, the 8 cache slots via hook H1, device events, backing file) is validated by TLC against "
        "Trace_UnixIoCache. Threads: TLC checks BitmapLoad.tla (partition formula, lock protocol, all interleavings, termination); harness/bmload.c loads bitmaps with 1..16 threads under "
        "schedule perturbation, result must equal the single-threaded load and hook H3's events must be a behaviour of Trace_BitmapLoad. StackedIo.tla transcribes undo_io's entry points as a machine of nested calls over the cache model and the undo file (OuterCoherent, OuterDurable, OuterErrorReported; faults on either store); BitmapLoad.tla models failing reader threads and the join loop (FailsIffThreadFailed, ResultScheduleIndependent) and damaged images are loaded at every thread position.",
   note="Trusted: TLC, hooks H1/H3 (read-only), iotrace.so fault injection. Data races are observed through H3's held/inside flags under perturbed schedules, not proven absent for every schedule of "
        "the real code (the spec covers all interleavings; the binding is by sampled schedules). Block-device paths (BLKDISCARD) unreachable in the sandbox.",
   technique="TLA+ refinement model checking (TLC, exhaustive + simulation) + trace validation of real unix_io histories and threaded bitmap loads"),
})
HOOK_COMMITS += ["e83db2f9", "a9b77b7d"]
CHECKS.update({
 "C12": dict(level="model_checking",
   text="TLC model-checks UndoIo.tla (transcription of lib/ext2fs/undo_io.c and misc/e2undo.c on a device of granules: U1 write-ahead / exactly once, U2 e2undo restores the original device over its "
        "original length incl. unfinished records, U3 every key in the unit the header announces, R1/R2 damaged files refused without a write and -n never writes, Layout). API level: operation "
        "histories run through undo_io_manager over unix_io (harness/undodrv.c), then the real e2undo; every call is a line (undo file as found on disk by the driver's own reader) validated by "
        "TLC against Trace_UndoIo with all invariants after every line. Tool level: every tool with -z, single runs and chains into one undo file, recorded by iotrace.so on device and undo file "
        "and validated against Trace_UndoRun (write-ahead order, exactly once, unit), then e2undo must restore the device byte-exactly. Damage sweep: bit flips over checksummed bytes of undo "
        "files must be refused without any write. Every line of every history must be a step of the literal model (a failing property invariant no longer stops validation: PROPFAIL lines; QuietOk: no active deviation implies U1-U3); AppendPos checks the append position of reopened files; directed short-key chains over device sizes of every residue; UndoRunUniv.tla enumerates the tool universe (operation x base x image state incl. needs_recovery / orphans / restart x device tail).",
   note="Trusted: TLC, harness/undodrv.c's reader of the undo format, iotrace.so. Two unrepaired deviations of the tree (DevAbsTiling, DevChanUnits: their repair changes what tests/u_mke2fs_opt_offset "
        "documents) are known findings: conformance runs against the specification with these two switched on, a history in which a property invariant then fails is reported as the known finding, "
        "a history the literal model does not explain is a VIOLATION; in the 8 listed tool scenarios the first invariant failure hides later events of the same scenario.",
   technique="TLA+ model checking (TLC) of the undo protocol + trace validation of API histories and of recorded system-call streams of every -z tool"),
})
CHECKS.update({
 "C01": dict(level="model_checking",
   text="Fsck.tla is a tiny design model of e2fsck passes 1-5 (TLC: one repair run over every state reachable by <= 2 (thorough 3) catalogue corruptions ends in a state the read-only run accepts; the "
        "design mutant 'pass 5 repairs the bitmap in memory only' is caught). Corrupt.tla is the closed universe (6 296 catalogue entries, 780 interacting pairs, closed triples) enumerated by TLC. "
        "Conformance: every universe element is concretised through the independent reader's location map on 15 base profiles, the real `e2fsck -fy -E problem_log` then `e2fsck -fn -E problem_log` run, "
        "and TLC (Trace_Tools, C01_Holds: Success(exit1) => exit2 = 0 /\\ problems2 = <<>>) decides every line. Keys of known findings are layout-free (profile, recipe class, ordered problem codes with inode numbers); quick can only select elements the thorough tier runs completely. The in-memory containers the passes rely on are specified as well (ContRefcount / ContIcount / ContDblist / ContBadblocks / ContRegion refining ContAbs: sorted arrays with lazy compaction and growth, TLC refinement on scaled capacities) and bound by line-by-line trace validation of seeded histories at the real constants' boundaries run through the real code under ASan (harness/contdrv.c).",
   note="Trusted: TLC, gen/corrupt.py (checksum fixers self-tested: recomputation on a pristine object is the identity), e2fsck's own problem log as the failure signature. 36 known findings keyed by the "
        "second run's problem signature (clusters: quota usage after an inode clear, invalid symlink + filetype, bitmap differences after extent-count repairs, resize-inode repeats, i_size flip-flop). "
        "Quick is a seeded subset (~1 700 elements), thorough the whole universe (48 094 lines). Fsck.tla is not bound to the code line by line.",
   technique="TLA+ design model of the e2fsck passes (TLC) + spec-enumerated corruption universe with per-line trace validation of real e2fsck -fy / -fn runs"),
 "C02": dict(level="model_checking",
   text="Ext4Abs.tla states the ext4 consistency invariants independently of libext2fs (InRange, NotFixedMeta, SingleOwner, BitmapsExact, GroupCounts, Links, Shapes, Csums); Fsck.tla (design model) is "
        "checked by TLC for `FsckN clean <=> Consistent` on every state reachable by <= 2 corruptions, with design mutants that must break it. Conformance: for every element of the TLC-enumerated "
        "corruption universe the real `e2fsck -fn` runs on the corrupted copy, the independent reader projects the same bytes, and TLC (Trace_Tools, TFsckN) evaluates FailedConjuncts(st0) and "
        "C02_Holds == exit = 0 => Consistent on the logged line. C02Closed adds bitmap pointers relocated onto fixed metadata of earlier and later groups and resize-inode map entries; C02's own tool-built htree images carry names >= 0x80 under every hash version x signedness; C02Bounds adds every *_hi half of the 64-byte descriptor and of large inodes and the exact boundary values of every range test (BoundTriples), ExtraHashRecipes / ExtraSbRecipes bind every bit of s_flags and s_def_hash_version on those images.",
   note="Trusted: TLC, reader/ext4read.py (cross-validated against e2fsck -fn on the 232 images of the repository's suite and 200 mutated images), gen/corrupt.py. A state the reader cannot produce is "
        "'unknown' (counted, never a violation). Violations are restricted to the rule classes the property text lists (Ext4Abs!Shapes / Links are stricter). One known finding (out-of-range i_file_acl on "
        "inodes no directory entry names).",
   technique="TLA+ statement of the ext4 invariants evaluated by TLC on independent projections of corrupted images + design model of the passes (TLC)"),
 "C04": dict(level="model_checking",
   text="JournalRun.tla models the recovery front-ends (e2fsck/journal.c, debugfs/journal.c around recovery.c) over unix_io's write-back cache and a device with a volatile write cache; TLC explores every "
        "replay plan of the bound, every crash point, every lost-write subset and the re-run on the crash image (Idempotent, IdempotentSubsets, NeverEmptyBeforeDurable, KeepsRequesting, FlagAfterEmpty), "
        "and must reject three wrong orderings. Conformance: journals from C03's generator and the repository's j_* images are recovered by the real front-ends under iotrace.so; the recorded "
        "pwrite/fsync stream is validated by TLC against Trace_JournalRun (invariants on every crash image of every prefix); crash images for crash points x lost-write subsets are rebuilt from the "
        "recorded payloads (cross-checked against a process really killed at that write), recovery is re-run and TLC accepts the line only if the result equals RunAgainOf(image) = Final. JournalRun.tla has two devices (filesystem and journal device, each with its own volatile cache and fsync); external-journal runs are recorded on both files and crash images range over the product of both pending sets.",
   note="Trusted: TLC, iotrace.so, the classification of writes against a shadow image. Block-exact comparison excludes s_wtime, s_kbytes_written, s_checksum and the journal superblock's s_sequence. "
        "A single pwrite is assumed atomic; internal journals only; fast-commit not modelled. Two known findings (DevSbPiecemeal, DevErrorLostOnCrash).",
   technique="TLA+ crash/recovery protocol model (TLC) + trace validation of recorded recovery write streams + fault enumeration of crash images on the real front-ends"),
 "C05": dict(level="model_checking",
   text="FsckPreserve.tla models what the five repair modes do to the representation (directory leaves + hash index: rehash.c; extent list / block map: extents.c; bitmaps, counts, flags, checksum "
        "fields: pass 5 and checksum-only repairs) and TLC checks TreeUnchanged, ExitOK, ConsistentAfter, ModeScope from every consistent start, with summary-only corruptions and two consecutive runs; "
        "literal faulty behaviours must give counterexamples. Conformance: the universe is enumerated by the spec (modes x directory family x mapping shapes x summary corruption kinds); the real "
        "e2fsck runs on base images, family images and summary/checksum-only corruptions; the independent reader projects before and after; TLC evaluates Consistent, builds the observable tree and "
        "evaluates the invariants of FsckPreserve on every line. The mapping family includes written/unwritten extent states (InitStatePreserved) and the directory family casefold directories (strict / non-strict, names that are not valid UTF-8, case twins).",
   note="Trusted: TLC, the reader's tree (paths, types, sizes, modes, owners, nlink, symlink targets, content digests, xattr digests), gen/c05_summary.py. Two known findings (DevSbCsumRefuses; "
        "DevInodeUninitWipes if its repair is not committed).",
   technique="TLA+ model of e2fsck's rewriting modes (TLC) + trace validation of real e2fsck runs through an independent reader"),
 "C18": dict(level="model_checking",
   text="TreeGen.tla: abstract tree universe (types, name/size/hole classes, hard-link groups incl. across devices, modes, owners, times, xattrs, symlink lengths), the property-level Expect and the "
        "implementation-shaped PopModel (create_inode.c) and RdumpModel (dump.c); TLC explores every tree of a small configuration (InvPopulateExact, InvRdumpExact) and each Dev* constant must give a "
        "counterexample. Conformance: TLC simulates the builder (seeded) and emits trees; each is materialised on the host; per feature profile `mke2fs -d` and a `debugfs -w -f` script populate an "
        "image; the independent reader's listing (digests, mapped ranges), Consistent, e2fsck -fn, byte comparison of a second run and `debugfs rdump` / `dump -p` / `cat` re-read from the host are one "
        "trace line per case decided by TLC (Trace_TreeGen, 22 named clauses). Hard-link groups range over every non-directory type, inside and across directories and devices.",
   note="Trusted: TLC, the reader, gen/tree.py (host probes for SEEK_HOLE, user xattrs, tmpfs mounts; dependent clauses are skipped with a note when unavailable). debugfs front end is compared on the "
        "attributes its commands take. libarchive/tar input, > 60 nodes, > 2 GiB files, post-2038 times not covered. One known finding (debugfs does no quota accounting).",
   technique="TLA+ tree universe and populate/extract models (TLC) + trace validation of real mke2fs -d / debugfs / rdump runs on spec-generated trees"),
 "C19": dict(level="model_checking",
   text="E2image.tla: block classes of an abstract filesystem with MetaLive, the discovery rule of write_raw_image_file class by class, a literal transcription of the qcow2 writer (cluster allocation, "
        "L1/L2 tables with cache flush, refcounts) and of qcow2_write_raw_image; TLC checks DiscoveryOK, RawContract, WriterSane, MapExact, RefcountExact, ConvertEqualsRaw on small constants over every "
        "subset of marked/zero blocks. Conformance: 15 base profiles + generated filesystems crossing L2-table boundaries run through e2image -r, -Q, -r of the qcow2, -ra, -Qa, -r of that, under "
        "iotrace.so on the source; blocks are classified by the independent reader; per-class difference counts, e2fsck/dumpe2fs equality, the check's own parse of the qcow2 structures and the "
        "source's system-call record are validated per line by TLC (Trace_E2image); a second trace spec replays the literal writer model with the real constants and must reproduce the real file layout. E2image.tla states every offset computation with its integer width; the size catalogue includes 4.25 GiB sparse filesystems with metadata around byte offsets 2^31 and 2^32.",
   note="Trusted: TLC, the reader's block classification, iotrace.so. Options -b/-o/-O/-c/-s/-I/-p, stdout/block-device output and the old 'normal' format are not covered; damaged sources are not covered. "
        "Backups and blocks the format declares uninitialised are not required in an image.",
   technique="TLA+ model of e2image's block discovery and qcow2 writer/reader (TLC) + trace validation of real e2image runs incl. exact file-layout replay"),
 "C20": dict(level="model_checking",
   text="Backups.tla (EXTENDS Geometry): primary fields + content of every block that can hold a backup; actions Mkfs, Resize, TuneFeature, TuneUUID, TuneISize, FsckRepair, FsckFromBackup, "
        "DestroyPrimary, RecoverFrom(loc) transcribing which copies ext2fs_flush2 rewrites under MASTER_SB_ONLY / SUPER_ONLY; TLC checks for every geometry up to MaxG groups and every tool sequence up "
        "to MaxSteps that the backup set is exactly the format's, every prescribed copy is current after every tool and recovery from any prescribed location restores the primary. Conformance: the "
        "universe (geometries x tool sequences) is enumerated by the spec; every sequence runs with the real tools on small populated images; every candidate backup location is read by an independent "
        "parser after every step; then for every prescribed location the primary superblock and descriptors are zeroed and `e2fsck -fy -b LOC -B BS` (plain e2fsck for the default group size), "
        "`e2fsck -fn` and the reader's tree digest are logged; TLC decides every line against Trace_Backups. BackupSearch.tla / Backups.tla transcribe get_backup_sb (loop over block sizes, group-size guess, probed groups) and the universe ranges over every block size 1k..64k with plain e2fsck and -b recovery, incl. descriptor-only damage.",
   note="Trusted: TLC, lib/sbparse.py + the check's descriptor parser, the reader's tree digest. Block sizes 1k/2k/4k with small -g; meta_bg, sparse_super2 (0/1/2 backups), flex_bg, 64bit.",
   technique="TLA+ model of backup placement and refresh rules (TLC) + trace validation of real tool sequences and recoveries from every backup location"),
})
CHECKS.update({
 "C06": dict(level="exploration",
   text="Partially decided by the specification (DESIGN.md section 6): TLA+ decides the tool-run contract, not memory safety itself. ToolExit.tla (extends C13's ToolRun.tla) holds the per-tool / per-mode "
        "table of documented exit statuses and the invariants TerminatedWithinBound, NoSignal, NoMemoryError, NoUndefinedBehaviour, ExitDocumented (TLC: the documented tool satisfies Robust; with fault "
        "steps enabled TLC must find it violated). Conformance: an ASan+UBSan build of the current tree runs e2fsck -n/-p/-y, debugfs read-only requests, dumpe2fs, tune2fs -l, resize2fs -P, e2image, "
        "e2undo, e2freefrag over a closed seeded universe (C06Universe.tla: structured single/multi-field corruptions of every metadata object class of 15 profiles through the reader's location map, "
        "damaged journals, undo files, qcow2 images, external journal, raw byte strings, byte mutations); every run is two trace lines {start} {exit, signal, timeout, sanitizer report kinds} validated "
        "by TLC against Trace_ToolExit; failing runs are grouped by signature, re-run alone, minimised and reported. C06Readers.tla states, per reader (e2undo header/keys, qcow2 header, summary counters under resize2fs -P, journal rings), the bounds the code compares a field with and a catalogue of values on / around / between those bounds, concretised with checksums recomputed (multi-field corruptions).",
   note="Level exploration: sanitizers are an observation amplifier; no report is no proof of absence. 15 defects found on the pinned tree were repaired (9 fix: commits); three UBSan kinds outside the "
        "property's list (alignment, signed overflow in offset arithmetic, shift exponent) are known findings. Time bound = 20 s CPU of the tool process. Each tier is a seeded sample of the catalogue.",
   technique="TLA+ tool-run contract (TLC) + trace validation of sanitizer-instrumented tool runs over a spec-defined corruption catalogue"),
})
# only these are written to MANIFEST.json (a check enters the list after its quick tier has passed on /repo HEAD itself)
REGISTERED = ["C01", "C02", "C03", "C04", "C05", "C06", "C07", "C08", "C09", "C10", "C11", "C12", "C13", "C14", "C15", "C16", "C17", "C18", "C19", "C20"]
NA = {}
