\* reference copy: checks/c18.py writes the cfg it runs (the xattr classes depend on what the scratch filesystem stores)
SPECIFICATION Spec
CONSTANTS
  MinNodes = 4
  MaxNodes = 12
  MaxDepth = 3
  MaxFan = 12
  MaxMounts = 0
  NameClasses = {"n1", "n8", "n64", "n255"}
  SizeClasses = {"z0", "b1", "b59", "b60", "b61", "b160", "b1023", "b1024", "b1025", "b4095", "b4096", "b4097", "b12289", "b49153", "b40000", "b300k", "sp_head", "sp_mid", "sp_tail", "sp_blk", "sp_multi"}
  TargetClasses = {"t1", "t59", "t60", "t61", "t255", "t1023", "t1024", "t4095"}
  DevClasses = {"dev_small", "dev_large", "dev_zero"}
  ModeClasses = {"m644", "m600", "m0", "m755", "m4755", "m2750", "m1777", "m7777", "m6711"}
  OwnerClasses = {"root", "user", "big", "mixed"}
  MtimeClasses = {"t1970", "t2001", "t2020", "t2038"}
  XattrClasses = {"none", "small", "two", "blk", "near", "ea"}
  LinkKinds = {"reg", "lnk", "chr", "blk", "fifo", "sock"}
  PopLinkTypes = {"reg", "lnk", "chr", "blk", "fifo", "sock"}
  DevModeMask777 = FALSE
  DevHardlinkByInoOnly = FALSE
  DevHoleAsZeros = FALSE
  DevRdumpDropsTail = FALSE
  DevRdumpSymlinkOwner = FALSE
  KindSeq <- KindSeqSim
INVARIANT EmitTree
CHECK_DEADLOCK FALSE
