------------------------------ MODULE MC_HTree ------------------------------
(* Model checking of HTree with scaled limits: the root holds RootLim and an interior node NodeLim entries (NodeLim > RootLim as in the format), 1 KiB leaves with a
   checksum tail hold three 255-byte names; every sequence of insertions and removals of the names 1..N with the hashes Hash[n]
   (two of them collide).  The model is the set of names present.                                                          *)
EXTENDS HTree
CONSTANTS N, BS, RootLim, NodeLim, MaxOps, WithRebuild
VARIABLES ly, present, nops, reb          \* reb: the last step was a rebuild (e2fsck -D)
vars == <<ly, present, nops, reb>>
Hash == <<40, 10, 70, 20, 20, 90, 55, 30, 80, 60, 5, 95>>
Len8 == {4, 9}                                   \* these names are short (8 bytes), the others 255 bytes
cNT == [n \in 1..12 |-> <<IF n \in Len8 THEN 8 ELSE 255, Hash[n]>>]
G == [bs |-> BS, tail |-> 12, cs |-> 12, rlim |-> RootLim, nlim |-> NodeLim, maxlv |-> 2]
Init == /\ ly = [b |-> << <<Slot(50, 1, 12, 2, -1), Slot(2, 2, BS - 12, 2, -2)>>, <<Empty(BS - 12)>> >>, inl |-> FALSE,
                 dx |-> [lv |-> 0, nodes |-> (0 :> [limit |-> RootLim, e |-> << <<0, 0, 1>> >>])]]
        /\ present = {} /\ nops = 0 /\ reb = FALSE
Ins(n) == /\ n \notin present
          /\ LET r == DxLink(ly, Slot(100 + n, cNT[n][1], 0, 1, n), cNT, G) IN
             r.done /\ ly' = [ly EXCEPT !.b = r.b, !.dx = r.dx]
          /\ present' = present \cup {n}
Del(n) == n \in present /\ ly' = [ly EXCEPT !.b = UnlinkDir(@, 1, n)] /\ present' = present \ {n}
\* e2fsck -D: the names in hash order (equal hashes: any fixed order, here by name id) written anew
Less(a, c) == cNT[a][2] < cNT[c][2] \/ (cNT[a][2] = cNT[c][2] /\ a < c)
Ordered == [r \in 1..Cardinality(present) |-> CHOOSE n \in present : Cardinality({x \in present : Less(x, n)}) = r - 1]
Reb == /\ WithRebuild /\ RebuildIndexes(ly, G, TRUE)
       /\ ly' = RebuildDx([r \in 1..Cardinality(present) |-> Slot(100 + Ordered[r], cNT[Ordered[r]][1], 0, 1, Ordered[r])], 50, 2, 2, cNT, G)
       /\ UNCHANGED present
Next == /\ nops < MaxOps /\ nops' = nops + 1
        /\ \/ (reb' = FALSE /\ \E n \in 1..N : Ins(n) \/ Del(n))
           \/ (reb' = TRUE /\ Reb)
Spec == Init /\ [][Next]_vars
InvDx == DxInvariant(ly, cNT, G)
InvLookup == \A n \in present : LookupFinds(ly, cNT, n)
InvLive == LiveSlots(ly.b) = {<<n, 100 + n, 1>> : n \in present} /\ LiveCount(ly.b) = Cardinality(present)
InvChain == \A j \in LeafIdx(ly) : ChainCovers(ly.b[j], BS - 12)
\* the index blocks keep their directory-block disguise
InvDisguise == /\ ly.b[1] = <<Slot(50, 1, 12, 2, -1), Slot(2, 2, BS - 12, 2, -2)>>
               /\ \A k \in (DOMAIN ly.dx.nodes) \ {0} : ly.b[k + 1] = <<Empty(BS)>>
\* the rebuilt directory has the form the trace specification demands of `e2fsck -D`, with the level calculate_tree decides on
InvRebuiltForm == reb => IsRebuiltDx(ly, 50, 2, 2, cNT, G, 0) /\ ly.dx.lv = TreeLevels(Cardinality(LeafIdx(ly)), G)
\* an insertion is refused only when the tree cannot grow any more
InvRefusal == \A n \in (1..N) \ present :
                 ~DxLink(ly, Slot(100 + n, cNT[n][1], 0, 1, n), cNT, G).done => ly.dx.lv + 1 >= 2
\* witnesses (expected to be violated: used once to show that the configuration reaches these situations)
WitnessNoGrowth == ly.dx.lv = 0
WitnessNoTwoLevelRebuild == ~(reb /\ ly.dx.lv = 1)
WitnessNoNodeSplit == Cardinality(DOMAIN ly.dx.nodes) <= 2
=============================================================================
