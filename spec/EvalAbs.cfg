\* no behaviour specification: TLC evaluates the ASSUME of EvalAbs only
