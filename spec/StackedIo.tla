----------------------------- MODULE StackedIo -----------------------------
(* An I/O manager stacked on the unix channel: lib/ext2fs/undo_io.c (undo_io_manager) wrapped around the channel
   UnixIoCache describes.  C17's statement is about what the CALLER of the outermost channel sees, so the property
   view IoChannel (coherent reads, durable after flush/close, failed device writes reported) is stated here once
   more for the calls made on the wrapper, whose steps are several calls on two backing stores:

      R   the real device channel (`data->real`): every nested call is one action of UnixIoCache, with device write
          failures injected exactly as there;
      U   the undo file channel (`data->undo_file`): only the outcome of each call matters here (its content is
          property C12's subject), so a call on it is an event with a return code.

   One outer call = OBegin, the nested calls its entry point makes (one step each, the order and the early exits
   transcribed from undo_io.c: undo_setup_tdb, undo_write_tdb, write_undo_indexes, undo_close, ...), OFinish.
   oc is the call in flight: program counter, what it accumulated, the value it is going to return.

   What the caller must be told (the observation of the outer call handed to IoChannel's step relation):
      F     granules for which the LAST device write attempt made during the call failed (an attempt that failed and was
            repeated successfully later in the same call -- raw_write_blk's second try, or a write-back retried by a
            later nested call -- is not a failed write of the call);
      rep   the call returned an error, or the channel's write_error handler was called during it;
      uerr  a write / flush / close of the undo file returned an error (must make the call fail as well).

   IgnoredSites: the nested call sites whose return value the wrapper drops.  The code (and the registered
   configuration) has {"setup.ublk", "setup.rd", "ix.sb1", "ix.sb2", "cl.ufile"}: the undo file's set_blksize and the
   probing reads of undo_setup_tdb, the two set_blksize calls on the real channel that bracket the superblock read of
   write_undo_indexes, and the close of the undo file.  Adding any other site (e.g. "fl.real") is a deviation that TLC
   must reject (vacuity guard).                                                                                  *)
EXTENDS UnixIoCache
CONSTANTS SBG,             \* granules of SUPERBLOCK_OFFSET = SUPERBLOCK_SIZE = 1024 bytes (= tdb_data_size in the configurations used)
          IgnoredSites
VARIABLES oc,              \* the outer call in flight
          ust,             \* struct undo_private_data, as far as the control flow needs it
          ores,            \* verdicts on the last finished outer call
          ounrep           \* some failed write was never reported to the caller of the wrapper
svars == <<oc, ust, ores, ounrep>>
allvars == <<vars, svars>>

ZeroLg == [g \in G |-> 0]
IdleOc == [pc |-> "idle", op |-> "none", a |-> 0, b |-> 0, tags |-> <<>>, data |-> <<>>, rng |-> {}, F |-> {}, hbn |-> 0,
           uerr |-> FALSE, err |-> 0, ret |-> 0, rret |-> 0, k |-> 0, ns |-> 0, fl |-> FALSE, bs0 |-> 0, lg0 |-> ZeroLg, rok |-> TRUE]
FreshUst(b) == [tdbw |-> FALSE,     \* data->tdb_written: undo_setup_tdb has run
                kib |-> FALSE,      \* data->keys_in_block > 0
                udirty |-> FALSE,   \* the undo file channel may hold unwritten blocks
                obs |-> b]          \* channel->block_size of the wrapper
NoOres == [logical |-> TRUE, coherent |-> TRUE, durable |-> TRUE, closed |-> TRUE, asspec |-> TRUE]

WriteOps == {"write", "wbyte", "zero", "discard"}
OpClass(op) == IF op \in WriteOps THEN "write" ELSE IF op \in {"read", "flush", "close"} THEN op ELSE "other"
ORng(op, a, b) == IF op \in {"read", "write"} THEN Rng(a, b) ELSE IF op = "wbyte" THEN a..(a + b - 1)
                  ELSE IF op \in {"zero", "discard"} THEN Rng(a, b) ELSE {}

\* device events of one nested call folded into F: a failed attempt adds its granules, a successful one removes them
RECURSIVE FoldEv(_, _, _)
FoldEv(F, ev, i) ==
   IF i > Len(ev) THEN F
   ELSE LET e == ev[i] IN
        IF e[1] # 1 THEN FoldEv(F, ev, i + 1)
        ELSE LET S == e[2]..(e[2] + e[3] - 1) IN FoldEv(IF e[4] = 1 THEN F \cup S ELSE F \ S, ev, i + 1)

Eff(site, r) == IF site \in IgnoredSites THEN 0 ELSE r
Goto(c, pc) == [c EXCEPT !.pc = pc]
Fin(c, r) == [c EXCEPT !.pc = "ret", !.ret = IF r = 0 THEN 0 ELSE 1]
Failed(c, pc) == [c EXCEPT !.pc = pc, !.err = 1]
\* what the nested call on R just made (res', the primed observation of UnixIoCache) adds to the outer call
AccR(c) == [c EXCEPT !.F = FoldEv(@, res'.ev, 1), !.hbn = @ + Len(res'.hb)]

(* ------------------------------------------- the outer call begins ----------------------------------------- *)
OBegin(op, a, b, tags) ==
   /\ oc.pc = "idle" /\ open
   /\ (op \in {"read", "write", "zero", "discard"}) => (ust.obs = bs /\ InRange(a, b))    \* precondition: see the check's assumptions
   /\ (op = "wbyte") => (a >= 0 /\ b > 0 /\ a + b <= NG)
   /\ LET c == [IdleOc EXCEPT !.op = op, !.a = a, !.b = b, !.tags = tags, !.lg0 = logical, !.rng = ORng(op, a, b)] IN
      /\ oc' = [c EXCEPT !.pc = CASE op = "read" -> "rd.real" [] op = "flush" -> "fl.real" [] op = "blksize" -> "bs.real"
                                    [] op \in {"cacheoff", "cacheon"} -> "opt.real" [] op = "readahead" -> "ra.real"
                                    [] op \in WriteOps -> (IF ust.tdbw THEN "save" ELSE "setup.ublk")
                                    [] op = "close" -> (IF ust.kib THEN "ix.key" ELSE "ix.sb1"),
                          !.fl = (op = "close")]
      /\ ust' = IF op \in WriteOps THEN [ust EXCEPT !.tdbw = TRUE] ELSE ust          \* undo_setup_tdb: data->tdb_written = 1 first
   /\ UNCHANGED <<vars, ores, ounrep>>

(* ------------------------------------------- nested calls on R --------------------------------------------- *)
\* undo_read_blk64 -> real;  undo_write_tdb: the old content of one undo block;  write_undo_indexes: the superblock
\* (which undo blocks still need saving -- written_block_map -- is property C12's subject: here any number of save reads may
\* precede the call itself; ns counts them)
NRead(blk, cnt, F) ==
   /\ oc.pc \in {"rd.real", "save", "ix.rd"} /\ Read(blk, cnt, F)
   /\ (oc.pc = "ix.rd") => (blk = 1 /\ cnt = -SBG)
   /\ LET c == AccR(oc)  r == res'.ret IN
      CASE oc.pc = "rd.real" -> oc' = Fin([c EXCEPT !.data = res'.data, !.rok = res'.rok], Eff("rd.real", r)) /\ ust' = ust
        [] oc.pc = "save"    -> /\ oc.op \in WriteOps
                                /\ oc' = IF Eff("save.rd", r) # 0 THEN Fin(c, 1) ELSE [Goto(c, "sv.uw") EXCEPT !.ns = @ + 1]     \* (not a short read: inside the device)
                                /\ ust' = [ust EXCEPT !.kib = @ \/ Eff("save.rd", r) = 0]                  \* a key is added before the data is saved
        [] oc.pc = "ix.rd"   -> oc' = (IF Eff("ix.rd", r) # 0 THEN Failed(c, "ix.sb2") ELSE Goto(c, "ix.hdr")) /\ ust' = ust
   /\ UNCHANGED <<ores, ounrep>>
\* the call itself reaches the real channel (only after every undo block it touches has been saved)
NApply(A, site, data) ==
   /\ oc.pc = "save" /\ A
   /\ oc' = Fin([AccR(oc) EXCEPT !.data = data], Eff(site, res'.ret))
   /\ UNCHANGED <<ust, ores, ounrep>>
NWrite(blk, cnt, tags, F) == oc.op = "write" /\ blk = oc.a /\ cnt = oc.b /\ NApply(Write(blk, cnt, tags, F), "ap.write", tags)
NWByte(off, n, tags, F) == oc.op = "wbyte" /\ off = oc.a /\ n = oc.b /\ NApply(WriteByte(off, n, tags, F), "ap.wbyte", tags)
NZero(op, blk, n, zok, ztag, F) == oc.op = op /\ op \in {"zero", "discard"} /\ blk = oc.a /\ n = oc.b /\ NApply(Zeroout(blk, n, zok, ztag, F), "ap." \o op, [j \in 1..Span(blk, n) |-> ztag])
NFlush(F) == /\ oc.pc = "fl.real" /\ Flush(F)
             /\ oc' = Fin(AccR(oc), Eff("fl.real", res'.ret)) /\ UNCHANGED <<ust, ores, ounrep>>
NClose(F) == /\ oc.pc = "cl.real" /\ Close(F)
             /\ oc' = [Goto(AccR(oc), "cl.ufile") EXCEPT !.rret = Eff("cl.real", res'.ret)] /\ UNCHANGED <<ust, ores, ounrep>>
NBlksize(nbs, F) ==
   /\ oc.pc \in {"bs.real", "ix.sb1", "ix.sb2"} /\ SetBlksize(nbs, F)
   /\ (oc.pc = "ix.sb1") => nbs = SBG
   /\ (oc.pc = "ix.sb2") => nbs = oc.bs0
   /\ LET c == AccR(oc)  r == res'.ret IN
      CASE oc.pc = "bs.real" -> oc' = Fin(c, Eff("bs.real", r)) /\ ust' = [ust EXCEPT !.obs = nbs]        \* channel->block_size = blksize whatever real said
        [] oc.pc = "ix.sb1"  -> /\ oc' = (IF Eff("ix.sb1", r) # 0 THEN Failed([c EXCEPT !.bs0 = bs], "ix.sb2") ELSE Goto([c EXCEPT !.bs0 = bs], "ix.rd"))
                                /\ ust' = ust                                                            \* block_size = channel->block_size (before)
        [] oc.pc = "ix.sb2"  -> /\ oc' = IF oc.op = "close" THEN Goto(c, "cl.real")
                                         ELSE IF c.err # 0 \/ Eff("ix.sb2", r) # 0 THEN Fin(c, 1) ELSE Goto(c, "save")
                                /\ ust' = ust
   /\ UNCHANGED <<ores, ounrep>>
NCacheOff(F) == /\ oc.pc = "opt.real" /\ oc.op = "cacheoff" /\ CacheOff(F)
                /\ oc' = Fin(AccR(oc), Eff("opt.real", res'.ret)) /\ UNCHANGED <<ust, ores, ounrep>>
NCacheOn == /\ oc.pc = "opt.real" /\ oc.op = "cacheon" /\ CacheOn
            /\ oc' = Fin(AccR(oc), Eff("opt.real", res'.ret)) /\ UNCHANGED <<ust, ores, ounrep>>
NReadahead(r) == /\ oc.pc = "ra.real" /\ UNCHANGED vars
                 /\ oc' = Fin(oc, Eff("ra.real", r)) /\ UNCHANGED <<ust, ores, ounrep>>

(* ------------------------------------------- calls on U (the undo file) ------------------------------------ *)
\* kind: "blksize" | "read" | "write" | "flush" | "close";  r: what the call returned.  The step as a function of (oc, ust)
\* -- it touches nothing else -- so that the model checker can take a run of calls on U in one step
UNext(c0, u0, kind, r) ==
   LET c == [c0 EXCEPT !.uerr = @ \/ (r # 0 /\ kind \in {"write", "flush", "close"})]
       u == [u0 EXCEPT !.udirty = (kind = "write" /\ r = 0) \/ (@ /\ ~(kind = "flush" /\ r = 0))]
       R(k, cc) == [ok |-> kind = k, c |-> cc, u |-> u]
   IN
   CASE c0.pc = "setup.ublk" -> R("blksize", [Goto(c, "setup.rd") EXCEPT !.k = 0])
     [] c0.pc = "setup.rd"   -> R("read", Goto(c, "setup.wr"))                                              \* failure: memset, go on
     [] c0.pc = "setup.wr"   -> R("write", IF Eff("setup.wr", r) # 0 THEN Fin(c, 1) ELSE Goto(c, "setup.fl"))
     [] c0.pc = "setup.fl"   -> R("flush", IF Eff("setup.fl", r) # 0 THEN Fin(c, 1)
                                           ELSE IF c.k < 2 THEN [Goto(c, "setup.rd") EXCEPT !.k = @ + 1] ELSE Goto(c, "save"))
     [] c0.pc = "sv.uw"      -> R("write", IF Eff("sv.uw", r) # 0 THEN Fin(c, 1) ELSE Goto(c, "ix.key"))
     [] c0.pc = "ix.key"     -> R("write", IF Eff("ix.key", r) # 0                                          \* write_undo_indexes returns at once
                                           THEN (IF c.op = "close" THEN Failed(c, "cl.real") ELSE Fin(c, 1))
                                           ELSE Goto(c, "ix.sb1"))
     [] c0.pc = "ix.hdr"     -> R("write", IF Eff("ix.hdr", r) # 0 THEN Failed(c, "ix.sb2") ELSE Goto(c, "ix.sb"))
     [] c0.pc = "ix.sb"      -> R("write", IF Eff("ix.sb", r) # 0 THEN Failed(c, "ix.sb2") ELSE Goto(c, IF c.fl THEN "ix.ufl" ELSE "ix.sb2"))
     [] c0.pc = "ix.ufl"     -> R("flush", IF Eff("ix.ufl", r) # 0 THEN Failed(c, "ix.sb2") ELSE Goto(c, "ix.sb2"))
     [] c0.pc = "cl.ufile"   -> R("close", Fin(c, IF c.err # 0 \/ Eff("cl.ufile", r) # 0 THEN 1 ELSE c.rret))
     [] OTHER -> [ok |-> FALSE, c |-> c0, u |-> u0]
UCall(kind, r) == LET n == UNext(oc, ust, kind, r) IN n.ok /\ oc' = n.c /\ ust' = n.u /\ UNCHANGED <<vars, ores, ounrep>>
\* a call on U that the transcription does not name (a wrapper may flush or read its undo file more often): it changes nothing
\* here except that its failure, too, has to reach the caller.  Only the trace specification uses it.
UExtra(kind, r) ==
   /\ oc.pc \notin {"idle"} /\ kind \in {"flush", "read"} /\ ~UNext(oc, ust, kind, r).ok
   /\ oc' = [oc EXCEPT !.uerr = @ \/ (r # 0 /\ kind = "flush")]
   /\ ust' = [ust EXCEPT !.udirty = @ /\ ~(kind = "flush" /\ r = 0)]
   /\ UNCHANGED <<vars, ores, ounrep>>
\* the catalogue of fault positions of the conformance part: outer entry point x backing store hit first
OuterOps == {"read", "write", "wbyte", "zero", "discard", "flush", "close", "blksize", "cacheoff", "cacheon", "readahead"}
Stores == {"dev", "undo"}
FaultCells == {<<op, st>> : op \in OuterOps \ {"cacheon", "readahead"}, st \in Stores}
USites == {"setup.ublk", "setup.rd", "setup.wr", "setup.fl", "sv.uw", "ix.key", "ix.hdr", "ix.sb", "ix.ufl", "cl.ufile"}
RSites == {"rd.real", "save.rd", "ix.rd", "ap.write", "ap.wbyte", "ap.zero", "ap.discard", "fl.real", "cl.real", "bs.real",
           "ix.sb1", "ix.sb2", "opt.real", "ra.real"}

(* ------------------------------------------- the outer call returns ---------------------------------------- *)
\* r: the value the caller really got (the model checker: oc.ret, what the transcription computes)
OFinish(r) ==
   /\ oc.pc = "ret"
   /\ LET rep == r # 0 \/ oc.hbn > 0
          o == [op |-> OpClass(oc.op), rng |-> oc.rng, ret |-> r, F |-> oc.F, rep |-> rep,
                data |-> [g \in oc.rng |-> IF Len(oc.data) = Cardinality(oc.rng) THEN oc.data[g - First(oc.rng) + 1]
                                             ELSE IF oc.op \in {"zero", "discard"} THEN 0 ELSE UNK]]
          u1 == IO!UnrepAfter(o, ounrep) \/ (oc.uerr /\ r = 0)
      IN /\ ores' = [logical |-> IO!LogicalOK(o, oc.lg0, logical),
                     coherent |-> IO!CoherentOK(o, oc.lg0) /\ (oc.op = "read" => oc.rok),
                     durable |-> IO!DurableOK(o, logical, dev),
                     closed |-> ((oc.op = "close" /\ r = 0) => ~u1),
                     asspec |-> (r = oc.ret)]
         /\ ounrep' = u1
   /\ oc' = IdleOc
   /\ ust' = IF oc.op = "close" THEN FreshUst(InitBS) ELSE ust
   /\ UNCHANGED vars
\* undo_open: the real channel is opened underneath (every open starts a new undo file)
OOpen(wt, bounce, handler, align0, nocache0) ==
   /\ oc.pc = "idle" /\ Open(wt, bounce, handler, align0, nocache0)
   /\ ust' = FreshUst(InitBS) /\ UNCHANGED <<oc, ores, ounrep>>

SInit == oc = IdleOc /\ ust = FreshUst(InitBS) /\ ores = NoOres /\ ounrep = FALSE

(* --------------------------------------- properties at the wrapper's level --------------------------------- *)
OuterCoherent == ores.coherent                      \* a read through the wrapper returned the most recently written data
OuterDurable == ores.durable                        \* after a successful flush / close of the wrapper the device holds it
OuterLogical == ores.logical                        \* nothing but the call's own write changed the content (or the loss was reported)
OuterErrorReported == ~ounrep                       \* every failed device (or undo file) write was reported by the outer call that met it
OuterCloseClean == ores.closed
OuterRetAsSpecified == ores.asspec                  \* (refinement) the wrapper returned what the transcription of its entry point computes
=============================================================================
