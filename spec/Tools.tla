------------------------------- MODULE Tools -------------------------------
(***************************************************************************)
(* Contract of the two e2fsck invocations the properties C01 and C02 talk  *)
(* about, over what is observable from outside: the exit status, the       *)
(* problem log (-E problem_log=FILE: one record per fix_problem() call     *)
(* that is not a pass header) and the abstract state of the image          *)
(* (Ext4Abs, projected by the independent reader).                         *)
(*                                                                         *)
(*   FsckN : `e2fsck -fn img`  -> <<exit, problems>>, image unchanged (C13) *)
(*   FsckY : `e2fsck -fy img`  -> <<exit, problems>>, image repaired        *)
(*                                                                         *)
(* C02:  FsckN(st).exit = 0            => Consistent(st)                    *)
(* C01:  Success(FsckY(st0).exit)      => FsckN(st1).exit = 0 /\           *)
(*                                        FsckN(st1).problems = <<>>       *)
(* The design model Fsck.tla instantiates the same two predicates on a     *)
(* tiny filesystem; Trace_Tools.tla evaluates them on every observed run.  *)
(***************************************************************************)
EXTENDS Integers, Sequences

Bit(x, b) == (x \div b) % 2 = 1

\* exit status of e2fsck(8): 1 errors corrected, 2 reboot, 4 errors left uncorrected, 8 operational error,
\* 16 usage error, 32 cancelled, 128 shared library error.  A run killed by a signal or by the harness's
\* timeout is logged with exit = -1 and claims nothing.
Success(x) == /\ x >= 0 /\ x < 128
              /\ ~Bit(x, 4) /\ ~Bit(x, 8) /\ ~Bit(x, 16) /\ ~Bit(x, 32)

\* "reports no problem and exits 0"
FsckNClean(exit, problems) == exit = 0 /\ problems = <<>>

C01_Holds(exit1, exit2, problems2) == Success(exit1) => FsckNClean(exit2, problems2)

\* consistent is Ext4Abs!Consistent evaluated on the projection of the checked image
C02_Holds(exit, consistent) == exit = 0 => consistent

(***************************************************************************)
(* Designed tolerances: the 26 problem codes flagged PR_NO_OK in           *)
(* e2fsck/problem.c (answering "no" leaves the filesystem marked valid).   *)
(***************************************************************************)
NoOkCodes == {"0x000014", "0x00001a", "0x000031", "0x000032", "0x00003c", "0x00003d", "0x000043", "0x000046", "0x000047",
              "0x000048", "0x00004b", "0x010011", "0x010030", "0x010033", "0x010076", "0x01007f", "0x010082", "0x014006",
              "0x014007", "0x020024", "0x020027", "0x040001", "0x05000d", "0x05000f", "0x060001", "0x06000d"}

(***************************************************************************)
(* Named deviation (known finding of C02 on the pinned tree, DESIGN 3.5).  *)
(* e2fsck/unix.c main() calls ext2fs_mark_valid(fs) AFTER                  *)
(* check_super_block() / check_resize_inode() ("mark the system as valid,  *)
(* 'til proven otherwise"): every problem of the superblock stage (codes   *)
(* 0x00....) that was reported and left unfixed -- always the case under   *)
(* -n -- is forgotten when the exit status is assembled.  The literal      *)
(* behaviour: such a run exits 0 unless a later pass objects.  p0 is the   *)
(* sequence of superblock-stage problem codes in the run's problem log.    *)
(***************************************************************************)
Declined0(p0) == {p0[k] : k \in DOMAIN p0} \ NoOkCodes
Pass0VerdictForgotten(exit, p0) == exit = 0 /\ Declined0(p0) # {}
=============================================================================
