----------------------------- MODULE Emit_Tune -----------------------------
(* Writes the request universe of Tune.tla as JSON (IOEnv.OUT): {"all": [...], "structural": [...], "pair": [...], "triples": [[...], ...], "fieldpairs" / "allocseqs" / "extrapairs": [[a, b], ...], "catalogue": {"owners": {usr, grp, prj: [ids]}, "rows": [...], "variants": [...]}} *)
EXTENDS Tune, Json, IOUtils, SequencesExt
VARIABLE x
Univ == [all |-> SetToSeq(AllOps), structural |-> SetToSeq(StructuralOps), pair |-> SetToSeq(PairOps),
         triples |-> SetToSeq({SetToSeq(t) : t \in TripleSeeds}),
         fieldpairs |-> SetToSeq(FieldPairs), allocseqs |-> SetToSeq(AllocSeqs), extrapairs |-> SetToSeq(ExtraPairs),
         catalogue |-> [owners |-> CatalogueOwners, rows |-> SetToSeq(CatalogueRows), variants |-> SetToSeq(CatVariants)]]
ASSUME JsonSerialize(IOEnv.OUT, Univ)
Init == x = 0
Next == x' = x /\ UNCHANGED x
=============================================================================
