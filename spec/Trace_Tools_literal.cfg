\* conformance against the LITERAL behaviour of the pinned tree before fixes/C02_pass0_declined_exit.patch
SPECIFICATION TraceSpec
CONSTANTS
  DevPass0VerdictForgotten = TRUE
POSTCONDITION TraceAccepted
CHECK_DEADLOCK FALSE
