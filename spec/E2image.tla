------------------------------- MODULE E2image -------------------------------
(* C19 -- e2image images preserve all metadata and never touch the source.

   Part 1  block classes of an abstract filesystem, which of them the property calls metadata (MetaLive), the block
           discovery rule of misc/e2image.c:write_raw_image_file()/mark_table_blocks() transcribed class by class
           (Marks), and the contract of the four modes as predicates over an OBSERVATION (per class: number of blocks,
           blocks that are non-zero in the source, blocks whose image content differs from the source, blocks that are
           non-zero in the image).  The same predicates are evaluated on the model's images (Part 3) and on the
           observations logged from the real tool (Trace_E2image.tla).
   Part 2  the qcow2 writer of misc/e2image.c (initialize_qcow2_image, the refcount prologue, the per-block body of
           output_qcow2_meta_data_blocks with add_l2_item / update_refcount / get_free_table / flush_l2_cache,
           sync_refcount, L1 write) and the reader lib/ext2fs/qcow2.c:qcow2_write_raw_image, literally, in units of one
           cluster, including the file position the code relies on.
   Part 3  the state machine Init -> Discover -> Raw -> QInit -> QBlock* -> QFinish -> Convert -> Done over every small
           filesystem (class and zero/non-zero of every block, both marking modes) and the invariants.

   Part 4  the boundary catalogue of the conformance universe (filesystem sizes around the L2-table / refcount-block
           boundaries; blocks around the integer-width boundaries of the offset arithmetic), enumerated for the harness
           by Emit_E2image.tla.

   Offset arithmetic.  Every byte offset / index the writer and the reader compute is stated with the width of the C type
   it is evaluated in (W* below); the model holds offsets in clusters, Shl(c, w) is the cluster a byte offset c << CBits
   evaluated in w-bit unsigned arithmetic addresses.  With the widths of the code (64 bits wherever a position of the
   filesystem is computed) Shl is the identity on every filesystem; a narrower evaluation wraps filesystem positions
   at byte 2^w (MC_E2image_narrow_*.cfg: TLC must find the contract violation).

   Deviations of the pinned tree (DESIGN 3.5), literal behaviour kept behind constants:
     DevEaInodeDataSkipped   the blocks of an EA inode (values of large extended attributes) are walked with
                             process_file_block like a regular file, so a metadata image does not contain them
     DevL1VsVirtualSize      qcow2_write_raw_image skips an L1 entry whose L2 table lies at a FILE offset greater than
                             the VIRTUAL size of the image (the two are unrelated; a dense image is larger than the
                             filesystem), so the blocks mapped by that table are missing from the converted image
     DevLastByteZeroed       qcow2_write_raw_image "resizes" the output by writing one zero byte at image_size - 1 AFTER
                             the data was copied: when the last block of the filesystem is in the image its last byte is
                             overwritten (model: the content of block NB - 1 becomes the damaged value -2)                *)
EXTENDS Integers, Sequences, FiniteSets, TLC

CONSTANTS NB,            \* blocks of the model filesystem (virtual clusters of the qcow2 image); first data block = 0
          L2N,           \* entries of one L2 table            (real: cluster_size / 8)
          RPB,           \* entries of one refcount block      (real: cluster_size / 2)
          CacheN,        \* L2 tables the writer keeps in memory (real: min(l1_size, L2_CACHE_PREALLOC = 512))
          MClasses,      \* classes the model filesystem draws from (the writer only sees marked / not marked, zero / non-zero)
          AllModes,      \* values of the -a flag explored
          DevEaInodeDataSkipped, DevL1VsVirtualSize, DevLastByteZeroed

-----------------------------------------------------------------------------
(* Part 1: classes, metadata, discovery, contract *)

Classes == {"sb", "gdt", "rsvgdt", "bbm", "ibm", "itab", "mmp",                 \* primary fixed metadata
            "bsb", "bgdt", "brsvgdt",                                              \* backups (brsvgdt = the data blocks of the resize inode)
            "bbm_un", "ibm_un", "itab_un",                                         \* declared uninitialised by the group flags / bg_itable_unused
            "dirdata", "dirmap",                                                   \* directory blocks; extent index/leaf and (d/t)ind blocks of directories
            "filemap",                                                             \* extent index/leaf, indirect, double, triple indirect blocks of files and symlinks
            "xattr", "eadata", "eamap",                                            \* i_file_acl blocks; data / map blocks of EA inodes
            "journal", "quota", "orphan", "sysmap",                                \* blocks of the journal, quota, orphan-file inodes and their map blocks
            "resizemap",                                                           \* double indirect block of the resize inode
            "symlink", "filedata",                                                 \* slow symlink target; regular file data
            "mate",                                                                \* bigalloc: unowned block sharing a cluster with a copied block
            "free", "boot", "unknown"}

\* what the property calls metadata ("every metadata block is byte-identical"); the reserved GDT blocks are the indirect
\* blocks of the resize inode
MetaLive == {"sb", "gdt", "rsvgdt", "bbm", "ibm", "itab", "mmp", "dirdata", "dirmap", "filemap", "xattr", "eadata", "eamap",
             "journal", "quota", "orphan", "sysmap", "resizemap", "symlink"}
Backups  == {"bsb", "bgdt", "brsvgdt"}
Uninit   == {"bbm_un", "ibm_un", "itab_un"}
Unowned  == {"free", "boot", "mate", "unknown"}
\* "blocks no file or primary metadata owns (backup superblocks/descriptors, free space)": everything else must survive -ra
OwnedLive == Classes \ (Backups \cup Uninit \cup Unowned)

\* who reaches a block of the class, and how (kind of the owner, neg = the iterator reports it with blockcnt < 0)
Owner == [c \in Classes |->
    CASE c \in {"sb", "gdt", "bbm", "ibm", "itab", "mmp"} -> [kind |-> "table",  neg |-> FALSE]     \* mark_table_blocks
      [] c \in {"bsb", "bgdt"}                            -> [kind |-> "backup", neg |-> FALSE]     \* only with -b
      [] c \in Uninit                                     -> [kind |-> "uninit", neg |-> FALSE]     \* skipped by mark_table_blocks
      [] c = "rsvgdt"                                     -> [kind |-> "reg",    neg |-> TRUE]      \* resize inode: i_block[DIND] set, indirect level
      [] c = "resizemap"                                  -> [kind |-> "reg",    neg |-> TRUE]
      [] c = "brsvgdt"                                    -> [kind |-> "reg",    neg |-> FALSE]
      [] c = "dirdata"                                    -> [kind |-> "dir",    neg |-> FALSE]
      [] c = "dirmap"                                     -> [kind |-> "dir",    neg |-> TRUE]
      [] c = "symlink"                                    -> [kind |-> "lnk",    neg |-> FALSE]
      [] c = "filemap"                                    -> [kind |-> "reg",    neg |-> TRUE]
      [] c = "filedata"                                   -> [kind |-> "reg",    neg |-> FALSE]
      [] c = "xattr"                                      -> [kind |-> "acl",    neg |-> FALSE]
      [] c = "eadata"                                     -> [kind |-> "ea",     neg |-> FALSE]
      [] c = "eamap"                                      -> [kind |-> "ea",     neg |-> TRUE]
      [] c \in {"journal", "quota", "orphan"}             -> [kind |-> "sys",    neg |-> FALSE]
      [] c = "sysmap"                                     -> [kind |-> "sys",    neg |-> TRUE]
      [] OTHER                                            -> [kind |-> "none",   neg |-> FALSE]]

\* write_raw_image_file(): is a block of class c put into meta_block_map?   (all = the -a flag)
Marks(c, all) ==
    LET o == Owner[c] IN
    CASE o.kind = "table"                -> TRUE
      [] o.kind = "acl"                  -> TRUE                       \* ext2fs_file_acl_block() of every inode with links
      [] o.kind \in {"dir", "lnk", "sys"} -> TRUE                      \* process_dir_block marks every block it is shown
      [] o.kind = "reg"                  -> o.neg \/ all               \* process_file_block: blockcnt < 0 || all_data
      [] o.kind = "ea"                   -> IF DevEaInodeDataSkipped THEN o.neg \/ all ELSE TRUE
      [] OTHER                           -> FALSE
MarkedClasses(all) == {c \in Classes : Marks(c, all)}

\* design-level obligations of the discovery rule (checked by TLC as invariants of the model, Part 3)
DiscoveryCoversMetadata == MetaLive \subseteq MarkedClasses(FALSE)
DiscoveryCoversOwned    == OwnedLive \subseteq MarkedClasses(TRUE)
DiscoveryLeaksNoData    == "filedata" \notin MarkedClasses(FALSE) /\ MarkedClasses(FALSE) \cap (Unowned \cup Backups \cup Uninit) = {}
                           /\ MarkedClasses(TRUE) \cap Unowned = {}

\* ---- observations.  o.cls[c] = [n, srcnz, diff, imgnz] (records indexed by class name)
Cnt(o, c) == o.cls[c]
\* the property: every metadata block is byte-identical
MetaPreserved(o) == \A c \in MetaLive : Cnt(o, c).diff = 0
\* the contract of a metadata image: every marked block is copied; it is a METADATA image, so file contents and free space
\* read as zero (backups, blocks declared uninitialised, the boot block and bigalloc cluster mates are left unconstrained:
\* the property does not speak about them)
MustBeAbsent == {"filedata", "free"}
MetaImagePost(o) == \A c \in Classes :
                       /\ Marks(c, FALSE) => Cnt(o, c).diff = 0
                       /\ c \in MustBeAbsent => Cnt(o, c).imgnz = 0
\* the contract of an all-data image: differs from the source only in blocks no file or primary metadata owns
AllDataPost(o)   == \A c \in OwnedLive : Cnt(o, c).diff = 0
FailedClasses(o, all) == {c \in Classes : Marks(c, all) /\ Cnt(o, c).diff # 0}
                         \cup (IF all THEN {} ELSE {c \in MustBeAbsent : Cnt(o, c).imgnz # 0})
                         \cup {c \in (IF all THEN OwnedLive ELSE MetaLive) : Cnt(o, c).diff # 0}

-----------------------------------------------------------------------------
(* Part 2: the qcow2 writer and reader, in clusters.  A cluster of the file holds one tagged value. *)

\* ---- widths.  CBits = log2(cluster size in bytes) (the model's clusters are 2 bytes; conformance runs substitute the real
\* value).  W* = width in bits of the C type in which the code evaluates the computation (definitions, so that a
\* configuration can substitute a narrower evaluation: CONSTANT WOffOut <- Narrow32).
CBits    == 1
WSrcPos  == 64      \* unix_io raw_read_blk():      location = (ext2_loff_t) block * channel->block_size  (position read in the source)
WRawPos  == 64      \* output_meta_data_blocks():   position of block b in the raw file = b * blocksize, kept as the file position
                    \*                              (ext2_loff_t) and advanced by relative seeks of at most 1 MiB + blocksize (int sparse)
WVirt    == 64      \* initialize_qcow2_image():    total_size = ext2fs_blocks_count(sb) << cluster_bits  (blk64_t; header.size be64)
WOffOut  == 64      \* qcow2_write_raw_image():     off_out = ((__u64) l1_index * l2_size + l2_index) << cluster_bits
\* not modelled with a width because no boundary is reachable in the universe (stated for the catalogue): add_l2_item()
\* l1_index = blk / l2_size, l2_index = blk & (l2_size - 1) on blk64_t (block numbers >= 2^31 need a 2 TiB filesystem);
\* file offsets of the qcow2 file (blk64_t offset, be64 L1 / L2 / refcount-table entries, __u64 off_in; __u32 table_index
\* = offset >> (2 * cluster_bits - 1)) reach 2^31 only for an image holding 2 GiB of non-zero blocks
Narrow32 == CBits + 2                                  \* a 32-bit evaluation scaled to the model: wraps after 4 clusters
\* cluster addressed by the byte offset (c << CBits) evaluated in w-bit unsigned arithmetic (it stays cluster aligned);
\* every quantity of the model and of the universe is below 2^31, a width the integers cannot reach is the identity
Shl(c, w) == IF w - CBits >= 31 THEN c ELSE c % (2 ^ (w - CBits))

Blocks  == 0 .. NB - 1
VirtSize == Shl(NB, WVirt)                             \* total_size, in clusters
L1N     == (VirtSize + L2N - 1) \div L2N             \* l1_size = (total_size + (1 << shift) - 1) >> shift
L1C     == (L1N + L2N - 1) \div L2N                  \* clusters of the L1 table: align_offset(l1_size * sizeof(blk64_t), cluster_size)
MaxC    == 3 * NB + 12 + L1C                           \* clusters the model file can grow to (invariant FileFits)
Clus    == 0 .. MaxC
None    == [t |-> "none", v |-> 0, d |-> <<>>]
Tag(t, v, d) == [t |-> t, v |-> v, d |-> d]

\* fixed layout of initialize_qcow2_image(): header | L1 | refcount table | (one cluster skipped) | first L2 | first refcount block
L1Off   == 1
RtOff   == L1Off + L1C                                 \* the refcount table takes one cluster (checked by the harness on real files)
L2Off0  == RtOff + 1 + 1                               \* offset += cluster_size; offset += refcount_table_clusters << cluster_bits
RbOff0  == L2Off0 + 1

ZeroL2  == [i \in 0 .. L2N - 1 |-> 0]
ZeroRb  == [i \in 0 .. RPB - 1 |-> 0]

\* generic_write(fd, ...) at the current file position; a cluster must never be written twice
WriteAt(q, c, tag) == [q EXCEPT !.file[c] = tag, !.pos = c + 1,
                                !.clobber = q.clobber \/ q.file[c].t # "none"]

\* update_refcount(fd, img, offset, rfblk_pos): returns the new state and whether a refcount block was started
UpdRef(q, off, rfpos) ==
    LET ti == off \div RPB IN                           \* offset >> (2 * cluster_bits - 1)
    IF ti # q.rtidx
    THEN LET q1 == WriteAt(q, q.rboff, Tag("rb", q.rtidx, q.rb))        \* seek_set(refcount_block_offset); write; (position NOT restored)
             q2 == [q1 EXCEPT !.rt = [q1.rt EXCEPT ![q.rtidx] = q.rboff],
                              !.rboff = rfpos, !.rtidx = ti,
                              !.rb = [ZeroRb EXCEPT ![0] = 1], !.rbidx = 1]
         IN [q |-> q2, new |-> TRUE]
    ELSE [q |-> [q EXCEPT !.rb = [q.rb EXCEPT ![q.rbidx] = 1], !.rbidx = q.rbidx + 1,
                          !.rboverflow = q.rboverflow \/ q.rbidx >= RPB],
          new |-> FALSE]

\* flush_l2_cache(): write every table in use at its offset, restore the position
FlushL2(q) ==
    LET RECURSIVE W(_, _)
        W(qq, k) == IF k > Len(q.used) THEN qq
                    ELSE W(WriteAt(qq, q.used[k].off, Tag("l2", q.used[k].l1i, q.used[k].data)), k + 1)
        q1 == W(q, 1)
    IN [q1 EXCEPT !.used = <<>>, !.pos = q.pos]

\* add_l2_item(img, blk, data, next)
AddL2(q, blk, data, next) ==
    LET l1i == blk \div L2N
        l2i == blk % L2N                                \* blk & (l2_size - 1)
        n   == Len(q.used)
    IN IF n = 0 \/ q.used[n].l1i # l1i
       THEN LET q0 == IF n = CacheN THEN FlushL2(q) ELSE q             \* get_free_table: 0 == cache->free
                tb == [l1i |-> l1i, off |-> q0.nextoff, data |-> [ZeroL2 EXCEPT ![l2i] = data]]
            IN [q |-> [q0 EXCEPT !.used = Append(q0.used, tb), !.nextoff = next,
                                 !.l1 = [q0.l1 EXCEPT ![l1i] = q0.nextoff]],
                new |-> TRUE]
       ELSE [q |-> [q EXCEPT !.used[n].data[l2i] = data], new |-> FALSE]

QState0 == [pos |-> 0, offset |-> 0, file |-> [c \in Clus |-> None], l1 |-> [i \in 0 .. L1N - 1 |-> 0],
            used |-> <<>>, nextoff |-> L2Off0, rt |-> [i \in 0 .. (MaxC \div RPB) + 1 |-> 0], rtidx |-> 0, rbidx |-> 0,
            rb |-> ZeroRb, rboff |-> RbOff0, clobber |-> FALSE, misplaced |-> FALSE, rboverflow |-> FALSE, experr |-> FALSE]

\* write_header(); "Refcount all qcow2 related metadata up to refcount_block_offset"
QPrologue ==
    LET q0 == WriteAt(QState0, 0, Tag("hdr", NB, <<>>))
        RECURSIVE Loop(_, _, _, _)
        Loop(q, off, end, blk) ==
            IF off > end THEN [q EXCEPT !.offset = off, !.pos = off]              \* seek_set(fd, offset)
            ELSE LET r == UpdRef(q, off, blk) IN
                 IF r.new THEN Loop(r.q, off + 1, end + 1, blk + 1) ELSE Loop(r.q, off + 1, end, blk)
    IN Loop([q0 EXCEPT !.pos = RbOff0], 0, RbOff0, RbOff0 + 1)

\* body of the block loop for one block that is marked and not all zero
QBlockStep(q, blk, content) ==
    LET r1 == UpdRef(q, q.offset, q.offset)
        \* a refcount block was started at `offset`: the entry just made refcounts that block itself; move on and refcount the data cluster
        qa == IF r1.new
              THEN LET r2 == UpdRef([r1.q EXCEPT !.offset = q.offset + 1, !.pos = q.offset + 1], q.offset + 1, q.offset + 1)
                   IN [r2.q EXCEPT !.experr = r2.q.experr \/ r2.new]
              ELSE r1.q
        qb == [WriteAt(qa, qa.pos, Tag("data", content, <<blk>>)) EXCEPT !.misplaced = qa.misplaced \/ qa.pos # qa.offset]
        r3 == AddL2(qb, blk, qa.offset, qa.offset + 1)
    IN IF r3.new
       THEN LET o1 == qa.offset + 1
                r4 == UpdRef(r3.q, o1, o1 + 1)                                   \* refcount the cluster reserved for the next L2 table
                qc == IF r4.new
                      THEN LET r5 == UpdRef(r4.q, o1 + 1, o1 + 1) IN [r5.q EXCEPT !.experr = r5.q.experr \/ r5.new, !.offset = o1 + 2, !.pos = o1 + 2]
                      ELSE [r4.q EXCEPT !.offset = o1 + 1, !.pos = o1 + 1]
            IN qc
       ELSE [r3.q EXCEPT !.offset = qa.offset + 1]

\* after the loop: one more update_refcount, flush_l2_cache, sync_refcount, L1 table
QEpilogue(q) ==
    LET r  == UpdRef(q, q.offset, q.offset)
        q1 == IF Len(r.q.used) > 0 THEN FlushL2(r.q) ELSE [r.q EXCEPT !.experr = TRUE]      \* assert(table) in flush_l2_cache
        q2 == [q1 EXCEPT !.rt = [q1.rt EXCEPT ![q1.rtidx] = q1.rboff]]
        q3 == WriteAt(q2, RtOff, Tag("rt", 0, q2.rt))
        q4 == WriteAt(q3, q3.rboff, Tag("rb", q3.rtidx, q3.rb))
        q5 == WriteAt(q4, L1Off, Tag("l1", 0, q4.l1))                                        \* the whole table is held by its first cluster,
        RECURSIVE Rest(_, _)                                                                 \* the clusters it continues into are only occupied
        Rest(qq, k) == IF k >= L1C THEN qq ELSE Rest(WriteAt(qq, L1Off + k, Tag("l1x", k, <<>>)), k + 1)
    IN Rest(q5, 1)

\* clusters the finished file uses, and the refcount the file records for a cluster
UsedClusters(f) == {c \in Clus : f[c].t # "none"}
FileSize(f)     == IF UsedClusters(f) = {} THEN 0 ELSE 1 + CHOOSE c \in UsedClusters(f) : \A d \in UsedClusters(f) : d <= c
RefOf(f, c)     == LET rt == f[RtOff].d
                       rbc == rt[c \div RPB]
                   IN IF rbc = 0 \/ f[rbc].t # "rb" THEN 0 ELSE f[rbc].d[c % RPB]
\* the qcow2 mapping of a virtual cluster: L1 -> L2 -> data cluster (0 = unmapped, -1 = a table pointer leads to something else)
Lookup(f, b)    == LET l2c == f[L1Off].d[b \div L2N] IN
                   IF l2c = 0 THEN 0
                   ELSE IF f[l2c].t # "l2" THEN -1
                   ELSE f[l2c].d[b % L2N]

\* a file written piecewise: W = set of writes [pos, ord, val] (cluster position, order of the write, content); the last
\* write to a position wins.  The result is a function on the positions written (everything else is a hole).
Overlay(W) == [p \in {w.pos : w \in W} |->
                 (CHOOSE w \in W : w.pos = p /\ \A x \in W : x.pos = p => x.ord <= w.ord).val]
Dense(sp)  == [b \in Blocks |-> IF b \in DOMAIN sp THEN sp[b] ELSE 0]

\* qcow2_write_raw_image(): walk L1, skip entries that are zero or "beyond the image", walk every L2 table read and copy
\* each mapped cluster to  off_out = ((__u64) l1_index * l2_size + l2_index) << cluster_bits  of the output
ConvWrites(f) ==
    LET l1 == f[L1Off].d
        fsz == FileSize(f)
        Skipped(i) == l1[i] = 0 \/ (IF DevL1VsVirtualSize THEN l1[i] > NB ELSE l1[i] >= fsz)
        tabs == {i \in DOMAIN l1 : ~Skipped(i) /\ f[l1[i]].t = "l2"}
    IN UNION {{[pos |-> Shl(i * L2N + j, WOffOut), ord |-> i * L2N + j,
                val |-> LET e == f[l1[i]].d[j] IN IF f[e].t = "data" THEN f[e].v ELSE -1]
               : j \in {j \in 0 .. L2N - 1 : f[l1[i]].d[j] # 0}} : i \in tabs}
ConvFile(f) == Overlay(ConvWrites(f))
Convert(f) ==
    LET copied == Dense(ConvFile(f))
    IN \* "Resize the output image to the filesystem size": one zero byte written at image_size - 1
       IF DevLastByteZeroed /\ copied[NB - 1] > 0 THEN [copied EXCEPT ![NB - 1] = -2] ELSE copied

-----------------------------------------------------------------------------
(* Part 3: the model *)

VARIABLES phase,      \* "init" -> "disc" -> "raw" -> "qinit" -> "qblk" -> "qfin" -> "conv" -> "done"
          cls,        \* class of every block
          src,        \* content of every block: 0 = all zero, b + 1 = the bytes of block b
          all,        \* -a
          marked,     \* meta_block_map
          raw,        \* the -r image
          q,          \* writer state
          nb,         \* next block of the qcow2 block loop
          conv        \* the image converted back from qcow2
vars == <<phase, cls, src, all, marked, raw, q, nb, conv>>

\* block 0 is the primary superblock (marked, non-zero): the writer asserts that at least one block was written
Init == /\ phase = "init"
        /\ cls \in {f \in [Blocks -> MClasses \cup {"sb"}] : f[0] = "sb" /\ \A b \in Blocks \ {0} : f[b] # "sb"}
        /\ src \in {f \in [Blocks -> {0, 1}] : f[0] = 1}
        /\ all \in AllModes
        /\ marked = {} /\ raw = <<>> /\ q = QState0 /\ nb = 0 /\ conv = <<>>

Content(b) == IF src[b] = 0 THEN 0 ELSE b + 1
\* io_channel_read_blk64(fs->io, blk, 1, buf): what the tool holds after reading block b of the source
Read(b)    == Content(Shl(b, WSrcPos))

Discover == /\ phase = "init" /\ phase' = "disc"
            /\ marked' = {b \in Blocks : Marks(cls[b], all)}
            /\ UNCHANGED <<cls, src, all, raw, q, nb, conv>>
\* output_meta_data_blocks(): marked blocks copied in ascending order, each at position b * blocksize of the output (a zero
\* block is a hole: E2IMAGE_CHECK_ZERO_FLAG on a new file), holes elsewhere
RawWrites(M) == {[pos |-> Shl(b, WRawPos), ord |-> b, val |-> Read(b)] : b \in {x \in M : Read(x) # 0}}
RawFile(M)   == Overlay(RawWrites(M))
Raw == /\ phase = "disc" /\ phase' = "raw"
       /\ raw' = Dense(RawFile(marked))
       /\ UNCHANGED <<cls, src, all, marked, q, nb, conv>>
QInit == /\ phase = "raw" /\ phase' = "qblk"
         /\ q' = QPrologue /\ nb' = 0
         /\ UNCHANGED <<cls, src, all, marked, raw, conv>>
QBlock == /\ phase = "qblk" /\ nb < NB
          /\ q' = IF nb \in marked /\ Read(nb) # 0 THEN QBlockStep(q, nb, Read(nb)) ELSE q      \* check_zero_block(): continue
          /\ nb' = nb + 1
          /\ UNCHANGED <<phase, cls, src, all, marked, raw, conv>>
QFinish == /\ phase = "qblk" /\ nb = NB /\ phase' = "conv"
           /\ q' = QEpilogue(q)
           /\ UNCHANGED <<cls, src, all, marked, raw, nb, conv>>
ConvertBack == /\ phase = "conv" /\ phase' = "done"
               /\ conv' = Convert(q.file)
               /\ UNCHANGED <<cls, src, all, marked, raw, q, nb>>
Next == Discover \/ Raw \/ QInit \/ QBlock \/ QFinish \/ ConvertBack
Spec == Init /\ [][Next]_vars

\* ---- observation of a model image, in the shape the harness logs
Obs(img) == [cls |-> [c \in Classes |->
               LET B == {b \in Blocks : cls[b] = c} IN
               [n |-> Cardinality(B), srcnz |-> Cardinality({b \in B : src[b] # 0}),
                diff |-> Cardinality({b \in B : img[b] # Content(b)}), imgnz |-> Cardinality({b \in B : img[b] # 0})]]]

\* ---- invariants
TypeOK == phase \in {"init", "disc", "raw", "qblk", "conv", "done"}
\* (a) discovery
DiscoveryOK == DiscoveryCoversMetadata /\ DiscoveryCoversOwned /\ DiscoveryLeaksNoData
\* (b) the raw image satisfies the contract of its mode
RawContract == phase \notin {"init", "disc"} =>
                  IF all THEN AllDataPost(Obs(raw)) ELSE MetaImagePost(Obs(raw)) /\ MetaPreserved(Obs(raw))
\* (c) the writer never writes a cluster twice, always writes data where it recorded it, never overruns a refcount block,
\*     never hits its own "Programming error" exits, and the file stays inside the bound of the model
WriterSane == /\ ~q.clobber /\ ~q.misplaced /\ ~q.rboverflow /\ ~q.experr
              /\ (phase = "qblk" => q.pos = q.offset)
              /\ q.offset < MaxC - 3
\* (d) the finished file: mapping exact, every used cluster refcounted exactly once through the refcount table
Finished == phase \in {"conv", "done"}
MapExact == Finished => \A b \in Blocks :
               LET m == Lookup(q.file, b) IN
               IF b \in marked /\ src[b] # 0 THEN m > 0 /\ q.file[m].t = "data" /\ q.file[m].v = Content(b) /\ q.file[m].d = <<b>>
               ELSE m = 0
RefcountExact == Finished => \A c \in UsedClusters(q.file) : RefOf(q.file, c) = 1
L2TablesDistinct == Finished => \A i, j \in {k \in 0 .. L1N - 1 : q.l1[k] # 0} : i # j => q.l1[i] # q.l1[j]
\* (e) converting the qcow2 image back gives the directly produced raw image
ConvertEqualsRaw == phase = "done" => conv = raw
\* with DevL1VsVirtualSize the only divergence allowed is the named one: whole L2 tables lying beyond the virtual size are dropped
ConvertEqualsRawOrDev ==
    phase = "done" => \A b \in Blocks :
        \/ conv[b] = raw[b]
        \/ (DevL1VsVirtualSize /\ q.l1[b \div L2N] > NB /\ conv[b] = 0)
        \/ (DevLastByteZeroed /\ b = NB - 1 /\ conv[b] = -2)
DevReachable == ~(phase = "done" /\ conv # raw)          \* expected to be VIOLATED when a Dev* constant of the reader is TRUE (shows the deviation is reachable)

-----------------------------------------------------------------------------
(* Part 4: the boundary catalogue of the conformance universe (Emit_E2image.tla hands it to the harness).

   (a) filesystem sizes <<block size, blocks>> on / next to the L2-table boundaries (cluster_size / 8 blocks per table: 128
       at 1 KiB, 256 at 2 KiB, 512 at 4 KiB) and the group boundary, per-group bitmaps, so that the tables of the last
       group are the last mapped clusters;
   (b) integer-width boundaries: a position of the filesystem computed in a C type narrower than 64 bits (int, unsigned,
       long on ILP32, __u32) changes sign at byte 2^31 and wraps at byte 2^32.  For every block size of Wide* the universe
       holds filesystems larger than 2^32 bytes with non-zero metadata in the block just below, at and just above these
       byte offsets (WidthTargets), of two kinds:
         "dense"  every group has an initialised block bitmap (no uninit_bg): metadata all along the way, targets at both
                  byte offsets;
         "hole"   metadata_csum with uninitialised groups, metadata only in the first group and around byte 2^32: the image
                  has a hole of at least 2^31 bytes between two consecutive imaged blocks (HoleMin).  The raw writer
                  crosses holes with relative seeks whose distance it accumulates in an int (flushed every MiB), the
                  reader of the qcow2 image and the reads of the sparse source cross the same distance.
       The layout trace requires the source to realise this (Covers, CoversHole).
       Block NUMBERS 2^31 / 2^32 (a 2 TiB filesystem at 1 KiB blocks) and qcow2 FILE offsets 2^31 / 2^32 (2 GiB of imaged
       blocks) are not reached.                                                                                        *)
SizesQuick == {<<1024, n>> : n \in {1280, 1281, 1343, 1407, 1408, 1409}} \cup {<<4096, n>> : n \in {2048, 2049, 2559, 2560, 2561}}
SizesMore  == {<<1024, n>> : n \in {1100, 1151, 1152, 1153, 1279, 1344, 1345, 1535, 1536, 1537, 2047, 2048, 2049, 2175, 2176, 2177}}
              \cup {<<4096, n>> : n \in {2100, 2303, 2304, 2305, 3071, 3072, 3073}} \cup {<<2048, n>> : n \in {2048, 2303, 2304, 2305}}
WidthBoundaryBits == {31, 32}
TargetsAt(W, cb)  == {2 ^ (w - cb) + d : w \in W, d \in {-1, 0, 1}}                         \* block numbers, cluster size 2^cb
WidthTargets(cb)  == TargetsAt(WidthBoundaryBits, cb)
WideBlocks(cb)    == 2 ^ (32 - cb) + 2 ^ (32 - cb) \div 16                                   \* 4.25 GiB: two more groups beyond byte 2^32
HoleMin(cb)       == 2 ^ (31 - cb)                                                           \* blocks of a hole of 2^31 bytes
WideKinds         == {"dense", "hole"}
WideTargets(kind, cb) == IF kind = "dense" THEN WidthTargets(cb) ELSE TargetsAt({32}, cb)
WideHole(kind, cb)    == IF kind = "hole" THEN HoleMin(cb) ELSE 0
WideQuick == {12}                                                                            \* log2 of the block sizes: 4 KiB
WideMore  == {10}                                                                            \*                          1 KiB
=============================================================================
