------------------------------- MODULE Jbd2 -------------------------------
(* C03 -- JBD2 journal replay.

   (1) Format-level GENERATOR of journals (WriteTxn / Checkpoint / Damage): "any mix" of descriptor, data,
       revoke and commit blocks on a ring of L log blocks, any prefix of a transaction reaching the disk, any
       block of a live transaction missing / stale / wrongly sequenced / checksum-invalid.  The generator keeps
       its own HISTORY (hist): which transactions it appended since the tail and which of them it left
       complete and undamaged.
   (2) The PROPERTY: Final(fs, hist) -- every block equals its image in the last transaction of the valid
       prefix that logged it unless a revoke record of that or a later transaction of the valid prefix cancels
       it.  Final is computed from the history, never from the log.  "Afterwards the journal is empty":
       JsbAfterOf(hist, jsb) -- s_start = 0 and s_sequence one past the transaction the valid prefix ends in
       front of, so that no block left in the ring can be taken for a transaction of the next life of the log
       (spec/Jbd2Gen.tla explores that next life).  Both front-ends must leave exactly this superblock.
   (3) RECOVER: transcription of e2fsck/recovery.c jbd2_journal_recover / do_one_pass (three passes, exact stop
       conditions, checksum schemes none / COMPAT_CHECKSUM (v1) / CSUM_V2 / CSUM_V3 abstracted to ok-bits and
       content identities, async commit, commit-time rule, wrap), and of the front-ends' journal release.

   All operators of (2) and (3) take the configuration, the log and the journal superblock as arguments so that
   Trace_Jbd2 can evaluate them on journals read from a trace; the generator binds them to the constants.

   Named deviations (DESIGN 3.5): TRUE = what the pinned code does, FALSE = what the property asks for.
     DevReplayPastBadTag   a data block whose tag checksum fails is skipped, the rest of that transaction and all
                           later transactions are still replayed (recovery.c verifies tag checksums in PASS_REPLAY only)
     DevScanAbort          a descriptor/revoke block with a bad checksum followed by a commit block whose time is
                           not older makes PASS_SCAN fail: nothing at all is replayed, the committed transactions
                           before it are lost when the front-end then empties the journal
     DevAsyncLastBadCommit with ASYNC_COMMIT and checksum v2/v3 every later commit-checksum failure overwrites
                           end_transaction, so transactions whose own commit block failed are replayed
     DevCommitBreakContinues the two `break` statements that give up on a failed commit block only leave the switch:
                           the scan goes on with the next log block and the same expected ID; when that block belongs
                           to the same transaction again (a transaction filling the whole ring) PASS_SCAN never ends
     DevTidZeroUnset       info->end_transaction = 0 doubles as "the end of the log is not known yet": when the transaction
                           whose commit block fails its checksum has the tid 0 (the tids wrapped), `end_transaction =
                           next_commit_ID' leaves the end unknown; with ASYNC_COMMIT the scan goes on and that transaction
                           (and those behind it) are replayed.  A DEFINITION (default TRUE), not a constant: Jbd2 is
                           instantiated by Trace_JournalRun (C04) with an explicit constant list; the property-conforming
                           model overrides it in the cfg (DevTidZeroUnset <- PropertyConforming).

   Transaction identifiers are 32-bit and wrap: see the section "transaction identifiers" below (offsets from a
   per-journal base, comparison = sign of the difference modulo 2^32). *)
EXTENDS Naturals, Integers, Sequences, FiniteSets, TLC

CONSTANTS L,            \* ring length (log positions 1..L)
          Blocks,       \* target filesystem blocks (a set of positive integers)
          MaxTxn, MaxTags, MaxDmg,
          Csum,         \* 0 none, 1 COMPAT_CHECKSUM, 2 CSUM_V2, 3 CSUM_V3
          Async,        \* 0 / 1
          EscSet,       \* subset of {0,1}: escape flags the generator uses
          OldTime,      \* 0 / 1: generator may give a transaction a commit time older than its predecessor
          DevReplayPastBadTag, DevScanAbort, DevAsyncLastBadCommit, DevCommitBreakContinues

VARIABLES jc,       \* configuration the recovery code reads from the journal superblock: [L, csum, async, tb] (= CC in the generator)
          log,      \* [1..L -> block record]
          head,     \* next log position the writer will use
          nseq,     \* next transaction sequence number
          jsb,      \* [start |-> 0..L, seq |-> tid offset]      start = 0: journal empty
          nr,       \* needs_recovery flag of the filesystem superblock (0/1)
          fs,       \* [Blocks -> version]   (0 = original content)
          hist,     \* ground truth: transactions appended since the tail
          ver,      \* fresh version counter
          ndmg,     \* damages applied so far
          phase,    \* "run" | "dmg" | "done"
          res       \* observation of the last Recover: [err, end, devs, reason]
vars == <<jc, log, head, nseq, jsb, nr, fs, hist, ver, ndmg, phase, res>>

GARBAGE == -1       \* content of a log block that is not a data block / of a target block holding anything else
BADCS   == -2       \* a tag checksum field that matches no block
STALEV  == 9000     \* version numbers of data blocks from an earlier life of the log
Junk == [t |-> "junk"]
SeqToSet(s) == {s[i] : i \in 1..Len(s)}
Max(S) == CHOOSE m \in S : \A x \in S : x <= m
Min(S) == CHOOSE m \in S : \A x \in S : m <= x

\* ------------------------------------------------------------------------------------------------
\* ring arithmetic: wrap(journal, var): if (var >= last) var -= last - first, with first = 1, last = L + 1
WrapL(LL, p) == IF p > LL THEN p - LL ELSE p
AdvL(LL, p, n) == ((p - 1 + n) % LL) + 1

\* ------------------------------------------------------------------------------------------------
\* transaction identifiers.  tid_t is an unsigned 32-bit integer that wraps around (next_commit_ID++ goes from
\* 0xffffffff to 0).  Two tids are ORDERED BY THE SIGN OF THEIR DIFFERENCE MODULO 2^32 (kernel-jbd.h tid_gt / tid_geq:
\* `int difference = (x - y); return difference > 0' / `>= 0'); equality is equality of the 32-bit values.
\* TLC integers are 32-bit, so a tid is written as a small integer OFFSET (|offset| < 2^30) from a per-journal base
\* C.tb = [hi, lo] (two 16-bit halves): the tid on disk is (tb + offset) mod 2^32 = Conc(C, offset).  Every record of the
\* log, the journal superblock and the history carry offsets; the base is part of the concretisation (gen/jbd2write.py
\* adds it, what is read back from an image is compared with Conc).  The generator numbers consecutive transactions
\* with consecutive offsets whatever the base, so the log runs over 0xffffffff -> 0 (and over 0x7fffffff -> 0x80000000,
\* where comparing the values themselves as signed integers breaks) wherever the base puts that boundary.
\* A configuration record without the field tb has base 0: offsets are the tids themselves.
H16 == 65536
Zero32 == [hi |-> 0, lo |-> 0]
TbOf(C) == IF "tb" \in DOMAIN C THEN [hi |-> C.tb.hi, lo |-> C.tb.lo] ELSE Zero32
Of32(x) == [hi |-> (x \div H16) % H16, lo |-> x % H16]                       \* x mod 2^32 (\div rounds down, % is non-negative)
Add32(a, x) == LET s == a.lo + x IN [hi |-> (a.hi + (s \div H16)) % H16, lo |-> s % H16]      \* (a + x) mod 2^32
Sub32(a, b) == LET d == a.lo - b.lo IN [hi |-> (a.hi - b.hi + (d \div H16)) % H16, lo |-> d % H16]   \* (a - b) mod 2^32
Sgn32(d) == IF d.hi >= 32768 THEN -1 ELSE IF d = Zero32 THEN 0 ELSE 1        \* sign of (int) d
Conc(C, x) == Add32(TbOf(C), x)
TidCmp(C, x, y) == Sgn32(Sub32(Conc(C, x), Conc(C, y)))
TidGt(C, x, y)  == TidCmp(C, x, y) > 0                                      \* tid_gt(x, y)
TidGeq(C, x, y) == TidCmp(C, x, y) >= 0                                     \* tid_geq(x, y)
TidEq(C, x, y)  == Conc(C, x) = Conc(C, y)
TidIsZero(C, x) == Conc(C, x) = Zero32
\* boundary catalogue of the base: the unsigned wrap (tid 0) or the signed boundary (tid 0x80000000) lands on offset z;
\* a small base b.  The universe places z on every transaction of the log and of its next life (Jbd2Gen: TidBases).
BaseWrapU(z)  == Sub32(Zero32, Of32(z))
BaseWrapS(z)  == Sub32([hi |-> 32768, lo |-> 0], Of32(z))
BaseSmall(b)  == Of32(b)
PropertyConforming == FALSE
DevTidZeroUnset == TRUE           \* see the head of the module; overridden with PropertyConforming in the property-conforming cfg

\* ------------------------------------------------------------------------------------------------
\* (2) the property, from the generator's history.  "That or a later committed transaction" is the order of the history
\* (position in the valid prefix), not a comparison of identifiers.
ValidPrefix(h) == LET bad == {k \in 1..Len(h) : h[k].valid = 0}
                  IN IF bad = {} THEN h ELSE SubSeq(h, 1, Min(bad) - 1)
RevokedFrom(P, k, b) == \E j \in k..Len(P) : b \in SeqToSet(P[j].rev)
RECURSIVE ApplyTx(_, _, _, _)
ApplyTx(f, P, k, Bl) == IF k > Len(P) THEN f ELSE
   LET T == P[k]
       g == [b \in Bl |->
              LET I == {i \in 1..Len(T.tags) : T.tags[i].blk = b} IN
              IF I # {} /\ ~RevokedFrom(P, k, b) THEN T.tags[Max(I)].v ELSE f[b]]
   IN ApplyTx(g, P, k + 1, Bl)
\* j.start = 0: the journal is empty whatever the log blocks hold
FinalOf(f, h, j, Bl) == IF j.start = 0 THEN f ELSE ApplyTx(f, ValidPrefix(h), 1, Bl)
\* "Afterwards the journal is empty": s_start = 0 AND the sequence number the journal superblock announces is past every
\* transaction that was live in the log -- the tid following the last committed transaction (NextTidOf: the transaction
\* the replay stopped at, whose blocks may be in the ring) plus one ("Restart the log at the next transaction ID, thus
\* invalidating any existing commit records in the log", jbd2_journal_recover).  A journal that was already empty
\* (start = 0) is restarted one past the sequence it announced.  Both front-ends must leave exactly this superblock.
\* (Offsets; on disk s_sequence = Conc(C, seq): the successor modulo 2^32.)
NextTidOf(h, j)   == IF j.start = 0 THEN j.seq ELSE j.seq + Len(ValidPrefix(h))
JsbAfterOf(h, j)  == [start |-> 0, seq |-> NextTidOf(h, j) + 1]

\* ------------------------------------------------------------------------------------------------
\* (3) recovery.c.  C = [L, csum, async, tb]; lg = log; walk state w (cid, end.v, rev, failed are tid offsets):
\*   pos next_log_block, cid next_commit_ID, need need_check_commit_time, last last_trans_commit_time,
\*   end info->end_transaction as [set, v]: the field is 0 until the end of the log is known (set = FALSE), then the tid v;
\*   acc crc32_sum (as the sequence of blocks it covers), failed j_failed_commit,
\*   rev revoke table, out filesystem blocks, err, stop/reason, devs deviations taken
V23(C) == C.csum \in {2, 3}
Content(lg, p) == IF lg[p].t = "data" THEN <<lg[p].v, lg[p].esc>> ELSE <<GARBAGE, 0>>
\* jbd2_block_tag_csum_verify: crc32c(seed, be32 sequence, log block) against the tag's field
TagOk(C, lg, tag, p) == ~V23(C) \/ (tag.cs >= 0 /\ <<tag.cs, tag.esc>> = Content(lg, p))
\* what replaying log block p through `tag` leaves in the target block (escape: magic restored iff flag set)
Written(lg, tag, p) == IF lg[p].t = "data" /\ lg[p].esc = tag.esc THEN lg[p].v ELSE GARBAGE

Stop(w, why) == [w EXCEPT !.stop = TRUE, !.reason = why]
Fail(w, e, why) == [w EXCEPT !.stop = TRUE, !.err = e, !.reason = why]

\* PASS_REPLAY over one descriptor block: tags in order
RECURSIVE ReplayTags(_, _, _, _, _, _)
ReplayTags(C, lg, b, w, np, i) ==
  IF i > Len(b.tags) THEN w ELSE
  LET tag == b.tags[i]
      p   == AdvL(C.L, np, i - 1)
      revoked == tag.blk \in DOMAIN w.rev /\ ~TidGt(C, w.cid, w.rev[tag.blk])   \* !tid_gt(sequence, record->sequence)
      w1 == IF revoked THEN (IF TagOk(C, lg, tag, p) THEN w                         \* a revoked block is not even verified
                             ELSE [w EXCEPT !.devs = @ \cup {"ReplayPastBadTag"}])
            ELSE IF ~TagOk(C, lg, tag, p)
                 THEN [w EXCEPT !.err = "EFSBADCRC", !.devs = @ \cup {"ReplayPastBadTag"}]   \* skip_write, success = -EFSBADCRC
                 ELSE [w EXCEPT !.out = [x \in DOMAIN w.out |-> IF x = tag.blk THEN Written(lg, tag, p) ELSE w.out[x]]]
  IN ReplayTags(C, lg, b, w1, np, i + 1)

RECURSIVE Walk(_, _, _, _, _), BreakOut(_, _, _, _, _, _, _)
\* `break` in case JBD2_COMMIT_BLOCK: meant to end the scan; literally it leaves the switch and the loop continues
BreakOut(C, lg, pass, w, np, why, fuel) ==
  IF ~DevCommitBreakContinues THEN Stop(w, why)
  ELSE LET again == lg[np].t \notin {"junk", "data"} /\ TidEq(C, lg[np].seq, w.cid)
       IN Walk(C, lg, pass, [w EXCEPT !.pos = np, !.reason = why, !.devs = IF again THEN @ \cup {"CommitBreakContinues"} ELSE @], fuel - 1)
Walk(C, lg, pass, w, fuel) ==
  IF w.stop THEN w
  ELSE IF fuel = 0 THEN Fail(w, "HANG", "fuel")                                    \* the real loop would not terminate
  ELSE IF pass # "scan" /\ TidGeq(C, w.cid, w.end.v) THEN Stop(w, "end")           \* tid_geq(next_commit_ID, end_transaction)
  ELSE
  LET b == lg[w.pos]  np == WrapL(C.L, w.pos + 1) IN
  IF b.t \in {"junk", "data"} THEN Stop(w, "nomagic")                              \* h_magic != JBD2_MAGIC_NUMBER
  ELSE IF ~TidEq(C, b.seq, w.cid) THEN Stop(w, "sequence")                         \* sequence != next_commit_ID
  ELSE CASE b.t = "desc" ->
         LET bad == V23(C) /\ b.ok = 0
             n   == Len(b.tags)
             tagbad == V23(C) /\ \E i \in 1..n : ~TagOk(C, lg, b.tags[i], AdvL(C.L, np, i - 1))
         IN
         IF bad /\ pass # "scan" THEN Fail(w, "EFSBADCRC", "desc csum")
         ELSE IF ~DevReplayPastBadTag /\ pass = "scan" /\ tagbad THEN Stop(w, "tag csum")      \* property-conforming variant
         ELSE LET w1 == IF bad THEN [w EXCEPT !.need = TRUE] ELSE w IN
              IF pass = "replay"
                THEN Walk(C, lg, pass, [ReplayTags(C, lg, b, w1, np, 1) EXCEPT !.pos = AdvL(C.L, np, n)], fuel - 1)
              ELSE IF pass = "scan" /\ C.csum = 1 /\ ~w1.need /\ ~w1.end.set                   \* calc_chksums (!info->end_transaction)
                THEN Walk(C, lg, pass, [w1 EXCEPT !.pos = AdvL(C.L, np, n),
                                                 !.acc = @ \o <<b>> \o [i \in 1..n |-> lg[AdvL(C.L, np, i - 1)]]], fuel - 1)
              ELSE Walk(C, lg, pass, [w1 EXCEPT !.pos = AdvL(C.L, np, n)], fuel - 1)
       [] b.t = "commit" ->
         IF w.need THEN
              IF b.time >= w.last
                THEN (IF DevScanAbort THEN [Fail(w, "EFSBADCRC", "scan abort") EXCEPT !.devs = @ \cup {"ScanAbort"}]
                                      ELSE Stop(w, "bad csum before commit"))
                ELSE Stop(w, "stale commit time")                                              \* ignore_crc_mismatch
         ELSE IF pass = "scan" /\ C.csum = 1 /\ w.end.set                                      \* if (info->end_transaction)
                THEN BreakOut(C, lg, pass, [w EXCEPT !.failed = w.end.v], np, "commit after failed commit", fuel)
         ELSE LET v1bad == pass = "scan" /\ C.csum = 1 /\ ~(b.hassum = 0 \/ b.sum = w.acc)
                  v23bad == pass = "scan" /\ V23(C) /\ b.ok = 0
                  w1 == IF pass = "scan" /\ C.csum = 1 /\ ~v1bad THEN [w EXCEPT !.acc = <<>>] ELSE w
              IN IF v1bad \/ v23bad THEN                                                       \* chksum_error:
                    IF b.time < w1.last THEN Stop(w1, "stale commit time")
                    ELSE LET overw == w1.end.set
                             \* end_transaction = next_commit_ID: the value 0 reads as "not known yet" afterwards
                             lost  == DevTidZeroUnset /\ TidIsZero(C, w1.cid)
                             w2 == [w1 EXCEPT !.end = IF overw /\ ~DevAsyncLastBadCommit THEN @ ELSE [set |-> ~lost, v |-> w1.cid],
                                              !.devs = (IF overw /\ DevAsyncLastBadCommit THEN @ \cup {"AsyncLastBadCommit"} ELSE @)
                                                       \cup (IF lost /\ C.async = 1 /\ ~(overw /\ ~DevAsyncLastBadCommit) THEN {"TidZeroUnset"} ELSE {})]
                         IN IF C.async = 0 THEN BreakOut(C, lg, pass, [w2 EXCEPT !.failed = w1.cid], np, "commit csum", fuel)
                            ELSE Walk(C, lg, pass, [w2 EXCEPT !.pos = np, !.cid = @ + 1, !.last = b.time], fuel - 1)
                 ELSE Walk(C, lg, pass, [w1 EXCEPT !.pos = np, !.cid = @ + 1,
                                                   !.last = IF pass = "scan" THEN b.time ELSE @], fuel - 1)
       [] b.t = "revoke" ->
         LET w1 == IF pass = "scan" /\ V23(C) /\ b.ok = 0 THEN [w EXCEPT !.need = TRUE] ELSE w
             bl == SeqToSet(b.blks)
             rv == IF pass # "revoke" THEN w1.rev
                   ELSE [x \in (DOMAIN w1.rev) \cup bl |->                                     \* jbd2_journal_set_revoke: keep the latest
                          IF x \in bl THEN (IF x \in DOMAIN w1.rev /\ ~TidGt(C, w1.cid, w1.rev[x]) THEN w1.rev[x] ELSE w1.cid)
                          ELSE w1.rev[x]]
         IN Walk(C, lg, pass, [w1 EXCEPT !.pos = np, !.rev = rv], fuel - 1)
       [] OTHER -> Stop(w, "blocktype")

EmptyRev == [x \in {} |-> 0]
EndUnknown == [set |-> FALSE, v |-> 0]
EndKnown(t) == [set |-> TRUE, v |-> t]
W0(j, rev, end, out) == [pos |-> j.start, cid |-> j.seq, need |-> FALSE, last |-> 0, end |-> end, acc |-> <<>>, failed |-> 0,
                         stop |-> FALSE, err |-> "", reason |-> "", rev |-> rev, out |-> out, devs |-> {}]
\* "done:" bookkeeping of do_one_pass
EndOfScan(w) == IF w.end.set THEN w.end.v ELSE w.cid                   \* if (!info->end_transaction) info->end_transaction = next_commit_ID
PassErr(C, w, end) == IF w.err # "" THEN w.err ELSE IF ~TidEq(C, w.cid, end) THEN "EIO" ELSE ""

\* jbd2_journal_recover + the front-end's release:  [fs, err, end, devs, reason, jstart, nr]
RecoverOf(C, lg, j, f) ==
  IF j.start = 0 THEN [fs |-> f, err |-> "", end |-> j.seq, devs |-> {}, reason |-> "empty", failed |-> 0]
  ELSE
  LET fuel == 3 * C.L + 3
      scan == Walk(C, lg, "scan", W0(j, EmptyRev, EndUnknown, f), fuel)
      end  == EndOfScan(scan)
      rvk  == Walk(C, lg, "revoke", W0(j, EmptyRev, EndKnown(end), f), fuel)
      rerr == PassErr(C, rvk, end)
      rep  == Walk(C, lg, "replay", W0(j, rvk.rev, EndKnown(end), f), fuel)
  IN IF scan.err # "" THEN [fs |-> f, err |-> scan.err, end |-> end, devs |-> scan.devs, reason |-> scan.reason, failed |-> scan.failed]
     ELSE IF rerr # "" THEN [fs |-> f, err |-> rerr, end |-> end, devs |-> scan.devs, reason |-> scan.reason, failed |-> scan.failed]
     ELSE [fs |-> rep.out, err |-> PassErr(C, rep, end), end |-> end, devs |-> scan.devs \cup rep.devs, reason |-> scan.reason,
           failed |-> scan.failed]

\* ------------------------------------------------------------------------------------------------
\* (1) the generator
CC == [L |-> L, csum |-> Csum, async |-> Async, tb |-> Zero32]
Wrap(p) == WrapL(L, p)
Adv(p, n) == AdvL(L, p, n)

\* a transaction = chunks; chunk = [t |-> "d", tags |-> Seq([blk, v, esc])] | [t |-> "r", blks |-> Seq(blk)]
DescOf(s, c, id) == [t |-> "desc", seq |-> s, ok |-> 1, id |-> id,
                     tags |-> [i \in 1..Len(c.tags) |-> [blk |-> c.tags[i].blk, v |-> c.tags[i].v, cs |-> c.tags[i].v, esc |-> c.tags[i].esc]]]
DataOf(c) == [i \in 1..Len(c.tags) |-> [t |-> "data", v |-> c.tags[i].v, esc |-> c.tags[i].esc]]
RECURSIVE ChunkBlocks(_, _, _)
ChunkBlocks(s, chunks, k) ==
   IF k > Len(chunks) THEN <<>> ELSE
   (IF chunks[k].t = "d" THEN <<DescOf(s, chunks[k], 10 * s + k)>> \o DataOf(chunks[k])
    ELSE <<[t |-> "revoke", seq |-> s, ok |-> 1, blks |-> chunks[k].blks]>>) \o ChunkBlocks(s, chunks, k + 1)
RECURSIVE Covered(_, _, _)        \* what the v1 transaction checksum covers: descriptor and data blocks
Covered(s, chunks, k) ==
   IF k > Len(chunks) THEN <<>> ELSE
   (IF chunks[k].t = "d" THEN <<DescOf(s, chunks[k], 10 * s + k)>> \o DataOf(chunks[k]) ELSE <<>>) \o Covered(s, chunks, k + 1)
TxnBlocksC(cs, s, chunks, time, hassum) ==
   ChunkBlocks(s, chunks, 1)
   \o <<[t |-> "commit", seq |-> s, ok |-> 1, time |-> time, hassum |-> hassum,
         sum |-> IF cs = 1 /\ hassum = 1 THEN Covered(s, chunks, 1) ELSE <<>>]>>
TxnBlocks(s, chunks, time, hassum) == TxnBlocksC(Csum, s, chunks, time, hassum)
RECURSIVE FlatTags(_, _)
FlatTags(chunks, k) == IF k > Len(chunks) THEN <<>> ELSE (IF chunks[k].t = "d" THEN chunks[k].tags ELSE <<>>) \o FlatTags(chunks, k + 1)
RECURSIVE FlatRev(_, _)
FlatRev(chunks, k) == IF k > Len(chunks) THEN <<>> ELSE (IF chunks[k].t = "r" THEN chunks[k].blks ELSE <<>>) \o FlatRev(chunks, k + 1)

RECURSIVE SumWr(_, _)
SumWr(h, k) == IF k > Len(h) THEN 0 ELSE h[k].wr + SumWr(h, k + 1)
Used == SumWr(hist, 1)
RECURSIVE Put(_, _, _)
Put(lg, p, blks) == IF blks = <<>> THEN lg ELSE Put([lg EXCEPT ![p] = Head(blks)], Wrap(p + 1), Tail(blks))

RECURSIVE SetSeq(_)
SetSeq(S) == IF S = {} THEN <<>> ELSE LET m == Min(S) IN <<m>> \o SetSeq(S \ {m})

\* chunk layouts the generator tries for n tagged blocks tb (sequence) and revoked set rv
Layouts(tb, rv, e) ==
   LET tg(i) == [blk |-> tb[i], v |-> ver + i, esc |-> e]
       d(I)  == [t |-> "d", tags |-> [k \in 1..Len(I) |-> tg(I[k])]]
       r     == [t |-> "r", blks |-> SetSeq(rv)]
       n     == Len(tb)
       all   == [i \in 1..n |-> i]
   IN (IF n > 0 /\ rv = {} THEN {<<d(all)>>} ELSE {})
      \cup (IF n = 0 /\ rv # {} THEN {<<r>>} ELSE {})
      \cup (IF n > 0 /\ rv # {} THEN {<<r, d(all)>>, <<d(all), r>>} ELSE {})
      \cup (IF n = 2 THEN {<<d(<<1>>), d(<<2>>)>>} \cup (IF rv # {} THEN {<<d(<<1>>), r, d(<<2>>)>>} ELSE {}) ELSE {})

WriteTxn(chunks, upto, time, hassum) ==          \* upto = number of blocks that reach the disk (crash if < full)
   LET bl   == TxnBlocks(nseq, chunks, time, hassum)
       full == Len(bl)
       tags == FlatTags(chunks, 1)
   IN /\ phase = "run" /\ Len(hist) < MaxTxn
      /\ Used + full <= L
      /\ upto \in 1..full
      /\ log' = Put(log, head, SubSeq(bl, 1, upto))
      /\ head' = Adv(head, upto)
      /\ jsb' = IF jsb.start = 0 THEN [start |-> head, seq |-> nseq] ELSE jsb
      /\ nr' = 1
      /\ hist' = Append(hist, [seq |-> nseq, chunks |-> chunks, tags |-> tags, rev |-> FlatRev(chunks, 1), valid |-> IF upto = full THEN 1 ELSE 0,
                               at |-> head, len |-> full, wr |-> upto, time |-> time, hassum |-> hassum, dmg |-> {}])
      /\ nseq' = nseq + 1 /\ ver' = ver + Len(tags)
      /\ phase' = IF upto = full THEN "run" ELSE "dmg"
      /\ UNCHANGED <<jc, fs, ndmg, res>>

\* checkpoint: the oldest transaction is written back to the fs and the tail advances
Checkpoint ==
   /\ phase = "run" /\ Len(hist) > 0 /\ hist[1].valid = 1
   /\ LET T == hist[1] IN
        /\ fs' = [b \in Blocks |->
                   LET I == {i \in 1..Len(T.tags) : T.tags[i].blk = b} IN IF I = {} THEN fs[b] ELSE T.tags[Max(I)].v]
        /\ hist' = Tail(hist)
        /\ jsb' = IF Len(hist) = 1 THEN [start |-> 0, seq |-> nseq]
                  ELSE [start |-> hist[2].at, seq |-> hist[2].seq]
        /\ nr' = IF Len(hist) = 1 THEN 0 ELSE 1
   /\ UNCHANGED <<jc, log, head, nseq, ver, ndmg, phase, res>>

\* damage to one block that a live transaction wrote.  Only damage that the format can detect is in the universe:
\* control blocks that are missing (junk) / stale / wrongly sequenced, checksum failures where the scheme has a
\* checksum, and data-block damage where a checksum covers data (v2/v3 tag checksums; v1 only when the commit block
\* of that transaction carries the transaction checksum).
SumCovers(k) == hist[k].hassum = 1 \/ hist[k].valid = 0
DamagedBlocks(k, b) ==
   IF b.t \in {"desc", "revoke", "commit"} THEN
        {Junk, [b EXCEPT !.seq = 0], [b EXCEPT !.seq = @ + 1]}                       \* never written / stale / wrong sequence
        \cup (IF Csum \in {2, 3} THEN {[b EXCEPT !.ok = 0]} ELSE {})                  \* block checksum
        \cup (IF Csum = 1 /\ b.t = "commit" /\ b.hassum = 1 THEN {[b EXCEPT !.sum = @ \o <<Junk>>]} ELSE {})
        \cup (IF Csum = 1 /\ b.t = "desc" /\ SumCovers(k) THEN {[b EXCEPT !.id = @ + 5]} ELSE {})    \* descriptor bytes changed under v1
        \cup (IF Csum \in {2, 3} /\ b.t = "desc" THEN {[b EXCEPT !.tags[i].cs = BADCS] : i \in 1..Len(b.tags)} ELSE {})
   ELSE IF b.t = "data" /\ (Csum \in {2, 3} \/ (Csum = 1 /\ SumCovers(k)))
        THEN {Junk, [t |-> "data", v |-> STALEV + b.v, esc |-> 0]}
   ELSE {}
Damage ==
   /\ phase \in {"run", "dmg"} /\ Len(hist) > 0 /\ ndmg < MaxDmg
   /\ \E k \in 1..Len(hist) : \E off \in (0..(hist[k].wr - 1)) \ hist[k].dmg :      \* each block is damaged at most once
        LET p == Adv(hist[k].at, off) IN
        /\ \E nb \in DamagedBlocks(k, log[p]) : log' = [log EXCEPT ![p] = nb]
        /\ hist' = [hist EXCEPT ![k].valid = 0, ![k].dmg = @ \cup {off}]
   /\ phase' = "dmg" /\ ndmg' = ndmg + 1
   /\ UNCHANGED <<jc, head, nseq, jsb, nr, fs, ver, res>>

Final == FinalOf(fs, hist, jsb, DOMAIN fs)
JsbAfter == JsbAfterOf(hist, jsb)
\* recovery of the journal as it is concretised with tid base b
RecAt(b) == RecoverOf([jc EXCEPT !.tb = b], log, jsb, fs)
Rec   == RecAt(jc.tb)

RecoverAt(b) ==
   /\ phase \in {"run", "dmg"} /\ nr = 1
   /\ LET R == RecAt(b) IN
        /\ fs' = R.fs
        /\ jsb' = [start |-> 0, seq |-> IF R.err = "" THEN R.end + 1 ELSE jsb.seq]     \* *_journal_release(reset = 1): j_transaction_sequence = ++end_transaction
        /\ res' = [err |-> R.err, end |-> R.end, devs |-> R.devs, reason |-> R.reason, final |-> Final, jsbafter |-> JsbAfter]
   /\ nr' = 0                                                                          \* *_clear_recover
   /\ phase' = "done"
   /\ UNCHANGED <<jc, log, head, nseq, hist, ver, ndmg>>
Recover == RecoverAt(jc.tb)

NoRes == [err |-> "", end |-> 0, devs |-> {}, reason |-> "", final |-> <<>>, jsbafter |-> [start |-> 0, seq |-> 0]]
Init == /\ jc = CC /\ log = [p \in 1..L |-> Junk] /\ head = 1 /\ nseq = 1 /\ jsb = [start |-> 0, seq |-> 1] /\ nr = 0
        /\ fs = [b \in Blocks |-> 0] /\ hist = <<>> /\ ver = 0 /\ ndmg = 0 /\ phase = "run" /\ res = NoRes

TagChoices == UNION {{tb \in [1..n -> Blocks] : \A i, j \in 1..n : i # j => tb[i] # tb[j]} : n \in 0..MaxTags}
Times == {nseq + 1} \cup (IF OldTime = 1 THEN {0} ELSE {})
Next == \/ \E tb \in TagChoices : \E rv \in SUBSET Blocks : \E e \in EscSet : \E ch \in Layouts(tb, rv, e) :
           \E u \in 1..(2 * MaxTags + 4) : \E tm \in Times : \E hs \in (IF Csum = 1 THEN {0, 1} ELSE {0}) :
             WriteTxn(ch, u, tm, hs)
        \/ Checkpoint \/ Damage \/ Recover
Spec == Init /\ [][Next]_vars

\* ------------------------------------------------------------------------------------------------
\* invariants
\* The property (must hold with every deviation constant FALSE):
ReplayExact == (phase = "done") => (fs = res.final /\ jsb = res.jsbafter /\ nr = 0)
\* With deviations enabled the property may fail only in behaviours that took a deviation:
ReplayExactOrDev == (phase = "done") => (((fs = res.final /\ jsb = res.jsbafter) \/ res.devs # {}) /\ jsb.start = 0 /\ nr = 0)
\* evaluated in every state, before Recover is taken
ReplayExactAt(b) == (nr = 1) => LET R == RecAt(b) IN ((R.fs = Final /\ (R.err = "" => R.end + 1 = JsbAfter.seq)) \/ R.devs # {})
ReplayExactAlways == ReplayExactAt(jc.tb)
\* the three passes end at the same transaction (no -EIO from "recovery pass ended at ...")
PassesAgree == (nr = 1) => Rec.err \notin {"EIO", "HANG"}
\* literal model with every deviation of the pinned code: the passes disagree, or the scan does not end, only through
\* DevCommitBreakContinues (a transaction filling the whole ring whose commit block fails: repaired in the tree, fix 1acfd2c2)
PassesAgreeOrDev == (nr = 1) => (Rec.err \notin {"EIO", "HANG"} \/ "CommitBreakContinues" \in Rec.devs)
\* ReplayExact(OrDev) and PassesAgree of the state RecoverAt(b) leads to, evaluated in the state before: the blocks and the
\* journal superblock the replay leaves are Final and JsbAfter (or a named deviation was taken), whatever the tid base b
RecoverExactAt(b) == (nr = 1 /\ phase \in {"run", "dmg"}) =>
   LET R == RecAt(b) IN /\ R.err \notin {"EIO", "HANG"}
                        /\ \/ R.fs = Final /\ (IF R.err = "" THEN R.end + 1 ELSE jsb.seq) = JsbAfter.seq
                           \/ R.devs # {}
\* ------------------------------------------------------------------------------------------------
\* Soundness of the ground truth (checked on generator states and on every journal loaded from a trace):
\* "valid" is exactly "every block of the transaction is in the log as written", and every block that differs
\* from what was written differs in a way the format can detect (IsDamageOf mirrors DamagedBlocks).
Intended(k) == TxnBlocksC(jc.csum, hist[k].seq, hist[k].chunks, hist[k].time, hist[k].hassum)
Actual(k, i) == log[AdvL(jc.L, hist[k].at, i - 1)]
IsDamageOf(sc, b, a) ==
   IF b.t \in {"desc", "revoke", "commit"} THEN
        \/ a = Junk
        \/ a.t = b.t /\ a.seq # b.seq /\ a = [b EXCEPT !.seq = a.seq]
        \/ V23(jc) /\ a = [b EXCEPT !.ok = 0]
        \/ jc.csum = 1 /\ b.t = "commit" /\ b.hassum = 1 /\ a.t = "commit" /\ a.sum # b.sum /\ a = [b EXCEPT !.sum = a.sum]
        \/ jc.csum = 1 /\ b.t = "desc" /\ sc /\ a.t = "desc" /\ a.id # b.id /\ a = [b EXCEPT !.id = a.id]
        \/ V23(jc) /\ b.t = "desc" /\ a.t = "desc" /\ a = [b EXCEPT !.tags = a.tags] /\ Len(a.tags) = Len(b.tags)
             /\ \A i \in 1..Len(b.tags) : a.tags[i] = b.tags[i] \/ a.tags[i] = [b.tags[i] EXCEPT !.cs = BADCS]
   ELSE b.t = "data" /\ (V23(jc) \/ (jc.csum = 1 /\ sc)) /\ (a = Junk \/ (a.t = "data" /\ a.v >= STALEV))
StrongDiff(k) == hist[k].wr < hist[k].len
                 \/ \E i \in 1..hist[k].wr : Actual(k, i) # Intended(k)[i] /\ IsDamageOf(FALSE, Intended(k)[i], Actual(k, i))
GroundTruthSound ==
   \A k \in 1..Len(hist) :
      /\ Len(Intended(k)) = hist[k].len /\ hist[k].wr \in 1..hist[k].len
      /\ hist[k].tags = FlatTags(hist[k].chunks, 1) /\ hist[k].rev = FlatRev(hist[k].chunks, 1)
      /\ (hist[k].valid = 1) = (hist[k].wr = hist[k].len /\ \A i \in 1..hist[k].len : Actual(k, i) = Intended(k)[i])
      /\ \A i \in 1..hist[k].wr : \/ Actual(k, i) = Intended(k)[i]
                                  \/ IsDamageOf(hist[k].hassum = 1 \/ StrongDiff(k), Intended(k)[i], Actual(k, i))
      /\ \A i, j \in 1..Len(hist[k].tags) : i # j => hist[k].tags[i].blk # hist[k].tags[j].blk
      /\ (k > 1 => hist[k].seq = hist[k - 1].seq + 1 /\ hist[k].at = AdvL(jc.L, hist[k - 1].at, hist[k - 1].wr))
      /\ (k = 1 /\ jsb.start # 0 => hist[k].seq = jsb.seq /\ hist[k].at = jsb.start)
      /\ (k < Len(hist) => hist[k].wr = hist[k].len)                      \* only the last transaction may be cut short
      /\ SumWr(hist, 1) <= jc.L
TypeOK == /\ head \in 1..L /\ jsb.start \in 0..L /\ Used <= L /\ jc = CC
          /\ \A k \in 1..Len(hist) : hist[k].wr <= hist[k].len
Bound == nseq <= MaxTxn + 2
View == <<log, head, nseq, jsb, nr, fs, hist, ver, ndmg, phase>>
=============================================================================
