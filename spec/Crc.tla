-------------------------------- MODULE Crc --------------------------------
(* C14 clause (c): the CRC primitives as their bit-serial mathematical definitions.
   TLC integers are 32-bit signed, so a 32-bit register is kept as two 16-bit halves <<hi, lo>>.
     crc32c (Castagnoli, reflected, poly 0x82F63B78)      ext2fs_crc32c_le(seed, buf, len)
     crc32  (IEEE 802.3, MSB first, poly 0x04C11DB7)       ext2fs_crc32_be(seed, buf, len)
     crc16  (ANSI, reflected, poly 0xA001)                 ext2fs_crc16(seed, buf, len)
   No pre/post inversion: the callers pass the seed, exactly like the C functions.
   Long folds are impractical in TLC (lazy evaluation, DESIGN.md section 9), so this reference is used for SHORT
   buffers only (length <= 64).                                                                               *)
EXTENDS Naturals, Sequences, Bitwise
BX(a, b) == a ^^ b
\* ---- reflected 32-bit: shift right by one, conditional xor with the polynomial
ShrLo(r) == (r[2] \div 2) + ((r[1] % 2) * 32768)
Shr1(r) == <<r[1] \div 2, ShrLo(r)>>
StepLE(r, phi, plo) == LET s == Shr1(r) IN IF r[2] % 2 = 1 THEN <<BX(s[1], phi), BX(s[2], plo)>> ELSE s
RECURSIVE BitsLE(_, _, _, _)
BitsLE(r, n, phi, plo) == IF n = 0 THEN r ELSE BitsLE(StepLE(r, phi, plo), n - 1, phi, plo)
RECURSIVE FoldLE(_, _, _, _, _)
FoldLE(r, buf, i, phi, plo) ==
   IF i > Len(buf) THEN r
   ELSE FoldLE(BitsLE(<<r[1], BX(r[2], buf[i])>>, 8, phi, plo), buf, i + 1, phi, plo)
Crc32cLE(seed, buf) == FoldLE(seed, buf, 1, 33526, 15224)          \* 0x82F6, 0x3B78
\* ---- MSB-first 32-bit: shift left by one, conditional xor
Shl1(r) == <<((r[1] % 32768) * 2) + (r[2] \div 32768), (r[2] % 32768) * 2>>
StepBE(r) == LET s == Shl1(r) IN IF r[1] \div 32768 = 1 THEN <<BX(s[1], 1217), BX(s[2], 7607)>> ELSE s   \* 0x04C1, 0x1DB7
RECURSIVE BitsBE(_, _)
BitsBE(r, n) == IF n = 0 THEN r ELSE BitsBE(StepBE(r), n - 1)
RECURSIVE FoldBE(_, _, _)
FoldBE(r, buf, i) == IF i > Len(buf) THEN r
                     ELSE FoldBE(BitsBE(<<BX(r[1], buf[i] * 256), r[2]>>, 8), buf, i + 1)
Crc32BE(seed, buf) == FoldBE(seed, buf, 1)
\* ---- reflected 16-bit
Step16(c) == IF c % 2 = 1 THEN BX(c \div 2, 40961) ELSE c \div 2          \* 0xA001
RECURSIVE Bits16(_, _)
Bits16(c, n) == IF n = 0 THEN c ELSE Bits16(Step16(c), n - 1)
RECURSIVE Fold16(_, _, _)
Fold16(c, buf, i) == IF i > Len(buf) THEN c ELSE Fold16(Bits16(BX(c, buf[i]), 8), buf, i + 1)
Crc16(seed, buf) == Fold16(seed, buf, 1)
\* check values for "123456789" (seed all ones, final inversion applied by the caller):
\*   crc32c -> ~0xE3069283 ; crc16/ARC (seed 0) -> 0xBB3D
Digits == <<49, 50, 51, 52, 53, 54, 55, 56, 57>>
ASSUME Crc16(0, Digits) = 47933
ASSUME Crc32cLE(<<65535, 65535>>, Digits) = <<65535 - 58118, 65535 - 37507>>   \* ~0xE3069283 = 0x1CF96D7C
=============================================================================
