\* recorded runs under schedules of the atomic model: a step inside another node's read-write pair is rejected, all invariants
SPECIFICATION TraceSpec
CONSTANTS
  Nodes = {1, 2, 3}
  Seqs = {1, 2, 3, 4, 5, 6}
  KindSet = {"rw", "rwd", "fsck", "ro", "fsckn", "skip", "peek", "clear"}
  RwPolls = {0, 1, 2, 3}
  FsckPolls = {0,1,2,3,4,5,6,7,8,9,10,11,12}
  MinIval = 5
  Upd = 60
  IvalSet = {5}
  TickSet = {1}
  MaxCrash = 3
  AllowCorrupt = TRUE
  DevNonAtomic = FALSE
  DevSeqCollision = FALSE
  DevSameNodename = FALSE
  DevStopUnconditional = FALSE
  DevNoSecondWait = FALSE
  DevNoFsckMarker = FALSE
  DevDumpClobbers = FALSE
INVARIANT TypeOK
INVARIANT DetectableOverlap
INVARIANT WrittenValid
INVARIANT SkipNeverWrites
INVARIANT AbortLeavesBlock
INVARIANT MutualExclusion
INVARIANT NoFalseClean
POSTCONDITION TraceAccepted
CHECK_DEADLOCK FALSE
