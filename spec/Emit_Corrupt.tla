---------------------------- MODULE Emit_Corrupt ----------------------------
(* Writes the corruption universe of Corrupt.tla as JSON (IOEnv.OUT): {"catalogue", "pairseeds", "triples", "c02_closed", "boundary"}.    *)
EXTENDS Corrupt, Json, IOUtils, SequencesExt, TLC
VARIABLE x
Univ == [catalogue |-> SetToSeq(Catalogue), pairseeds |-> SetToSeq(PairSeeds), npairs |-> Cardinality(Pairs) \div 2, triples |-> SetToSeq(Triples),
         c02_closed |-> SetToSeq(C02Closed),
         \* C02 only: high halves / exact range boundaries (single fields), superblock recipes on C02's tool-built images
         c02_bounds |-> SetToSeq(C02Bounds),
         c02_extras |-> [images |-> SetToSeq(HtreeExtras), hash |-> SetToSeq(ExtraHashRecipes), sb |-> SetToSeq(ExtraSbRecipes)],
         \* boundary catalogue (starting images of C01's own): images by kind, recipes and mandatory recipes by kind
         boundary |-> [metabg |-> SetToSeq(MetaBgImages), longext |-> SetToSeq(LongImages), bigdir |-> SetToSeq(DirImages),
                       recipes |-> [k \in DOMAIN Mandatory |-> SetToSeq(ImageRecipes(k))],
                       mandatory |-> [k \in DOMAIN Mandatory |-> SetToSeq(Mandatory[k])],
                       roles |-> [k \in DOMAIN RolesOfKind |-> SetToSeq(RolesOfKind[k])],
                       consts |-> [ext_init_max |-> ExtInitMaxLen, ext_uninit_max |-> ExtUninitMaxLen,
                                   dx_root_limit |-> DxRootLimit(MinBlockSize, FALSE), dx_node_limit |-> DxNodeLimit(MinBlockSize, FALSE)]]]
ASSUME JsonSerialize(IOEnv.OUT, Univ) /\ PrintT(<<"Emit_Corrupt", Cardinality(Catalogue), Cardinality(PairSeeds), Cardinality(Pairs) \div 2>>)
Init == x = 0
Next == x' = x /\ UNCHANGED x
=============================================================================
