---------------------------- MODULE Emit_Corrupt ----------------------------
(* Writes the corruption universe of Corrupt.tla as JSON (IOEnv.OUT): {"catalogue", "pairseeds", "triples", "c02_closed"}.    *)
EXTENDS Corrupt, Json, IOUtils, SequencesExt, TLC
VARIABLE x
Univ == [catalogue |-> SetToSeq(Catalogue), pairseeds |-> SetToSeq(PairSeeds), npairs |-> Cardinality(Pairs) \div 2, triples |-> SetToSeq(Triples),
         c02_closed |-> SetToSeq(C02Closed)]
ASSUME JsonSerialize(IOEnv.OUT, Univ) /\ PrintT(<<"Emit_Corrupt", Cardinality(Catalogue), Cardinality(PairSeeds), Cardinality(Pairs) \div 2>>)
Init == x = 0
Next == x' = x /\ UNCHANGED x
=============================================================================
