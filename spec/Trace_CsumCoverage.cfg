SPECIFICATION TraceSpec
POSTCONDITION TraceAccepted
CONSTANTS
  DevUninitOverlayHidesFlip = TRUE
  DevJsbNrUsersClearsV2 = TRUE
CHECK_DEADLOCK FALSE
