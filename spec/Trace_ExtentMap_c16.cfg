SPECIFICATION TraceSpec
CONSTANTS
  MaxL = 100000
  MaxP = 100000
  MaxLenInit = 32768
  MaxLenUninit = 32767
  C = 16
  Inf = 2000000000
  DevEmptyUnmap = FALSE
INVARIANT Structural
INVARIANT MapUpdatedExactlyAt
INVARIANT PunchExact
CONSTRAINT Record
POSTCONDITION TraceAccepted
CHECK_DEADLOCK FALSE
