------------------------------ MODULE DirBlock ------------------------------
(* Property C10, layout level: linear directory blocks exactly as lib/ext2fs/link.c link_proc(), lib/ext2fs/unlink.c
   unlink_proc(), newdir.c, expanddir.c and inline_data.c (directory part) edit them, with the true arithmetic
   (rec_len = (8 + name_len + 3) & ~3, 12-byte checksum tail, 1 KiB .. 4 KiB blocks, the 56-byte inline area).

   A directory is a sequence of blocks; a block is the sequence of its slots in offset order (what
   ext2fs_dir_iterate2(DIRENT_FLAG_INCLUDE_EMPTY) visits; the checksum tail is not a slot);
   a slot is <<inode, name_len, rec_len, file_type, name id>>; inode = 0 means unused (name_len / file_type then
   keep whatever the code left there, the name id of an unused slot is 0).  Name ids -1 / -2 stand for "." / "..".

   Geometry g = [bs |-> fs->blocksize, tail |-> 12 or 0 (metadata_csum: bytes reserved at the end of every block),
                 cs |-> csum_size as link_proc computes it (12 with metadata_csum, also for inline directories)].
   An inline directory is one segment of 56 bytes (i_block after the 4-byte parent pointer) without tail; libext2fs
   never grows the system.data part, it converts the directory to one block (ext2fs_inline_data_expand).       *)
EXTENDS Integers, Sequences, FiniteSets, TLC

RL(n) == ((n + 11) \div 4) * 4                       \* EXT2_DIR_REC_LEN(name_len)
SumRl(b) == LET F[i \in 0..Len(b)] == IF i = 0 THEN 0 ELSE F[i - 1] + b[i][3] IN F[Len(b)]
Slot(ino, nl, rl, ft, nid) == <<ino, nl, rl, ft, nid>>
Empty(rl) == <<0, 0, rl, 0, 0>>

\* ---------------------------------------------------------------- link_proc over one buffer of length bs
\* nw = <<inode, name_len, _, file_type, name id>> ; returns <<block', done>>
RECURSIVE LinkBlk(_, _, _, _, _, _)
LinkBlk(b, k, off, nw, bs, cs) ==
   IF k > Len(b) THEN <<b, FALSE>> ELSE
   LET e == b[k]
       \* "See if the following directory entry (if any) is unused; if so, absorb it into this one."
       canabs == /\ k < Len(b)
                 /\ off + e[3] < bs - (8 + cs)
                 /\ b[k + 1][1] = 0
                 /\ off + e[3] + b[k + 1][3] <= bs
       cur == IF canabs THEN e[3] + b[k + 1][3] ELSE e[3]
       b1  == IF canabs THEN SubSeq(b, 1, k - 1) \o <<[e EXCEPT ![3] = cur]>> \o SubSeq(b, k + 2, Len(b)) ELSE b
       need == RL(nw[2])
   IN IF e[1] # 0 THEN
         LET min == RL(e[2]) IN
         IF cur < min + need THEN LinkBlk(b1, k + 1, off + cur, nw, bs, cs)
         ELSE \* split: truncate this entry, make an unused one behind it; the iteration goes on with that one
              LET b2 == SubSeq(b1, 1, k - 1) \o <<[e EXCEPT ![3] = min], Empty(cur - min)>> \o SubSeq(b1, k + 1, Len(b1))
              IN LinkBlk(b2, k + 1, off + min, nw, bs, cs)
      ELSE IF cur < need THEN LinkBlk(b1, k + 1, off + cur, nw, bs, cs)
           ELSE <<[b1 EXCEPT ![k] = Slot(nw[1], nw[2], cur, nw[4], nw[5])], TRUE>>

\* ext2fs_link on a linear directory: ext2fs_dir_iterate2 over every block until done (changes of visited blocks persist)
RECURSIVE LinkOnce(_, _, _, _, _)
LinkOnce(d, j, nw, g, inl) ==
   IF j > Len(d) THEN <<d, FALSE>> ELSE
   LET bs == IF inl THEN SumRl(d[j]) ELSE g.bs
       r == LinkBlk(d[j], 1, 0, nw, bs, g.cs)
       d1 == [d EXCEPT ![j] = r[1]]
   IN IF r[2] THEN <<d1, TRUE>> ELSE LinkOnce(d1, j + 1, nw, g, inl)

\* ext2fs_expand_dir on a block directory: one more block holding a single unused slot
ExpandBlk(d, g) == Append(d, <<Empty(g.bs - g.tail)>>)
\* ext2fs_inline_data_expand on a directory: "." and ".." followed by the copied slots, the last one stretched
ExpandInline(d, self, parent, ft, g) ==
   LET seg == d[1]
       last == seg[Len(seg)]
       body == SubSeq(seg, 1, Len(seg) - 1) \o <<[last EXCEPT ![3] = @ + (g.bs - g.tail) - (24 + SumRl(seg))]>>
   IN << <<Slot(self, 1, 12, ft, -1), Slot(parent, 2, 12, ft, -2)>> \o body >>

\* the callers' pattern: link; on EXT2_ET_DIR_NO_SPACE expand and link again.  Returns [d, inl, done, exp]
LinkExpand(d, inl, nw, g, self, parent, ft) ==
   LET r1 == LinkOnce(d, 1, nw, g, inl) IN
   IF r1[2] THEN [d |-> r1[1], inl |-> inl, done |-> TRUE, exp |-> 0]
   ELSE LET d2 == IF inl THEN ExpandInline(r1[1], self, parent, ft, g) ELSE ExpandBlk(r1[1], g)
            r2 == LinkOnce(d2, 1, nw, g, FALSE)
        IN [d |-> r2[1], inl |-> FALSE, done |-> r2[2], exp |-> 1]

\* ---------------------------------------------------------------- unlink_proc
\* first used slot carrying the name: the first slot of a buffer is marked unused, any other is merged into its predecessor
UnlinkBlk(b, nid) ==
   LET I == {k \in 1..Len(b) : b[k][1] # 0 /\ b[k][5] = nid} IN
   IF I = {} THEN <<b, FALSE>> ELSE
   LET k == CHOOSE x \in I : \A y \in I : x <= y IN
   IF k = 1 THEN <<[b EXCEPT ![1] = [@ EXCEPT ![1] = 0, ![5] = 0]], TRUE>>
   ELSE <<SubSeq(b, 1, k - 2) \o <<[b[k - 1] EXCEPT ![3] = @ + b[k][3]]>> \o SubSeq(b, k + 1, Len(b)), TRUE>>
RECURSIVE UnlinkDir(_, _, _)
UnlinkDir(d, j, nid) ==
   IF j > Len(d) THEN d ELSE
   LET r == UnlinkBlk(d[j], nid) IN IF r[2] THEN [d EXCEPT ![j] = r[1]] ELSE UnlinkDir(d, j + 1, nid)

\* ext2fs_new_dir_block / ext2fs_new_dir_inline_data
NewDir(self, parent, ft, g, inl) ==
   IF inl THEN << <<Empty(56)>> >>
   ELSE << <<Slot(self, 1, 12, ft, -1), Slot(parent, 2, g.bs - g.tail - 12, ft, -2)>> >>

\* ---------------------------------------------------------------- invariants of a layout
\* RecLenChainCoversBlock: the rec_len chain tiles the buffer (minus the tail), every slot is aligned and holds its name
ChainCovers(b, len) ==
   /\ Len(b) >= 1 /\ SumRl(b) = len
   /\ \A k \in 1..Len(b) : b[k][3] % 4 = 0 /\ b[k][3] >= 12 /\ b[k][2] >= 0 /\ b[k][2] <= 255
                           /\ (b[k][1] # 0 => b[k][3] >= RL(b[k][2]) /\ b[k][2] >= 1)
RecLenChainCoversBlock(d, g, inl) ==
   \A j \in 1..Len(d) : ChainCovers(d[j], IF inl THEN (IF j = 1 THEN 56 ELSE SumRl(d[j])) ELSE g.bs - g.tail)
\* used slots other than "." / ".." as a set of <<name id, inode, file_type>>, and their number
LiveSlots(d) == UNION {{<<d[j][k][5], d[j][k][1], d[j][k][4]>> : k \in {x \in 1..Len(d[j]) : d[j][x][1] # 0 /\ d[j][x][5] >= 0}} : j \in 1..Len(d)}
LiveCount(d) == LET F[j \in 0..Len(d)] == IF j = 0 THEN 0 ELSE F[j - 1] + Cardinality({x \in 1..Len(d[j]) : d[j][x][1] # 0 /\ d[j][x][5] >= 0}) IN F[Len(d)]

\* ---------------------------------------------------------------- classes of transitions (edges of the transition graph)
\* What link_proc / unlink_proc do depends on where the entry sits and on what its neighbours are.  Every transition is
\* classified (see spec/Edge_DirBlock.tla, which enumerates the classes that occur, and Trace_Dir.tla, which checks that a
\* replayed step is of the class it was catalogued under).  dd = layout before the operation, n = name id, aft = kind of
\* the previous operation, r = result of LinkExpand.
Off(b, i) == SumRl(SubSeq(b, 1, i - 1))
\* block and slot of the used entry carrying name id n (first match in iteration order)
BlkOf(dd, n) == CHOOSE j \in 1..Len(dd) : (\E x \in 1..Len(dd[j]) : dd[j][x][1] # 0 /\ dd[j][x][5] = n)
                                          /\ \A y \in 1..(j - 1) : ~\E x \in 1..Len(dd[y]) : dd[y][x][1] # 0 /\ dd[y][x][5] = n
SlotOf(b, n) == CHOOSE x \in 1..Len(b) : b[x][1] # 0 /\ b[x][5] = n /\ \A y \in 1..(x - 1) : ~(b[y][1] # 0 /\ b[y][5] = n)
PosClass(b, i) == IF i = 1 THEN "head" ELSE IF i = Len(b) THEN "tail" ELSE "mid"
PrevClass(b, i) == IF i = 1 THEN "none" ELSE
                   LET p == b[i - 1] IN
                   IF p[1] = 0 THEN "unused"
                   ELSE IF p[5] < 0 THEN (IF p[3] > RL(p[2]) THEN "dotslack" ELSE "dots")
                   ELSE IF p[3] > RL(p[2]) THEN "slack" ELSE "live"
NextClass(b, i) == IF i = Len(b) THEN "none" ELSE IF b[i + 1][1] = 0 THEN "unused" ELSE "live"
BlkClass(j) == IF j = 1 THEN "first" ELSE "later"

DelEdge(dd, n, aft) ==
   LET j == BlkOf(dd, n)  b == dd[j]  i == SlotOf(b, n) IN
   [op |-> "del", blk |-> BlkClass(j), pos |-> PosClass(b, i), prev |-> PrevClass(b, i), next |-> NextClass(b, i),
    self |-> IF b[i][3] > RL(b[i][2]) THEN "slack" ELSE "tight", how |-> "", sweep |-> 0, after |-> aft]

\* slot of the old block b that covers byte offset o
Cover(b, o) == CHOOSE m \in 1..Len(b) : Off(b, m) <= o /\ o < Off(b, m) + b[m][3]
InsEdge(dd, wasinl, r, n, aft) ==
   LET j == BlkOf(r.d, n)  nb == r.d[j]  i == SlotOf(nb, n) IN
   IF r.exp = 1
   THEN [op |-> "ins", blk |-> BlkClass(j), pos |-> PosClass(nb, i), prev |-> PrevClass(nb, i), next |-> "none", self |-> "",
         how |-> IF wasinl THEN "convert" ELSE "expand", sweep |-> 0, after |-> aft]
   ELSE LET ob == dd[j]
            o == Off(nb, i)
            m == Cover(ob, o)
            reuse == Off(ob, m) = o
            \* everything in front of the landing slot, in every block: did the pass change it?
            swept == \/ \E y \in 1..(j - 1) : r.d[y] # dd[y]
                     \/ (reuse /\ SubSeq(nb, 1, i - 1) # SubSeq(ob, 1, m - 1))
                     \/ (~reuse /\ SubSeq(nb, 1, i - 2) # SubSeq(ob, 1, m - 1))
        IN [op |-> "ins", blk |-> BlkClass(j), pos |-> PosClass(ob, m), prev |-> IF reuse THEN PrevClass(ob, m) ELSE "self",
            next |-> NextClass(ob, m), self |-> "",
            how |-> IF reuse THEN (IF nb[i][3] > ob[m][3] THEN "reuse+absorb" ELSE "reuse")
                    ELSE (IF nb[i][3] > ob[m][3] - RL(ob[m][2]) THEN "split+absorb" ELSE "split"),
            sweep |-> IF swept THEN 1 ELSE 0, after |-> aft]
=============================================================================
