SPECIFICATION Spec
CONSTANTS
  NB = 6
  L2N = 2
  RPB = 4
  CacheN = 2
  MClasses = {"dirdata", "free"}
  AllModes = {FALSE}
  DevEaInodeDataSkipped = FALSE
  DevLastByteZeroed = FALSE
  DevL1VsVirtualSize = FALSE
  WOffOut <- Narrow32
INVARIANT TypeOK
INVARIANT DiscoveryOK
INVARIANT RawContract
INVARIANT WriterSane
INVARIANT MapExact
INVARIANT RefcountExact
INVARIANT L2TablesDistinct
INVARIANT ConvertEqualsRaw
CHECK_DEADLOCK FALSE
