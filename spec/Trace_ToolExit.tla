--------------------------- MODULE Trace_ToolExit ---------------------------
(* C06 conformance.  A trace is the concatenation of runs of the real (ASan + UBSan instrumented) tools, two lines each:

     {"e":"start","tool":T,"mode":M,"cls":"ro"|"rw","id":"<input id>|<invocation id>"}
     {"e":"end","code":c,"sig":s,"caught":cs,"tmo":0|1,"san":[kind, ...],"sanend":0|1,"id":...}        (checks/c06.py)

   The start line must name a tool and an argv class of the contract table (otherwise the trace is not a behaviour of
   the specification at all: the check is broken, not the tool).  The end line takes the ObservedEnd step of ToolExit
   with what was observed, and the contract Robust is evaluated in the state it leads to.  Runs are independent of one
   another: a run that breaks the contract is REPORTED (BADLINE + the names of the failing clauses) and the scan goes
   on, so one TLC process judges a whole batch.                                                                    *)
EXTENDS ToolExit, Json, IOUtils, TLC
VARIABLES l
tvars == <<vars6, l>>
Tr == ndJsonDeserialize(IOEnv.TRACE)
ToSet(q) == {q[i] : i \in 1..Len(q)}

IsEvent(e) == l <= Len(Tr) /\ Tr[l].e = e /\ l' = l + 1
Idle == pc \in {"idle", "exited", "killed"}

TStart == /\ IsEvent("start") /\ Idle
          /\ Tr[l].tool \in Tools6 /\ Tr[l].mode \in ModesOf(Tr[l].tool) /\ Tr[l].cls = ClassOf(Tr[l].tool, Tr[l].mode)
          /\ tool' = Tr[l].tool /\ class' = Tr[l].cls /\ mode' = Tr[l].mode
          /\ device' = 0 /\ dev0' = 0 /\ open' = {} /\ modified' = FALSE /\ refused' = 0
          /\ pc' = "run" /\ code' = -1 /\ sig' = 0
          /\ tmo' = FALSE /\ caught' = 0 /\ san' = {} /\ sanend' = FALSE

TEnd == /\ IsEvent("end")
        /\ ObservedEnd(Tr[l].code, Tr[l].sig, Tr[l].caught, Tr[l].tmo = 1, ToSet(Tr[l].san), Tr[l].sanend = 1)
        /\ IF ~Robust' THEN PrintT(<<"BADLINE", l>>) /\ PrintT(<<"WHY", l, Failed'>>) ELSE TRUE

TraceInit == /\ tool = "e2fsck" /\ class = "ro" /\ mode = "n" /\ device = 0 /\ dev0 = 0 /\ open = {} /\ modified = FALSE
             /\ refused = 0 /\ pc = "idle" /\ code = -1 /\ sig = 0 /\ tmo = FALSE /\ caught = 0 /\ san = {} /\ sanend = FALSE /\ l = 1
TraceNext == TStart \/ TEnd
TraceSpec == TraceInit /\ [][TraceNext]_tvars
TraceAccepted == TLCGet("stats").diameter - 1 = Len(Tr)
=============================================================================
