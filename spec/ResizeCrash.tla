---------------------------- MODULE ResizeCrash ----------------------------
(* C08, crash clause: "at every intermediate point of a run, from the first modification until the final rewrite of the
   primary superblock, the on-disk primary superblock carries the 'has errors' flag".

   Device model: a volatile write cache in front of stable storage.  A write is pending until the next completed
   fsync; at a crash any subset of the pending writes (in program order) has reached the medium.
   Abstract state of the medium:
     dErr   the ERROR_FS bit of the durable primary superblock
     dMod   some durable byte outside the primary superblock differs from the image before the run
     pend   kinds of the pending writes: "out" (changes bytes outside the primary superblock),
            "on" / "off" (rewrites s_state with ERROR_FS set / clear)
   Because subsets are arbitrary, the set of kinds is an exact abstraction: a crash image can show any pending
   "out" write together with the flag value of the durable superblock or of any single pending superblock write.
   phase  "run" until the tool reports completion; the final superblock rewrite (clearing the flag) is legal only
          when nothing else is pending (it is preceded by a completed fsync).                                      *)
EXTENDS Naturals, FiniteSets, TLC
VARIABLES dErr, dMod, pend, phase
vars == <<dErr, dMod, pend, phase>>
Kinds == {"out", "on", "off"}

Init == dErr = FALSE /\ dMod = FALSE /\ pend = {} /\ phase = "run"
Write(k) == /\ k \in Kinds /\ pend' = pend \cup {k} /\ UNCHANGED <<dErr, dMod, phase>>
\* a completed fsync: every pending write is durable; the last superblock write decides the flag (logged by the recorder)
Fsync(lastflag) == /\ dMod' = (dMod \/ "out" \in pend)
                   /\ dErr' = (IF {"on", "off"} \cap pend = {} THEN dErr ELSE lastflag)
                   /\ pend' = {} /\ UNCHANGED phase
Done == phase' = "done" /\ UNCHANGED <<dErr, dMod, pend>>

\* every crash image: flags that can be on the medium x modification visible or not
PossibleFlags == {dErr} \cup (IF "on" \in pend THEN {TRUE} ELSE {}) \cup (IF "off" \in pend THEN {FALSE} ELSE {})
ModPossible == dMod \/ "out" \in pend
\* the final rewrite: the run is complete on the medium except for the flag -- all modifications durable, only "off" pending
FinalRewrite == pend \subseteq {"off"} /\ dMod
CrashInvariant == (phase = "run" /\ ModPossible /\ ~FinalRewrite) => (FALSE \notin PossibleFlags)

\* design-level protocol of resize2fs (main.c): set the flag and flush BEFORE anything else is written
ProtoNext == \/ (pend = {} /\ ~dErr /\ ~dMod /\ Write("on"))                   \* fs->super->s_state |= EXT2_ERROR_FS; mark dirty
             \/ ("on" \in pend /\ Fsync(TRUE))                                   \* ext2fs_flush
             \/ (dErr /\ pend \subseteq {"out"} /\ Write("out"))                 \* resize work
             \/ (dErr /\ "out" \in pend /\ Fsync(TRUE))
             \/ (dErr /\ dMod /\ pend = {} /\ Write("off"))                      \* final close: flag cleared after the flush
             \/ (pend = {"off"} /\ Fsync(FALSE))
             \/ (~dErr /\ dMod /\ pend = {} /\ phase = "run" /\ Done)
ProtoSpec == Init /\ [][ProtoNext]_vars
\* the mutant protocol (flag set but not flushed before the work starts) must violate CrashInvariant:
BadNext == ProtoNext \/ ("on" \in pend /\ Write("out"))
BadSpec == Init /\ [][BadNext]_vars
=============================================================================
