SPECIFICATION TraceSpec
CONSTANTS
  DevRewriteSkipsOrphanFile = FALSE
  DevJournalOffKeepsOrphanFile = FALSE
  DevDirIndexOffNoFsck = FALSE
POSTCONDITION TraceAccepted
CHECK_DEADLOCK FALSE
