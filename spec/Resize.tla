------------------------------- MODULE Resize -------------------------------
(* C08 -- WHAT an offline resize2fs run must do, per object (resize/resize2fs.c), on an abstract filesystem.

   The abstract filesystem ("facts", the same record type for the small model universe below and for real images, whose
   facts are extracted from the independent reader's projection by checks/c08.py):
     bpg, first, blocks, ipg, ng   geometry: blocks per group, first data block, block count, inodes per group, groups
     csum                          group descriptors carry checksums (uninit_bg / metadata_csum): BLOCK_UNINIT is honoured
     flex, metabg, rsz             flex_bg, meta_bg, resize_inode
     rsv, dpb, dpbo, fmb, itb      reserved GDT blocks, descriptors per block now / after a -b|-s conversion,
                                   s_first_meta_bg, inode-table blocks per group
     g[k] (k = group number + 1)   bu  BLOCK_UNINIT            hs  the group holds a superblock/descriptor backup
                                   fb, mb, lb  occupancy class of the first / some middle / the last block of the group:
                                               "data" (in use, not fixed metadata), "free", "meta"
                                   i1, il  first / last inode of the group in use     io  the others: "none" | "some" | "all"
                                   it  first block of the group's inode table
   A request t:  kind "size" | "conv64" | "conv32",  nb new block count,  nng new group count,
                 cnb occupancy class of block nb (the first block that no longer fits).

   Per object the run must (blocks_to_move / block_mover, inode_scan_and_fix, move_itables, fix_resize_inode):
     * relocate every data block >= nb and every data block under the metadata of the new layout   (NoBlockLost)
     * give every in-use inode > nng * ipg a free number <= nng * ipg and leave every other inode alone; afterwards the
       in-use inodes are exactly the images of the old ones                                        (InodesBijective)
     * relocate every inode table that intersects the new descriptor area (MustMoveIt); the superblock that move_itables
       flushes in the middle of the run still carries the error flag                                (CrashInvariant)
     * rebuild the resize inode for the new group count (one more write outside the superblock before the final rewrite)
   The algorithms are written in the shape of the code, with the literal faulty variants behind Dev* constants; the
   model universe is every well-formed shape of up to MaxG groups (3 abstract blocks / 3 inodes per group for the scans,
   16-block groups for the table layout) x every target.  Marks(f, t) names the branch boundaries of these algorithms
   that a (filesystem, request) pair exercises; Catalogue = every mark that occurs in the model universe: the check must
   realise each of them on an image it builds (Emit_Resize writes the catalogue with one witness per mark).          *)
EXTENDS ResizeOps
CONSTANTS MaxG,
          DevUninitSkipOffByOne,      \* blocks_to_move: skipping a BLOCK_UNINIT group lands one block too far
          DevBoundaryInodeMoved,      \* inode_scan_and_fix: the last inode that still fits is renumbered as well
          DevFlagClearedEarly         \* resize_fs: new_fs loses the error flag right after ext2fs_dup_handle

VARIABLES x, pc, dErr, dMod, pend, phase
vars == <<x, pc, dErr, dMod, pend, phase>>
Crash == INSTANCE ResizeCrash

(***************************************************************************************************************)
(* The small model universe                                                                                     *)
(***************************************************************************************************************)
Backup(k) == k \in {1, 2, 4, 6, 8, 10}                       \* groups 0, 1, 3, 5, 7, 9 (sparse_super)
Gr(bu, hs, fb, lb, i1, il, io, it) == [bu |-> bu, hs |-> hs, fb |-> fb, mb |-> "free", lb |-> lb, i1 |-> i1, il |-> il, io |-> io, it |-> it]
\* scans: 3 abstract blocks and 3 inodes per group; block b of group k is number 3(k-1) + {0, 1, 2}
ScanGeo(ng, csum, flex, grs) == [bpg |-> 3, first |-> 0, blocks |-> 3 * ng, ipg |-> 3, ng |-> ng, csum |-> csum, flex |-> flex, metabg |-> FALSE,
                                 rsz |-> FALSE, rsv |-> 0, dpb |-> 64, dpbo |-> 32, fmb |-> 0, itb |-> 1, g |-> grs]
\* the first block of a group can hold file data only with flex_bg in a group without backup (else it is a superblock or a bitmap)
\* sparse_super keeps backups in groups 0, 1 and powers of 3, 5, 7; sparse_super2 with num_backup_sb=0 keeps none (nobk).
\* mke2fs never leaves BLOCK_UNINIT on a group that holds a backup (lib/ext2fs/initialize.c)
Hs(k, nobk) == IF nobk THEN k = 1 ELSE Backup(k)
BlockGroups(k, csum, flex, nobk) ==
    {Gr(FALSE, Hs(k, nobk), fb, lb, k = 1, FALSE, "none", 0) : fb \in (IF flex /\ ~Hs(k, nobk) THEN {"data", "free"} ELSE {"meta"}), lb \in {"data", "free"}}
    \cup (IF csum /\ ~Hs(k, nobk) THEN {Gr(TRUE, FALSE, IF flex THEN "free" ELSE "meta", "free", FALSE, FALSE, "none", 0)} ELSE {})
InodeGroups(k) == {Gr(FALSE, Backup(k), "meta", "free", i1, il, io, 0) : i1 \in (IF k = 1 THEN {TRUE} ELSE BOOLEAN), il \in BOOLEAN, io \in {"none", "all"}}
SeqsOf(S(_), n) == IF n = 2 THEN {<<a, b>> : a \in S(1), b \in S(2)}
                   ELSE IF n = 3 THEN {<<a, b, c>> : a \in S(1), b \in S(2), c \in S(3)}
                   ELSE {<<a, b, c, d>> : a \in S(1), b \in S(2), c \in S(3), d \in S(4)}
ClassAt(f, b) == IF b >= f.blocks THEN "free" ELSE
                 LET k == (b - f.first) \div f.bpg + 1  r == (b - f.first) % f.bpg
                 IN IF r = 0 THEN f.g[k].fb ELSE IF r = f.bpg - 1 THEN f.g[k].lb ELSE f.g[k].mb
Tgt(f, kind, nb) == [kind |-> kind, nb |-> nb, nng |-> CeilDiv(nb - f.first, f.bpg), cnb |-> ClassAt(f, nb)]
\* the last group never carries BLOCK_UNINIT (mke2fs and resize2fs clear it there)
BlockShapes == UNION {{ScanGeo(ng, csum, flex, grs) : grs \in {q \in SeqsOf(LAMBDA k : BlockGroups(k, csum, flex, nobk), ng) : ~q[ng].bu}} :
                      ng \in 2..MaxG, csum \in BOOLEAN, flex \in BOOLEAN, nobk \in BOOLEAN}
InodeShapes == UNION {{ScanGeo(ng, TRUE, TRUE, grs) : grs \in SeqsOf(InodeGroups, ng)} : ng \in 2..MaxG}
UsedInodes(f) == UNION {(IF f.g[k].i1 THEN {3 * (k - 1) + 1} ELSE {}) \cup (IF f.g[k].io = "all" THEN {3 * (k - 1) + 2} ELSE {})
                        \cup (IF f.g[k].il THEN {3 * k} ELSE {}) : k \in 1..f.ng}
\* main.c refuses a size whose inode tables cannot hold the inodes in use (calculate_minimum_resize_size)
ScanPairs == {<<f, Tgt(f, "size", nb)>> : f \in BlockShapes, nb \in 1..3 * MaxG - 1}
IScanPairs == {p \in {<<f, Tgt(f, "size", 3 * n)>> : f \in InodeShapes, n \in 1..MaxG - 1} : p[2].nng < p[1].ng /\ Cardinality(UsedInodes(p[1])) <= 3 * p[2].nng}
\* table layout: 16-block groups, one inode-table block; without flex_bg every group carries  sb | area | bb | ib | it,
\* with flex_bg the bitmaps and tables of all groups are packed behind the descriptor area of group 0
TabIt(ng, flex, area, k) == IF flex THEN 1 + area + 2 * ng + (k - 1) ELSE 16 * (k - 1) + (IF Backup(k) THEN 1 + area ELSE 0) + 2
TabGeo(ng, flex, metabg, rsz, rsv, is64) ==
    LET dpb == IF is64 THEN 1 ELSE 2   area == IF metabg THEN 0 ELSE CeilDiv(ng, dpb) + rsv
    IN [bpg |-> 16, first |-> 0, blocks |-> 16 * ng, ipg |-> 3, ng |-> ng, csum |-> TRUE, flex |-> flex, metabg |-> metabg, rsz |-> rsz, rsv |-> rsv,
        dpb |-> dpb, dpbo |-> 3 - dpb, fmb |-> 0, itb |-> 1,
        g |-> [k \in 1..ng |-> Gr(FALSE, Backup(k), "meta", "free", k = 1, FALSE, "none", TabIt(ng, flex, area, k))]]
TabShapes == {s \in {TabGeo(ng, flex, metabg, rsz, rsv, is64) : ng \in 1..6, flex \in BOOLEAN, metabg \in BOOLEAN, rsz \in BOOLEAN, rsv \in 0..1, is64 \in BOOLEAN} : s.flex => s.ng <= 3}
TabPairs == {p \in {<<f, Tgt(f, "size", 16 * n)>> : f \in {s \in TabShapes : s.rsz \/ s.rsv = 0}, n \in 2..7} : p[2].nng > p[1].ng}
            \cup {<<f, [kind |-> IF f.dpb = 2 THEN "conv64" ELSE "conv32", nb |-> f.blocks, nng |-> f.ng, cnb |-> "free"]>> : f \in {s \in TabShapes : s.rsz \/ s.rsv = 0}}
Universe == ScanPairs \cup IScanPairs \cup TabPairs

(***************************************************************************************************************)
(* blocks_to_move: the loop over the blocks that no longer fit                                                  *)
(***************************************************************************************************************)
DataBlocks(f) == {b \in 0..f.blocks - 1 : ClassAt(f, b) = "data"}
RECURSIVE ScanLoop(_, _, _)
ScanLoop(f, blk, acc) ==
    IF blk >= f.blocks THEN acc
    ELSE LET k == blk \div f.bpg + 1
         IN IF f.csum /\ f.g[k].bu
              THEN \* "blk = ext2fs_group_first_block2(fs, g+1) - 1; continue;"  -- the for loop then adds one
                   ScanLoop(f, (IF DevUninitSkipOffByOne THEN GF(f, k + 1) ELSE GF(f, k + 1) - 1) + 1, acc)
              ELSE ScanLoop(f, blk + 1, IF ClassAt(f, blk) = "data" THEN acc \cup {blk} ELSE acc)
ToMove(f, t) == IF Shrinks(f, t) THEN ScanLoop(f, t.nb, {}) ELSE {}
Required(f, t) == IF Shrinks(f, t) THEN {b \in DataBlocks(f) : b >= t.nb} ELSE {}
NoBlockLostAt(f, t) == Required(f, t) \subseteq ToMove(f, t)

(***************************************************************************************************************)
(* inode_scan_and_fix                                                                                           *)
(***************************************************************************************************************)
StartToMove(f, t) == t.nng * f.ipg
Stays(f, t, i) == IF DevBoundaryInodeMoved THEN i < StartToMove(f, t) ELSE i <= StartToMove(f, t)
MovedInodes(f, t) == IF Drops(f, t) THEN {i \in UsedInodes(f) : ~Stays(f, t, i)} ELSE {}
FreeSlots(f, t) == (1..StartToMove(f, t)) \ UsedInodes(f)
\* ext2fs_new_inode(dir = 0): the lowest free number; the k-th inode met by the scan gets the k-th free number
Rank(S, e) == Cardinality({y \in S : y <= e})
Nth(S, n) == CHOOSE e \in S : Rank(S, e) = n
Aborts(f, t) == Cardinality(MovedInodes(f, t)) > Cardinality(FreeSlots(f, t))     \* no inode left: the run fails, the error flag stays
Imap(f, t) == [i \in UsedInodes(f) |-> IF i \in MovedInodes(f, t) THEN Nth(FreeSlots(f, t), Rank(MovedInodes(f, t), i)) ELSE i]
\* the new inode bitmap is the old one cut at the new inode count (ext2fs_resize_inode_bitmap2) plus the newly allocated numbers
UsedAfter(f, t) == (UsedInodes(f) \cap (1..StartToMove(f, t))) \cup {Imap(f, t)[i] : i \in MovedInodes(f, t)}
InodesBijectiveAt(f, t) ==
    Drops(f, t) /\ ~Aborts(f, t) =>
        /\ UsedAfter(f, t) = {Imap(f, t)[i] : i \in UsedInodes(f)}
        /\ Cardinality(UsedAfter(f, t)) = Cardinality(UsedInodes(f))
        /\ \A i \in UsedInodes(f) : Imap(f, t)[i] <= StartToMove(f, t) /\ (i <= StartToMove(f, t) => Imap(f, t)[i] = i)

(***************************************************************************************************************)
(* the device program of a run and the error flag                                                               *)
(***************************************************************************************************************)
Plan(f, t) == [bm |-> ToMove(f, t) # {}, im |-> MovedInodes(f, t) # {} /\ ~Aborts(f, t), ab |-> Drops(f, t) /\ Aborts(f, t),
               tm |-> Min2(2, Cardinality(MustMoveIt(f, t))), ri |-> f.rsz]
W(k) == <<"w", k>>
F(b) == <<"f", b>>
NewFsFlag == IF DevFlagClearedEarly THEN "off" ELSE "on"
Prog(p) ==    <<W("on"), F(TRUE)>>                                                       \* s_state |= EXT2_ERROR_FS; ext2fs_flush(fs)
           \o (IF p.bm THEN <<W("out"), F(TRUE)>> ELSE <<>>)                             \* block_mover (copies, then io_channel_flush)
           \o (IF p.im THEN <<W("out")>> ELSE <<>>)                                      \* inode_scan_and_fix, inode_ref_fix
           \o (IF p.ab THEN <<>> ELSE
                  (IF p.tm = 0 THEN <<>> ELSE
                      (IF p.tm = 2 THEN <<W("out"), W("on"), F(TRUE)>> ELSE <<>>)        \* one table copied; old_fs flushed (superblock only)
                      \o <<W("out"), W("on"), F(TRUE),                                   \* the last table
                           W("out"), F(TRUE), W(NewFsFlag), F(NewFsFlag = "on")>>)       \* ext2fs_flush(new_fs) at the end of move_itables
               \o (IF p.ri THEN <<W("out")>> ELSE <<>>)                                  \* fix_resize_inode
               \o <<W("out"), F(TRUE), W("off"), F(FALSE), <<"done", TRUE>>>>)   \* summary stats; close: all but the superblock, flush, superblock, flush

Init == /\ x \in {[f |-> p[1], t |-> p[2], plan |-> Plan(p[1], p[2])] : p \in Universe}
        /\ pc = 0 /\ dErr = FALSE /\ dMod = FALSE /\ pend = {} /\ phase = "run"
\* the plan is all the device program depends on: the shape is dropped after the first step (the algorithm-level
\* invariants are evaluated in the initial states)
Start == pc = 0 /\ pc' = 1 /\ x' = [f |-> 0, t |-> 0, plan |-> x.plan] /\ UNCHANGED <<dErr, dMod, pend, phase>>
Step == /\ pc >= 1 /\ pc <= Len(Prog(x.plan)) /\ pc' = pc + 1 /\ UNCHANGED x
        /\ LET op == Prog(x.plan)[pc]
           IN CASE op[1] = "w" -> Crash!Write(op[2])
                [] op[1] = "f" -> Crash!Fsync(op[2])
                [] OTHER -> Crash!Done
Next == Start \/ Step
Spec == Init /\ [][Next]_vars

NoBlockLost == pc = 0 => NoBlockLostAt(x.f, x.t)
InodesBijective == pc = 0 => InodesBijectiveAt(x.f, x.t)
CrashInvariant == Crash!CrashInvariant
\* a completed run ends with the flag durably off and every modification durable
EndsClean == (pc >= 1 /\ pc > Len(Prog(x.plan)) /\ ~x.plan.ab) => (phase = "done" /\ ~dErr /\ pend = {})

(***************************************************************************************************************)
(* The boundary catalogue                                                                                       *)
(***************************************************************************************************************)
Catalogue == UNION {Marks(p[1], p[2]) : p \in Universe}
Weight(p) == 100 * p[1].ng + Cardinality(DataBlocks(p[1])) + Cardinality(UsedInodes(p[1])) + 5 * Cardinality({k \in 1..p[1].ng : p[1].g[k].io = "all"}) + p[2].nng + Cardinality({k \in 1..p[1].ng : p[1].g[k].bu})
Witness(m) == LET c == {p \in Universe : m \in Marks(p[1], p[2])}
                  w == CHOOSE n \in {Weight(p) : p \in c} : \A p \in c : Weight(p) >= n
              IN CHOOSE p \in c : Weight(p) = w
=============================================================================
