SPECIFICATION Spec
CONSTANTS
  L = 6
  Blocks = {1, 2}
  MaxTxn = 2
  MaxTags = 2
  MaxDmg = 1
  Csum = 3
  Async = 0
  EscSet = {0}
  OldTime = 0
  DevReplayPastBadTag = FALSE
  DevScanAbort = FALSE
  DevAsyncLastBadCommit = FALSE
INVARIANT ReplayExact
INVARIANT ReplayExactAlways
INVARIANT PassesAgree
INVARIANT TypeOK
CONSTRAINT Bound
CHECK_DEADLOCK FALSE
