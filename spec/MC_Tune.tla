------------------------------ MODULE MC_Tune ------------------------------
(* C11 model checking: every sequence of <= MaxLen accepted requests from every starting profile (the abstract states of
   the populated base images, read from IOEnv.PROFILES).  Between requests the e2fsck run tune2fs asked for is carried out
   (a requested -fD is data dependent: both outcomes are explored).
     InvFeatureSet   no reachable state is one libext2fs refuses to open or e2fsck reports as an invalid combination
     InvRewriteAll   a request that changes what checksums are computed from leaves no checksummed object class stale
   ASSUME UniverseOK: every starting image holds every element of Tune's boundary catalogue (else the check is broken)  *)
EXTENDS Tune, Json, IOUtils
CONSTANT MaxLen
VARIABLES st, n, stale, hist
Profiles == ndJsonDeserialize(IOEnv.PROFILES)
FakeNow == 1600000000
St(r) == [feats |-> AsSet(r.feats), label |-> r.label, uuid |-> r.uuid, blocks |-> r.blocks, rblocks |-> r.rblocks, errors |-> r.errors,
          maxmnt |-> r.maxmnt, mntcount |-> r.mntcount, interval |-> r.interval, isz |-> r.isz, bs |-> r.bs, mntopts |-> AsSet(r.mntopts),
          extopts |-> r.extopts, journal |-> r.journal, quota |-> AsSet(r.quota), seed |-> r.seed, resuid |-> r.resuid, resgid |-> r.resgid,
          stride |-> r.stride, stripe |-> r.stripe, hashalg |-> r.hashalg, testfs |-> r.testfs, valid |-> r.valid, errfs |-> r.errfs,
          lastmnt |-> r.lastmnt, mmp |-> r.mmp, mmpint |-> r.mmpint, orphino |-> r.orphino, csumtype |-> r.csumtype,
          lastcheck |-> r.lastcheck, mtime |-> r.mtime, jdev |-> r.jdev, packed |-> r.packed, jmode |-> r.jmode,
          qinum |-> [usr |-> r.qinum.usr, grp |-> r.qinum.grp, prj |-> r.qinum.prj], firstino |-> r.firstino, lowfree |-> r.lowfree]
(* the starting images contain every element of the boundary catalogue (census by the independent reader) *)
ASSUME \A i \in 1..Len(Profiles) : UniverseOK(St(Profiles[i].state), Profiles[i].content)
(* every transition of every multi-valued field is taken by the singles and Tune!FieldPairs from every starting state *)
ASSUME \A i \in 1..Len(Profiles) : FieldTransitionsTaken(St(Profiles[i].state))
(* both values of the catalogue element FirstInoFree occur *)
ASSUME {Profiles[i].content.variant : i \in 1..Len(Profiles)} = CatVariants
MCOps == StructuralOps \cup {K("E", "force_fsck", 0), K("L", "newlabel", 0), K("T", "20200101000000", 1577836800), K("m", "", 1),
                                S("o", <<"journal_data">>, <<>>), S("o", <<"journal_data_ordered">>, <<>>), S("o", <<>>, <<"journal_data_writeback">>)}

Fsck(s, op) == {[s EXCEPT !.valid = 1, !.errfs = 0, !.mntcount = 0, !.lastcheck = FakeNow, !.feats = @ \cup x,
                         !.uuid = IF FsckAddsUuid(s) THEN "random" ELSE @] : x \in SUBSET FsckMayRestore(op)}
(* the model does not track inode allocation (lowfree stays what the image says): the variants of a profile that differ only
   in it behave alike; the exploration starts from the plain variant, the ASSUMEs above range over every image *)
Init == /\ st \in {St(Profiles[i].state) : i \in {j \in 1..Len(Profiles) : Profiles[j].content.variant = ""}}
        /\ n = 0 /\ stale = {} /\ hist = <<>>
Next == /\ n < MaxLen
        /\ \E op \in MCOps :
              /\ ~Refused(op, st)
              /\ LET s1 == Effect(op, st)
                 IN \/ MustAskFsck(op, st) /\ st' \in Fsck(s1, op)
                    \/ ~MustAskFsck(op, st) /\ st' = s1
                    \/ ~MustAskFsck(op, st) /\ MayAskDirFsck(op, st) /\ st' \in Fsck([s1 EXCEPT !.valid = 0], op)
              /\ stale' = Stale(op, st)
              /\ hist' = Append(hist, op)
        /\ n' = n + 1
Spec == Init /\ [][Next]_<<st, n, stale, hist>>
View == <<st, n, stale>>
InvFeatureSet == FeatureSetOK(st)
InvRewriteAll == stale = {}
=============================================================================
