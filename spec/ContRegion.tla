------------------------------ MODULE ContRegion ------------------------------
(* e2fsck/region.c: region_allocate() keeps a sorted linked list of disjoint,
   non-adjacent [start, end) intervals inside [min, max) and answers whether a new
   interval overlaps what was allocated before; it refines a set of addresses
   (ContAbs).  pass1.c uses it to find overlapping extended-attribute values and
   overlapping extents.

   rgList   the linked list region->allocated as a sequence of <<start, end>>
   rgLast   position in rgList of region->last (0 = NULL)
   rgMin, rgMax
   rgSet    the set of allocated addresses
   rgRes    [op, impl, ref]

   Results: -1 outside [min, max);  1 = overlap (also for n = 0: literal);  0 = allocated.            *)
EXTENDS ContAbs
CONSTANTS RgMaxAddr      \* Init: region_create(min, max) with 0 <= min <= max <= RgMaxAddr
VARIABLES rgList, rgLast, rgMin, rgMax, rgSet, rgRes
rgVars == <<rgList, rgLast, rgMin, rgMax, rgSet, rgRes>>
RgR(o, i, r) == [op |-> o, impl |-> i, ref |-> r]

\* the search loop: walks the list from element k (1-based) with prev = k - 1; returns [x, last, rv]
RECURSIVE RgWalk(_, _, _, _, _)
RgWalk(x, last, k, start, end) ==
   IF k > Len(x) THEN            \* fell off the list: insert after prev (append)
      [x |-> x \o << <<start, end>> >>, last |-> Len(x) + 1, rv |-> 0]
   ELSE LET r == x[k] IN
      IF \/ (start >= r[1] /\ start < r[2])
         \/ (end > r[1] /\ end <= r[2])
         \/ (start <= r[1] /\ end >= r[2]) THEN [x |-> x, last |-> last, rv |-> 1]
      ELSE IF end = r[1] THEN [x |-> [x EXCEPT ![k] = <<start, r[2]>>], last |-> last, rv |-> 0]
      ELSE IF start = r[2] THEN
         IF k < Len(x) THEN
            LET nx == x[k + 1] IN
            IF end > nx[1] THEN [x |-> x, last |-> last, rv |-> 1]
            ELSE IF end = nx[1] THEN
               \* merge r and next; "if (!r->next) region->last = r"; a `last' behind the freed element moves up
               LET x1 == RemoveAt0([x EXCEPT ![k] = <<r[1], nx[2]>>], k) IN
               [x |-> x1, last |-> IF k = Len(x1) THEN k ELSE IF last > k THEN last - 1 ELSE last, rv |-> 0]
            ELSE [x |-> [x EXCEPT ![k] = <<r[1], end>>], last |-> last, rv |-> 0]
         ELSE [x |-> [x EXCEPT ![k] = <<r[1], end>>], last |-> last, rv |-> 0]
      ELSE IF start < r[1] THEN  \* insert before r, after prev; new->next = r is non-NULL: last untouched, but shifts if behind
         [x |-> InsertAt0(x, k - 1, <<start, end>>), last |-> IF last >= k THEN last + 1 ELSE last, rv |-> 0]
      ELSE RgWalk(x, last, k + 1, start, end)

RgAllocate(start, n) ==
   LET end == start + n IN
   /\ n >= 0
   /\ IF start < rgMin \/ end > rgMax THEN
         /\ rgRes' = RgR("allocate", <<-1>>, <<-1>>) /\ UNCHANGED <<rgList, rgLast, rgSet>>
      ELSE IF n = 0 THEN
         /\ rgRes' = RgR("allocate", <<1>>, <<1>>) /\ UNCHANGED <<rgList, rgLast, rgSet>>
      ELSE
         LET ref == IF (start..(end - 1)) \cap rgSet # {} THEN 1 ELSE 0
             lastIsTail == rgLast # 0 /\ rgLast = Len(rgList)                   \* region->last && !region->last->next
             o == IF lastIsTail /\ rgList[rgLast][2] = start
                     THEN [x |-> [rgList EXCEPT ![rgLast] = <<rgList[rgLast][1], end>>], last |-> rgLast, rv |-> 0]
                  ELSE IF lastIsTail /\ start > rgList[rgLast][2]
                     THEN [x |-> rgList \o << <<start, end>> >>, last |-> Len(rgList) + 1, rv |-> 0]     \* goto append_to_list
                  ELSE RgWalk(rgList, rgLast, 1, start, end)
         IN /\ rgList' = o.x /\ rgLast' = o.last
            /\ rgRes' = RgR("allocate", <<o.rv>>, <<ref>>)
            /\ rgSet' = IF ref = 0 THEN rgSet \cup (start..(end - 1)) ELSE rgSet
   /\ UNCHANGED <<rgMin, rgMax>>

RgInit == /\ rgList = <<>> /\ rgLast = 0 /\ rgSet = {} /\ rgRes = RgR("init", <<0>>, <<0>>)
          /\ rgMin \in 0..RgMaxAddr /\ rgMax \in rgMin..RgMaxAddr
RgNext == \E s \in 0..RgMaxAddr : \E n \in 0..(RgMaxAddr + 1 - s) : RgAllocate(s, n)
RgSpec == RgInit /\ [][RgNext]_rgVars

RgAbs(x) == UNION {e[1]..(e[2] - 1) : e \in SeqRange(x)}
RgStructural == /\ \A i \in 1..Len(rgList) : rgList[i][1] < rgList[i][2] /\ rgList[i][1] >= rgMin /\ rgList[i][2] <= rgMax
                /\ \A i \in 1..(Len(rgList) - 1) : rgList[i][2] <= rgList[i + 1][1]              \* sorted and disjoint
                /\ rgLast \in 0..Len(rgList)
\* region->last is the tail whenever the list is not empty (the fast paths rely on "!last->next" only as a safety net)
RgLastIsTail == rgLast = Len(rgList)
RgRefines == RgAbs(rgList) = rgSet
RgResultsAgree == rgRes.impl = rgRes.ref
=============================================================================
