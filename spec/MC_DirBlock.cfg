SPECIFICATION Spec
CONSTANTS
  N = 7
  NLen = <<255, 255, 255, 120, 8, 1, 255>>
  G = [bs |-> 1024, tail |-> 12, cs |-> 12]
  Inline = FALSE
  MaxBlocks = 9
INVARIANT InvChain
INVARIANT InvLive
INVARIANT InvInsertable
CHECK_DEADLOCK FALSE
