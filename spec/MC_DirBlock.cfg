SPECIFICATION Spec
CONSTANTS
  N = 5
  NLen <- cNLen
  G <- G1kCsum
  Inline = FALSE
  MaxBlocks = 9
INVARIANT InvChain
INVARIANT InvLive
INVARIANT InvInsertable
CHECK_DEADLOCK FALSE
