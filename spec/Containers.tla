------------------------------ MODULE Containers ------------------------------
(* The five in-memory containers side by side.  One behaviour works on ONE of them (cWhich, chosen in the initial
   state), the others stay in their initial state, so that the reachable state space is the disjoint union of the five
   state spaces and one TLC run checks all of them.  The per-container modules are checkable on their own
   (MC_ContRefcount.cfg, ...).                                                                                  *)
EXTENDS ContRefcount, ContIcount, ContDblist, ContBadblocks, ContRegion
CONSTANTS CWhich              \* which containers the run covers, subset of {"rc", "ic", "db", "bb", "rg"}
VARIABLES cWhich
cVars == <<rcVars, icVars, dbVars, bbVars, rgVars, cWhich>>

\* fixed initial states for the containers that are not the subject of the behaviour
IcIdle == IcInitWith(0, 1, 1)
DbIdle == dbList = <<>> /\ dbSize = 1 /\ dbSorted = 1 /\ dbBag = EmptyBag /\ dbTotal = 0 /\ dbRes = DbR("init", <<OK>>, <<OK>>)
BbIdle == bbList = <<>> /\ bbSize = 1 /\ bbSet = {} /\ bbRes = BbR("init", <<OK>>, <<OK>>)
RgIdle == rgList = <<>> /\ rgLast = 0 /\ rgSet = {} /\ rgRes = RgR("init", <<0>>, <<0>>) /\ rgMin = 0 /\ rgMax = 0

CInit == /\ cWhich \in CWhich
         /\ RcInit
         /\ IF cWhich = "ic" THEN IcInit ELSE IcIdle
         /\ IF cWhich = "db" THEN DbInit ELSE DbIdle
         /\ IF cWhich = "bb" THEN BbInit ELSE BbIdle
         /\ IF cWhich = "rg" THEN RgInit ELSE RgIdle
CNext == /\ UNCHANGED cWhich
         /\ \/ cWhich = "rc" /\ RcNext /\ UNCHANGED <<icVars, dbVars, bbVars, rgVars>>
            \/ cWhich = "ic" /\ IcNext /\ UNCHANGED <<rcVars, dbVars, bbVars, rgVars>>
            \/ cWhich = "db" /\ DbNext /\ UNCHANGED <<rcVars, icVars, bbVars, rgVars>>
            \/ cWhich = "bb" /\ BbNext /\ UNCHANGED <<rcVars, icVars, dbVars, rgVars>>
            \/ cWhich = "rg" /\ RgNext /\ UNCHANGED <<rcVars, icVars, dbVars, bbVars>>
CSpec == CInit /\ [][CNext]_cVars

CStructural == RcStructural /\ RcBounded /\ IcStructural /\ DbStructural /\ BbStructural /\ RgStructural /\ RgLastIsTail
CRefines == RcRefines /\ IcRefinesFast /\ DbRefines /\ BbRefines /\ RgRefines
CRefinesSlow == IcRefines /\ BbScanAgree
CResultsAgree == RcResultsAgree /\ IcResultsAgree /\ DbResultsAgree /\ BbResultsAgree /\ RgResultsAgree
=============================================================================
