----------------------------- MODULE Trace_Crc -----------------------------
(* Each line: {alg, seed_hi, seed_lo, buf: [bytes], hi, lo} as returned by the real ext2fs_crc32c_le / ext2fs_crc32_be /
   ext2fs_crc16 on a buffer placed at a chosen alignment (harness/crcdrv.c).  The result must equal the definition. *)
EXTENDS Crc, Json, IOUtils, TLC
VARIABLE l
Tr == ndJsonDeserialize(IOEnv.TRACE)
Ref(r) == IF r.alg = "crc32c_le" THEN Crc32cLE(<<r.seed_hi, r.seed_lo>>, r.buf)
          ELSE IF r.alg = "crc32_be" THEN Crc32BE(<<r.seed_hi, r.seed_lo>>, r.buf)
          ELSE <<0, Crc16(r.seed_lo, r.buf)>>
TLine == /\ l <= Len(Tr)
         /\ (IF Ref(Tr[l]) # <<Tr[l].hi, Tr[l].lo>> THEN PrintT(<<"BADLINE", l>>) ELSE TRUE)
         /\ l' = l + 1
TraceSpec == l = 1 /\ [][TLine]_l
TraceAccepted == TLCGet("stats").diameter - 1 = Len(Tr)
=============================================================================
