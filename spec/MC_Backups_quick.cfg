SPECIFICATION Spec
CONSTANTS
  MaxG = 26
  Dpbs = {16, 32}
  ResizeSet = {1, 2, 3, 4, 8, 10, 26}
  MaxSteps = 2
  DevTuneMasterOnly = FALSE
  DevFsckIgnoresFeatDiff = FALSE
  DevFlushSkipsLast = FALSE
  DevResizeKeepsOldGdt = FALSE
  DevResizeMovesSoleBackup = FALSE
INVARIANT TypeOK
INVARIANT InvCurrent
INVARIANT InvBackupSet
INVARIANT Ss2Shape
INVARIANT InvRecover
CHECK_DEADLOCK FALSE
