SPECIFICATION Spec
CONSTANTS
  MaxN = 6
  DevFfzEmpty = TRUE
  DevGetEmpty = TRUE
  DevRemoveRet = TRUE
  DevSetRangeOr = TRUE
  DevCmpLast = TRUE
INVARIANT Structural
INVARIANT Refines
INVARIANT ResultsAgree
CHECK_DEADLOCK FALSE
