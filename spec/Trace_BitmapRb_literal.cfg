SPECIFICATION TraceSpec
CONSTANTS
  MaxN = 100000
  DevFfzEmpty = TRUE
  DevGetEmpty = TRUE
  DevRemoveRet = TRUE
  DevSetRangeOr = TRUE
  DevCmpLast = TRUE
INVARIANT Structural
INVARIANT Refines
INVARIANT ResultsAgree
POSTCONDITION TraceAccepted
CHECK_DEADLOCK FALSE
