-------------------------------- MODULE Fsck --------------------------------
(***************************************************************************)
(* Design-level model of e2fsck's passes 1-5 over a TINY filesystem        *)
(* (6 inodes, 9 blocks, one group).  It is not bound to the code line by   *)
(* line (pass 1 alone is 4.5 kLoC); it states the DESIGN of the checker:   *)
(* which pass detects which class of inconsistency and which repair it     *)
(* makes, in which order.  TLC checks on every state reachable from a      *)
(* consistent filesystem by <= MaxC corruptions of the catalogue classes   *)
(* (Corrupt.tla: bitmap bit flips, link counts, block pointers aliased /   *)
(* out of range / into fixed metadata / dropped, directory entries         *)
(* dropped / redirected to a free inode / added, '..' wrong, group counts):*)
(*                                                                         *)
(*   InvC02   FsckN reports nothing  <=>  Consistent(fs)                   *)
(*            (every conjunct of Consistent has a detecting pass, and the  *)
(*            passes flag nothing on a consistent filesystem)              *)
(*   InvC01   after the repairing run 1..5 (phase "done"), if it claims    *)
(*            success, FsckN reports nothing (one run is enough)           *)
(*                                                                         *)
(* The repairs of each pass see the repairs of the earlier passes (pass 5  *)
(* recomputes bitmaps and counts from what passes 1-4 left).  Two seeded   *)
(* design mutants show that the two invariants are not vacuous:            *)
(*   MutPass5NotWritten  pass 5 repairs the block bitmap in memory, fixes  *)
(*                       the counts from it, but never writes the bitmap   *)
(*   MutNoDupCheck       pass 1 does not record owners of blocks that a    *)
(*                       second inode claims (no pass 1B-1D)               *)
(* The real-code twins of these mutants are mutants/C01_*.patch and        *)
(* mutants/C02_*.patch.                                                    *)
(***************************************************************************)
EXTENDS Integers, FiniteSets, Sequences, TLC

CONSTANTS MaxC,                 \* number of corruptions applied before the check
          MutPass5NotWritten, MutNoDupCheck

NI == 6
NB == 9
I == 1..NI
B == 1..NB
Root == 1
Lpf  == 2          \* lost+found: corruptions leave it alone (the model assumes it can be used for reconnection)
Fixed == {1}       \* block 1 stands for the fixed metadata (superblock, descriptors, bitmaps, inode table)
Beyond == NB + 1
Slots == 1..2

VARIABLES fs, nc, phase, found, unfixed
vars == <<fs, nc, phase, found, unfixed>>

(***************************************************************************)
(* the consistent filesystem everything starts from                        *)
(*   /            inode 1, block 2      /lost+found  inode 2, block 3      *)
(*   /a           inode 3, block 4      /a/f         inode 4, blocks 5 6   *)
(*   /h = /a/h    inode 5, block 7      inode 6 free, blocks 8 9 free      *)
(***************************************************************************)
Good == [mode  |-> <<"dir", "dir", "dir", "reg", "reg", "free">>,
         links |-> <<4, 2, 2, 1, 2, 0>>,
         ptr   |-> << <<2, 0>>, <<3, 0>>, <<4, 0>>, <<5, 6>>, <<7, 0>>, <<0, 0>> >>,
         ents  |-> {<<1, 2>>, <<1, 3>>, <<1, 5>>, <<3, 4>>, <<3, 5>>},
         par   |-> <<1, 1, 1, 0, 0, 0>>,
         bbm   |-> {1, 2, 3, 4, 5, 6, 7},
         ibm   |-> {1, 2, 3, 4, 5},
         fb    |-> 2, fi |-> 1, nd |-> 3]

(***************************************************************************)
(* Consistent: the same eight conjuncts as Ext4Abs (Shapes and Csums have  *)
(* no counterpart at this level of abstraction)                            *)
(***************************************************************************)
InUse(s)   == {i \in I : s.mode[i] # "free"}
Dirs(s)    == {i \in I : s.mode[i] = "dir"}
Claims(s)  == {<<i, k>> : i \in InUse(s), k \in Slots}
PtrOf(s, c) == s.ptr[c[1]][c[2]]
Claimed(s) == {PtrOf(s, c) : c \in {x \in Claims(s) : PtrOf(s, x) # 0}}
Parents(s, i) == {e[1] : e \in {x \in s.ents : x[2] = i}}
Refs(s, i) == IF s.mode[i] = "dir"
              THEN 1 + Cardinality(Parents(s, i)) + Cardinality({d \in Dirs(s) : s.par[d] = i})
              ELSE Cardinality(Parents(s, i))

InRange(s)      == \A c \in Claims(s) : PtrOf(s, c) \in 0..NB
NotFixedMeta(s) == \A c \in Claims(s) : PtrOf(s, c) \notin Fixed
SingleOwner(s)  == \A c, d \in Claims(s) : (c # d /\ PtrOf(s, c) # 0) => PtrOf(s, c) # PtrOf(s, d)
BitmapsExact(s) == s.bbm = Fixed \cup (Claimed(s) \cap B) /\ s.ibm = InUse(s)
GroupCounts(s)  == s.fb = NB - Cardinality(s.bbm) /\ s.fi = NI - Cardinality(s.ibm) /\ s.nd = Cardinality(Dirs(s))
Links(s) ==
    /\ \A e \in s.ents : e[1] \in Dirs(s) /\ e[2] \in InUse(s)
    /\ \A i \in InUse(s) : s.links[i] = Refs(s, i)
    /\ \A i \in InUse(s) \ {Root} : Parents(s, i) # {}
    /\ Parents(s, Root) = {} /\ s.par[Root] = Root
    /\ \A d \in Dirs(s) \ {Root} : Cardinality(Parents(s, d)) = 1 /\ s.par[d] \in Parents(s, d)
    \* every directory's chain of parents ends at the root (no detached cycle)
    /\ \A d \in Dirs(s) : \E n \in 0..NI : LET up[k \in 0..NI] == IF k = 0 THEN d ELSE s.par[up[k - 1]] IN up[n] = Root

Consistent(s) == InRange(s) /\ NotFixedMeta(s) /\ SingleOwner(s) /\ BitmapsExact(s) /\ GroupCounts(s) /\ Links(s)

(***************************************************************************)
(* The corruption classes (role.field.value class of Corrupt.tla)          *)
(***************************************************************************)
Files == {4, 5}
CorruptTo(s) ==
    {[s EXCEPT !.bbm = IF b \in s.bbm THEN s.bbm \ {b} ELSE s.bbm \cup {b}] : b \in B}                 \* bb.bit.flip_*
    \cup {[s EXCEPT !.ibm = IF i \in s.ibm THEN s.ibm \ {i} ELSE s.ibm \cup {i}] : i \in I \ {Root, Lpf}}   \* ib.bit.flip_*
    \cup UNION {{[s EXCEPT !.links[i] = v] : v \in {s.links[i] + 1, IF s.links[i] > 1 THEN s.links[i] - 1 ELSE s.links[i] + 1}} : i \in {1, 3, 4, 5}}
    \cup {[s EXCEPT !.ptr[i][k] = v] : i \in {3, 4, 5}, k \in Slots, v \in {0, 1, 2, 5, 8, Beyond}}       \* zero, alias_meta, alias_other/self, plus, beyond
    \cup {[s EXCEPT !.ents = s.ents \ {e}] : e \in s.ents \ {<<1, 2>>}}                                    \* dirent inode = 0
    \cup {[s EXCEPT !.ents = (s.ents \ {e}) \cup {<<e[1], 6>>}] : e \in s.ents \ {<<1, 2>>}}              \* dirent -> free inode
    \cup UNION {{[s EXCEPT !.ents = s.ents \cup {<<d, c>>}] : c \in {3, 4, 5} \ {d}} : d \in {1, 3}}               \* dirent -> another in-use inode
    \cup {[s EXCEPT !.par[3] = v] : v \in {2, 3}}                                                       \* '..' wrong
    \cup {[s EXCEPT !.fb = v] : v \in {s.fb + 1, s.fb - 1}} \cup {[s EXCEPT !.fi = s.fi + 1]} \cup {[s EXCEPT !.nd = s.nd + 1]}

(***************************************************************************)
(* The passes.  Each returns [s |-> repaired state, p |-> problems found,  *)
(* u |-> problems it could not repair].  Detection is the same in -n and   *)
(* -y mode; FsckN applies no repair, so later passes see the damage.       *)
(***************************************************************************)
Min(S) == CHOOSE x \in S : \A y \in S : x <= y

\* pass 1: illegal blocks are cleared; a block claimed twice is cloned for the later claimer (pass 1B-1D)
BadPtr(s)  == {c \in Claims(s) : PtrOf(s, c) \notin 0..NB \/ PtrOf(s, c) \in Fixed}
ClaimLt(c, d) == c[1] < d[1] \/ (c[1] = d[1] /\ c[2] < d[2])
DupPtr(s)  == IF MutNoDupCheck THEN {}
              ELSE {d \in Claims(s) \ BadPtr(s) : PtrOf(s, d) # 0 /\ \E c \in Claims(s) \ BadPtr(s) : ClaimLt(c, d) /\ PtrOf(s, c) = PtrOf(s, d)}
Pass1(s) ==
    LET bad == BadPtr(s)
        s1  == [s EXCEPT !.ptr = [i \in I |-> [k \in Slots |-> IF <<i, k>> \in bad THEN 0 ELSE s.ptr[i][k]]]]
        dup == DupPtr(s1)
        \* clone: each later claimer gets a block nobody claims (lowest first); without a free block the pointer is cleared
        RECURSIVE Clone(_, _)
        Clone(t, todo) == IF todo = {} THEN t
                          ELSE LET c == CHOOSE x \in todo : \A y \in todo : x = y \/ ClaimLt(x, y)
                                   free == B \ (Fixed \cup Claimed(t))
                                   nb == IF free = {} THEN 0 ELSE Min(free)
                               IN Clone([t EXCEPT !.ptr[c[1]][c[2]] = nb], todo \ {c})
    IN [s |-> Clone(s1, dup), p |-> {<<"p1_bad_block", c>> : c \in bad} \cup {<<"p1_dup_block", c>> : c \in dup}, u |-> {}]

\* pass 2: entries that name an unused inode are removed; a second entry for a directory is removed (first parent wins);
\* '..' is compared with the parent in pass 3
Pass2(s) ==
    LET dead == {e \in s.ents : e[2] \notin InUse(s) \/ e[1] \notin Dirs(s)}
        e1   == s.ents \ dead
        extra == {e \in e1 : s.mode[e[2]] = "dir" /\ \E f \in e1 : f[2] = e[2] /\ f[1] < e[1]}
                 \cup {e \in e1 : e[2] = Root}
    IN [s |-> [s EXCEPT !.ents = e1 \ extra], p |-> {<<"p2_bad_ino", e>> : e \in dead} \cup {<<"p2_link_dir", e>> : e \in extra}, u |-> {}]

\* pass 3: a directory without a parent entry is reconnected to lost+found; '..' is made to agree with the parent
Pass3(s) ==
    LET lost == {d \in Dirs(s) \ {Root} : Parents(s, d) = {}}
        e2   == s.ents \cup {<<Lpf, d>> : d \in lost}
        s2   == [s EXCEPT !.ents = e2]
        wrong == {d \in Dirs(s2) \ {Root} : s2.par[d] \notin Parents(s2, d)} \cup (IF s.par[Root] # Root THEN {Root} ELSE {})
        s3   == [s2 EXCEPT !.par = [i \in I |-> IF i \in wrong THEN (IF i = Root THEN Root ELSE Min(Parents(s2, i))) ELSE s2.par[i]]]
    IN [s |-> s3, p |-> {<<"p3_unconnected", d>> : d \in lost} \cup {<<"p3_dotdot", d>> : d \in wrong}, u |-> {}]

\* pass 4: unattached inodes go to lost+found; link counts are set to the counted references
Pass4(s) ==
    LET un == {i \in InUse(s) \ Dirs(s) : Parents(s, i) = {}}
        s1 == [s EXCEPT !.ents = s.ents \cup {<<Lpf, i>> : i \in un}]
        wrong == {i \in InUse(s1) : s1.links[i] # Refs(s1, i)}
        s2 == [s1 EXCEPT !.links = [i \in I |-> IF i \in wrong THEN Refs(s1, i) ELSE s1.links[i]]]
    IN [s |-> s2, p |-> {<<"p4_unattached", i>> : i \in un} \cup {<<"p4_link_count", i>> : i \in wrong}, u |-> {}]

\* pass 5: bitmaps and counts are recomputed from what passes 1-4 found
Pass5(s) ==
    LET wantB == Fixed \cup (Claimed(s) \cap B)
        wantI == InUse(s)
        pb == IF s.bbm # wantB THEN {<<"p5_block_bitmap", 0>>} ELSE {}
        pi == IF s.ibm # wantI THEN {<<"p5_inode_bitmap", 0>>} ELSE {}
        \* the counts are compared with the bitmaps as repaired IN MEMORY
        pc == (IF s.fb # NB - Cardinality(wantB) THEN {<<"p5_free_blocks", 0>>} ELSE {})
              \cup (IF s.fi # NI - Cardinality(wantI) THEN {<<"p5_free_inodes", 0>>} ELSE {})
              \cup (IF s.nd # Cardinality(Dirs(s)) THEN {<<"p5_dirs_count", 0>>} ELSE {})
        s1 == [s EXCEPT !.bbm = IF MutPass5NotWritten THEN s.bbm ELSE wantB, !.ibm = wantI,
                        !.fb = NB - Cardinality(wantB), !.fi = NI - Cardinality(wantI), !.nd = Cardinality(Dirs(s))]
    IN [s |-> s1, p |-> pb \cup pi \cup pc, u |-> {}]

PassOf(n, s) == CASE n = 1 -> Pass1(s) [] n = 2 -> Pass2(s) [] n = 3 -> Pass3(s) [] n = 4 -> Pass4(s) [] n = 5 -> Pass5(s)

\* the read-only run: every pass detects on the unrepaired state, except that pass 1's in-memory decisions (which blocks
\* are legal, who owns them) feed the later passes exactly as in the repairing run -- nothing is written
NProblems(s) == UNION {PassOf(n, s).p : n \in 1..5}
NClean(s) == NProblems(s) = {}

(***************************************************************************)
(* Behaviours: corrupt up to MaxC times, then run the passes in order.     *)
(***************************************************************************)
Init == fs = Good /\ nc = 0 /\ phase = 0 /\ found = {} /\ unfixed = {}

Corrupt == /\ phase = 0 /\ nc < MaxC
           /\ \E t \in CorruptTo(fs) : t # fs /\ fs' = t
           /\ nc' = nc + 1 /\ UNCHANGED <<phase, found, unfixed>>

Pass(n) == /\ phase = n - 1
           /\ LET r == PassOf(n, fs) IN fs' = r.s /\ found' = found \cup r.p /\ unfixed' = unfixed \cup r.u
           /\ phase' = n /\ UNCHANGED nc

P1 == Pass(1)
P2 == Pass(2)
P3 == Pass(3)
P4 == Pass(4)
P5 == Pass(5)
Next == Corrupt \/ P1 \/ P2 \/ P3 \/ P4 \/ P5
Spec == Init /\ [][Next]_vars

Success == unfixed = {}          \* the exit status claims success: nothing was left uncorrected

InvC02 == phase = 0 => (NClean(fs) <=> Consistent(fs))
InvC01 == (phase = 5 /\ Success) => NClean(fs)
\* stronger than the property: the repaired filesystem is consistent, and an undamaged one is left alone
InvRepaired == (phase = 5 /\ Success) => Consistent(fs)
InvIdle == (phase = 5 /\ nc = 0) => (fs = Good /\ found = {})
\* sanity of the model itself
TypeOK == /\ fs.bbm \subseteq B /\ fs.ibm \subseteq I /\ phase \in 0..5 /\ nc \in 0..MaxC
=============================================================================
