----------------------------- MODULE ContDblist -----------------------------
(* lib/ext2fs/dblist.c: the directory block list, refining a bag of
   <<ino, blk, blockcnt>> entries (ContAbs).

   dbList    the first `count' elements of dblist->list
   dbSize    dblist->size
   dbSorted  0: dblist->sorted = 0;  1: sorted = 1 after a sort in the library's order;  2: sorted = 1 after a sort in
             the caller's order (the C flag is dbSorted # 0; which order it stands for is the caller's knowledge)
   dbBag     the bag; dbTotal its total multiplicity
   dbRes     [op, impl, ref]

   What in-tree callers rely on (e2fsck pass 1/2/3, rehash, resize2fs, ext2fs_link/expand):
     * add never drops or merges an entry, also not an identical one (pass 1 adds <<ino, 0, n>> for every hole);
     * set_dir_block changes the block of the FIRST element with that <<ino, blockcnt>> in the current array order
       (callers address blocks they added once, so "first" = "the");
     * iterate visits elements start..start+count-1 of the array sorted by <<blk, ino, blockcnt>> (sorting first if an
       add or set happened since the last sort) -- or by the caller's order after ext2fs_dblist_sort2(cmp);
     * count / get_last / drop_last work on the array order as it is (drop_last after add undoes that add).

   Growth (ext2fs_add_dir_block2): size += size > DbGrowThresh ? size / 2 : DbGrow   (200, 100 in the code).

   Order: the mathematical one on 64-bit block numbers (an element carries blk as <<blk \div 2^30, blk % 2^30>>).
   The pinned tree's comparators returned the DIFFERENCE truncated to int, which is not an order once block numbers
   differ by 2^31 or more (qsort's result is then arbitrary, so there is no literal model of it); repaired by
   fixes/C01_cont_dblist_cmp.patch.  Inode numbers and blockcnt stay below 2^31 in the histories.
   The legacy 32-bit entry points (ext2fs_dblist_sort, ext2fs_dblist_iterate) are only used on lists whose block
   numbers fit 32 bits (their callback type cannot carry more).                                             *)
EXTENDS ContAbs
CONSTANTS DbGrow,        \* 100
          DbGrowThresh,  \* 200
          DbInos, DbBlks, DbCnts,     \* universe of the fields (model checking); DbBlks: numbers b standing for hi = b \div 8, lo = b % 8
          DbInitSizes,   \* Init
          DbMaxLen       \* bound on the number of elements (model checking only)
VARIABLES dbList, dbSize, dbSorted, dbBag, dbTotal, dbRes
dbVars == <<dbList, dbSize, dbSorted, dbBag, dbTotal, dbRes>>

DbR(o, i, r) == [op |-> o, impl |-> i, ref |-> r]
\* element = <<ino, blk \div 2^30, blk % 2^30, blockcnt>>: block numbers are 64 bit, TLC integers 32 bit
DbBlkLess(a, b) == a[2] < b[2] \/ (a[2] = b[2] /\ a[3] < b[3])
DbBlkEq(a, b) == a[2] = b[2] /\ a[3] = b[3]
\* dir_block_cmp2: blk, then ino, then blockcnt
DbLess(a, b) == \/ DbBlkLess(a, b)
                \/ DbBlkEq(a, b) /\ a[1] < b[1]
                \/ DbBlkEq(a, b) /\ a[1] = b[1] /\ a[4] < b[4]
\* the caller-supplied order used by the conformance driver: ino, then blockcnt, then blk (a total order, so that
\* qsort's instability cannot show)
DbLessAlt(a, b) == \/ a[1] < b[1]
                   \/ a[1] = b[1] /\ a[4] < b[4]
                   \/ a[1] = b[1] /\ a[4] = b[4] /\ DbBlkLess(a, b)
DbLeq(a, b) == a = b \/ DbLess(a, b)
DbLeqAlt(a, b) == a = b \/ DbLessAlt(a, b)
DbSortedBy(x, alt) == IF alt THEN SortSeq(x, DbLessAlt) ELSE SortSeq(x, DbLess)
DbIsSorted(x, alt) == \A i \in 1..(Len(x) - 1) : IF alt THEN DbLeqAlt(x[i], x[i + 1]) ELSE DbLeq(x[i], x[i + 1])

DbGrown(size) == size + (IF size > DbGrowThresh THEN size \div 2 ELSE DbGrow)

\* ------------------------------------------------------------ ext2fs_add_dir_block2
DbAdd(ino, bh, bl, cnt) ==
   /\ Len(dbList) < DbMaxLen
   /\ dbSize' = IF Len(dbList) >= dbSize THEN DbGrown(dbSize) ELSE dbSize
   /\ dbList' = dbList \o << <<ino, bh, bl, cnt>> >>
   /\ dbSorted' = 0
   /\ dbBag' = BagAdd(dbBag, <<ino, bh, bl, cnt>>) /\ dbTotal' = dbTotal + 1
   /\ dbRes' = DbR("add", <<OK>>, <<OK>>)

\* ------------------------------------------------------------ ext2fs_set_dir_block2
DbSet(ino, bh, bl, cnt) ==
   LET hits == {i \in 1..Len(dbList) : dbList[i][1] = ino /\ dbList[i][4] = cnt} IN
   IF hits = {} THEN
      /\ dbRes' = DbR("set", <<ENOTFOUND>>, <<IF \E t \in DOMAIN dbBag : t[1] = ino /\ t[4] = cnt THEN OK ELSE ENOTFOUND>>)
      /\ UNCHANGED <<dbList, dbSize, dbSorted, dbBag, dbTotal>>
   ELSE LET i == MinOf(hits)  old == dbList[i] IN
      /\ dbList' = [dbList EXCEPT ![i] = <<ino, bh, bl, cnt>>]
      /\ dbSorted' = 0
      /\ dbBag' = BagAdd(BagDel(dbBag, old), <<ino, bh, bl, cnt>>)
      /\ dbRes' = DbR("set", <<OK>>, <<OK>>)
      /\ UNCHANGED <<dbSize, dbTotal>>

\* ------------------------------------------------------------ ext2fs_dblist_sort2(dblist, cmp) / ext2fs_dblist_sort (legacy wrapper)
DbSort(alt) ==
   /\ dbList' = DbSortedBy(dbList, alt)
   /\ dbSorted' = IF alt THEN 2 ELSE 1
   /\ dbRes' = DbR("sort", <<OK>>, <<OK>>)
   /\ UNCHANGED <<dbSize, dbBag, dbTotal>>

\* ------------------------------------------------------------ ext2fs_dblist_iterate3(dblist, f, start, count)
\* the callback records what it is shown and never aborts; the result is the visited sub-sequence
DbIterate(start, count) ==
   LET x == IF dbSorted = 0 THEN DbSortedBy(dbList, FALSE) ELSE dbList
       e == Lesser(start + count, Len(x))
   IN /\ dbList' = x /\ dbSorted' = IF dbSorted = 0 THEN 1 ELSE dbSorted
      /\ dbRes' = DbR("iterate", SubSeq(x, start + 1, e), <<OK>>)
      /\ UNCHANGED <<dbSize, dbBag, dbTotal>>

DbCount == /\ dbRes' = DbR("count", <<Len(dbList)>>, <<dbTotal>>)
           /\ UNCHANGED <<dbList, dbSize, dbSorted, dbBag, dbTotal>>
DbGetLast == /\ dbRes' = IF Len(dbList) = 0 THEN DbR("get_last", <<EEMPTY>>, <<IF dbTotal = 0 THEN EEMPTY ELSE OK>>)
                         ELSE DbR("get_last", <<OK>> \o dbList[Len(dbList)], <<IF dbTotal = 0 THEN EEMPTY ELSE OK>>)
             /\ UNCHANGED <<dbList, dbSize, dbSorted, dbBag, dbTotal>>
DbDropLast ==
   IF Len(dbList) = 0 THEN /\ dbRes' = DbR("drop_last", <<EEMPTY>>, <<IF dbTotal = 0 THEN EEMPTY ELSE OK>>)
                           /\ UNCHANGED <<dbList, dbSize, dbSorted, dbBag, dbTotal>>
   ELSE /\ dbList' = SubSeq(dbList, 1, Len(dbList) - 1)
        /\ dbBag' = BagDel(dbBag, dbList[Len(dbList)]) /\ dbTotal' = dbTotal - 1
        /\ dbRes' = DbR("drop_last", <<OK>>, <<OK>>)
        /\ UNCHANGED <<dbSize, dbSorted>>
\* ext2fs_copy_dblist, the copy replacing the original: same array, size, sorted flag
DbCopy == /\ dbRes' = DbR("copy", <<OK>>, <<OK>>)
          /\ UNCHANGED <<dbList, dbSize, dbSorted, dbBag, dbTotal>>

DbInit == /\ dbList = <<>> /\ dbSize \in DbInitSizes /\ dbSorted = 1        \* ext2fs_init_dblist: sorted = 1
          /\ dbBag = EmptyBag /\ dbTotal = 0 /\ dbRes = DbR("init", <<OK>>, <<OK>>)
DbNext == \/ \E i \in DbInos : \E b \in DbBlks : \E c \in DbCnts : DbAdd(i, b \div 8, b % 8, c) \/ DbSet(i, b \div 8, b % 8, c)
          \/ \E alt \in BOOLEAN : DbSort(alt)
          \/ \E s \in 0..DbMaxLen : \E n \in 0..(DbMaxLen + 1) : DbIterate(s, n)
          \/ DbCount \/ DbGetLast \/ DbDropLast \/ DbCopy
DbSpec == DbInit /\ [][DbNext]_dbVars

\* ------------------------------------------------------------ invariants
DbStructural == /\ Len(dbList) <= dbSize
                /\ dbSorted \in {0, 1, 2}
                /\ (dbSorted # 0 => DbIsSorted(dbList, dbSorted = 2))        \* the flag never lies
DbRefines == ArrangementOf(dbList, dbBag, dbTotal)
\* iterate: the visited sequence is ascending in the library's order (ties are identical triples), so that every
\* element of the bag is shown exactly as often as it was added when the whole range is asked for
DbResultsAgree ==
   CASE dbRes.op = "iterate" -> DbIsSorted(dbRes.impl, dbSorted = 2)
     [] dbRes.op = "get_last" -> dbRes.impl[1] = dbRes.ref[1]
     [] OTHER -> dbRes.impl = dbRes.ref
=============================================================================
