--------------------------- MODULE MC_UnixIoCache ---------------------------
(* Model-checking harness for UnixIoCache: bounded arguments, payload tags, fault choice, and the VIEW that
   identifies states that differ only by a renaming of payload tags (only equality of copies of the same
   granule, and equality with 0, is ever observed, so the renaming is a bisimulation).                      *)
EXTENDS UnixIoCache
CONSTANTS BlkSizes,     \* block sizes (granules) SetBlksize may choose
          NegSizes,     \* byte-count style requests: sizes in granules (count = -size)
          ByteLens,     \* write_byte lengths in granules
          Cfgs,         \* set of <<writethrough, force_bounce, handler>> the channel may be opened with
          MaxW,         \* device write attempts of one call that the fault choice may hit
          MaxFaults,    \* calls with injected faults per behaviour
          Toggle,       \* CacheOff / CacheOn explored
          ZeroFail      \* zeroout / discard may be refused by the kernel
VARIABLE faults
mcvars == <<vars, faults>>

Max(S) == CHOOSE x \in S : \A y \in S : y <= x
AllTags == {0} \cup {dev[g] : g \in G} \cup {logical[g] : g \in G}
           \cup UNION {{slot[i].data[j] : j \in 1..Len(slot[i].data)} : i \in 1..K}
NewTag == 1 + Max(AllTags)
FailSets == {{}} \cup {{k} : k \in 1..MaxW} \cup {{k, k + 1} : k \in 1..MaxW}
Cnts == (1..(D + 2)) \cup {-n : n \in NegSizes}
Fresh(n) == TLCEval([j \in 1..n |-> NewTag])

MCInit == InitWith(TLCEval([g \in G |-> 1])) /\ faults = 0
MCNext ==
   \E F \in FailSets :
      /\ (F # {}) => faults < MaxFaults
      /\ faults' = faults + (IF F = {} THEN 0 ELSE 1)
      /\ \/ \E blk \in G, cnt \in Cnts : Read(blk, cnt, F)
         \/ \E blk \in G, cnt \in Cnts : InRange(blk, cnt) /\ Write(blk, cnt, Fresh(Span(blk, cnt)), F)
         \/ \E off \in G, n \in ByteLens : off + n <= NG /\ WriteByte(off, n, Fresh(n), F)
         \/ \E blk \in G, n \in 1..(D + 1), zok \in (IF ZeroFail THEN BOOLEAN ELSE {TRUE}) : Zeroout(blk, n, zok, NewTag, F)
         \/ Flush(F)
         \/ Close(F)
         \/ \E nbs \in BlkSizes : nbs # bs /\ SetBlksize(nbs, F)
         \/ (Toggle /\ ~cfg.nocache /\ CacheOff(F))
         \/ (Toggle /\ cfg.nocache /\ F = {} /\ CacheOn)
         \/ (F = {} /\ \E c \in Cfgs : \E nc \in (IF Toggle THEN BOOLEAN ELSE {FALSE}) : Open(c[1], c[2], c[3], 0, nc))
MCSpec == MCInit /\ [][MCNext]_mcvars

\* ---- VIEW: canonical renaming of tags per granule (UNK is a fixed point; zeroout writes a fresh value here)
Cov(g) == SelectSeq([i \in 1..K |-> i], LAMBDA i : slot[i].use /\ g \in SlotGr(slot[i]))
CopySeq(g) == <<logical[g], dev[g]>> \o [k \in 1..Len(Cov(g)) |-> slot[Cov(g)[k]].data[g - slot[Cov(g)[k]].blk * bs + 1]]
Ren(g, v) == IF v = UNK THEN v
             ELSE LET q == CopySeq(g) IN CHOOSE k \in 1..Len(q) : q[k] = v /\ \A m \in 1..(k - 1) : q[m] # v
\* named configuration sets for the cfg files (cfg syntax has no tuples)
CfgPlain == {<<FALSE, FALSE, FALSE>>}
CfgHandler == {<<FALSE, FALSE, TRUE>>}
CfgFault == {<<FALSE, FALSE, FALSE>>, <<FALSE, FALSE, TRUE>>}
CfgWt == {<<TRUE, FALSE, FALSE>>, <<TRUE, FALSE, TRUE>>}
CfgBounce == {<<FALSE, TRUE, FALSE>>, <<FALSE, TRUE, TRUE>>}
CfgAll == {<<w, b, h>> : w, b, h \in BOOLEAN}
MCView == <<[g \in G |-> <<Ren(g, logical[g]), Ren(g, dev[g])>>],
            [i \in 1..K |-> [blk |-> slot[i].blk, use |-> slot[i].use, dirty |-> slot[i].dirty, werr |-> slot[i].werr,
                             data |-> [j \in 1..Len(slot[i].data) |-> Ren(slot[i].blk * bs + j - 1, slot[i].data[j])]]],
            lru, bs, cfg, open, unrep, faults,
            <<res.rok, res.op \in {"flush", "close"} /\ res.ret = 0>>>>
=============================================================================
