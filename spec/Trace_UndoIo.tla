--------------------------- MODULE Trace_UndoIo ---------------------------
(* Trace validation for C12, API level: every line harness/undodrv.c logs (one io_channel call on the undo manager,
   a bit flip in the undo file, a run of the real e2undo binary) must be the step UndoIo takes: same return class, and
   the undo file as the driver's own reader finds it on disk after the call (header fields, every key with its
   position in the file and the content tags of its data, the superblock copy) must be the file the specification
   predicts; at close and after e2undo the device content must be the predicted one.  The invariants U1, U2, U3, R1,
   R2 and Layout of UndoIo are evaluated after every line.                                                        *)
EXTENDS UndoIo, Json, IOUtils
VARIABLES l
tvars == <<vars, l>>
Tr == ndJsonDeserialize(IOEnv.TRACE)
IsEvent(e) == l <= Len(Tr) /\ Tr[l].e = e /\ l' = l + 1
E == Tr[l]

\* the undo file on disk after the call
LoggedUf ==
   /\ (0 \notin dmg' => uf'.exists = (E.uf = 1))
   /\ uf'.exists /\ 0 \notin dmg' =>
        /\ <<uf'.hdr.nkeys, uf'.hdr.tdb, uf'.hdr.fsbs, uf'.hdr.state, uf'.hdr.off>> = <<E.hdr[1], E.hdr[2], E.hdr[3], E.hdr[4], E.hdr[5]>>
        /\ (uf'.hdr.tdb >= 1 /\ 1 \notin dmg' => uf'.sb = E.sbt)
        /\ LET rk == ReadKeys(uf', dmg')
           IN /\ rk.ok = (E.pok = 1)
              /\ rk.ok => /\ Len(rk.keys) = Len(E.keys)
                          /\ \A i \in 1..Len(rk.keys) :
                               /\ rk.keys[i].fsblk = E.keys[i][1] /\ rk.keys[i].size = E.keys[i][2]
                               /\ rk.keys[i].data = E.keys[i][3] /\ rk.keys[i].fileblk = E.keys[i][4]
LoggedDev == /\ len' = E.len
             /\ \A g \in 0..(len' - 1) : dev'[g] = E.dev[g + 1] \/ (dev'[g] = Foreign /\ E.dev[g + 1] = -1)

TReset == /\ IsEvent("reset") /\ E.a = N
          /\ dev' = Dev0 /\ len' = N /\ ch' = NoCh /\ uf' = NoUf /\ pend' = NoPend /\ nops' = 0 /\ nruns' = 0
          /\ res' = NoRes /\ dmg' = {}
TOpen == /\ IsEvent("open")
         /\ IF E.ret = 0 THEN OpenCh(E.a, E.n)
            ELSE /\ uf.exists /\ ~ReopenOk(uf, dmg, dev, len) /\ UNCHANGED vars
         /\ LoggedUf
\* a call issued after an open that was refused: there is no channel
TNoChan == IsEvent("nochan") /\ ~ch.open /\ UNCHANGED vars /\ LoggedUf
TBlk == IsEvent("blk") /\ E.ret = 0 /\ SetBlk(E.a) /\ LoggedUf
TCall == /\ l <= Len(Tr) /\ E.e \in Kinds /\ l' = l + 1
         /\ Call(E.e, E.a, E.n, E.ret = 0)
         /\ LoggedUf
TClose == IsEvent("close") /\ E.ret = 0 /\ CloseCh(E.a = 1) /\ LoggedUf /\ LoggedDev
TFlip == /\ IsEvent("flip")
         /\ IF E.a >= 0 THEN Damage(E.a) ELSE UNCHANGED vars
         /\ LoggedUf
TUnflip == IsEvent("unflip") /\ (IF dmg # {} THEN Repair ELSE UNCHANGED vars) /\ LoggedUf
TTamper == IsEvent("tamper") /\ Tamper /\ LoggedDev
TE2undo == /\ IsEvent("e2undo") /\ E.a \in {0, 1}
           /\ \E rev \in BOOLEAN : E2undo(E.a = 1, rev)
           /\ (res'.kind = "refused") = (E.ret # 0)
           /\ res'.writes = E.n
           /\ (res'.kind = "done" => res'.needcheck = (E.bs = 1))
           /\ LoggedDev /\ LoggedUf

TraceInit == Init /\ l = 1
TraceNext == TReset \/ TOpen \/ TNoChan \/ TBlk \/ TCall \/ TClose \/ TFlip \/ TUnflip \/ TTamper \/ TE2undo
TraceSpec == TraceInit /\ [][TraceNext]_tvars
TraceAccepted == TLCGet("stats").diameter - 1 = Len(Tr)
=============================================================================
