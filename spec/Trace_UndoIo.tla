--------------------------- MODULE Trace_UndoIo ---------------------------
(* Trace validation for C12, API level: every line harness/undodrv.c logs (one io_channel call on the undo manager,
   a bit flip in the undo file, a run of the real e2undo binary) must be the step UndoIo takes: same return class, and
   the undo file as the driver's own reader finds it on disk after the call (header fields, every key with its
   position in the file and the content tags of its data, the position of every key block, the superblock copy) must
   be the file the specification predicts; at close and after e2undo the device content must be the predicted one.

   The conformance model is UndoIo with the unrepaired deviations of the tree switched on (cfg).  EVERY line of EVERY
   history has to be a step of that model -- a history that takes a known deviation is no exception: nothing below
   stops at a failing property invariant.
     hard invariants (cfg INVARIANT; hold with or without the deviations): R1, R2, Layout, AppendPos, QuietOk
     property invariants U1, U2, U3: evaluated after every line (PropReport, an INVARIANT that is never false); the ones
       that fail are printed <<"PROPFAIL", line, invariant, deviations active so far>>
     a failing property invariant is the known finding only if a deviation was active in that history (act # {}):
       QuietOk says that a history in which the literal formulae never differed from the repaired ones satisfies the
       property (it is then a behaviour of the repaired specification, where MC_UndoIo establishes U1-U3)
     cat  boundary catalogue (Catalogue below) elements met so far in this trace file, printed <<"CAT", name>> when first met *)
EXTENDS UndoIo, Json, IOUtils
VARIABLES l,      \* next line
          act,    \* deviations whose literal formula differed from the repaired one on some line of this history
          bss,    \* channel block sizes under which this history's undo file was written
          k0,     \* number of keys the undo file had when the channel was (re)opened
          cat     \* catalogue elements met in this trace file
tvars == <<vars, l, act, bss, k0, cat>>
Tr == ndJsonDeserialize(IOEnv.TRACE)
IsEvent(e) == l <= Len(Tr) /\ Tr[l].e = e /\ l' = l + 1
E == Tr[l]

\* ------------------------------------------------------------------ the undo file on disk after the call
LoggedUf ==
   /\ (0 \notin dmg' => uf'.exists = (E.uf = 1))
   /\ uf'.exists /\ 0 \notin dmg' =>
        /\ <<uf'.hdr.nkeys, uf'.hdr.tdb, uf'.hdr.fsbs, uf'.hdr.state, uf'.hdr.off>> = <<E.hdr[1], E.hdr[2], E.hdr[3], E.hdr[4], E.hdr[5]>>
        /\ (uf'.hdr.tdb >= 1 /\ 1 \notin dmg' => uf'.sb = E.sbt)
        /\ LET rk == ReadKeys(uf', dmg')
           IN /\ rk.ok = (E.pok = 1)
              /\ rk.ok => /\ Len(rk.keys) = Len(E.keys)
                          /\ \A i \in 1..Len(rk.keys) :
                               /\ rk.keys[i].fsblk = E.keys[i][1] /\ rk.keys[i].size = E.keys[i][2]
                               /\ rk.keys[i].data = E.keys[i][3] /\ rk.keys[i].fileblk = E.keys[i][4]
                          /\ KeyBlockPos(uf', 0, 2, <<>>) = E.kpos
LoggedDev == /\ len' = E.len
             /\ \A g \in 0..(len' - 1) : dev'[g] = E.dev[g + 1] \/ (dev'[g] = Foreign /\ E.dev[g + 1] = -1)

\* ------------------------------------------------------------------ where a deviation shows
\* the literal formulae of SaveOne / OpFirst / WriteIndexes / ReopenWalk differ from the repaired ones only if ...
TilingActive(c) == c.open /\ c.tdb >= 1 /\ c.off % c.tdb # 0
UnitsActive(c, sizes) == c.open /\ c.tdb >= 1 /\ (c.tdb % c.bs # 0 \/ Cardinality(sizes \cup {c.bs}) > 1)
ActiveNow(c, sizes) == (IF DevAbsTiling /\ TilingActive(c) THEN {"DevAbsTiling"} ELSE {})
                       \cup (IF DevChanUnits /\ UnitsActive(c, sizes) THEN {"DevChanUnits"} ELSE {})

\* ------------------------------------------------------------------ boundary catalogue
\* (what the explored universe has to contain; the check refuses to report "held" when an element was never met)
LastKey(c) == IF c.kib > 0 THEN c.keyb[c.kib] ELSE [fsblk |-> 0, size |-> 0, crc |-> <<>>, gpos |-> 0]
ShortLast(c) == c.kib > 0 /\ c.tdb >= 1 /\ LastKey(c).size % c.tdb # 0
Saved(c, c2) == c2.nkeys > c.nkeys \/ (c2.kib = c.kib /\ c.kib > 0 /\ LastKey(c2).size > LastKey(c).size)
Catalogue == {"short_block_saved",            \* the trailing partial undo block of a device (length not a multiple of tdb)
              "reopen_short_last_key",        \* chain: the file that is reopened ends with such a key
              "append_after_short_last_key",  \* ... and the new run saves a block behind it
              "rewrite_after_short_reopen",   \* a reopened run writes into the partial block an earlier run saved: nothing is saved
              "reopen_full_key_block",        \* chain: the last key block of the reopened file is full
              "append_after_full_key_block",
              "reopen_partial_key_block",     \* chain: the new run continues the last key block
              "append_after_reopen",
              "first_write_wins",             \* a call that saved nothing new
              "key_extension", "key_block_rollover",
              "write_past_end", "short_read_refused", "tdb_not_multiple_of_bs", "offset_run",
              "unfinished_close", "reopen_refused", "chain_of_three",
              "undo_restores", "undo_unfinished", "undo_dry", "undo_refuses_damage", "undo_refuses_foreign"}
CatOpen == IF E.ret # 0 THEN {"reopen_refused"}
           ELSE (IF uf.exists /\ ShortLast(ch') THEN {"reopen_short_last_key"} ELSE {})
                \cup (IF uf.exists /\ uf.hdr.nkeys > 0 /\ ch'.kib = 0 THEN {"reopen_full_key_block"} ELSE {})
                \cup (IF uf.exists /\ ch'.kib > 0 THEN {"reopen_partial_key_block"} ELSE {})
                \cup (IF nruns' = 3 THEN {"chain_of_three"} ELSE {})
                \cup (IF E.a # 0 THEN {"offset_run"} ELSE {})
CatCall == LET first == nruns >= 2 /\ ch.nkeys = k0          \* nothing saved yet since the reopen
               sv == Saved(ch, ch')
           IN (IF \E i \in 1..ch'.kib : ch'.keyb[i].size % ch'.tdb # 0 THEN {"short_block_saved"} ELSE {})
              \cup (IF first /\ sv /\ ShortLast(ch) THEN {"append_after_short_last_key"} ELSE {})
              \cup (IF nruns >= 2 /\ ~sv /\ E.ret = 0 /\ ch.nkeys = k0 /\ ch.tdb >= 1 /\ len % ch.tdb # 0
                       /\ OpLast(ch, CallBlk(ch, E.e, E.a, E.n), CallCnt(ch, E.e, E.a, E.n)) * ch.tdb + ch.tdb > len
                    THEN {"rewrite_after_short_reopen"} ELSE {})
              \cup (IF first /\ sv /\ ch.kib = 0 /\ ch.nkeys > 0 THEN {"append_after_full_key_block"} ELSE {})
              \cup (IF first /\ sv THEN {"append_after_reopen"} ELSE {})
              \cup (IF ~sv /\ E.ret = 0 THEN {"first_write_wins"} ELSE {})
              \cup (IF ch'.nkeys = ch.nkeys /\ sv THEN {"key_extension"} ELSE {})
              \cup (IF ch'.kblk # ch.kblk /\ ch.nkeys > 0 THEN {"key_block_rollover"} ELSE {})
              \cup (IF len' > len THEN {"write_past_end"} ELSE {})
              \cup (IF E.ret # 0 /\ E.e \notin {"zero", "disc"} THEN {"short_read_refused"} ELSE {})
              \cup (IF ch'.tdb % ch'.bs # 0 THEN {"tdb_not_multiple_of_bs"} ELSE {})
CatUndo == IF res'.kind = "refused" THEN (IF dmg # {} THEN {"undo_refuses_damage"} ELSE IF dev[uf.hdr.off + 1] = Foreign THEN {"undo_refuses_foreign"} ELSE {})
           ELSE IF res'.kind = "dry" THEN {"undo_dry"}
           ELSE (IF \A g \in 0..(N - 1) : dev'[g] = Dev0[g] THEN {"undo_restores"} ELSE {})
                \cup (IF res'.needcheck THEN {"undo_unfinished"} ELSE {})

\* bookkeeping common to every line; new = catalogue elements of this line
Book(reset, sizes, new) ==
   /\ bss' = sizes
   /\ act' = (IF reset THEN {} ELSE act) \cup ActiveNow(ch', sizes)
   /\ cat' = cat \cup new
   /\ \A x \in new \ cat : PrintT(<<"CAT", x>>)

TReset == /\ IsEvent("reset") /\ E.a = N
          /\ dev' = Dev0 /\ len' = N /\ ch' = NoCh /\ uf' = NoUf /\ pend' = NoPend /\ nops' = 0 /\ nruns' = 0
          /\ res' = NoRes /\ dmg' = {}
          /\ k0' = 0 /\ Book(TRUE, {}, {})
          /\ (l = 1 => PrintT(<<"CATALOGUE", Catalogue>>))
TOpen == /\ IsEvent("open")
         /\ IF E.ret = 0 THEN OpenCh(E.a, E.n)
            ELSE /\ uf.exists /\ ~ReopenOk(uf, dmg, dev, len) /\ UNCHANGED vars
         /\ LoggedUf
         /\ k0' = ch'.nkeys /\ Book(FALSE, bss, CatOpen)
\* a call issued after an open that was refused: there is no channel
TNoChan == IsEvent("nochan") /\ ~ch.open /\ UNCHANGED vars /\ LoggedUf /\ UNCHANGED k0 /\ Book(FALSE, bss, {})
TBlk == IsEvent("blk") /\ E.ret = 0 /\ SetBlk(E.a) /\ LoggedUf /\ UNCHANGED k0 /\ Book(FALSE, bss, {})
\* a read through the channel, and the cache switch of the backing manager: nothing the specification knows about changes
TRead == /\ l <= Len(Tr) /\ E.e \in {"rblk", "cache"} /\ l' = l + 1 /\ ch.open /\ E.ret = 0
         /\ UNCHANGED vars /\ LoggedUf /\ UNCHANGED k0 /\ Book(FALSE, bss, {})
TCall == /\ l <= Len(Tr) /\ E.e \in Kinds /\ l' = l + 1
         /\ Call(E.e, E.a, E.n, E.ret = 0)
         /\ LoggedUf
         /\ UNCHANGED k0
         /\ Book(FALSE, IF Saved(ch, ch') THEN bss \cup {ch.bs} ELSE bss, CatCall)
TClose == /\ IsEvent("close") /\ E.ret = 0 /\ CloseCh(E.a = 1) /\ LoggedUf /\ LoggedDev /\ UNCHANGED k0
          /\ Book(FALSE, bss, IF E.a = 1 THEN {} ELSE {"unfinished_close"})
TFlip == /\ IsEvent("flip")
         /\ IF E.a >= 0 THEN Damage(E.a) ELSE UNCHANGED vars
         /\ LoggedUf /\ UNCHANGED k0 /\ Book(FALSE, bss, {})
TUnflip == IsEvent("unflip") /\ (IF dmg # {} THEN Repair ELSE UNCHANGED vars) /\ LoggedUf /\ UNCHANGED k0 /\ Book(FALSE, bss, {})
TTamper == IsEvent("tamper") /\ Tamper /\ LoggedDev /\ UNCHANGED k0 /\ Book(FALSE, bss, {})
TE2undo == /\ IsEvent("e2undo") /\ E.a \in {0, 1}
           /\ \E rev \in BOOLEAN : E2undo(E.a = 1, rev)
           /\ (res'.kind = "refused") = (E.ret # 0)
           /\ res'.writes = E.n
           /\ (res'.kind = "done" => res'.needcheck = (E.bs = 1))
           /\ LoggedDev /\ LoggedUf /\ UNCHANGED k0 /\ Book(FALSE, bss, CatUndo)

TraceInit == Init /\ l = 1 /\ act = {} /\ bss = {} /\ k0 = 0 /\ cat = {}
TraceNext == TReset \/ TOpen \/ TNoChan \/ TBlk \/ TRead \/ TCall \/ TClose \/ TFlip \/ TUnflip \/ TTamper \/ TE2undo
TraceSpec == TraceInit /\ [][TraceNext]_tvars
TraceAccepted == TLCGet("stats").diameter - 1 = Len(Tr)

\* ------------------------------------------------------------------ invariants of the conformance model
\* (state level on purpose: TLC caches the LET values of U1-U3 there, inside an action it would not)
\* never false; reports the property invariants that fail in the state behind line l - 1
PropReport == /\ (U1 \/ PrintT(<<"PROPFAIL", l - 1, "U1", act>>))
              /\ (U2 \/ PrintT(<<"PROPFAIL", l - 1, "U2", act>>))
              /\ (U3 \/ PrintT(<<"PROPFAIL", l - 1, "U3", act>>))
\* no deviation active => the property invariants hold
QuietOk == act = {} => U1 /\ U2 /\ U3
=============================================================================
