SPECIFICATION Spec
CONSTANTS
  MaxG = 20
  Dpbs = {4, 8}
  ResizeSet = {1, 2, 3, 10, 20}
  Geos <- OneGeo
  GdOnly = FALSE
  MaxSteps = 3
  DevTuneMasterOnly = FALSE
  DevFsckIgnoresFeatDiff = FALSE
  DevFlushSkipsLast = FALSE
  DevResizeKeepsOldGdt = FALSE
  DevResizeMovesSoleBackup = FALSE
  DevSearchGuesses8xBs = FALSE
  DevBackupSearchIgnoresSs2 = FALSE
INVARIANT TypeOK
INVARIANT InvCurrent
INVARIANT InvBackupSet
INVARIANT Ss2Shape
INVARIANT InvRecover
PROPERTY FsckKeeps
CHECK_DEADLOCK FALSE
