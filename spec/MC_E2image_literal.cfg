SPECIFICATION Spec
CONSTANTS
  NB = 7
  L2N = 2
  RPB = 4
  CacheN = 2
  MClasses = {"dirdata", "free"}
  AllModes = {FALSE}
  DevEaInodeDataSkipped = FALSE
  DevLastByteZeroed = TRUE
  DevL1VsVirtualSize = TRUE
INVARIANT TypeOK
INVARIANT DiscoveryOK
INVARIANT RawContract
INVARIANT WriterSane
INVARIANT MapExact
INVARIANT RefcountExact
INVARIANT L2TablesDistinct
INVARIANT ConvertEqualsRawOrDev
CHECK_DEADLOCK FALSE
