SPECIFICATION ESpec
CONSTANTS
  MaxL = 4
  MaxP = 5
  MaxLenInit = 4
  MaxLenUninit = 3
  C = 1
  Inf = 99
  DevEmptyUnmap = FALSE
INVARIANT Structural
INVARIANT MapUpdatedExactlyAt
INVARIANT PunchExact
CHECK_DEADLOCK FALSE
