---- MODULE ResizeCrash_TTrace_1790559703 ----
EXTENDS Sequences, TLCExt, Toolbox, ResizeCrash, Naturals, TLC

_expression ==
    LET ResizeCrash_TEExpression == INSTANCE ResizeCrash_TEExpression
    IN ResizeCrash_TEExpression!expression
----

_trace ==
    LET ResizeCrash_TETrace == INSTANCE ResizeCrash_TETrace
    IN ResizeCrash_TETrace!trace
----

_inv ==
    ~(
        TLCGet("level") = Len(_TETrace)
        /\
        dMod = (FALSE)
        /\
        phase = ("run")
        /\
        pend = ({"out", "on"})
        /\
        dErr = (FALSE)
    )
----

_init ==
    /\ dMod = _TETrace[1].dMod
    /\ pend = _TETrace[1].pend
    /\ phase = _TETrace[1].phase
    /\ dErr = _TETrace[1].dErr
----

_next ==
    /\ \E i,j \in DOMAIN _TETrace:
        /\ \/ /\ j = i + 1
              /\ i = TLCGet("level")
        /\ dMod  = _TETrace[i].dMod
        /\ dMod' = _TETrace[j].dMod
        /\ pend  = _TETrace[i].pend
        /\ pend' = _TETrace[j].pend
        /\ phase  = _TETrace[i].phase
        /\ phase' = _TETrace[j].phase
        /\ dErr  = _TETrace[i].dErr
        /\ dErr' = _TETrace[j].dErr

\* Uncomment the ASSUME below to write the states of the error trace
\* to the given file in Json format. Note that you can pass any tuple
\* to `JsonSerialize`. For example, a sub-sequence of _TETrace.
    \* ASSUME
    \*     LET J == INSTANCE Json
    \*         IN J!JsonSerialize("ResizeCrash_TTrace_1790559703.json", _TETrace)

=============================================================================

 Note that you can extract this module `ResizeCrash_TEExpression`
  to a dedicated file to reuse `expression` (the module in the 
  dedicated `ResizeCrash_TEExpression.tla` file takes precedence 
  over the module `ResizeCrash_TEExpression` below).

---- MODULE ResizeCrash_TEExpression ----
EXTENDS Sequences, TLCExt, Toolbox, ResizeCrash, Naturals, TLC

expression == 
    [
        \* To hide variables of the `ResizeCrash` spec from the error trace,
        \* remove the variables below.  The trace will be written in the order
        \* of the fields of this record.
        dMod |-> dMod
        ,pend |-> pend
        ,phase |-> phase
        ,dErr |-> dErr
        
        \* Put additional constant-, state-, and action-level expressions here:
        \* ,_stateNumber |-> _TEPosition
        \* ,_dModUnchanged |-> dMod = dMod'
        
        \* Format the `dMod` variable as Json value.
        \* ,_dModJson |->
        \*     LET J == INSTANCE Json
        \*     IN J!ToJson(dMod)
        
        \* Lastly, you may build expressions over arbitrary sets of states by
        \* leveraging the _TETrace operator.  For example, this is how to
        \* count the number of times a spec variable changed up to the current
        \* state in the trace.
        \* ,_dModModCount |->
        \*     LET F[s \in DOMAIN _TETrace] ==
        \*         IF s = 1 THEN 0
        \*         ELSE IF _TETrace[s].dMod # _TETrace[s-1].dMod
        \*             THEN 1 + F[s-1] ELSE F[s-1]
        \*     IN F[_TEPosition - 1]
    ]

=============================================================================



Parsing and semantic processing can take forever if the trace below is long.
 In this case, it is advised to uncomment the module below to deserialize the
 trace from a generated binary file.

\*
\*---- MODULE ResizeCrash_TETrace ----
\*EXTENDS IOUtils, ResizeCrash, TLC
\*
\*trace == IODeserialize("ResizeCrash_TTrace_1790559703.bin", TRUE)
\*
\*=============================================================================
\*

---- MODULE ResizeCrash_TETrace ----
EXTENDS ResizeCrash, TLC

trace == 
    <<
    ([dMod |-> FALSE,phase |-> "run",pend |-> {},dErr |-> FALSE]),
    ([dMod |-> FALSE,phase |-> "run",pend |-> {"on"},dErr |-> FALSE]),
    ([dMod |-> FALSE,phase |-> "run",pend |-> {"out", "on"},dErr |-> FALSE])
    >>
----


=============================================================================

---- CONFIG ResizeCrash_TTrace_1790559703 ----

INVARIANT
    _inv

CHECK_DEADLOCK
    \* CHECK_DEADLOCK off because of PROPERTY or INVARIANT above.
    FALSE

INIT
    _init

NEXT
    _next

CONSTANT
    _TETrace <- _trace

ALIAS
    _expression
=============================================================================
\* Generated on Mon Sep 28 01:41:43 UTC 2026