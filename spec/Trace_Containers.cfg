SPECIFICATION TraceSpec
CONSTANTS
  CWhich = {"rc", "ic", "db", "bb", "rg"}
  RcInitSize = 500
  RcGrow = 100
  RcMaxKey = 100000
  RcMaxVal = 2000000000
  DevRcNoRetry = FALSE
  IcGrow = 100
  IcCap = 65500
  IcU16 = 65535
  IcMaxCount = 2000000000
  IcSlackMax = 1
  IcModes = {0, 1, 2}
  IcMaxN = 1
  IcInitSizes = {1}
  DbGrow = 100
  DbGrowThresh = 200
  DbInos = {}
  DbBlks = {}
  DbCnts = {}
  DbInitSizes = {12}
  DbMaxLen = 1000000
  BbGrow = 100
  BbVals = {}
  BbInitSizes = {10}
  RgMaxAddr = 0
INVARIANT CStructural
INVARIANT CRefines
INVARIANT CResultsAgree
POSTCONDITION TraceAccepted
CHECK_DEADLOCK FALSE
