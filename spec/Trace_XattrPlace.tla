------------------------- MODULE Trace_XattrPlace -------------------------
(* Trace validation for C15.  checks/c15.py steps a history through harness/xattrdrv.c (public libext2fs API) or
   through debugfs, and after EVERY step joins (a) the API-visible results with (b) its own parse of the image file
   (gen/xattrparse.py: raw inode body, xattr block, value inodes, bitmaps; all hashes recomputed there).  Each line
   must be the step XattrPlace takes for that operation, with exactly the logged placement (which entries are in
   the body / in the block, their order, value sizes, value offsets, value-inode flag and reference count), the
   logged storage accounting (free blocks, free inodes, the owner's i_blocks) and the logged read-back
   (get of every name of the universe = the property-level map attrs).  All invariants of XattrPlace are evaluated
   after every line.

   Operations of the inline-data subsystem on the same inode (write / trunc / iset / iexp / punch / mkdirin) are
   lines of the same trace: after each of them the parser must see exactly the model's placement (system.data present
   iff the inode still has EXT4_INLINE_DATA_FL, st.inl), sizes and free space.  "skip" = the driver did not issue an
   operation whose precondition (an inline-data inode) does not hold on disk; accepted only if the model agrees.

   Line:  {"e": "reset"|"set"|"rm"|"share"|"reopen"|"write"|"trunc"|"iset"|"iexp"|"punch"|"mkdirin"|"skip",
           "n","v","t", "ret", "st": {...}}  (see c15.py observe())      *)
EXTENDS XattrPlace, Json, IOUtils
VARIABLES l, fb0, fi0, ib0
tvars == <<vars, l, fb0, fi0, ib0>>
Tr == ndJsonDeserialize(IOEnv.TRACE)
TraceVLens == 0..70000                    \* cfg: VLens <- TraceVLens

B(x) == IF x THEN 1 ELSE 0
IsEvent(e) == l <= Len(Tr) /\ Tr[l].e = e /\ l' = l + 1
St == Tr[l].st

\* one logged entry [n, vlen, tag, ea flag, e_value_offs, value-inode ref count, checks passed, nz] against the model
EntryOK(log, x, off) ==
   /\ log[1] = x.n /\ log[2] = x.vlen /\ log[3] = x.tag /\ log[4] = B(x.ea # 0) /\ log[5] = off
   /\ log[6] = (IF x.ea # 0 THEN eai'[x.ea].ref ELSE 0)
   /\ log[7] = 1 /\ log[8] = x.nz
PartOK(logs, s, area, corr) ==
   /\ Len(logs) = Len(s)
   /\ \A i \in 1..Len(s) : EntryOK(logs[i], s[i], ValOff(s, i, area, corr))
GetOf(s, n) == LET i == IndexOf(s, n) IN IF i = 0 THEN <<-1, 0, 0>> ELSE <<s[i].vlen, s[i].tag, s[i].nz>>
PeerEntries == CASE pstate' = "none" -> <<>> [] pstate' = "shared" -> BlP(place', ib') [] OTHER -> pblk'
\* the logged post-state
Logged ==
   /\ PartOK(St.ibody, IbP(place', ib'), IbodyArea, 0)
   /\ PartOK(St.block, BlP(place', ib'), BS - 32, 32)
   /\ St.hasblk = B(hasblk') /\ St.magic = B(magic')
   /\ St.refc = (IF hasblk' THEN (IF pstate' = "shared" THEN 2 ELSE 1) ELSE 0)
   /\ St.hok = 1 /\ St.sorted = 1 /\ St.gdok = 1
   /\ (ISZ > 128 => St.extra = EXTRA)
   \* a value inode of more than 4 blocks may need one extent index block when the free space is fragmented (layout of
   \* the value FILE, decided by the allocator, not by ext_attr.c): logged as st.eameta and bounded here
   /\ St.eameta \in 0..Cardinality({k \in 1..MaxEa : eai'[k].ref > 0 /\ DB(eai'[k].size) > 4})
   /\ St.fb = fb0' - BlkAlloc' - DataAlloc' - St.eameta
   \* the inode and the peer name the same block exactly while the block is shared (after a copy-on-write each has its own)
   /\ St.acleq = B(hasblk' /\ pstate' = "shared")
   /\ St.fi = fi0' - InoAlloc'
   /\ St.iblk = ib0' + chg' * (BS \div 512)
   /\ St.inl = B(inl') /\ St.isize = isize'
   /\ St.ilen = (LET i == IndexOf(place', DATA) IN IF inl' /\ i # 0 THEN 60 + place'[i].vlen ELSE -1)      \* ext2fs_inline_data_size
   /\ Len(St.gets) = Len(NameTab)
   /\ \A n \in 1..Len(NameTab) : St.gets[n] = (IF n \in Names THEN <<attrs'[n].vlen, attrs'[n].tag, attrs'[n].nz>> ELSE <<-1, 0, 0>>)
   /\ (St.pgets = <<>> \/ St.pgets = St.gets)
   /\ (St.peer # <<>> => \A n \in 1..Len(NameTab) : St.peer[n] = (IF INLINE /\ n = DATA THEN <<0, 0, 0>> ELSE GetOf(PeerEntries, n)))   \* the peer's own body holds its system.data
Keep == UNCHANGED <<fb0, fi0, ib0>>

TReset == /\ IsEvent("reset")
          /\ Tr[l].isz = ISZ /\ Tr[l].bs = BS /\ Tr[l].eainode = B(EAINODE) /\ Tr[l].inline = B(INLINE) /\ Tr[l].isdir = B(ISDIR)
          /\ Len(Tr[l].names) = Len(NameTab)
          /\ \A n \in 1..Len(NameTab) : Tr[l].names[n] = <<NameTab[n].idx, NameTab[n].sn>>
          /\ attrs' = [n \in Names |-> IF n \in InitPresent THEN Val(0, 0) ELSE None]
          /\ place' = (IF INLINE THEN <<[n |-> DATA, vlen |-> 0, tag |-> 0, ea |-> 0, nz |-> 0]>> ELSE <<>>)
          /\ ib' = (IF INLINE THEN 1 ELSE 0)
          /\ hasblk' = FALSE /\ magic' = INLINE /\ pstate' = "none" /\ pblk' = <<>>
          /\ eai' = [k \in 1..MaxEa |-> NoEa] /\ chg' = 0 /\ res' = 0 /\ nops' = 0
          /\ inl' = INLINE /\ isize' = InitISize /\ ik' = InitIk /\ fblk' = 0 /\ dused' = 0 /\ nsub' = 0
          /\ fb0' = St.fb /\ fi0' = St.fi /\ ib0' = St.iblk
          /\ Logged
TSet == /\ IsEvent("set") /\ Tr[l].n \in Names /\ Tr[l].v \in VLens /\ Tr[l].t \in Tags
        /\ PSet(Tr[l].n, Tr[l].v, Tr[l].t) /\ res' = Tr[l].ret /\ Keep /\ Logged
TRm == /\ IsEvent("rm") /\ Tr[l].n \in Names \ {DATA}
       /\ PRemove(Tr[l].n) /\ res' = Tr[l].ret /\ Keep /\ Logged
TShare == IsEvent("share") /\ PShare /\ Tr[l].ret = 0 /\ Keep /\ Logged
\* the driver refuses to share when there is no block or the peer already has one (ret 2): nothing changes
TShareNo == /\ IsEvent("share") /\ Tr[l].ret = 2 /\ ~(hasblk /\ pstate = "none") /\ UNCHANGED vars /\ Keep /\ Logged
\* closing and reopening the filesystem changes nothing that is observed
TReopen == IsEvent("reopen") /\ UNCHANGED vars /\ Keep /\ Logged

\* the other subsystems' operations on the same inode
TSize == 0..70000
TWrite == /\ IsEvent("write") /\ Tr[l].v \in TSize /\ Tr[l].t \in Tags
          /\ PWrite(Tr[l].v, Tr[l].t) /\ res' = Tr[l].ret /\ Keep /\ Logged
TTrunc == IsEvent("trunc") /\ Tr[l].v \in TSize /\ PTrunc(Tr[l].v) /\ res' = Tr[l].ret /\ Keep /\ Logged
TISet == /\ IsEvent("iset") /\ Tr[l].v \in TSize /\ Tr[l].t \in Tags
         /\ PISet(Tr[l].v, Tr[l].t) /\ res' = Tr[l].ret /\ Keep /\ Logged
TIExp == IsEvent("iexp") /\ PIExpand /\ res' = Tr[l].ret /\ Keep /\ Logged
TPunch == IsEvent("punch") /\ PPunch /\ res' = Tr[l].ret /\ Keep /\ Logged
TMkdirIn == IsEvent("mkdirin") /\ Tr[l].v \in 1..255 /\ PMkdirIn(Tr[l].v) /\ res' = Tr[l].ret /\ Keep /\ Logged
\* an operation on system.data / the inline area that the driver did not issue because the inode on disk has no
\* EXT4_INLINE_DATA_FL (precondition of PSet(DATA) and PISet): legitimate only if the model has no inline data either
TSkip == IsEvent("skip") /\ ~inl /\ Tr[l].ret = 5 /\ UNCHANGED vars /\ Keep /\ Logged

TraceInit == /\ AInit(InitPresent) /\ place = <<>> /\ ib = 0 /\ hasblk = FALSE /\ magic = FALSE /\ pstate = "none" /\ pblk = <<>>
             /\ eai = [k \in 1..MaxEa |-> NoEa] /\ chg = 0 /\ res = 0 /\ nops = 0
             /\ inl = FALSE /\ isize = 0 /\ ik = 0 /\ fblk = 0 /\ dused = 0 /\ nsub = 0
             /\ l = 1 /\ fb0 = 0 /\ fi0 = 0 /\ ib0 = 0
TraceNext == TReset \/ TSet \/ TRm \/ TShare \/ TShareNo \/ TReopen
             \/ TWrite \/ TTrunc \/ TISet \/ TIExp \/ TPunch \/ TMkdirIn \/ TSkip
TraceSpec == TraceInit /\ [][TraceNext]_tvars
TraceAccepted == TLCGet("stats").diameter - 1 = Len(Tr)
\* the initial state before the first reset line is not an implementation state
TInv(I) == l = 1 \/ I
I_Refines == TInv(Refines)
I_NoDup == TInv(NoDup)
I_NoOverflow == TInv(NoOverflow)
I_SortedBlock == TInv(SortedBlock)
I_DataInIbody == TInv(DataInIbody)
I_BlockIffEntries == TInv(BlockIffEntries)
I_Shared == TInv(Shared)
I_EaRefs == TInv(EaRefs)
I_EaSizes == TInv(EaSizes)
I_PeerIntact == TInv(PeerIntact)
I_EaOnlyWithFeature == TInv(EaOnlyWithFeature)
I_Charge == TInv(Charge)
I_DataIffInline == TInv(DataIffInline)
I_ValueShapes == TInv(ValueShapes)
=============================================================================
