SPECIFICATION Spec
CONSTANTS
  MaxLen = 2
  DevRewriteSkipsOrphanFile = TRUE
  DevJournalOffKeepsOrphanFile = TRUE
  DevDirIndexOffNoFsck = TRUE
INVARIANT InvFeatureSet
INVARIANT InvRewriteAll
VIEW View
CHECK_DEADLOCK FALSE
