------------------------------ MODULE TreeGen ------------------------------
(* C18 -- populating a filesystem from a host directory tree is exact; extraction returns the same data.

   (1) The abstract tree universe.  A tree is a sequence of nodes, node i has id i, `parent` is 0 (the root of the
       source tree) or the id of an EARLIER directory node.  Every attribute is a class name out of a boundary catalogue
       (the CONSTANT sets); the value operators below (SizeCat, ModeBits, OwnerOf, MtimeOf, XattrCat, TargetLen, DevOf,
       NameLen) give the concrete numbers -- they are the single source of truth, the concretiser gen/tree.py reads
       them from the JSON emitted by Emit_TreeGen and never invents a value.
       The builder (Init / Next) picks a size goal in MinNodes..MaxNodes, then adds one node in four micro steps (kind, place,
       content, meta) so that TLC's simulation mode picks kinds and content classes evenly; KindSeq may repeat a kind (its
       weight under simulation); Finish declares the tree complete (phase "done": Emit_TreeGen prints it exactly once).
       A directory may be a mount point (mnt = 1, at most MaxMounts): it and everything below live on another device.
       A node of kind "hard" is one more name of an EARLIER node of any kind in LinkKinds (every non-directory kind the host
       can hard-link: regular file, symlink, character / block device, fifo, socket), in the same or in another directory of
       the same device: the hard-link groups of the universe range over every file type the property lists.
   (2) The property-level statement Expect(t): what an exact copy of t looks like (one image inode per source inode,
       hard-link groups = source inodes, all non-type mode bits, owner, mtime, size, holes, xattrs, link targets).
   (3) The implementation-shaped model PopModel(t, src, cfg): misc/create_inode.c:__populate_fs() -- nodes are visited in
       order, a name whose file type is in PopLinkTypes and whose st_nlink > 1 is looked up in the table `hdlinks` by
       (st_dev, st_ino), a hit becomes add_link() to the recorded inode, a miss creates the inode and records it.
       PopLinkTypes = NonDirKinds is what the property needs (same image inode <=> same (st_dev, st_ino) on the host, for
       every non-directory type); LiteralLinkTypes is what the pinned create_inode.c did (it left symlinks out:
       named deviation DevSymlinkLinksSplit, repaired by fix f519e89c and reported again if it returns).  set_inode_extra()
       copies owner, all non-type mode bits and the times; copy_file() copies only SEEK_DATA ranges rounded out to
       filesystem blocks.  Extraction RdumpModel(): debugfs/dump.c rdump_inode() -- regular files, directories and
       symlinks only, permission bits through mode_xlate (rwx only), owner through fchown/chown.
       Deliberate deviations (what a mutant or the literal pinned code does) are the Dev* constants; the refinement
       PopModel => Expect and RdumpModel => restriction of Expect is checked by TLC over every tree of the MC
       configuration with all Dev* FALSE (must hold) and with each Dev* TRUE (must fail: the model is sensitive).  *)
EXTENDS Integers, Sequences, FiniteSets, TLC

CONSTANTS MinNodes, MaxNodes, MaxDepth, MaxFan, MaxMounts,
          LinkKinds,               \* the kinds a "hard" node may name (a subset of NonDirKinds: what the host can hard-link)
          PopLinkTypes,            \* the file types for which __populate_fs consults / fills the hdlinks table
          KindSeq, NameClasses, SizeClasses, TargetClasses, DevClasses, ModeClasses, OwnerClasses, MtimeClasses, XattrClasses,
          DevModeMask777,          \* set_inode_extra keeps only st_mode & 0777 (setuid/setgid/sticky lost)
          DevHardlinkByInoOnly,    \* is_hardlink() compares st_ino only
          DevHoleAsZeros,          \* the hole-preserving copy degenerates to a plain copy that maps every block
          DevRdumpDropsTail,       \* dump_file() loses the last partial block
          DevRdumpSymlinkOwner     \* rdump_symlink() never sets the owner of the link it creates (literal behaviour of debugfs/dump.c)

VARIABLES tree, phase, cur, goal

vars == <<tree, phase, cur, goal>>

AllKinds == {"dir", "reg", "lnk", "chr", "blk", "fifo", "sock", "hard"}
NonDirKinds == {"reg", "lnk", "chr", "blk", "fifo", "sock"}            \* the file types that can have several names
\* misc/create_inode.c:__populate_fs() as pinned: `!S_ISDIR && !S_ISLNK && st_nlink > 1` -- hard-linked symlinks are never looked up
LiteralLinkTypes == NonDirKinds \ {"lnk"}
ASSUME LinkKinds \subseteq NonDirKinds /\ PopLinkTypes \subseteq NonDirKinds

\* ------------------------------------------------------------------------------------------------- value catalogues
Plain(n) == [size |-> n, data |-> IF n = 0 THEN <<>> ELSE << <<0, n>> >>, holes |-> <<>>]
K64 == 65536
\* data = byte ranges [lo, hi) the concretiser writes (non-zero bytes); holes = ranges that are holes on a host filesystem
\* with 4 KiB blocks (multiples of 4096, disjoint from the host blocks touched by `data`)
SizeCat ==
   [ z0 |-> Plain(0), b1 |-> Plain(1), b59 |-> Plain(59), b60 |-> Plain(60), b61 |-> Plain(61), b160 |-> Plain(160),
     b1023 |-> Plain(1023), b1024 |-> Plain(1024), b1025 |-> Plain(1025),
     b4095 |-> Plain(4095), b4096 |-> Plain(4096), b4097 |-> Plain(4097),
     b12289 |-> Plain(12289),                 \* 12 direct blocks + 1 byte at 1 KiB blocks
     b49153 |-> Plain(49153),                 \* the same boundary at 4 KiB blocks
     b40000 |-> Plain(40000),
     b300k |-> Plain(307200),                 \* beyond 12 + 256 blocks of 1 KiB: double indirect on block-mapped files
     sp_head |-> [size |-> K64 + 5000, data |-> << <<K64, K64 + 5000>> >>, holes |-> << <<0, K64>> >>],
     sp_mid  |-> [size |-> 2 * K64 + 5000, data |-> << <<0, 5000>>, <<2 * K64, 2 * K64 + 5000>> >>, holes |-> << <<K64, 2 * K64>> >>],
     sp_tail |-> [size |-> 3 * K64, data |-> << <<0, 5000>> >>, holes |-> << <<K64, 3 * K64>> >>],
     sp_blk  |-> [size |-> 8292, data |-> << <<0, 4096>>, <<8192, 8292>> >>, holes |-> << <<4096, 8192>> >>],
     sp_multi |-> [size |-> 9 * K64,            \* 7 separated islands: more than 4 extents -> extent tree of depth 1
                   data |-> [k \in 1..7 |-> <<k * K64, k * K64 + 5000>>],
                   holes |-> << <<0, K64>> >> \o [k \in 1..7 |-> <<k * K64 + 16384, (k + 1) * K64>>] \o << <<8 * K64, 9 * K64>> >>] ]

ModeBits == [ m644 |-> 420, m600 |-> 384, m0 |-> 0, m755 |-> 493, m4755 |-> 2541, m2750 |-> 1512, m1777 |-> 1023, m7777 |-> 4095, m6711 |-> 3529 ]
OwnerOf  == [ root |-> <<0, 0>>, user |-> <<1000, 100>>, big |-> <<70000, 80000>>, mixed |-> <<65535, 65536>> ]
MtimeOf  == [ t1970 |-> 1, t2001 |-> 1000000000, t2020 |-> 1600000001, t2038 |-> 2147483647 ]
\* xattr classes: sequence of <<name tag, value length>>; "ea" fits one 4 KiB xattr block (of the host, too) but needs the ea_inode
\* feature on filesystems with smaller blocks
XattrCat == [ none |-> <<>>, small |-> << <<"s", 10>> >>, two |-> << <<"s", 10>>, <<"t", 40>> >>, blk |-> << <<"b", 300>> >>,
              near |-> << <<"n", 900>> >>, ea |-> << <<"e", 3900>>, <<"s", 10>> >> ]
TargetLen == [ t1 |-> 1, t59 |-> 59, t60 |-> 60, t61 |-> 61, t255 |-> 255, t1023 |-> 1023, t1024 |-> 1024, t4095 |-> 4095 ]
DevOf     == [ dev_small |-> <<1, 3>>, dev_large |-> <<300, 1000>>, dev_zero |-> <<0, 0>> ]
NameLen   == [ n1 |-> 1, n8 |-> 8, n64 |-> 64, n255 |-> 255 ]

Blank == [kind |-> "-", parent |-> 0, link |-> 0, mnt |-> 0, content |-> "-"]

\* ------------------------------------------------------------------------------------------------- tree structure
Ids(t) == 1..Len(t)
RECURSIVE DepthOf(_, _)
DepthOf(t, i) == IF i = 0 THEN 0 ELSE 1 + DepthOf(t, t[i].parent)
Children(t, p) == {i \in Ids(t) : t[i].parent = p}
DirIds(t) == {i \in Ids(t) : t[i].kind = "dir"}
RegIds(t) == {i \in Ids(t) : t[i].kind = "reg"}
LinkableIds(t) == {i \in Ids(t) : t[i].kind \in LinkKinds}          \* what a later "hard" node may name
\* device of a node: a directory with mnt = 1 is a mount point (it and everything below live on a new device named by its id)
RECURSIVE DevId(_, _)
DevId(t, i) == IF i = 0 THEN 0 ELSE IF t[i].mnt = 1 THEN i ELSE DevId(t, t[i].parent)
Mounts(t) == {i \in Ids(t) : t[i].mnt = 1}

TreeOK(t) ==
   /\ \A i \in Ids(t) :
        /\ t[i].id = i
        /\ t[i].kind \in AllKinds
        /\ t[i].parent = 0 \/ (t[i].parent < i /\ t[t[i].parent].kind = "dir")
        /\ DepthOf(t, i) <= MaxDepth
        /\ (t[i].kind = "hard") = (t[i].link # 0)
        /\ t[i].kind = "hard" => /\ t[i].link < i /\ t[t[i].link].kind \in LinkKinds
                                 /\ DevId(t, i) = DevId(t, t[i].link)              \* link(2) does not cross devices
        /\ t[i].mnt = 1 => t[i].kind = "dir"
   /\ \A p \in {0} \cup DirIds(t) : Cardinality(Children(t, p)) <= MaxFan
   /\ Cardinality(Mounts(t)) <= MaxMounts

\* ------------------------------------------------------------------------------------------------- the builder
Init == tree = <<>> /\ phase = "kind" /\ cur = Blank /\ goal \in MinNodes..MaxNodes

PickKind == /\ phase = "kind" /\ Len(tree) < goal
            /\ \E w \in DOMAIN KindSeq :                  \* KindSeq may repeat a kind: its weight in simulation mode
                  LET k == KindSeq[w] IN /\ (k = "hard" => LinkableIds(tree) # {})
                                         /\ cur' = [Blank EXCEPT !.kind = k]
            /\ phase' = "place" /\ UNCHANGED <<tree, goal>>

Places(t) == {p \in {0} \cup DirIds(t) : DepthOf(t, p) < MaxDepth /\ Cardinality(Children(t, p)) < MaxFan}

PickPlace == /\ phase = "place"
             /\ \/ /\ cur.kind # "hard"
                   /\ \E p \in Places(tree) :
                        \E m \in (IF cur.kind = "dir" /\ Cardinality(Mounts(tree)) < MaxMounts THEN {0, 1} ELSE {0}) :
                           cur' = [cur EXCEPT !.parent = p, !.mnt = m]
                \/ /\ cur.kind = "hard"
                   /\ \E p \in Places(tree) : \E r \in LinkableIds(tree) :
                        /\ DevId(tree, p) = DevId(tree, r)
                        /\ cur' = [cur EXCEPT !.parent = p, !.link = r]
             /\ phase' = "content" /\ UNCHANGED <<tree, goal>>

ContentOf(k) == CASE k = "reg" -> SizeClasses [] k = "lnk" -> TargetClasses [] k \in {"chr", "blk"} -> DevClasses [] OTHER -> {"-"}

PickContent == /\ phase = "content"
               /\ \E c \in ContentOf(cur.kind) : cur' = [cur EXCEPT !.content = c]
               /\ phase' = "meta" /\ UNCHANGED <<tree, goal>>

PickMeta == /\ phase = "meta"
            /\ \E nl \in NameClasses, mo \in (IF cur.kind \in {"lnk", "hard"} THEN {"-"} ELSE ModeClasses),
                  ow \in (IF cur.kind = "hard" THEN {"-"} ELSE OwnerClasses), mt \in (IF cur.kind = "hard" THEN {"-"} ELSE MtimeClasses),
                  xa \in (IF cur.kind \in {"reg", "dir"} THEN XattrClasses ELSE {"none"}) :
                  tree' = Append(tree, [id |-> Len(tree) + 1, kind |-> cur.kind, parent |-> cur.parent, link |-> cur.link, mnt |-> cur.mnt,
                                        content |-> cur.content, nlen |-> nl, mode |-> mo, owner |-> ow, mtime |-> mt, xattr |-> xa])
            /\ phase' = "kind" /\ cur' = Blank /\ UNCHANGED goal

\* a node that cannot be placed (every directory full or too deep; for a hard link: no room on the device of any linkable node)
\* is dropped again
DropKind == /\ phase = "place"
            /\ IF cur.kind = "hard" THEN ~ \E p \in Places(tree) : \E r \in LinkableIds(tree) : DevId(tree, p) = DevId(tree, r)
               ELSE Places(tree) = {}
            /\ phase' = "kind" /\ cur' = Blank /\ UNCHANGED <<tree, goal>>

\* the tree is declared finished (one successor: the emitter prints a finished tree exactly once per behaviour)
\* (a tree may stay below its goal when every directory is full: DropKind then repeats; the depth bound ends such a behaviour)
Finish == /\ phase = "kind" /\ Len(tree) = goal
          /\ phase' = "done" /\ UNCHANGED <<tree, cur, goal>>

Next == PickKind \/ PickPlace \/ PickContent \/ PickMeta \/ DropKind \/ Finish
Spec == Init /\ [][Next]_vars

Complete == phase \in {"kind", "done"}
InvTreeOK == TreeOK(tree)

\* ------------------------------------------------------------------------------------------------- attribute values
\* the node whose attributes a name carries: a hard link carries those of its target
Src(t, i) == IF t[i].kind = "hard" THEN t[i].link ELSE i
TypeOfNode(t, i) == t[Src(t, i)].kind                                 \* the file type lstat reports for name i
ModeOfNode(n) == IF n.kind = "lnk" THEN 511 ELSE ModeBits[n.mode]          \* lstat of a symlink always reports 0777
SizeOfNode(n) == CASE n.kind = "reg" -> SizeCat[n.content].size [] n.kind = "lnk" -> TargetLen[n.content] [] OTHER -> 0
HolesOfNode(n) == IF n.kind = "reg" THEN SizeCat[n.content].holes ELSE <<>>
RdevOfNode(n) == IF n.kind \in {"chr", "blk"} THEN DevOf[n.content] ELSE <<0, 0>>
SeqToSet(s) == {s[k] : k \in DOMAIN s}

\* what the host reports for each node (MC: derived from the tree; conformance: lstat of the materialised tree):
\* device, inode number (creation index on its device, the way tmpfs numbers inodes), link count
HostSrc(t) == [i \in Ids(t) |->
                 LET s == Src(t, i) IN
                 [dev |-> DevId(t, s),
                  ino |-> (IF DevId(t, s) = 0 THEN 1000 ELSE 0)      \* device 0 is the scratch filesystem: large numbers; mount points are fresh tmpfs
                          + Cardinality({j \in Ids(t) : j <= s /\ t[j].kind # "hard" /\ DevId(t, j) = DevId(t, s)}),
                  nlink |-> Cardinality({j \in Ids(t) : Src(t, j) = s})]]

\* ------------------------------------------------------------------------------------------------- (2) property level
\* group[i] = the set of names that must share one image inode with i
Expect(t) == [i \in Ids(t) |->
                LET n == t[Src(t, i)] IN
                [type |-> TypeOfNode(t, i), size |-> SizeOfNode(n), mode |-> ModeOfNode(n), uid |-> OwnerOf[n.owner][1], gid |-> OwnerOf[n.owner][2],
                 mtime |-> MtimeOf[n.mtime], holes |-> HolesOfNode(n), rdev |-> RdevOfNode(n), xattr |-> n.xattr,
                 group |-> IF n.kind = "dir" THEN {i} ELSE {j \in Ids(t) : Src(t, j) = Src(t, i)},
                 nlink |-> IF n.kind = "dir" THEN 2 + Cardinality({j \in Children(t, i) : t[j].kind = "dir"})
                           ELSE Cardinality({j \in Ids(t) : Src(t, j) = Src(t, i)})]]

\* ------------------------------------------------------------------------------------------------- (3) __populate_fs
RECURSIVE Pop(_, _, _, _, _, _)
Pop(t, src, i, st, inoOnly, linkTypes) ==
   IF i > Len(t) THEN st
   ELSE LET multi == TypeOfNode(t, i) \in linkTypes /\ src[i].nlink > 1
            hits == {k \in DOMAIN st.hd : st.hd[k].ino = src[i].ino /\ (inoOnly \/ st.hd[k].dev = src[i].dev)}
        IN IF multi /\ hits # {}
           THEN LET first == CHOOSE k \in hits : \A k2 \in hits : k <= k2
                IN Pop(t, src, i + 1, [st EXCEPT !.dst = @ @@ (i :> st.hd[first].dst)], inoOnly, linkTypes)      \* add_link()
           ELSE Pop(t, src, i + 1, [hd |-> IF multi THEN Append(st.hd, [dev |-> src[i].dev, ino |-> src[i].ino, dst |-> st.next]) ELSE st.hd,
                                    next |-> st.next + 1, dst |-> st.dst @@ (i :> st.next),
                                    creator |-> st.creator @@ (st.next :> i)], inoOnly, linkTypes)

PopInit == [hd |-> <<>>, next |-> 12, dst |-> <<>>, creator |-> <<>>]
PopRun(t, src, linkTypes) == Pop(t, src, 1, PopInit, DevHardlinkByInoOnly, linkTypes)
\* trees on which the device half of the hdlinks key matters (two link groups with equal inode numbers on two devices)
LinkSensitive(t) == Pop(t, HostSrc(t), 1, PopInit, TRUE, NonDirKinds).dst # Pop(t, HostSrc(t), 1, PopInit, FALSE, NonDirKinds).dst
\* link groups by file type: the kinds that have a group inside one directory / a group spread over several directories
GroupOf(t, i) == {j \in Ids(t) : Src(t, j) = Src(t, i)}
Linked(t) == {i \in Ids(t) : t[i].kind # "dir" /\ Cardinality(GroupOf(t, i)) > 1}
KindsLinkedWithin(t) == {TypeOfNode(t, i) : i \in {k \in Linked(t) : \E j \in GroupOf(t, k) \ {k} : t[j].parent = t[k].parent}}
KindsLinkedAcross(t) == {TypeOfNode(t, i) : i \in {k \in Linked(t) : \E j \in GroupOf(t, k) : t[j].parent # t[k].parent}}
\* the link-shape trees: nothing but link groups (every non-directory name has at least one other name) and the directories that hold them
LinkShape(t) == Linked(t) # {} /\ \A i \in Ids(t) : IF t[i].kind = "dir" THEN Children(t, i) # {} ELSE i \in Linked(t)

\* the image after population: per name, the image inode number and that inode's attributes (those of the name that created it)
PopModelWith(t, src, linkTypes) ==
   LET run == PopRun(t, src, linkTypes) IN
   [i \in Ids(t) |->
      LET c == run.creator[run.dst[i]]      \* the name whose lstat data went into the inode
          n == t[Src(t, c)]
          bits == ModeOfNode(n)
      IN [ino |-> run.dst[i], type |-> TypeOfNode(t, c), size |-> SizeOfNode(n),
          mode |-> IF DevModeMask777 THEN bits % 512 ELSE bits,
          uid |-> OwnerOf[n.owner][1], gid |-> OwnerOf[n.owner][2], mtime |-> MtimeOf[n.mtime],
          holes |-> IF DevHoleAsZeros THEN <<>> ELSE HolesOfNode(n), rdev |-> RdevOfNode(n), xattr |-> n.xattr,
          nlink |-> IF t[c].kind = "dir" THEN 2 + Cardinality({j \in Children(t, c) : t[j].kind = "dir"})
                    ELSE Cardinality({j \in Ids(t) : run.dst[j] = run.dst[i]})]]

PopModel(t, src) == PopModelWith(t, src, PopLinkTypes)

Attrs(r) == [type |-> r.type, size |-> r.size, mode |-> r.mode, uid |-> r.uid, gid |-> r.gid, mtime |-> r.mtime, holes |-> r.holes,
             rdev |-> r.rdev, xattr |-> r.xattr, nlink |-> r.nlink]

PopulateExact(t, src) ==
   LET m == PopModel(t, src)  e == Expect(t) IN
   /\ \A i \in Ids(t) : Attrs(m[i]) = Attrs(e[i])
   /\ \A i, j \in Ids(t) : (m[i].ino = m[j].ino) = (j \in e[i].group)           \* hard-link groups are exactly the source inodes

\* ------------------------------------------------------------------------------------------------- extraction
Extractable(ty) == ty \in {"reg", "dir", "lnk"}
\* an ancestor chain made of directories only is always extracted; specials are skipped
RdumpModel(t, m, bs) ==
   [i \in {j \in Ids(t) : Extractable(m[j].type)} |->
      [type |-> m[i].type,
       size |-> IF m[i].type = "reg" /\ DevRdumpDropsTail THEN (m[i].size \div bs) * bs ELSE IF m[i].type = "dir" THEN 0 ELSE m[i].size,
       perm |-> IF m[i].type = "lnk" THEN 511 ELSE m[i].mode % 512,
       uid |-> IF m[i].type = "lnk" /\ DevRdumpSymlinkOwner THEN 0 ELSE m[i].uid,
       gid |-> IF m[i].type = "lnk" /\ DevRdumpSymlinkOwner THEN 0 ELSE m[i].gid]]

RdumpExpect(t) ==
   LET e == Expect(t) IN
   [i \in {j \in Ids(t) : Extractable(e[j].type)} |->
      [type |-> e[i].type, size |-> IF e[i].type = "dir" THEN 0 ELSE e[i].size,
       perm |-> IF e[i].type = "lnk" THEN 511 ELSE e[i].mode % 512, uid |-> e[i].uid, gid |-> e[i].gid]]

RdumpExact(t, src, bs) == RdumpModel(t, PopModel(t, src), bs) = RdumpExpect(t)

\* ------------------------------------------------------------------------------------------------- MC invariants
InvPopulateExact == Complete => PopulateExact(tree, HostSrc(tree))
InvRdumpExact    == Complete => RdumpExact(tree, HostSrc(tree), 1024)

\* ------------------------------------------------------------------------------------------------- refusals
\* requests the library refuses (no obligation): a symlink target that does not fit one block (ext2fs_symlink), a value
\* that fits neither the inode body nor one xattr block without the ea_inode feature
XattrMaxLen(xc) == IF XattrCat[xc] = <<>> THEN 0 ELSE CHOOSE v \in {XattrCat[xc][k][2] : k \in DOMAIN XattrCat[xc]} :
                                                         \A k \in DOMAIN XattrCat[xc] : XattrCat[xc][k][2] <= v
Refused(t, cfg) ==
   \/ \E i \in Ids(t) : t[i].kind = "lnk" /\ TargetLen[t[i].content] >= cfg.bs
   \/ \E i \in Ids(t) : t[i].kind \in {"reg", "dir"} /\ cfg.ea_inode = 0 /\ XattrMaxLen(t[i].xattr) + 64 > cfg.bs
=============================================================================
