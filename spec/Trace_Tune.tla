----------------------------- MODULE Trace_Tune -----------------------------
(* C11 conformance: one line per tune2fs request
     {profile, op, rc, asked_f, asked_d, before, mid, after, changed[], fsck_req_rc, fsck_after_rc, tree_equal, consistent}
   `before` / `mid` / `after` = abstract superblock state before the request, right after tune2fs, and after the e2fsck run
   tune2fs asked for (= mid when it asked for none); `changed` = names of the raw superblock fields that differ between
   before and after.  obs = 1: the image after the request was also observed independently (gen/c11_rich.py): stale = object
   classes with a stored checksum that differs from the reader's recomputation, qfile = the usage records of every quota
   file (own parser of the quota tree), inodes = per in-use inode the facts Tune!RealUsage reads.  A line that lacks an
   observation the specification needs prints UNOBSERVED (the check is broken, not the tool).  Lines are independent: a
   failing line prints BADLINE and the scan goes on.  A line on which the real
   tool and the model disagree about acceptance prints DIVERGE (information; refusal carries no obligation in C11).     *)
EXTENDS Tune, Json, IOUtils
VARIABLE l
Tr == ndJsonDeserialize(IOEnv.TRACE)
FakeNow == 1600000000

St(r) == [feats |-> AsSet(r.feats), label |-> r.label, uuid |-> r.uuid, blocks |-> r.blocks, rblocks |-> r.rblocks, errors |-> r.errors,
          maxmnt |-> r.maxmnt, mntcount |-> r.mntcount, interval |-> r.interval, isz |-> r.isz, bs |-> r.bs, mntopts |-> AsSet(r.mntopts),
          extopts |-> r.extopts, journal |-> r.journal, quota |-> AsSet(r.quota), seed |-> r.seed, resuid |-> r.resuid, resgid |-> r.resgid,
          stride |-> r.stride, stripe |-> r.stripe, hashalg |-> r.hashalg, testfs |-> r.testfs, valid |-> r.valid, errfs |-> r.errfs,
          lastmnt |-> r.lastmnt, mmp |-> r.mmp, mmpint |-> r.mmpint, orphino |-> r.orphino, csumtype |-> r.csumtype,
          lastcheck |-> r.lastcheck, mtime |-> r.mtime, jdev |-> r.jdev, packed |-> r.packed, jmode |-> r.jmode,
          qinum |-> [usr |-> r.qinum.usr, grp |-> r.qinum.grp, prj |-> r.qinum.prj], firstino |-> r.firstino, lowfree |-> r.lowfree]

(* the e2fsck run tune2fs asked for: marks the filesystem checked, may put back a feature the data still needs *)
AfterFsckOK(m, a, op) ==
   /\ a = [m EXCEPT !.valid = 1, !.errfs = 0, !.mntcount = 0, !.lastcheck = FakeNow, !.feats = a.feats, !.uuid = a.uuid, !.lowfree = a.lowfree]
   /\ m.feats \subseteq a.feats /\ (a.feats \ m.feats) \subseteq FsckMayRestore(op)
   /\ a.uuid \in FsckUuids(m)                                                  \* a filesystem without UUID is given one

PropertyClauses(r) == r.fsck_after_rc = 0 /\ r.consistent = 1 /\ r.tree_equal = 1

(* When the independent observation is needed.  Checksums: the request changed what checksums are computed from (every
   object class of Needs must have been rewritten).  Quota: quota files exist and the request wrote quota files or allocated /
   released / moved inodes and blocks (journal, orphan file, MMP block, inode tables): the files or the usage may differ.  *)
CsumDue(r) == LET b == St(r.before)  a == St(r.after) IN KeyChanged(r.op, b, a) \/ Needs(r.op, b, a) # {}
QuotaDue(r) == LET b == St(r.before)  a == St(r.after)
               IN a.quota # {} /\ r.nontrivial = 1 /\ Run(r.op, b).touched \cap {"quota", "journal", "orphan", "isize", "mmp"} # {}
Unobserved(r) == (CsumDue(r) /\ r.obs = 0) \/ (QuotaDue(r) /\ r.obs >= 0 /\ r.qobs = 0)
(* no checksummed object of any class is left with a stale checksum; every quota file the superblock names records exactly
   the usage of the inode table *)
IndependentOK(r) ==
   LET a == St(r.after)
   IN /\ AsSet(r.stale) = {}
      /\ (r.qobs = 1 => /\ {q.t : q \in AsSet(r.qfile)} = a.quota
                        /\ \A q \in AsSet(r.qfile) : QuotaFileOK(q, r.inodes))

Accepted(r) ==
   LET b == St(r.before)  m == St(r.mid)  a == St(r.after)
       asked == r.asked_f = 1 \/ r.asked_d = 1
       exp == Effect(r.op, b)
       expmid == [exp EXCEPT !.valid = IF r.asked_d = 1 THEN 0 ELSE @]          \* request_dir_fsck_afterwards() clears VALID_FS too
       newprj == "prj" \in m.quota \ b.quota
       mask(s) == [s EXCEPT !.lowfree = 0, !.qinum = [@ EXCEPT !.prj = IF newprj THEN 0 ELSE @]]
   IN /\ mask(m) = mask(expmid)                                                 \* exactly the requested setting + what it implies
                                                                                \* (lowfree: observed allocation state, not predicted)
      /\ (newprj => QuotaInoAllowed("prj", m.qinum.prj, b) /\ r.prjino_was_free = 1)  \* a new project quota file: any inode >= s_first_ino that was free
      /\ (r.asked_d = 1 => MayAskDirFsck(r.op, b))
      /\ (asked => r.fsck_req_rc \in {0, 1})                                    \* the requested e2fsck completes the conversion
      /\ (IF asked THEN AfterFsckOK(m, a, r.op) ELSE a = m)
      /\ AsSet(r.changed) \subseteq AllowedChange(r.op, b, asked)               \* nothing else in the superblock changed
      /\ MustChange(r.op, b) \subseteq AsSet(r.changed)
      /\ FeatureSetOK(a)
      /\ PropertyClauses(r)                                                     \* e2fsck -fn clean, consistent, every file unchanged
      /\ (r.obs = 1 => IndependentOK(r))                                        \* checksums and quota usage, observed independently

TLine == /\ l <= Len(Tr) /\ Tr[l].e = "tune"
         /\ LET r == Tr[l]
                ref == Refused(r.op, St(r.before))
            IN IF r.rc = 0 /\ ref THEN PrintT(<<"DIVERGE", l>>) /\ (IF PropertyClauses(r) THEN TRUE ELSE PrintT(<<"BADLINE", l>>))
               ELSE IF r.rc = 0 /\ r.noop = 0 /\ PropertyClauses(r) /\ Unobserved(r) THEN PrintT(<<"UNOBSERVED", l>>)
               ELSE IF r.rc = 0 THEN (IF Accepted(r) THEN TRUE ELSE PrintT(<<"BADLINE", l>>))
               ELSE IF ~ref /\ ~Run(r.op, St(r.before)).mayfail THEN PrintT(<<"DIVERGE", l>>)
               ELSE TRUE
         /\ l' = l + 1
TraceInit == l = 1
TraceSpec == TraceInit /\ [][TLine]_l
TraceAccepted == TLCGet("stats").diameter - 1 = Len(Tr)
=============================================================================
