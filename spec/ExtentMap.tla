----------------------------- MODULE ExtentMap -----------------------------
(* Property C09, implementation-shaped: lib/ext2fs/extent.c ext2fs_extent_set_bmap() and lib/ext2fs/punch.c
   ext2fs_punch_extent() / punch_extent_blocks() transcribed onto the flat, sorted list of LEAF extents
   x = << [l, len, p, u] ... >>  (logical start, length, physical start, uninit flag).

   Why the flat list is faithful: ext2fs_extent_goto() ends on the extent that contains the block, else on its
   predecessor in the leaf, else on the first extent; NEXT_LEAF / PREV_LEAF walk the leaves in order; node splits and
   ext2fs_extent_fix_parents() do not change the leaf sequence.  Only the leaf sequence decides what a block maps to.
   (Validated against the real tree on histories that cross the 4-entry inode root and the 84 / 340-entry leaf
   blocks by Trace_ExtentMap.)

   SetBmap(L, P, u):  P # 0 maps / remaps logical block L to physical P with uninit flag u;  P = 0 unmaps L.
   Punch(s, e):       unmaps s .. e (inclusive) and frees the physical blocks, whole clusters only (ratio C).

   Precondition (DESIGN 7 row 20): no unmap while the tree is empty -- the code then inserts an uninitialised
   struct; no in-tree caller does it.  DevEmptyUnmap = TRUE models the literal behaviour (a garbage extent
   (0,0,0) is inserted) and makes Structural fail; the conformance cfg keeps the precondition instead.           *)
EXTENDS Integers, Sequences, FiniteSets, TLC

CONSTANTS MaxL,            \* logical blocks 0 .. MaxL
          MaxP,            \* physical blocks 1 .. MaxP
          MaxLenInit,      \* EXT_INIT_MAX_LEN   (32768 in the format; scaled down for model checking)
          MaxLenUninit,    \* EXT_UNINIT_MAX_LEN (32767)
          C,               \* blocks per cluster (1 without bigalloc)
          Inf,             \* stands for ~0ULL as punch end
          DevEmptyUnmap

MAXLEN(u) == IF u THEN MaxLenUninit ELSE MaxLenInit
RemoveAt(s, i) == SubSeq(s, 1, i - 1) \o SubSeq(s, i + 1, Len(s))
InsertAt(s, i, y) == SubSeq(s, 1, i - 1) \o <<y>> \o SubSeq(s, i, Len(s))
New(L, P, u) == [l |-> L, len |-> 1, p |-> P, u |-> u]
End(ex) == ex.l + ex.len                       \* first logical block after the extent

\* ---------------------------------------------------------------- ext2fs_extent_goto on the flat list
Containing(x, L) == {i \in 1 .. Len(x) : x[i].l <= L /\ L < End(x[i])}
Before(x, L) == {i \in 1 .. Len(x) : End(x[i]) <= L}
Cur(x, L) == IF Containing(x, L) # {} THEN CHOOSE i \in Containing(x, L) : TRUE
             ELSE IF Before(x, L) # {} THEN CHOOSE i \in Before(x, L) : \A j \in Before(x, L) : j <= i
             ELSE 1

\* ---------------------------------------------------------------- ext2fs_extent_set_bmap
SetBmap(x, L, P, u) ==
   IF Len(x) = 0 THEN (IF P # 0 THEN <<New(L, P, u)>>
                       ELSE IF DevEmptyUnmap THEN <<[l |-> 0, len |-> 0, p |-> 0, u |-> FALSE]>> ELSE x) ELSE
   LET mapped == Containing(x, L) # {}
       c == Cur(x, L)
       cur == x[c]
       hasn == c < Len(x)
       hasp == c > 1
       nx == IF hasn THEN x[c + 1] ELSE cur
       pv == IF hasp THEN x[c - 1] ELSE cur
   IN
   IF mapped /\ u = cur.u /\ cur.p + (L - cur.l) = P THEN x                        \* "physical block unchanged"
   ELSE IF ~mapped THEN
      IF P = 0 THEN x                                                              \* "already unmapped"
      ELSE IF L = End(cur) /\ P = cur.p + cur.len /\ u = cur.u /\ cur.len < MAXLEN(u) - 1
           THEN [x EXCEPT ![c].len = cur.len + 1]                                  \* append to the current extent
      ELSE IF L + 1 = cur.l /\ P + 1 = cur.p /\ u = cur.u /\ cur.len < MAXLEN(u) - 1
           THEN [x EXCEPT ![c] = [l |-> L, len |-> cur.len + 1, p |-> P, u |-> cur.u]]      \* prepend to it
      ELSE IF hasn /\ L + 1 = nx.l /\ P + 1 = nx.p /\ u = nx.u /\ nx.len < MAXLEN(u) - 1
           THEN [x EXCEPT ![c + 1] = [l |-> L, len |-> nx.len + 1, p |-> P, u |-> nx.u]]    \* prepend to the next one
      ELSE IF L < cur.l THEN InsertAt(x, c, New(L, P, u))
      ELSE InsertAt(x, c + 1, New(L, P, u))
   ELSE IF L = cur.l /\ cur.len = 1 THEN                                           \* only block of the extent
      IF P # 0 THEN [x EXCEPT ![c] = New(L, P, u)] ELSE RemoveAt(x, c)
   ELSE IF L = End(cur) - 1 THEN                                                   \* last block of the extent
      LET shr == [x EXCEPT ![c].len = cur.len - 1] IN
      IF P = 0 THEN shr
      ELSE IF hasn /\ L + 1 = nx.l /\ P + 1 = nx.p /\ u = nx.u /\ nx.len < MAXLEN(u) - 1
           THEN [shr EXCEPT ![c + 1] = [l |-> L, len |-> nx.len + 1, p |-> P, u |-> nx.u]]
      ELSE InsertAt(shr, c + 1, New(L, P, u))
   ELSE IF L = cur.l THEN                                                          \* first block of the extent
      LET shr == [x EXCEPT ![c] = [l |-> cur.l + 1, len |-> cur.len - 1, p |-> cur.p + 1, u |-> cur.u]] IN
      IF P = 0 THEN shr
      ELSE IF hasp /\ L = End(pv) /\ P = pv.p + pv.len /\ u = pv.u /\ pv.len < MAXLEN(u) - 1
           THEN [shr EXCEPT ![c - 1].len = pv.len + 1]
      ELSE InsertAt(shr, c, New(L, P, u))
   ELSE                                                                            \* middle: split in two or three
      LET left  == [l |-> cur.l, len |-> L - cur.l, p |-> cur.p, u |-> cur.u]
          right == [l |-> L + 1, len |-> cur.len - (L - cur.l) - 1, p |-> cur.p + (L - cur.l) + 1, u |-> cur.u]
          mid   == IF P = 0 THEN <<>> ELSE <<New(L, P, u)>>
      IN SubSeq(x, 1, c - 1) \o <<left>> \o mid \o <<right>> \o SubSeq(x, c + 1, Len(x))

\* ---------------------------------------------------------------- ext2fs_punch_extent main loop
\* One visit of the loop body to extent ex: the pieces that stay (in order) and the piece that is freed
\* (<<lfree_start, free_start, free_count>>, count 0 = nothing).  Case numbers as in the C source.
Visit(ex, s, e) ==
   LET next == End(ex) IN
   IF s <= ex.l THEN
      IF e < ex.l THEN [stay |-> <<ex>>, fr |-> <<0, 0, 0>>, stop |-> TRUE]        \* iterated past the region
      ELSE LET n == IF next > e THEN e - ex.l + 1 ELSE ex.len                       \* case 1: cut the front
               rest == [l |-> ex.l + n, len |-> ex.len - n, p |-> ex.p + n, u |-> ex.u]
           IN [stay |-> IF rest.len > 0 THEN <<rest>> ELSE <<>>, fr |-> <<ex.l, ex.p, n>>, stop |-> FALSE]
   ELSE IF e >= next - 1 THEN
      IF s >= next THEN [stay |-> <<ex>>, fr |-> <<0, 0, 0>>, stop |-> FALSE]      \* region starts beyond this extent
      ELSE LET newlen == s - ex.l                                                   \* case 2: cut the tail
           IN [stay |-> <<[ex EXCEPT !.len = newlen]>>, fr |-> <<ex.l + newlen, ex.p + newlen, ex.len - newlen>>, stop |-> FALSE]
   ELSE LET newex == [l |-> e + 1, len |-> next - e - 1, p |-> ex.p + (e + 1 - ex.l), u |-> ex.u]   \* case 3: split
            head == [ex EXCEPT !.len = s - ex.l]
        IN [stay |-> <<head, newex>>, fr |-> <<head.l + head.len, head.p + head.len, e - s + 1>>, stop |-> FALSE]

\* punch_extent_blocks: clusters given back for one freed piece, evaluated -- as in the code -- on the tree in which
\* this extent is already updated and the later ones are not.  With C = 1: every block of the piece.
ClusterOf(b) == b \div C
LMapped(x, L) == Containing(x, L) # {}
OtherInCluster(x, L) == \E k \in 0 .. (C - 1) : LET b == (L \div C) * C + k IN b # L /\ LMapped(x, b)    \* ext2fs_map_cluster_block # 0
FreedBy(x, fr) ==
   LET ls == fr[1]   ps == fr[2]   n == fr[3] IN
   IF n = 0 THEN {}
   ELSE IF C = 1 THEN ps .. (ps + n - 1)
   ELSE LET headn == IF ps % C # 0 THEN (IF C - (ps % C) > n THEN n ELSE C - (ps % C)) ELSE 0
            head  == IF headn > 0 /\ ~OtherInCluster(x, ls) THEN {ClusterOf(ps)} ELSE {}
            n2 == n - headn   ps2 == ps + headn   ls2 == ls + headn
            whole == n2 \div C
            mid == {ClusterOf(ps2) + k : k \in 0 .. (whole - 1)}
            n3 == n2 - whole * C   ps3 == ps2 + whole * C   ls3 == ls2 + whole * C
            tail == IF n3 > 0 /\ ~OtherInCluster(x, ls3) THEN {ClusterOf(ps3)} ELSE {}
        IN head \cup mid \cup tail

\* the loop: extents 1 .. c-1 are left alone, c .. Len are visited in order until one says stop
RECURSIVE PunchFrom(_, _, _, _, _)
PunchFrom(x, i, s, e, acc) ==          \* x: current list; i: index being visited; acc: clusters/blocks freed so far
   IF i > Len(x) THEN [x |-> x, freed |-> acc]
   ELSE LET v == Visit(x[i], s, e)
            x2 == SubSeq(x, 1, i - 1) \o v.stay \o SubSeq(x, i + 1, Len(x))
        IN IF v.stop THEN [x |-> x, freed |-> acc]
           ELSE PunchFrom(x2, i + Len(v.stay), s, e, acc \cup FreedBy(x2, v.fr))
PunchExt(x, s, e) == IF Len(x) = 0 THEN [x |-> x, freed |-> {}] ELSE PunchFrom(x, Cur(x, s), s, e, {})

\* ---------------------------------------------------------------- what the list means
LBlocks(ex) == ex.l .. (End(ex) - 1)
MapOf(x) == [L \in UNION {LBlocks(x[i]) : i \in 1 .. Len(x)} |->
               LET i == CHOOSE j \in 1 .. Len(x) : L \in LBlocks(x[j]) IN <<x[i].p + (L - x[i].l), x[i].u>>]
PhysOf(x) == UNION {x[i].p .. (x[i].p + x[i].len - 1) : i \in 1 .. Len(x)}

\* ---------------------------------------------------------------- state machine for model checking
VARIABLES ext, prev, op, freed
evars == <<ext, prev, op, freed>>
EInit == ext = <<>> /\ prev = <<>> /\ op = [e |-> "init", l |-> 0, p |-> 0, u |-> FALSE, s |-> 0, en |-> 0] /\ freed = {}
\* bigalloc: callers keep logical and physical clusters aligned (punch_extent_blocks: "We assume that all blocks in a
\* logical cluster map to blocks from the same physical cluster, and that the offsets within the [pl]clusters match")
ClusterConsistent(x, L, P) ==
   /\ P % C = L % C
   /\ \A L2 \in DOMAIN MapOf(x) : L2 # L => ((L2 \div C = L \div C) <=> (ClusterOf(MapOf(x)[L2][1]) = ClusterOf(P)))
DoSet(L, P, u) == /\ (Len(ext) = 0 /\ P = 0) => DevEmptyUnmap                 \* precondition
                  /\ (C > 1 /\ P # 0) => ClusterConsistent(ext, L, P)
                  /\ (P # 0 => P \notin PhysOf(ext) \/ (L \in DOMAIN MapOf(ext) /\ MapOf(ext)[L][1] = P))   \* callers map free blocks
                  /\ ext' = SetBmap(ext, L, P, u) /\ prev' = ext
                  /\ op' = [e |-> "set", l |-> L, p |-> P, u |-> u, s |-> 0, en |-> 0] /\ freed' = {}
DoPunch(s, e) == /\ s <= e
                 /\ LET r == PunchExt(ext, s, e) IN ext' = r.x /\ freed' = r.freed
                 /\ prev' = ext /\ op' = [e |-> "punch", l |-> 0, p |-> 0, u |-> FALSE, s |-> s, en |-> e]
ENext == \/ \E L \in 0 .. MaxL, P \in 0 .. MaxP, u \in BOOLEAN : DoSet(L, P, u)
         \/ \E s \in 0 .. MaxL, e \in (0 .. MaxL) \cup {Inf} : DoPunch(s, e)
ESpec == EInit /\ [][ENext]_evars

\* ---------------------------------------------------------------- invariants
Sorted == \A i \in 1 .. (Len(ext) - 1) : ext[i].l < ext[i + 1].l
NonOverlapping == \A i \in 1 .. (Len(ext) - 1) : End(ext[i]) <= ext[i + 1].l
NoEmpty == \A i \in 1 .. Len(ext) : ext[i].len >= 1 /\ ext[i].len <= MAXLEN(ext[i].u)
Structural == Sorted /\ NonOverlapping /\ NoEmpty
\* SetBmap changes the mapping at L and nowhere else
MapUpdatedExactlyAt ==
   op.e = "set" =>
      LET m0 == MapOf(prev)   m1 == MapOf(ext)
          want == IF op.p = 0 THEN DOMAIN m0 \ {op.l} ELSE DOMAIN m0 \cup {op.l}
      IN /\ DOMAIN m1 = want
         /\ \A L \in want : m1[L] = IF L = op.l THEN <<op.p, op.u>> ELSE m0[L]
\* Punch removes exactly s .. e from the map, keeps everything else, and frees exactly the blocks (clusters) that no
\* remaining block uses any more
PunchExact ==
   op.e = "punch" =>
      LET m0 == MapOf(prev)   m1 == MapOf(ext)
          gone == {L \in DOMAIN m0 : op.s <= L /\ L <= op.en}
          left == {ClusterOf(m0[L][1]) : L \in gone}
          stillused == {ClusterOf(m1[L][1]) : L \in DOMAIN m1}
      IN /\ DOMAIN m1 = DOMAIN m0 \ gone
         /\ \A L \in DOMAIN m1 : m1[L] = m0[L]
         /\ freed = IF C = 1 THEN {m0[L][1] : L \in gone} ELSE left \ stillused
=============================================================================
