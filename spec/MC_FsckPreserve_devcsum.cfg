SPECIFICATION Spec
CONSTANTS
  Hashes = {0, 2, 4}
  Ids = {1, 2}
  Cap = 2
  LBlks = {0}
  DataBlks = {1}
  MetaBlks = {9}
  InoExt = 1
  NDirect = 1
  MaxDamage = 1
  MaxRuns = 2
  DevRehashDropsCollision = FALSE
  DevRehashDropsBoundary = FALSE
  DevRebuildDropsLast = FALSE
  DevCsumClearsLeaf = TRUE
  DevSbCsumRefuses = FALSE
  InitExtStates = {"w"}
  InvalidIds = {}
  CfModes = {"plain"}
  DevRebuildMergesAcrossState = FALSE
  DevEncCheckIgnoresStrict = FALSE
  DevCasefoldOpaqueHashFails = FALSE
  DevDupFoldsPlainDir = FALSE
  BSz = 2
  SizeClasses = {"end"}
  DevSizeLimitInclusive = FALSE
  DevInodeUninitWipes = FALSE
INVARIANT TypeOK
INVARIANT TreeUnchanged
INVARIANT ExitOK
INVARIANT ConsistentAfter
INVARIANT ModeScope
PROPERTY ContractRefined
CHECK_DEADLOCK FALSE
