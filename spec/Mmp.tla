------------------------------- MODULE Mmp -------------------------------
(* X01 -- the multi-mount protection protocol of lib/ext2fs/mmp.c as the e2fsprogs tools use it.

   One shared MMP block, several nodes (tool processes on possibly different hosts).  The granularity is the one the
   real code has and that harness/mmptrace.c can schedule: one step per read(2) of the MMP block, per write of the
   MMP block, per wake-up from sleep(3) and per look at the clock in ext2fs_mmp_update2 (a "poll").  The gettimeofday
   that ext2fs_mmp_write makes before the write is not a step of its own: it samples the clock at the node's
   previous step (variable tv), exactly as a process does that is not descheduled between two system calls.

   Transcribed (all read in /repo at 409abbf5):
     ext2fs_mmp_start   read; CLEAN -> (RW: write new seq; sleep W; read; compare; write FSCK)  (RO: return 0)
                        FSCK -> EXT2_ET_MMP_FSCK_ON;  > FSCK and not CLEAN -> EXT2_ET_MMP_UNKNOWN_SEQ
                        active -> ci := max(ci, blk.check_interval); sleep W(ci); read; compare -> EXT2_ET_MMP_FAILED
                        (the CLEAN path does NOT look at blk.check_interval: `goto clean_seq` jumps over it)
     ext2fs_mmp_update2 clock; (immediately or >= 60 s since the last write) read into mmp_cmp; memcmp(mmp_buf, mmp_cmp)
                        -> EXT2_ET_MMP_CHANGE_ABORT; else write seq FSCK with the new time
     ext2fs_mmp_stop    read into mmp_cmp; memcmp -> EXT2_ET_MMP_CHANGE_ABORT; else write mmp_cmp with seq CLEAN
                        (nothing at all with EXT2_FLAG_SKIP_MMP, read-only, or when start never ran)
     ext2fs_mmp_clear   (tune2fs -f -E clear_mmp, e2fsck -y on a bad magic / checksum) write a freshly made CLEAN block
     e2fsck             first open with EXT2_FLAG_SKIP_MMP + e2fsck_check_mmp (one read, no wait), then re-open -> start;
                        e2fsck_mmp_update before every pass and in pass 1 = polls; fatal_error -> ext2fs_mmp_stop
     every library user leaves seq = FSCK on the block while it runs (the last write of ext2fs_mmp_start), so the
     "FSCK marker" is not special to e2fsck; an active (plain number) seq is on disk only during the second wait of
     a starting tool (or after a crash there).

   Node kinds (what a tool invocation does with the block):
     "rw"    tune2fs -L, debugfs -w ...      start, [polls], stop
     "fsck"  e2fsck -fy                      pre-check read, start, polls, stop
     "rwd"   debugfs -w -R dump_mmp          start, one more read of the block (do_dump_mmp), stop
     "ro"    dumpe2fs -m                     ext2fs_mmp_start on a read-only handle: activity check only
     "peek"  dumpe2fs [-h], debugfs dump_mmp on a handle without -w: one read of the block to print it
     "fsckn" e2fsck -fn                      pre-check read only
     "skip"  tune2fs -f -L, debugfs (no -w)  no access to the block at all
     "clear" tune2fs -f -E clear_mmp         one write of a fresh CLEAN block

   Literal-deviation constants (FALSE = the behaviour the properties are stated for):
     DevNonAtomic        TRUE = what the code does: the read that decides and the write that follows are two steps,
                         other nodes may run in between and time may pass.  FALSE = the pair is atomic (the assumption
                         under which MMP is safe; the real window is a few microseconds), except the pair "read CLEAN,
                         write the new sequence number", which other nodes may interleave with but which takes no time.
     DevSeqCollision     TRUE = ext2fs_mmp_new_seq may return a value another node is using (real probability 2^-31 per
                         pair; the seed is pid^uid^sec^usec).  FALSE = fresh values.  (TLC: in the atomic model all
                         invariants hold with collisions too -- the first FSCK write breaks the tie; collisions matter
                         only together with DevNonAtomic.)
     DevSameNodename     TRUE = all nodes write the same mmp_nodename/mmp_bdevname (two tools on one host): two FSCK
                         blocks written in the same second are byte-identical.  (TLC: DetectableOverlap fails, but only
                         with DevNonAtomic and two stalls of >= Upd seconds inside read-write pairs.)
     DevDumpClobbers     TRUE = debugfs.c before fixes/X01_dump_mmp_private_buf.patch: do_dump_mmp reads the block into
                         fs->mmp_buf, the very buffer ext2fs_mmp_stop compares the device with, so after dump_mmp a
                         foreign block is taken for the node's own and overwritten with CLEAN.
     DevStopUnconditional, DevNoSecondWait, DevNoFsckMarker   = what three of the mutants (mutants/X01_*.patch) do: the stop
                         that does not compare, the start without the second wait, the start that leaves its number
                         on the block instead of FSCK.
*)
EXTENDS Integers, FiniteSets, Sequences, TLC

CONSTANTS Nodes,            \* node ids (positive integers)
          Seqs,             \* active sequence numbers (positive integers < FSCK)
          KindSet,          \* kinds a node may be launched as
          RwPolls, FsckPolls, \* how many times a launched "rw" / "fsck" node looks at the clock through ext2fs_mmp_update2 (sets of numbers)
          MinIval, Upd,     \* EXT4_MMP_MIN_CHECK_INTERVAL (5), EXT2_MIN_MMP_UPDATE_INTERVAL (60)
          IvalSet,          \* values of s_mmp_update_interval / mmp_check_interval at the start
          TickSet,          \* amounts by which the clock may advance in one step
          MaxCrash,         \* how many nodes may crash
          AllowCorrupt,     \* the block may be damaged once from outside (magic or checksum)
          DevNonAtomic, DevSeqCollision, DevSameNodename,
          DevStopUnconditional, DevNoSecondWait, DevNoFsckMarker, DevDumpClobbers

VARIABLES blk,      \* the MMP block on the device
          sbi,      \* s_mmp_update_interval in the superblock
          now,      \* the clock (seconds)
          nd,       \* per node: pc, kind, buf (fs->mmp_buf), cmp (fs->mmp_cmp), seq0, ci, wake, lastw, tv, res, polls, imm,
                    \* extra (reads of do_dump_mmp still to come), mine (ghost: the node's own last write),
                    \* stops (calls of ext2fs_mmp_stop still to come)
          hist,     \* ghost: the last write: by, how, own (the block held the writer's own last write when it wrote)
          used,     \* ghost: sequence numbers handed out
          crashes,  \* ghost: number of crashes so far
          forced,   \* ghost: the block was reset from outside the protocol while a node was using it
          corrupted \* ghost: the block was damaged from outside

vars == <<blk, sbi, now, nd, hist, used, crashes, forced, corrupted>>

FSCK == 1000
UNKNOWN == 1001              \* any value in (FSCK, CLEAN)
CLEAN == 2000
Max2(a, b) == IF a > b THEN a ELSE b
Min2(a, b) == IF a < b THEN a ELSE b
Wt(i) == Min2(2 * i + 1, i + 60)

NoBlk == [magic |-> FALSE, seq |-> -1, time |-> -1, node |-> -1, ival |-> -1, ok |-> FALSE]
Name(n) == IF DevSameNodename THEN 0 ELSE n
Fresh(n, t) == [magic |-> TRUE, seq |-> CLEAN, time |-> t, node |-> Name(n), ival |-> Max2(sbi, MinIval), ok |-> TRUE]

Live(n) == nd[n].pc \notin {"idle", "done", "crashed"}
Busy == {"s_write1", "s_write2", "u_write", "t_write"}        \* between a deciding read and its write
\* "s_write1c" = about to write the new sequence number after having read CLEAN.  This window is the one the protocol is
\* built to survive (several starters that all saw CLEAN: the second wait sorts them out, the last writer wins), so it
\* never excludes other nodes; in the atomic model it only takes no time.
Window == Busy \cup {"s_write1c"}
\* a node may take a step that touches the block unless (atomic model) another node is inside a read-write pair
MayRun(n) == DevNonAtomic \/ \A m \in Nodes \ {n} : nd[m].pc \notin Busy

ReadErr(b) == IF ~b.magic THEN "MAGIC" ELSE IF ~b.ok THEN "CSUM" ELSE "none"

Set(n, r) == nd' = [nd EXCEPT ![n] = r]
Done(n, r, res) == Set(n, [r EXCEPT !.pc = "done", !.res = IF r.res = "none" THEN res ELSE r.res])
StopEnd(n, r, res) == IF r.stops > 1 THEN Set(n, [r EXCEPT !.pc = "t_read", !.stops = @ - 1, !.res = IF @ = "none" THEN res ELSE @])
                      ELSE Done(n, r, res)
Wrote(n, how, own) == hist' = [by |-> n, how |-> how, own |-> own, seq |-> blk'.seq, valid |-> blk'.magic /\ blk'.ok]
Same == UNCHANGED <<blk, hist>>

Idle == [pc |-> "idle", kind |-> "none", buf |-> NoBlk, cmp |-> NoBlk, seq0 |-> -1, ci |-> 0, wake |-> 0, lastw |-> 0,
         tv |-> 0, res |-> "none", polls |-> 0, imm |-> FALSE, extra |-> 0, mine |-> NoBlk, stops |-> 1]

Init == /\ \E i \in IvalSet, j \in IvalSet :
              /\ sbi = i
              /\ blk = [magic |-> TRUE, seq |-> CLEAN, time |-> 0, node |-> 0, ival |-> Max2(j, MinIval), ok |-> TRUE]
        /\ now = 0
        /\ nd = [n \in Nodes |-> Idle]
        /\ hist = [by |-> 0, how |-> "init", own |-> TRUE, seq |-> CLEAN, valid |-> TRUE]
        /\ used = {} /\ crashes = 0 /\ forced = FALSE /\ corrupted = FALSE

------------------------------------------------------------------------------
(* launching a tool.  imm = the tool's polls are ext2fs_mmp_update2(fs, 1) (tune2fs rewriting checksums)          *)
FirstPc(k) == CASE k = "rw" -> "s_read1" [] k = "rwd" -> "s_read1" [] k = "ro" -> "s_read1" [] k = "fsck" -> "pre_read" [] k = "fsckn" -> "pre_read"
                [] k = "clear" -> "c_write" [] k = "skip" -> "done" [] k = "peek" -> "p_read"
Launch(n, k, p, im) ==
    /\ nd[n].pc = "idle"
    /\ Set(n, [Idle EXCEPT !.pc = FirstPc(k), !.kind = k, !.polls = IF k \in {"rw", "fsck"} THEN p ELSE 0, !.imm = im, !.extra = IF k = "rwd" THEN 1 ELSE 0,
                           !.res = IF k = "skip" THEN "ok" ELSE "none", !.tv = now])
    /\ UNCHANGED <<blk, sbi, now, hist, used, crashes, forced, corrupted>>

PeekRead(n) ==
    /\ nd[n].pc = "p_read" /\ MayRun(n)
    /\ Done(n, [nd[n] EXCEPT !.buf = blk, !.cmp = blk, !.tv = now], "ok")
    /\ Same /\ UNCHANGED <<sbi, now, used, crashes, forced, corrupted>>

(* e2fsck_check_mmp on the handle opened with EXT2_FLAG_SKIP_MMP *)
PreRead(n) ==
    /\ nd[n].pc = "pre_read" /\ MayRun(n)
    /\ LET r == [nd[n] EXCEPT !.buf = blk, !.tv = now]
           e == ReadErr(blk) IN
       IF e # "none" THEN
            IF nd[n].kind = "fsck" THEN Set(n, [r EXCEPT !.pc = "pre_fix"])      \* -y: fix_problem -> ext2fs_mmp_clear
            ELSE Done(n, r, e)
       ELSE IF blk.seq = CLEAN THEN
            IF nd[n].kind = "fsck" THEN Set(n, [r EXCEPT !.pc = "s_read1"]) ELSE Done(n, r, "ok")
       ELSE IF blk.seq = FSCK THEN Done(n, r, "FSCK_ON")
       ELSE IF blk.seq > FSCK THEN Done(n, r, "UNKNOWN_SEQ")
       ELSE IF nd[n].kind = "fsck" THEN Set(n, [r EXCEPT !.pc = "s_read1"]) ELSE Done(n, r, "ok")
    /\ Same /\ UNCHANGED <<sbi, now, used, crashes, forced, corrupted>>

SomeoneElseLive(n) == \E m \in Nodes \ {n} : Live(m) /\ nd[m].kind \notin {"ro", "fsckn", "clear"}

PreFix(n) ==
    /\ nd[n].pc = "pre_fix" /\ MayRun(n)
    /\ blk' = Fresh(n, nd[n].tv)
    /\ Set(n, [nd[n] EXCEPT !.pc = "s_read1", !.buf = blk', !.lastw = nd[n].tv, !.mine = blk'])
    /\ Wrote(n, "fix", FALSE)
    /\ forced' = (forced \/ SomeoneElseLive(n))
    /\ UNCHANGED <<sbi, now, used, crashes, corrupted>>

(* ext2fs_mmp_start *)
StartRead1(n) ==
    /\ nd[n].pc = "s_read1" /\ MayRun(n)
    /\ LET ci0 == Max2(sbi, MinIval)
           r == [nd[n] EXCEPT !.buf = blk, !.cmp = blk, !.seq0 = blk.seq, !.ci = ci0, !.tv = now]
           e == ReadErr(blk) IN
       IF e # "none" THEN Done(n, r, e)
       ELSE IF blk.seq = CLEAN THEN
            IF nd[n].kind = "ro" THEN Done(n, r, "ok") ELSE Set(n, [r EXCEPT !.pc = "s_write1c"])
       ELSE IF blk.seq = FSCK THEN Done(n, r, "FSCK_ON")
       ELSE IF blk.seq > FSCK THEN Done(n, r, "UNKNOWN_SEQ")
       ELSE LET ci1 == Max2(ci0, blk.ival) IN
            Set(n, [r EXCEPT !.pc = "s_wait1", !.ci = ci1, !.wake = now + Wt(ci1)])
    /\ Same /\ UNCHANGED <<sbi, now, used, crashes, forced, corrupted>>

StartRead2(n) ==
    /\ nd[n].pc = "s_wait1" /\ now >= nd[n].wake /\ MayRun(n)
    /\ LET r == [nd[n] EXCEPT !.buf = blk, !.cmp = blk, !.tv = now]
           e == ReadErr(blk) IN
       IF e # "none" THEN Done(n, r, e)
       ELSE IF blk.seq # nd[n].seq0 THEN Done(n, r, "FAILED")
       ELSE IF nd[n].kind = "ro" THEN Done(n, r, "ok")
       ELSE Set(n, [r EXCEPT !.pc = "s_write1"])
    /\ Same /\ UNCHANGED <<sbi, now, used, crashes, forced, corrupted>>

StartWrite1(n) ==
    /\ nd[n].pc \in {"s_write1", "s_write1c"}
    /\ \E s \in (IF DevSeqCollision THEN Seqs ELSE Seqs \ used) :
         LET b == [nd[n].buf EXCEPT !.seq = s, !.node = Name(n), !.time = nd[n].tv, !.ok = TRUE] IN
         /\ blk' = b
         /\ Set(n, [nd[n] EXCEPT !.pc = "s_wait2", !.buf = b, !.mine = b, !.seq0 = s, !.lastw = nd[n].tv,
                                 !.wake = IF DevNoSecondWait THEN now ELSE now + Wt(nd[n].ci)])
         /\ used' = used \cup {s}
    /\ Wrote(n, "start", TRUE)
    /\ UNCHANGED <<sbi, now, crashes, forced, corrupted>>

StartRead3(n) ==
    /\ nd[n].pc = "s_wait2" /\ now >= nd[n].wake /\ MayRun(n)
    /\ LET r == [nd[n] EXCEPT !.buf = blk, !.cmp = blk, !.tv = now]
           e == ReadErr(blk) IN
       IF e # "none" THEN Done(n, r, e)
       ELSE IF blk.seq # nd[n].seq0 THEN Done(n, r, "FAILED")
       ELSE Set(n, [r EXCEPT !.pc = "s_write2"])
    /\ Same /\ UNCHANGED <<sbi, now, used, crashes, forced, corrupted>>

StartWrite2(n) ==
    /\ nd[n].pc = "s_write2"
    /\ LET b == [nd[n].buf EXCEPT !.seq = IF DevNoFsckMarker THEN nd[n].seq0 ELSE FSCK, !.time = nd[n].tv, !.ok = TRUE] IN
       /\ blk' = b
       /\ Set(n, [nd[n] EXCEPT !.pc = "held", !.buf = b, !.mine = b, !.lastw = nd[n].tv])
    /\ Wrote(n, "mark", TRUE)
    /\ UNCHANGED <<sbi, now, used, crashes, forced, corrupted>>

(* ext2fs_mmp_update2: the look at the clock *)
Poll(n) ==
    /\ nd[n].pc = "held" /\ nd[n].polls > 0
    /\ Set(n, [nd[n] EXCEPT !.polls = @ - 1, !.tv = now,
                            !.pc = IF nd[n].imm \/ now - nd[n].lastw >= Upd THEN "u_read" ELSE "held"])
    /\ Same /\ UNCHANGED <<sbi, now, used, crashes, forced, corrupted>>

UpdRead(n) ==
    /\ nd[n].pc = "u_read" /\ MayRun(n)
    /\ LET r == [nd[n] EXCEPT !.cmp = blk, !.tv = now]
           e == ReadErr(blk)
       \* every in-tree caller gives up on an error of the update: tune2fs closefs -> ext2fs_mmp_stop; e2fsck fatal_error ->
       \* ext2fs_mmp_stop, longjmp out of e2fsck_run, main: fatal_error("aborted") -> ext2fs_mmp_stop once more
       \* (extra = 0: debugfs never polls, a dump_mmp still to come would be skipped)
           st == IF nd[n].kind = "fsck" THEN 2 ELSE 1 IN
       IF e # "none" THEN Set(n, [r EXCEPT !.pc = "t_read", !.res = e, !.polls = 0, !.stops = st])
       ELSE IF blk # nd[n].buf THEN Set(n, [r EXCEPT !.pc = "t_read", !.res = "CHANGE_ABORT", !.polls = 0, !.stops = st])
       ELSE Set(n, [r EXCEPT !.pc = "u_write"])
    /\ Same /\ UNCHANGED <<sbi, now, used, crashes, forced, corrupted>>

UpdWrite(n) ==
    /\ nd[n].pc = "u_write"
    /\ LET b == [nd[n].buf EXCEPT !.seq = FSCK, !.time = nd[n].tv, !.ok = TRUE] IN
       /\ blk' = b
       /\ Wrote(n, "update", blk = nd[n].mine)
       /\ Set(n, [nd[n] EXCEPT !.pc = "held", !.buf = b, !.mine = b, !.lastw = nd[n].tv])
    /\ UNCHANGED <<sbi, now, used, crashes, forced, corrupted>>

(* debugfs do_dump_mmp on a handle opened with -w: ext2fs_mmp_read(current_fs, blk, X); X = current_fs->mmp_buf in the
   literal code, a private buffer after the repair.  ext2fs_mmp_read copies into X even when it reports an error.   *)
DumpRead(n) ==
    /\ nd[n].pc = "held" /\ nd[n].polls = 0 /\ nd[n].extra > 0 /\ MayRun(n)
    /\ Set(n, [nd[n] EXCEPT !.extra = @ - 1, !.cmp = blk, !.tv = now, !.buf = IF DevDumpClobbers THEN blk ELSE @])
    /\ Same /\ UNCHANGED <<sbi, now, used, crashes, forced, corrupted>>

(* ext2fs_mmp_stop (ext2fs_close, fatal_error) *)
StopRead(n) ==
    /\ \/ nd[n].pc = "held" /\ nd[n].polls = 0 /\ nd[n].extra = 0
       \/ nd[n].pc = "t_read"
    /\ MayRun(n)
    /\ LET r == [nd[n] EXCEPT !.cmp = blk, !.tv = now]
           e == ReadErr(blk) IN
       IF e # "none" THEN StopEnd(n, r, e)
       ELSE IF blk # nd[n].buf /\ ~DevStopUnconditional THEN StopEnd(n, r, "CHANGE_ABORT")
       ELSE Set(n, [r EXCEPT !.pc = "t_write"])
    /\ Same /\ UNCHANGED <<sbi, now, used, crashes, forced, corrupted>>

StopWrite(n) ==
    /\ nd[n].pc = "t_write"
    /\ blk' = [nd[n].cmp EXCEPT !.seq = CLEAN, !.time = nd[n].tv, !.ok = TRUE]
    /\ Wrote(n, "stop", blk = nd[n].mine)
    /\ StopEnd(n, nd[n], "ok")
    /\ UNCHANGED <<sbi, now, used, crashes, forced, corrupted>>

(* tune2fs -f -E clear_mmp *)
ClearWrite(n) ==
    /\ nd[n].pc = "c_write" /\ MayRun(n)
    /\ blk' = Fresh(n, nd[n].tv)
    /\ Wrote(n, "clear", FALSE)
    /\ forced' = (forced \/ SomeoneElseLive(n))
    /\ Done(n, nd[n], "ok")
    /\ UNCHANGED <<sbi, now, used, crashes, corrupted>>

Crash(n) ==
    /\ Live(n) /\ crashes < MaxCrash
    /\ Set(n, [nd[n] EXCEPT !.pc = "crashed"])
    /\ crashes' = crashes + 1
    /\ UNCHANGED <<blk, sbi, now, hist, used, forced, corrupted>>

Corrupt ==
    /\ AllowCorrupt /\ ~corrupted
    /\ DevNonAtomic \/ \A m \in Nodes : nd[m].pc \notin Busy
    /\ \/ blk' = [blk EXCEPT !.magic = FALSE]
       \/ blk' = [blk EXCEPT !.ok = FALSE]
    /\ corrupted' = TRUE
    /\ UNCHANGED <<sbi, now, nd, hist, used, crashes, forced>>

(* the clock.  In the model-checking configurations time moves only while somebody waits for it (a sleeper whose
   wake-up time is ahead, or a holder with polls left whose update is not yet due): the protocol is sensitive to time
   differences only, so nothing is lost, and the state space is finite without a constraint.  Sleeps may last longer
   than asked for (a node wakes at any step with now >= wake).                                                    *)
Advance(d) == now' = now + d /\ UNCHANGED <<blk, sbi, nd, hist, used, crashes, forced, corrupted>>
Waiting(n) == \/ nd[n].pc \in {"s_wait1", "s_wait2"} /\ nd[n].wake > now
              \/ nd[n].pc = "held" /\ nd[n].polls > 0 /\ ~nd[n].imm /\ now - nd[n].lastw < Upd
Tick == /\ \E n \in Nodes : Waiting(n)
        /\ DevNonAtomic \/ \A m \in Nodes : nd[m].pc \notin Window
        /\ \E d \in TickSet : Advance(d)

PollsFor(k) == IF k = "rw" THEN RwPolls ELSE IF k = "fsck" THEN FsckPolls ELSE {0}
Step(n) == \/ PeekRead(n) \/ PreRead(n) \/ PreFix(n) \/ StartRead1(n) \/ StartRead2(n) \/ StartWrite1(n) \/ StartRead3(n)
           \/ StartWrite2(n) \/ Poll(n) \/ DumpRead(n) \/ UpdRead(n) \/ UpdWrite(n) \/ StopRead(n) \/ StopWrite(n) \/ ClearWrite(n)
Next == \/ \E n \in Nodes : \/ Step(n)
                            \/ Crash(n)
                            \/ \E k \in KindSet : \E p \in PollsFor(k) : Launch(n, k, p, FALSE)
        \/ Tick
        \/ Corrupt

\* what a node waits for after a step, as the controller of checks/x01.py sees it: the next request of the tool process
WritePcs == {"s_write1", "s_write1c", "s_write2", "u_write", "t_write", "c_write", "pre_fix"}
Pend(r, t) == IF r.pc \in {"p_read", "pre_read", "s_read1", "u_read", "t_read"} THEN [next |-> "R", dur |-> 0]
              ELSE IF r.pc = "held" THEN [next |-> IF r.polls > 0 THEN "P" ELSE "R", dur |-> 0]
              ELSE IF r.pc \in WritePcs THEN [next |-> "W", dur |-> 0]
              ELSE IF r.pc \in {"s_wait1", "s_wait2"} THEN [next |-> "S", dur |-> r.wake - t]
              ELSE IF r.pc = "done" THEN [next |-> "X", dur |-> 0]
              ELSE [next |-> "K", dur |-> 0]

Spec == Init /\ [][Next]_vars
FairSpec == Spec /\ WF_vars(Tick) /\ \A n \in Nodes : WF_vars(Step(n))

------------------------------------------------------------------------------
(* properties *)
Holds(n) == \/ nd[n].pc \in {"held", "u_read", "u_write", "t_write"}
            \/ nd[n].pc = "t_read" /\ nd[n].res = "none"

TypeOK == /\ blk.seq \in Seqs \cup {CLEAN, FSCK, UNKNOWN}
          /\ \A n \in Nodes : nd[n].res \in {"none", "ok", "FSCK_ON", "UNKNOWN_SEQ", "FAILED", "CHANGE_ABORT", "MAGIC", "CSUM"}

\* never two live nodes both started (a crashed holder is not live; a forced reset of the block by the operator while a
\* tool runs, or damage from outside, void the guarantee -- that is what `tune2fs -f -E clear_mmp` is documented to do)
MutualExclusion == (~forced /\ ~corrupted) => \A a, b \in Nodes : (a # b /\ Holds(a)) => ~Holds(b)

\* CLEAN is written only by the node whose own last write the block still held (or by the explicit operator / e2fsck repair)
NoFalseClean == hist.seq = CLEAN => (hist.how \in {"init", "clear", "fix"} \/ hist.own)

\* what holds without the atomicity assumption: when two nodes overlap, the block equals the last write of at most one of
\* them, so the other one's next update or its stop reports EXT2_ET_MMP_CHANGE_ABORT and does not write
DetectableOverlap == \A a, b \in Nodes : (a # b /\ Holds(a) /\ Holds(b)) => ~(nd[a].buf = blk /\ nd[b].buf = blk)

\* every block any tool writes carries the magic number and a valid checksum
WrittenValid == hist.valid

\* handles without a claim on the block (EXT2_FLAG_SKIP_MMP, read-only) never write it; the two exceptions are explicit
\* requests: -E clear_mmp and e2fsck -y repairing a block that cannot be read
SkipNeverWrites == /\ hist.how \in {"clear", "fix"} \/ hist.by = 0 \/ nd[hist.by].kind \in {"rw", "rwd", "fsck"}
                   /\ hist.how = "clear" => nd[hist.by].kind = "clear"
                   /\ hist.how = "fix" => nd[hist.by].kind = "fsck"

\* a node that was refused never wrote after the refusal, a node that aborted left the foreign block alone
AbortLeavesBlock == \A n \in Nodes : (nd[n].pc = "done" /\ nd[n].res \in {"FSCK_ON", "UNKNOWN_SEQ", "FAILED", "CHANGE_ABORT", "MAGIC", "CSUM"})
                                       => ~(hist.by = n /\ hist.how = "stop")

Quiet(n) == nd[n].pc \in {"idle", "done", "crashed"}
Starter(n) == nd[n].kind \in {"rw", "rwd", "fsck"} /\ nd[n].pc \in {"pre_read", "s_read1", "s_write1c"}
SomeoneHeld == \E m \in Nodes : nd[m].pc = "held"
\* the block is CLEAN and somebody who has not yet looked at it (or has just seen CLEAN) wants it: somebody gets it (the
\* last writer wins); checked without crashes and damage.  (A node that saw an active number and finds CLEAN after its
\* wait gives up with EXT2_ET_MMP_FAILED although nobody holds the block: that is the code's behaviour and not covered.)
Progress == (blk.seq = CLEAN /\ \E n \in Nodes : Starter(n)) ~> SomeoneHeld
\* a holder that crashed is overcome by a later node after the wait (the statement of the task; false for a crash with
\* seq = FSCK on disk, where the code refuses forever and asks for `tune2fs -f -E clear_mmp`); checked with one crash
Stale(seqs) == \E c \in Nodes : nd[c].pc = "crashed" /\ hist.by = c /\ blk.seq \in seqs
Newcomer(n) == nd[n].kind = "rw" /\ nd[n].pc = "s_read1" /\ \A m \in Nodes \ {n} : Quiet(m)
StaleHolderRecoverable == (Stale(Seqs \cup {FSCK}) /\ \E n \in Nodes : Newcomer(n)) ~> SomeoneHeld
StaleActiveRecoverable == (Stale(Seqs) /\ \E n \in Nodes : Newcomer(n)) ~> SomeoneHeld
=============================================================================
