SPECIFICATION Spec
CONSTANTS
  MaxC = 2
  MutPass5NotWritten = TRUE
  MutNoDupCheck = FALSE
INVARIANT TypeOK
INVARIANT InvC02
INVARIANT InvC01
INVARIANT InvRepaired
INVARIANT InvIdle
CHECK_DEADLOCK FALSE
