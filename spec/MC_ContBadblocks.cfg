SPECIFICATION BbSpec
CONSTANTS
  BbGrow = 2
  BbVals = {0, 1, 2, 3, 4, 5, 6, 7}
  BbInitSizes = {1, 3}
INVARIANT BbStructural
INVARIANT BbRefines
INVARIANT BbResultsAgree
INVARIANT BbScanAgree
CHECK_DEADLOCK FALSE
