SPECIFICATION Spec
CONSTANTS
  Hashes = {0, 2}
  Ids = {1, 2, 3}
  Cap = 2
  LBlks = {}
  DataBlks = {}
  MetaBlks = {9}
  InoExt = 1
  NDirect = 1
  MaxDamage = 0
  MaxRuns = 1
  DevRehashDropsCollision = FALSE
  DevRehashDropsBoundary = FALSE
  DevRebuildDropsLast = FALSE
  DevCsumClearsLeaf = FALSE
  DevSbCsumRefuses = FALSE
  InitExtStates = {"w"}
  InvalidIds = {1}
  CfModes = {"plain", "plain_strict", "folded", "folded_strict"}
  DevRebuildMergesAcrossState = FALSE
  DevEncCheckIgnoresStrict = FALSE
  DevCasefoldOpaqueHashFails = TRUE
  DevDupFoldsPlainDir = FALSE
  BSz = 2
  SizeClasses = {"end"}
  DevSizeLimitInclusive = FALSE
  DevInodeUninitWipes = FALSE
INVARIANT ConsistentAfter
CHECK_DEADLOCK FALSE
