SPECIFICATION Spec
CONSTANTS
  Fds = {3, 4, 5}
  MaxVer = 3
  MaxRefused = 2
  Signals = {6, 9, 11}
INVARIANT TypeOK
INVARIANT RoUnmodified
INVARIANT ModifiedIffVersion
INVARIANT ExitDocumented
INVARIANT TableSane
PROPERTY ReadOnlyNeverModifies
CONSTRAINT VerBound
CHECK_DEADLOCK FALSE
