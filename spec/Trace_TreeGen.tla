--------------------------- MODULE Trace_TreeGen ---------------------------
(* C18 conformance.  One line per case = (tree of the TreeGen universe, feature profile, front end):
     {e:"case", key, frontend: "mke2fs" | "debugfs", cfg: {bs, ea_inode, inline, quota, holes, xattr},
      tree: [abstract nodes as emitted by Emit_TreeGen], conc: [what the concretiser really put on the host, by id],
      rc, img: [independent reader's listing of the image: path, ino, type, size, mode, uid, gid, nlink, mtime, digest, target,
                rdev, xattrs [[name, digest]], mapped [[lo, hi)) byte ranges that have a block behind them],
      abs_failed: [conjuncts of Ext4Abs!Consistent that TLC found false], fsck_rc, repro (1 identical / 0 different / -1 not run),
      rdump_run, rdump_rc, rdump: [host listing of the debugfs rdump output], dump: [{id, how, size, digest, perm, uid, gid}] (dump -p / cat)}
   The verdict of every case is computed here: the model image M = PopModel(tree, lstat data) must equal the observed image on
   every attribute the property lists, and RdumpModel(M) must equal the observed extraction.  Lines are independent; a failing
   line prints <<"BADLINE", l, clauses>> and the scan goes on; a line whose concretisation does not match the abstract tree
   prints BROKENLINE (the check is broken, not the code).                                                                *)
EXTENDS TreeGen, Json, IOUtils, SequencesExt
VARIABLE l
Tr == ndJsonDeserialize(IOEnv.TRACE)
Rng(s) == {s[k] : k \in DOMAIN s}
KindSeqAll == <<"dir", "reg", "lnk", "chr", "blk", "fifo", "sock", "hard">>

\* ------------------------------------------------------------------------------------------------ membership in the universe
InUniverse(t) ==
   /\ TreeOK(t)
   /\ \A i \in Ids(t) : /\ t[i].content \in ContentOf(t[i].kind)
                        /\ t[i].nlen \in NameClasses
                        /\ t[i].kind \notin {"lnk", "hard"} => t[i].mode \in ModeClasses
                        /\ t[i].kind # "hard" => t[i].owner \in OwnerClasses /\ t[i].mtime \in MtimeClasses
                        /\ t[i].xattr \in XattrClasses /\ (t[i].kind \notin {"reg", "dir"} => t[i].xattr = "none")

\* the concretisation is the abstract tree: every number on the host is the catalogue's
ConcOK(r) ==
   LET t == r.tree  hs == HostSrc(t) IN
   /\ Len(r.conc) = Len(t)
   /\ \A i \in Ids(t) :
        LET c == r.conc[i]  n == t[Src(t, i)] IN
        /\ c.id = i /\ c.name_len = NameLen[t[i].nlen]
        /\ c.mode = ModeOfNode(n) /\ c.uid = OwnerOf[n.owner][1] /\ c.gid = OwnerOf[n.owner][2] /\ c.mtime = MtimeOf[n.mtime]
        /\ c.size = SizeOfNode(n) /\ c.rdev = RdevOfNode(n)
        /\ (n.kind = "lnk" => c.target_len = TargetLen[n.content])
        /\ (n.kind # "dir" => c.snlink = hs[i].nlink)
        /\ Len(c.xattrs) = Len(XattrCat[n.xattr])
   /\ \A i, j \in Ids(t) : (r.conc[i].sdev = r.conc[j].sdev) = (DevId(t, i) = DevId(t, j))

HostSrcOf(r) == [i \in Ids(r.tree) |-> [dev |-> r.conc[i].sdev, ino |-> r.conc[i].sino, nlink |-> r.conc[i].snlink]]

\* ------------------------------------------------------------------------------------------------ the model of the case
\* mke2fs -d: __populate_fs.  debugfs script: one command per node (mkdir / write / symlink / mknod; `ln <first name> <name>` for
\* a "hard" node, which adds the name and nothing else: the stored link count is the user's business (DESIGN 5 C10), the script
\* ends with `sif <first name> links_count <names of the group>`); no sockets (mknod has none), hence no names of sockets either.
\* The image inode of a name is therefore that of the first name of its group, and the count is the one the script stored.
Act(r) == {i \in Ids(r.tree) : r.frontend = "mke2fs" \/ TypeOfNode(r.tree, i) # "sock"}
Model(r) == IF r.frontend = "mke2fs" THEN PopModel(r.tree, HostSrcOf(r))
            ELSE [i \in Ids(r.tree) |-> Expect(r.tree)[i] @@ [ino |-> Src(r.tree, i)]]

Img(r) == Rng(r.img)
P(r, i) == r.conc[i].path
Present(r, i) == \E x \in Img(r) : x.path = P(r, i)
At(r, i) == CHOOSE x \in Img(r) : x.path = P(r, i)
Here(r) == {i \in Act(r) : Present(r, i)}
Disjoint(a, b) == a[2] <= b[1] \/ b[2] <= a[1]
Full(r) == r.frontend = "mke2fs"                  \* the front end that takes owner, times, xattrs and link groups from the host

Clauses(r) ==
   LET t == r.tree  M == Model(r)  H == Here(r)
       at == [i \in H |-> At(r, i)]                     \* evaluated once per line
   IN
   [ Names     |-> {x.path : x \in Img(r)} = {P(r, i) : i \in Act(r)} \cup {"/", "/lost+found"},
     Types     |-> \A i \in H : at[i].type = M[i].type,
     Content   |-> \A i \in H : M[i].type = "reg" => at[i].size = M[i].size /\ at[i].digest = r.conc[i].digest,
     Holes     |-> r.cfg.holes = 1 =>
                     \A i \in H : (M[i].type = "reg" /\ r.conc[i].host_holes = 1) =>
                        \A h \in Rng(M[i].holes) : \A m \in Rng(at[i].mapped) : Disjoint(h, m),
     Symlinks  |-> \A i \in H : M[i].type = "lnk" => at[i].target = r.conc[i].target /\ at[i].size = M[i].size,
     Rdev      |-> \A i \in H : M[i].type \in {"chr", "blk"} => at[i].rdev = M[i].rdev,
     HardLinks |-> /\ \A i, j \in H : (at[i].ino = at[j].ino) = (M[i].ino = M[j].ino)
                   /\ \A i \in H : at[i].nlink = M[i].nlink,
     Mode      |-> \A i \in H : (Full(r) \/ M[i].type = "reg") => at[i].mode = M[i].mode,
     Owner     |-> Full(r) => \A i \in H : at[i].uid = M[i].uid /\ at[i].gid = M[i].gid,
     Mtime     |-> Full(r) => \A i \in H : at[i].mtime = M[i].mtime,
     Xattrs    |-> (Full(r) /\ r.cfg.xattr = 1) => \A i \in H : Rng(at[i].xattrs) = Rng(r.conc[i].xattrs),
     Consistent |-> r.abs_failed = <<>>,
     Fsck      |-> r.fsck_rc = 0,
     Reproducible |-> r.repro # 0 ]

\* extraction (only evaluated on lines that carry an rdump listing)
RAt(r, i) == CHOOSE x \in Rng(r.rdump) : x.path = P(r, i)
RdClauses(r) ==
   LET t == r.tree  M == Model(r)
       RM == RdumpModel(t, M, r.cfg.bs)
       E == {i \in Here(r) : Extractable(M[i].type)}
       G == {i \in E : \E x \in Rng(r.rdump) : x.path = P(r, i)}
       rat == [i \in G |-> RAt(r, i)]
   IN
   [ RdNames   |-> {x.path : x \in Rng(r.rdump)} = {P(r, i) : i \in E} \cup {"/lost+found"},
     RdTypes   |-> \A i \in G : rat[i].type = RM[i].type,
     RdBytes   |-> \A i \in G : RM[i].type = "reg" => rat[i].size = RM[i].size /\ (RM[i].size = M[i].size => rat[i].digest = r.conc[i].digest),
     RdTargets |-> \A i \in G : RM[i].type = "lnk" => rat[i].target = r.conc[i].target,
     RdPerms   |-> \A i \in G : RM[i].type \in {"reg", "dir"} => rat[i].perm = RM[i].perm,
     RdOwners  |-> \A i \in G : rat[i].uid = RM[i].uid /\ rat[i].gid = RM[i].gid,
     RdRc      |-> r.rdump_rc = 0,
     DumpCat   |-> \A d \in Rng(r.dump) : d.size = RM[d.id].size /\ (RM[d.id].size = M[d.id].size => d.digest = r.conc[d.id].digest),
     DumpPerms |-> \A d \in Rng(r.dump) : d.how = "dump" => d.perm = RM[d.id].perm /\ d.uid = RM[d.id].uid /\ d.gid = RM[d.id].gid ]   \* dump -p

\* the HardLinks clause against another model of the population
HardLinksUnder(r, M) == LET H == Here(r)  at == [i \in H |-> At(r, i)] IN
                        /\ \A i, j \in H : (at[i].ino = at[j].ino) = (M[i].ino = M[j].ino)
                        /\ \A i \in H : at[i].nlink = M[i].nlink
\* Named deviation DevSymlinkLinksSplit: the image is not what the property asks for (clause HardLinks false) but exactly what
\* __populate_fs as pinned produces (LiteralLinkTypes: names of a hard-linked symlink are never looked up in hdlinks, each gets
\* an inode of its own with link count 1).  Such a line is reported under the name of the deviation instead of the clause.
\* Repaired by fix f519e89c; the name is no longer a known finding, so a line that shows it is a VIOLATION.
Failed(r) == LET cl == Clauses(r)
                 rd == IF r.rdump_run = 1 THEN RdClauses(r) ELSE [RdNames |-> TRUE]
                 f == {c \in DOMAIN cl : ~cl[c]} \cup {c \in DOMAIN rd : ~rd[c]}
             IN IF "HardLinks" \in f /\ Full(r) /\ HardLinksUnder(r, PopModelWith(r.tree, HostSrcOf(r), LiteralLinkTypes))
                THEN (f \ {"HardLinks"}) \cup {"DevSymlinkLinksSplit"} ELSE f

Cfg(r) == [bs |-> r.cfg.bs, ea_inode |-> IF Full(r) THEN r.cfg.ea_inode ELSE 1]       \* the debugfs script sets no xattrs

TCase == /\ l <= Len(Tr) /\ Tr[l].e = "case"
         /\ LET r == Tr[l] IN
            IF ~(InUniverse(r.tree) /\ ConcOK(r)) THEN PrintT(<<"BROKENLINE", l>>)
            ELSE IF r.rc # 0 THEN (IF Refused(r.tree, Cfg(r)) THEN PrintT(<<"REFUSED", l>>) ELSE PrintT(<<"BADLINE", l, <<"Accepted">> >>))
            ELSE /\ (Refused(r.tree, Cfg(r)) => PrintT(<<"DIVERGE", l>>))
                 /\ LET f == Failed(r) IN (f # {} => PrintT(<<"BADLINE", l, SetToSeq(f)>>))
         /\ l' = l + 1 /\ UNCHANGED vars
TraceInit == l = 1 /\ tree = <<>> /\ phase = "trace" /\ cur = Blank /\ goal = 0
TraceSpec == TraceInit /\ [][TCase]_<<l, vars>>
TraceAccepted == TLCGet("stats").diameter - 1 = Len(Tr)
=============================================================================
