SPECIFICATION RcSpec
CONSTANTS
  RcInitSize = 2
  RcGrow = 1
  RcMaxKey = 5
  RcMaxVal = 2
  DevRcNoRetry = FALSE
INVARIANT RcStructural
INVARIANT RcRefines
INVARIANT RcResultsAgree
INVARIANT RcBounded
CHECK_DEADLOCK FALSE
