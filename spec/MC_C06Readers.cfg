SPECIFICATION Spec
CONSTANTS
  DevScanUnbounded = FALSE
INVARIANT ScanBounded
PROPERTY ScanEnds
CHECK_DEADLOCK FALSE
