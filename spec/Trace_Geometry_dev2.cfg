SPECIFICATION TraceSpecDevRb
POSTCONDITION TraceAccepted
CHECK_DEADLOCK FALSE
