------------------------- MODULE Emit_ToolRunUniv -------------------------
(* Writes the catalogues of ToolRunUniv as JSON (IOEnv.OUT):
   {"zinv": [{tool, form, zfile}], "axes": [{j, o, wants_write}], "undo": [{defect, rel, flags, z, expect: {...}}],
    "extj": [{profile, jstate, tool, form, reach, class, wants_write}]} *)
EXTENDS ToolRunUniv, Json, IOUtils, SequencesExt
VARIABLE x
B(b) == IF b THEN 1 ELSE 0
ExpJ(u) == LET e == Expect(u) IN [decided |-> B(e.decided), stage |-> e.stage, opens |-> B(e.opens), io |-> B(e.io),
                                  csum |-> B(e.csum), incomplete |-> B(e.incomplete), code |-> e.code]
Univ == [zinv |-> SetToSeq(ZInvocations),
         axes |-> SetToSeq({[j |-> a.j, o |-> a.o, wants_write |-> B(WantsWrite(a))] : a \in ImageAxes}),
         extj |-> SetToSeq({[profile |-> u.profile, jstate |-> u.jstate, tool |-> u.tool, form |-> u.form, reach |-> u.reach,
                             class |-> u.class, wants_write |-> B(ExtJWantsWrite(u.jstate))] : u \in ExtJRuns}),
         undo |-> SetToSeq({[defect |-> u.defect, rel |-> u.rel, flags |-> u.flags, z |-> B(u.z), expect |-> ExpJ(u)] : u \in UndoRuns})]
ASSUME JsonSerialize(IOEnv.OUT, Univ)
Init == x = 0
Next == x' = x /\ UNCHANGED x
=============================================================================
