SPECIFICATION Spec
CONSTANTS
  MaxG = 4
  DevUninitSkipOffByOne = FALSE
  DevBoundaryInodeMoved = TRUE
  DevFlagClearedEarly = FALSE
INVARIANT NoBlockLost
INVARIANT InodesBijective
INVARIANT CrashInvariant
INVARIANT EndsClean
CHECK_DEADLOCK FALSE
