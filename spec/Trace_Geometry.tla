--------------------------- MODULE Trace_Geometry ---------------------------
(* C07 / C20 conformance: each line is one mke2fs invocation {cfg, req (option families that land in one plain field), rc,
   observed geometry read from the image by an independent parser (superblock, backup copies, s_backup_bgs, the raw block
   map of the resize inode, root / journal inode fields), e2fsck -fn status, writes issued by `mke2fs -n`, reproducibility
   flag, verdict of the independent consistency oracle}.  An ACCEPTED configuration (rc = 0) must have exactly the geometry
   Geometry!Compute predicts, backups at exactly BgHasSuper, a resize inode that maps every reserved GDT block and lists
   every backup copy, the requested field values, must check clean, and -n must not have written.                       *)
EXTENDS Geometry, Json, IOUtils
VARIABLE l
Tr == ndJsonDeserialize(IOEnv.TRACE)
ToSet(q) == {q[i] : i \in 1..Len(q)}
CfgOf(r) == [bs |-> r.bs, blocks |-> r.blocks, iratio |-> r.iratio, isz |-> r.isz, bpg |-> r.bpg, resize |-> r.resize = 1,
             sparse |-> r.sparse = 1, ss2 |-> r.ss2 = 1, metabg |-> r.metabg = 1, is64 |-> r.is64 = 1, ninodes |-> r.ninodes,
             nbsb |-> r.nbsb, rszto |-> r.rszto, dev |-> FALSE]
\* the recorder logs the double-indirect block as runs <<first slot, first block, length>> and each list as <<position, distance>>
DindSet(q) == UNION {{<<q[i][1] + k, q[i][2] + k>> : k \in 0..(q[i][3] - 1)} : i \in 1..Len(q)}
PairSet(q) == {<<q[i][1], q[i][2]>> : i \in 1..Len(q)}
ResizeInodeMatches(bs, z, g) ==
   IF g.resize
   THEN /\ z.dindblk # 0 /\ z.other = 0                                              \* only the double-indirect pointer is used
        /\ DindSet(z.dind) = ResizeDindMap(bs, g)                                   \* every reserved GDT block mapped, nothing else
        /\ \A i \in 1..Len(z.lists) : PairSet(z.lists[i].ents) = ResizeBackupList(g)   \* each lists exactly the backup copies, in order
        /\ (g.rsv > 0 => Len(z.lists) = 1 /\ z.lists[1].n = g.rsv)
        /\ z.iblocks = ResizeIBlocks(bs, g)
   ELSE z.dindblk = 0 /\ z.other = 0 /\ z.dind = <<>> /\ z.iblocks = 0
GeoMatches(bs, o, g) ==
   /\ g.err = ""
   /\ o.blocks = g.blocks /\ o.first = g.first /\ o.bpg = g.bpg /\ o.ipg = g.ipg /\ o.itb = g.itb
   /\ o.rsv = g.rsv /\ o.inodes = g.inodes /\ o.gdc = g.gdc
   /\ (o.metabg = 1) = g.metabg
   /\ ("resize_inode" \in ToSet(o.features)) = g.resize
   /\ o.bgs = g.bgs                                                  \* sparse_super2 slots as ext2fs_initialize leaves them
   /\ ToSet(o.backups) = g.backups                                   \* C20: backups exactly where the format prescribes
   /\ ResizeInodeMatches(bs, o.rsz, g)
\* option families whose effect is one plain field (all accepted lines, modelled geometry or not)
RetriedBpg(r) == r.obs.bpg # (IF r.cfg.bpg # 0 THEN r.cfg.bpg ELSE Min(r.cfg.bs * 8, 65528))
RequestedRb(r) == ReqRBlocksOK(r.req.mpct, r.cfg.blocks, r.obs.blocks, r.obs.rblocks, RetriedBpg(r))
RequestedRest(r) ==
   LET o == r.obs  q == r.req  F == ToSet(o.features)  W == ToSet(r.want_features) IN
   /\ o.stride = q.stride /\ o.stripe = q.stripe
   /\ o.logflex = ReqLogFlex("flex_bg" \in F, q.flex)
   /\ ToSet(o.quota) = ReqQuota("quota" \in W, "project" \in W, ToSet(q.quota))
   /\ (q.uid >= 0 => o.uid = q.uid /\ o.gid = q.gid)
   /\ ("has_journal" \in F => o.jblocks = ReqJournalBlocks(q.jmib, r.cfg.bs, o.blocks))
   /\ (r.journal_skipped = 1 => o.blocks < 2048)                     \* the journal may only be dropped below ext2fs_default_journal_size's minimum
Requested(r) == RequestedRb(r) /\ RequestedRest(r)
\* features mke2fs documents dropping: the journal (and what depends on it) when the filesystem is too small for one
\* (it says so on stderr), resize_inode when the reserved GDT does not fit and meta_bg is switched on instead
Tolerated(r) == (IF r.journal_skipped = 1 THEN {"has_journal", "orphan_file"} ELSE {})
                \cup (IF r.model = 1 /\ Compute(CfgOf(r.cfg)).err = "" /\ Compute(CfgOf(r.cfg)).metabg THEN {"resize_inode"} ELSE {})
                \cup (IF r.model = 0 THEN {"resize_inode"} ELSE {})
Accepted(r) ==
   /\ (r.model = 1 => GeoMatches(r.cfg.bs, r.obs, Compute(CfgOf(r.cfg))))
   /\ Requested(r)
   /\ r.obs.backups_badcsum = <<>>                                   \* every superblock copy (primary and backups) carries a valid checksum
   /\ r.fsck = 0                                                     \* e2fsck -fn exits 0
   /\ r.consistent # 0                                               \* independent oracle: 1 = consistent, -1 = not evaluated
   /\ r.nwrites = 0                                                  \* mke2fs -n wrote nothing
   /\ r.repro = 1                                                    \* same inputs, same bytes
   /\ (ToSet(r.want_features) \ Tolerated(r)) \subseteq ToSet(r.obs.features)   \* requested features are on
\* Known deviation of the code (Geometry!Body, c.dev): the line shows exactly the literal behaviour.  Only the second pass
\* (Trace_Geometry_dev.cfg, run on the lines the strict pass refused) uses it; such a line is reported under the key of the finding.
DevCfg(r) == [CfgOf(r.cfg) EXCEPT !.dev = TRUE]
KnownDev(r) == /\ r.model = 1 /\ Compute(DevCfg(r)) # Compute(CfgOf(r.cfg))
               /\ GeoMatches(r.cfg.bs, r.obs, Compute(DevCfg(r)))
               /\ Requested(r) /\ r.obs.backups_badcsum = <<>> /\ r.nwrites = 0 /\ r.repro = 1
\* Second named deviation (Trace_Geometry_dev2.cfg; finding rblocks_not_rescaled_after_cluster_rounding): with bigalloc
\* ext2fs_initialize rounds the block count down to a cluster boundary but copies s_r_blocks_count, computed by mke2fs from the
\* REQUESTED count, unchanged; with -m 50 the reserve then exceeds half of the filesystem and every tool refuses the superblock.
KnownDevRb(r) == /\ "bigalloc" \in ToSet(r.obs.features) /\ r.obs.blocks < r.cfg.blocks
                 /\ r.obs.rblocks = (r.req.mpct * r.cfg.blocks) \div 100 /\ 2 * r.obs.rblocks > r.obs.blocks
                 /\ RequestedRest(r) /\ r.obs.backups_badcsum = <<>> /\ r.nwrites = 0 /\ r.repro = 1
\* lines are independent of one another: a failing line is reported (BADLINE) and the scan goes on
TLine(ok(_)) == /\ l <= Len(Tr) /\ Tr[l].e = "mke2fs"
                /\ (IF Tr[l].rc = 0 /\ ~ok(Tr[l]) THEN PrintT(<<"BADLINE", l>>) ELSE TRUE)
                /\ l' = l + 1
AcceptedOrDev(r) == Accepted(r) \/ KnownDev(r)
AcceptedOrDevRb(r) == Accepted(r) \/ KnownDevRb(r)
TMke == TLine(Accepted)
TMkeDev == TLine(AcceptedOrDev)
TMkeDevRb == TLine(AcceptedOrDevRb)
TraceInit == l = 1
TraceSpec == TraceInit /\ [][TMke]_l
TraceSpecDev == TraceInit /\ [][TMkeDev]_l
TraceSpecDevRb == TraceInit /\ [][TMkeDevRb]_l
TraceAccepted == TLCGet("stats").diameter - 1 = Len(Tr)
=============================================================================
