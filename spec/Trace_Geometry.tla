--------------------------- MODULE Trace_Geometry ---------------------------
(* C07 / C20 conformance: each line is one mke2fs invocation {cfg, rc, observed geometry read from the image by an
   independent superblock parser, e2fsck -fn status, writes issued by `mke2fs -n`, reproducibility flag, verdict of the
   independent consistency oracle}.  An ACCEPTED configuration (rc = 0) must have exactly the geometry
   Geometry!Compute predicts, backups at exactly BgHasSuper, must check clean, and -n must not have written.       *)
EXTENDS Geometry, Json, IOUtils
VARIABLE l
Tr == ndJsonDeserialize(IOEnv.TRACE)
ToSet(q) == {q[i] : i \in 1..Len(q)}
CfgOf(r) == [bs |-> r.bs, blocks |-> r.blocks, iratio |-> r.iratio, isz |-> r.isz, bpg |-> r.bpg, resize |-> r.resize = 1,
             sparse |-> r.sparse = 1, ss2 |-> r.ss2 = 1, metabg |-> r.metabg = 1, is64 |-> r.is64 = 1, ninodes |-> r.ninodes]
GeoMatches(o, g) ==
   /\ g.err = ""
   /\ o.blocks = g.blocks /\ o.first = g.first /\ o.bpg = g.bpg /\ o.ipg = g.ipg /\ o.itb = g.itb
   /\ o.rsv = g.rsv /\ o.inodes = g.inodes /\ o.gdc = g.gdc
   /\ (o.metabg = 1) = g.metabg
   /\ ToSet(o.backups) = g.backups                                   \* C20: backups exactly where the format prescribes
\* features mke2fs documents dropping: the journal (and what depends on it) when the filesystem is too small for one
\* (it says so on stderr), resize_inode when the reserved GDT does not fit and meta_bg is switched on instead
Tolerated(r) == (IF r.journal_skipped = 1 THEN {"has_journal", "orphan_file"} ELSE {})
                \cup (IF r.model = 1 /\ Compute(CfgOf(r.cfg)).err = "" /\ Compute(CfgOf(r.cfg)).metabg THEN {"resize_inode"} ELSE {})
                \cup (IF r.model = 0 THEN {"resize_inode"} ELSE {})
Accepted(r) ==
   /\ (r.model = 1 => GeoMatches(r.obs, Compute(CfgOf(r.cfg))))
   /\ r.obs.backups_badcsum = <<>>                                   \* every superblock copy (primary and backups) carries a valid checksum
   /\ r.fsck = 0                                                     \* e2fsck -fn exits 0
   /\ r.consistent # 0                                               \* independent oracle: 1 = consistent, -1 = not evaluated
   /\ r.nwrites = 0                                                  \* mke2fs -n wrote nothing
   /\ r.repro = 1                                                    \* same inputs, same bytes
   /\ (ToSet(r.want_features) \ Tolerated(r)) \subseteq ToSet(r.obs.features)   \* requested features are on
\* lines are independent of one another: a failing line is reported (BADLINE) and the scan goes on
TMke == /\ l <= Len(Tr) /\ Tr[l].e = "mke2fs"
        /\ (IF Tr[l].rc = 0 /\ ~Accepted(Tr[l]) THEN PrintT(<<"BADLINE", l>>) ELSE TRUE)
        /\ l' = l + 1
TraceInit == l = 1
TraceSpec == TraceInit /\ [][TMke]_l
TraceAccepted == TLCGet("stats").diameter - 1 = Len(Tr)
=============================================================================
