---------------------------- MODULE Trace_Resize ----------------------------
(* C08 main clause, one line per resize2fs run (cases read from resize/main.c):
     rc = 0 and "is now N blocks long"  =>  the result is consistent (e2fsck -fn = 0 and Ext4Abs!Consistent on the independent reader's
                                            projection), has exactly N blocks, and every file is unchanged (Ext4Abs!TreeEq of the
                                            projections before / after; consistent / tree_equal: 1 holds, 0 fails, -1 the reader could
                                            not judge the image -- unknown, never a verdict)
     rc = 0 and "Nothing to do" / "already"  =>  filesystem unchanged
     rc # 0 (refused or aborted)  =>  filesystem unchanged, or the error flag is set on disk (aborted after the first modification)
   "unchanged" = no byte outside the primary superblock differs and no superblock field other than write time /
   kbytes written / checksum differs (computed by the harness from the two images).

   Universe guard (ResizeOps!Marks, the boundary catalogue of Resize.tla):
     {"e":"guard", cat, f, t}     an image built for catalogue element `cat`, BEFORE resize2fs runs: the facts f of the image (from the
                                  independent reader) and the request t must exercise that boundary, else BADSHAPE (the check is broken)
     {"e":"resize", ..., cat, f, t, moved}   t now carries the size resize2fs reported; a run that SUCCEEDED on an image whose facts
                                  exercise `cat` realises the element; `moved` = groups (number + 1) whose inode table changed place:
                                  every table ResizeOps!MustMoveIt predicts must be among them, else BADPRED (the specification of the
                                  table layout does not describe this image: the check is broken, not the tool)
     {"e":"end"}                  every element of CatalogueNames has been realised, else MISSING                                    *)
EXTENDS ResizeOps, Json, IOUtils
VARIABLES l, seen
Tr == ndJsonDeserialize(IOEnv.TRACE)
Success(r) == r.rc = 0 /\ r.reported > 0
Ok(r) == IF Success(r)
            THEN r.fsck = 0 /\ r.consistent # 0 /\ r.tree_equal # 0 /\ r.new_blocks = r.reported
         ELSE IF r.rc = 0 THEN r.unchanged = 1
         ELSE r.unchanged = 1 \/ r.errflag = 1
ShapeOk(r) == r.cat = "" \/ r.cat \in Marks(r.f, r.t)
Rng(s) == {s[i] : i \in DOMAIN s}
PredOk(r) == (Success(r) /\ r.hasf = 1) => MustMoveIt(r.f, r.t) \subseteq Rng(r.moved)
Holds(p) == p = TRUE
TLine == /\ l <= Len(Tr) /\ Tr[l].e = "resize"
         /\ (IF ~Ok(Tr[l]) THEN PrintT(<<"BADLINE", l>>) ELSE TRUE)
         /\ (IF Tr[l].hasf = 1 /\ ~PredOk(Tr[l]) THEN PrintT(<<"BADPRED", l>>) ELSE TRUE)
         /\ (IF Tr[l].hasf = 1 /\ Success(Tr[l]) THEN PrintT(<<"MARKS", l, Marks(Tr[l].f, Tr[l].t)>>) ELSE TRUE)
         /\ seen' = (IF Tr[l].hasf = 1 /\ Tr[l].cat # "" /\ Success(Tr[l]) /\ Holds(ShapeOk(Tr[l])) /\ Tr[l].consistent # -1 /\ Tr[l].tree_equal # -1
                        THEN seen \cup {Tr[l].cat} ELSE seen)
         /\ l' = l + 1
TGuard == /\ l <= Len(Tr) /\ Tr[l].e = "guard"
          /\ (IF ~ShapeOk(Tr[l]) THEN PrintT(<<"BADSHAPE", l, Tr[l].cat>>) ELSE TRUE)
          /\ l' = l + 1 /\ UNCHANGED seen
TEnd == /\ l <= Len(Tr) /\ Tr[l].e = "end"
        /\ (IF CatalogueNames \subseteq seen THEN TRUE ELSE PrintT(<<"MISSING", CatalogueNames \ seen>>))
        /\ l' = l + 1 /\ UNCHANGED seen
TraceSpec == l = 1 /\ seen = {} /\ [][TLine \/ TGuard \/ TEnd]_<<l, seen>>
TraceAccepted == TLCGet("stats").diameter - 1 = Len(Tr)
=============================================================================
