---------------------------- MODULE Trace_Resize ----------------------------
(* C08 main clause, one line per resize2fs run (cases read from resize/main.c):
     rc = 0 and "is now N blocks long"  =>  the result is consistent (e2fsck -fn = 0; independent oracle when evaluated),
                                            has exactly N blocks, and every file is unchanged (tree_equal; -1 = not evaluated)
     rc = 0 and "Nothing to do" / "already"  =>  filesystem unchanged
     rc # 0 (refused or aborted)  =>  filesystem unchanged, or the error flag is set on disk (aborted after the first modification)
   "unchanged" = no byte outside the primary superblock differs and no superblock field other than write time /
   kbytes written / checksum differs (computed by the harness from the two images).                                  *)
EXTENDS Naturals, Sequences, TLC, Json, IOUtils
VARIABLE l
Tr == ndJsonDeserialize(IOEnv.TRACE)
Ok(r) == IF r.rc = 0 /\ r.reported > 0
            THEN r.fsck = 0 /\ r.consistent # 0 /\ r.tree_equal # 0 /\ r.new_blocks = r.reported
         ELSE IF r.rc = 0 THEN r.unchanged = 1
         ELSE r.unchanged = 1 \/ r.errflag = 1
TLine == /\ l <= Len(Tr) /\ Tr[l].e = "resize"
         /\ (IF ~Ok(Tr[l]) THEN PrintT(<<"BADLINE", l>>) ELSE TRUE)
         /\ l' = l + 1
TraceSpec == l = 1 /\ [][TLine]_l
TraceAccepted == TLCGet("stats").diameter - 1 = Len(Tr)
=============================================================================
