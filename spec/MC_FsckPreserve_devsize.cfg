SPECIFICATION Spec
CONSTANTS
  Hashes = {}
  Ids = {}
  Cap = 2
  LBlks = {0, 1, 2, 3}
  DataBlks = {1, 2, 3}
  MetaBlks = {8, 9}
  InoExt = 2
  NDirect = 2
  MaxDamage = 0
  MaxRuns = 2
  DevRehashDropsCollision = FALSE
  DevRehashDropsBoundary = FALSE
  DevRebuildDropsLast = FALSE
  DevCsumClearsLeaf = FALSE
  DevSbCsumRefuses = FALSE
  InitExtStates = {"w", "u"}
  InvalidIds = {}
  CfModes = {"plain"}
  DevRebuildMergesAcrossState = FALSE
  DevEncCheckIgnoresStrict = FALSE
  DevCasefoldOpaqueHashFails = FALSE
  DevDupFoldsPlainDir = FALSE
  BSz = 2
  SizeClasses = {"end", "end_partial", "last_init_first_byte", "sparse_tail", "max_minus1", "max"}
  DevSizeLimitInclusive = TRUE
  DevInodeUninitWipes = FALSE
INVARIANT TypeOK
INVARIANT TreeUnchanged
INVARIANT ExitOK
INVARIANT ConsistentAfter
INVARIANT ModeScope
PROPERTY ContractRefined
PROPERTY InitStatePreserved
CHECK_DEADLOCK FALSE
