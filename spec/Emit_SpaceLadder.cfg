INIT Init
NEXT Next
CONSTANTS
  NOwn = 3
  Units = 0
  MaxFree = 6
  MaxMeta = 2
  RootSlots = 4
  LeafCap = 84
  AddrPB = 256
  DevFallocLeak = TRUE
  DevWriteLeak = FALSE
  DevRangeNotDirty = FALSE
CHECK_DEADLOCK FALSE
