SPECIFICATION Spec
CONSTANTS
  MaxLen = 2
  DevRewriteSkipsOrphanFile = FALSE
  DevJournalOffKeepsOrphanFile = FALSE
  DevDirIndexOffNoFsck = FALSE
INVARIANT InvFeatureSet
INVARIANT InvRewriteAll
VIEW View
CHECK_DEADLOCK FALSE
