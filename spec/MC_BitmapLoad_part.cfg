SPECIFICATION PartOnly
CONSTANTS
  MaxT = 64
  DevJoinLastWins = FALSE
  UseLock = TRUE
  Gs = {1,2,3,4,5,6,7,8,9,10,11,12,13,14,15,16,17,18,19,20,21,22,23,24,25,26,27,28,29,30,31,32,33,34,35,36,37,38,39,40,47,48,49,63,64,65,96,127,128,129,200,255,256,257}
  Ns = {1,2,3,4,5,6,7,8,9,10,11,12,13,14,15,16,17,24,31,32,33,48,64}
  Flexes = {1, 2, 4, 8, 16, 32, 64}
  Kinds = {1}
  FailModes = {"none"}
  BadSets = {{}}
INVARIANT PartitionExact
CHECK_DEADLOCK FALSE
