---------------------------- MODULE BackupSearch ----------------------------
(* Property C20: the block arithmetic of the format and of e2fsck's own search for a backup superblock
   (e2fsck/util.c get_backup_sb), constant level, shared by Backups.tla (the search itself) and Emit_Backups.tla
   (the conformance universe ranges over BlockSizes; its boundary values come from here).

   Format (lib/ext2fs/ext2_fs.h): EXT2_MIN_BLOCK_LOG_SIZE = 10 ... EXT2_MAX_BLOCK_LOG_SIZE = 16, and without bigalloc
   EXT2_MAX_BLOCKS_PER_GROUP = 2^16 - 8 (the block bitmap of a group is one block AND bg_free_blocks_count is 16 bit).
   The default group size (what mke2fs / ext2fs_initialize choose when -g is not given) is therefore
   min(8 * blocksize, 65528): 8 * blocksize for 1k, 2k and 4k blocks, 65528 from 8k blocks on.
   All byte positions are in KiB (TLC integers are 32 bit; a 64k-block image of a few groups has > 2^31 bytes).       *)
EXTENDS Naturals
MinBlockSize == 1024                                          \* EXT2_MIN_BLOCK_SIZE
MaxBlockSize == 65536                                         \* EXT2_MAX_BLOCK_SIZE
RECURSIVE Doubling(_, _)
Doubling(from, to) == IF from > to THEN {} ELSE {from} \cup Doubling(2 * from, to)
BlockSizes == Doubling(MinBlockSize, MaxBlockSize)            \* every block size the format allows
MaxBpg == 65528                                               \* EXT2_MAX_BLOCKS_PER_GROUP, no bigalloc
DefaultBpg(bs) == IF 8 * bs > MaxBpg THEN MaxBpg ELSE 8 * bs
FirstData(bs) == IF bs = 1024 THEN 1 ELSE 0                   \* s_first_data_block as mke2fs sets it (no bigalloc)
Kb(bs) == bs \div 1024
\* get_backup_sb: "for (; blocksize <= EXT2_MAX_BLOCK_SIZE; blocksize *= 2) { ... if (blocksize_known) break; }"
\* the block sizes whose iteration runs when the loop starts at `start`
LoopSizes(start, known) == IF known THEN Doubling(start, MaxBlockSize) \cap {start} ELSE Doubling(start, MaxBlockSize)
\* "superblock = grp * this_bpg; if (blocksize == 1024) superblock++;  io_channel_read_blk64(io, superblock, ...)"
\* with the channel's block size set to pb: position (KiB) the probe of listed group grp reads
ProbeAt(pb, tb, grp) == (grp * tb + (IF pb = 1024 THEN 1 ELSE 0)) * Kb(pb)
\* position (KiB) of the first block of group g of a filesystem (ext2fs_group_first_block2)
GroupAt(bs, bpg, first, g) == (first + g * bpg) * Kb(bs)
\* boundary catalogue of block sizes: smallest, largest, and the two around the point where 8 * bs stops being a legal group size
BoundaryBlockSizes == {MinBlockSize, MaxBlockSize} \cup {bs \in BlockSizes : (8 * bs <= MaxBpg) # (16 * bs <= MaxBpg)}
                      \cup {bs \in BlockSizes : bs > MinBlockSize /\ (8 * bs <= MaxBpg) # (4 * bs <= MaxBpg)}
=============================================================================
