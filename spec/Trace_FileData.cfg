SPECIFICATION TraceSpec
CONSTANTS
  NFiles = 2
  NCuts = 7
  MaxOps = 62
INVARIANT TraceTypeOK
INVARIANT NoDataPastEOF
INVARIANT ReadExact
POSTCONDITION TraceAccepted
CHECK_DEADLOCK FALSE
