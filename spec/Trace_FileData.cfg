SPECIFICATION TraceSpec
CONSTANTS
  NFiles = 2
  NCuts = 7
  MaxOps = 62
  NOwn = 3
  Units = 0
  MaxFree = 6
  MaxMeta = 2
  RootSlots = 4
  LeafCap = 84
  AddrPB = 256
  DevFallocLeak = TRUE
  DevWriteLeak = FALSE
  DevRangeNotDirty = FALSE
INVARIANT TraceTypeOK
INVARIANT NoDataPastEOF
INVARIANT ReadExact
CONSTRAINT Record
POSTCONDITION TraceAccepted
CHECK_DEADLOCK FALSE
