------------------------- MODULE Trace_ResizeCrash -------------------------
(* Validates the device-level event stream of one resize2fs run (recorded by harness/iotrace.so, classified against a
   shadow copy of the image: "out" = the write changes bytes outside the primary superblock, "on"/"off" = it rewrites
   s_state with ERROR_FS set/clear, other superblock-internal writes are not events) against ResizeCrash, evaluating
   CrashInvariant after every event, i.e. on every crash image of every prefix.                                     *)
EXTENDS ResizeCrash, Json, IOUtils, Sequences
VARIABLE l
Tr == ndJsonDeserialize(IOEnv.TRACE)
IsEvent(e) == l <= Len(Tr) /\ Tr[l].e = e /\ l' = l + 1
TReset == IsEvent("reset") /\ dErr' = (Tr[l].err0 = 1) /\ dMod' = FALSE /\ pend' = {} /\ phase' = "run"
TWrite == IsEvent("w") /\ Write(Tr[l].k)
TFsync == IsEvent("fsync") /\ Fsync(Tr[l].flag = 1)
TDone  == IsEvent("done") /\ Done
TraceInit == Init /\ l = 1
TraceNext == TReset \/ TWrite \/ TFsync \/ TDone
TraceSpec == TraceInit /\ [][TraceNext]_<<vars, l>>
TraceAccepted == TLCGet("stats").diameter - 1 = Len(Tr)
=============================================================================
