------------------------------- MODULE MC_Dir -------------------------------
(* Model checking of Dir.tla: every sequence of namespace operations (bounded by TLCGet("level") in the cfg) over MaxDirs
   directories, NameSet names and the inodes FirstIno..NInodes, starting from an empty root directory.                       *)
EXTENDS Dir
CONSTANTS NameSet, MaxDirs, TotalBlocks, MaxDepth
VARIABLE s
Init0 == [ent |-> (Root :> <<>>), ty |-> (Root :> FTDIR), links |-> (Root :> 2), dd |-> (Root :> Root), ea |-> (Root :> 0),
          blk |-> (Root :> 1), fb |-> TotalBlocks - 1, leak |-> 0, zomb |-> {}, skew |-> (Root :> 0), taint |-> {}, sat |-> {}]
Init == s = Init0
Dirs(x) == DOMAIN x.ent
O(op, d, n, i, v, sz, ex) == [op |-> op, d |-> d, n |-> n, i |-> i, v |-> v, sz |-> sz, exp |-> ex, fe |-> 1]
Ops(x) ==
   {O("mkdir", d, n, 0, 0, 1, 0) : d \in {dd1 \in Dirs(x) : Cardinality(Dirs(x)) < MaxDirs}, n \in NameSet}
   \cup {O("create", d, n, 0, 0, sz, ex) : d \in Dirs(x), n \in NameSet, sz \in {0, 1}, ex \in {0, 1}}
   \cup {O("symlink", d, n, 0, 0, 0, 0) : d \in Dirs(x), n \in NameSet}
   \cup {O("mknod", d, n, 0, 5, 0, 0) : d \in Dirs(x), n \in NameSet}
   \cup {O(op, d, n, i, 0, 0, 0) : op \in {"link", "hlink"}, d \in Dirs(x), n \in NameSet, i \in Alloc(x) \ {Root}}
   \cup {O(op, d, n, 0, 0, 0, 0) : op \in {"unlink", "rm", "rmdir"}, d \in Dirs(x), n \in NameSet}
   \cup {O("kill", 0, 0, i, 0, 0, 0) : i \in Alloc(x)}
   \cup {O("setlinks", 0, 0, i, v, 0, 0) : i \in Alloc(x), v \in 0..3}
   \cup {O("setea", 0, 0, i, 0, 0, 0) : i \in Alloc(x)}
Next == \E o \in Ops(s), fit \in BOOLEAN : s' = Apply(s, o, fit) /\ s' # s /\ s'.fb >= 0
Spec == Init /\ [][Next]_s
Depth == TLCGet("level") <= MaxDepth

InvTypeOK == TypeOK(s)
InvLinksRule == LinksRule(s)
InvNoFreeReferenced == NoFreeReferenced(s)
InvBalancedIsConsistent == BalancedIsConsistent(s)
InvConservation == s.fb + SumBlk(s) + s.leak = TotalBlocks
\* removed objects release their blocks
InvNoLeak == NoLeak(s)
\* counted operations alone never take a directory past LinkMax unless dir_nlink allows it (mkdir is refused: EMLINK)
InvNoOverflow == Balanced(s) => \A i \in Alloc(s) : OverflowAllowed(s.ty[i], Refs(s, i))
\* the converse direction of "links = refs exactly when balanced": a consistent state has no skew
InvConsistentIsBalanced == Consistent(s) => \A i \in Alloc(s) : s.skew[i] = 0 \/ Saturated(s, i)
=============================================================================
