------------------------------ MODULE ToolRunZ ------------------------------
(* C13 -- ToolRun with the AUXILIARY FILES of an invocation (round 2).

   ToolRun (extended here, not edited: property C06's ToolExit extends it too) knows one object, the target device.
   Several documented read-only command lines name a second file which the tool is ALLOWED to write:

     * the undo file of `-z <file>` (e2fsck -n -z, debugfs -z without -w, resize2fs -P -z, tune2fs -l -z, mke2fs -n -z,
       e2undo -n -z): lib/ext2fs/undo_io.c opens the target through the backing manager with the CALLER's flags and
       creates / re-opens <file> read-write; before-images of the blocks the tool writes go to <file>.  In a read-only
       run the tool writes no block, so <file> gets at most its header -- but whatever goes to <file>, it is not the
       target;
     * the undo log replayed by e2undo (`e2undo -n <log> <device>`): e2undo opens it read-only.

   The property speaks about the target only ("the undo file given with -z may be written; that is not the target").
   The protocol therefore has two kinds of descriptors: descriptors of the target (ToolRun's `open`) and descriptors
   of auxiliary files (`auxopen`).  A write-class call on an auxiliary descriptor is enabled in EVERY class and sets
   `auxmod`; it leaves device / modified alone.  Everything ToolRun says about the target stays as it is: in class
   "ro" no effective write-class step on a target descriptor is enabled, whatever manager (unix_io directly, or
   undo_io on top of it) the tool drives, whatever the state of the image, of the -z file or of the undo log.

   Properties (in addition to ToolRun's, which are re-checked on this larger protocol):
     AuxNeverTouchesTarget   [][auxmod' # auxmod => device' = device]_varsZ
     RoUnmodified            unchanged: class = "ro" => device = dev0 /\ ~modified  -- also when auxmod is TRUE      *)
EXTENDS ToolRun

(* Round 3 -- the TARGET is a SET of devices.  "The target" of a read-only invocation is every device the invocation
   names or reaches, not only the first path of the command line.  A filesystem with an EXTERNAL journal consists of two
   devices: the filesystem device and the journal device (mke2fs -O journal_dev) which the tools reach through
   `e2fsck -j <dev>`, `debugfs logdump -f <dev>`, or the lookup of the superblock's s_journal_uuid / s_journal_dev
   (libblkid); tune2fs -l / dumpe2fs / e2image / debugfs can also be given the journal device itself.  e2fsck_get_journal
   opens an external journal device with IO_FLAG_RW even under -n (the open mode is recorded, it is not the oracle):
   nothing but the protocol below keeps a read-only run from writing it.
   Objects of a run (numbers reported by the recorder, harness/iotrace.c field `tgt`):
        0  the device named on the command line           class "target"
        1  the file named by -z                           class "aux"
        2  the undo log given to e2undo                   class "aux"
        3  the external journal device                    class "target"
   ToolRun's `device` is the content version of the whole target set (the harness compares the sha256 of EVERY target
   object), `open` holds the descriptors of every target object.  All rules about the target therefore hold for the
   journal device as they do for the filesystem device: in class "ro" no effective write-class step on it is enabled. *)
TargetObjs == {0, 3}
AuxObjs    == {1, 2}
ObjClass(o) == IF o \in TargetObjs THEN "target" ELSE IF o \in AuxObjs THEN "aux" ELSE "unknown"
ASSUME TargetObjs \cap AuxObjs = {}

VARIABLES auxopen,      \* set of <<fd, mode>>: open descriptors of auxiliary files (-z undo file, undo log)
          auxmod        \* an effective write-class call on an auxiliary file happened

varsZ == <<vars, auxopen, auxmod>>

AuxFds        == {p[1] : p \in auxopen}
AuxModeOf(fd) == (CHOOSE p \in auxopen : p[1] = fd)[2]
SameAux       == UNCHANGED <<auxopen, auxmod>>

InitZ == Init /\ auxopen = {} /\ auxmod = FALSE

\* ---- steps on the target: ToolRun's, on descriptors that are not auxiliary ones
TOpenZ(fd, m, trunc)  == fd \notin AuxFds /\ Open(fd, m, trunc) /\ SameAux
TWriteZ(fd, off, len) == DevWrite(fd, off, len) /\ SameAux
TTruncZ(fd, len)      == DevTruncate(fd, len) /\ SameAux
TFallocZ(fd, mode, off, len) == DevFallocate(fd, mode, off, len) /\ SameAux
TRefusedZ(fd)         == DevWriteRefused(fd) /\ SameAux
TFsyncZ(fd)           == DevFsync(fd) /\ SameAux
TCloseZ(fd)           == Close(fd) /\ SameAux

\* ---- steps on an auxiliary file: any class; never the device
AuxOpen(fd, m, trunc) == /\ Alive /\ fd \notin (OpenFds \cup AuxFds) /\ m \in Modes
                         /\ auxopen' = auxopen \cup {<<fd, m>>}
                         /\ auxmod' = (auxmod \/ trunc)
                         /\ UNCHANGED vars
AuxWrite(fd)          == /\ Alive /\ fd \in AuxFds /\ Writable(AuxModeOf(fd))
                         /\ auxmod' = TRUE
                         /\ UNCHANGED <<vars, auxopen>>
AuxRefused(fd)        == /\ Alive /\ fd \in AuxFds /\ ~Writable(AuxModeOf(fd))
                         /\ UNCHANGED varsZ
AuxFsync(fd)          == /\ Alive /\ fd \in AuxFds /\ UNCHANGED varsZ
AuxClose(fd)          == /\ Alive /\ fd \in AuxFds
                         /\ auxopen' = {p \in auxopen : p[1] # fd}
                         /\ UNCHANGED <<vars, auxmod>>

\* ---- end of the run: the kernel closes every descriptor
ExitAnyZ(c)   == ExitAny(c) /\ auxopen' = {} /\ UNCHANGED auxmod
ExitZ(c)      == Exit(c) /\ auxopen' = {} /\ UNCHANGED auxmod
KilledAnyZ(s) == KilledAny(s) /\ auxopen' = {} /\ UNCHANGED auxmod
KilledZ(s)    == Killed(s) /\ auxopen' = {} /\ UNCHANGED auxmod

NextZ == \/ \E fd \in Fds, m \in Modes, t \in BOOLEAN : TOpenZ(fd, m, t) \/ AuxOpen(fd, m, t)
         \/ \E fd \in Fds : \/ TWriteZ(fd, 0, 0) \/ TTruncZ(fd, 0) \/ TFallocZ(fd, 0, 0, 0)
                            \/ TRefusedZ(fd) \/ TFsyncZ(fd) \/ TCloseZ(fd)
                            \/ AuxWrite(fd) \/ AuxRefused(fd) \/ AuxFsync(fd) \/ AuxClose(fd)
         \/ \E c \in 0..255 : ExitZ(c)
         \/ \E s \in Signals : KilledZ(s)

SpecZ == InitZ /\ [][NextZ]_varsZ

-----------------------------------------------------------------------------
TypeOKZ == /\ TypeOK
           /\ auxopen \subseteq (Fds \X Modes)
           /\ \A p, q \in auxopen : p[1] = q[1] => p = q
           /\ AuxFds \cap OpenFds = {}
           /\ auxmod \in BOOLEAN
           /\ (pc \in {"exited", "killed"} => auxopen = {})

AuxNeverTouchesTarget == [][auxmod' # auxmod => (device' = device /\ modified' = modified)]_varsZ
ReadOnlyNeverModifiesZ == [][class = "ro" => device' = device]_varsZ
\* non-vacuity of the separation: a read-only run CAN end with a written auxiliary file and an untouched device
\* (checked as "this invariant must be violated": see checks/c13.py model_check)
NeverRoWithAuxWrite == ~(class = "ro" /\ auxmod /\ pc = "exited")
=============================================================================
