SPECIFICATION Spec
CONSTANTS
  MaxT = 3
  DevJoinLastWins = FALSE
  UseLock = FALSE
  Gs = {1, 2, 4, 5, 6}
  Ns = {1, 2, 3}
  Flexes = {1, 2}
  Kinds = {1, 2}
  FailModes = {"none", "one", "two"}
  BadSets = {{}, {1}}
INVARIANT PartitionExact
INVARIANT MutualExclusion
INVARIANT LockHeld
INVARIANT LoadedOnce
INVARIANT ResultScheduleIndependent
INVARIANT FailsIffThreadFailed
INVARIANT NeverLoadsFailing
CHECK_DEADLOCK FALSE
