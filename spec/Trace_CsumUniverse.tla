------------------------- MODULE Trace_CsumUniverse -------------------------
(* One line per observation of C14 clause (a) that Ext4Abs!Csums does not decide:
     {t: "journal", sc: <scenario as emitted>, j: <summary of the independent decoder>}     a log written by the tools
     {t: "census",  op, kind, cnt: {shape: count}}                                         witnesses in a pre-state
   Lines are independent; a failing line is reported and the scan goes on:
     BADLINE    the log is not what the format defines for the scenario (JournalOK false)
     DEVLINE    ... but exactly what the named deviation of the pinned tree yields (known finding while unrepaired)
     UNCOVERED  a pre-state lacks a witness CsumUniverse!Required demands (the universe is incomplete: check broken)  *)
EXTENDS CsumUniverse, Json, IOUtils, TLC
VARIABLE l
Tr == ndJsonDeserialize(IOEnv.TRACE)
JLine(r) == IF JournalOK(r.j, r.sc) THEN TRUE
            ELSE IF JournalDev(r.j, r.sc) THEN PrintT(<<"DEVLINE", l>>) ELSE PrintT(<<"BADLINE", l>>)
CLine(r) == IF CensusOK(r.op, r.kind, r.cnt) THEN TRUE ELSE PrintT(<<"UNCOVERED", l>>)
TLine == /\ l <= Len(Tr)
         /\ (IF Tr[l].t = "journal" THEN JLine(Tr[l]) ELSE CLine(Tr[l]))
         /\ l' = l + 1
TraceSpec == l = 1 /\ [][TLine]_l
TraceAccepted == TLCGet("stats").diameter - 1 = Len(Tr)
=============================================================================
