SPECIFICATION Spec
CONSTANTS
  MaxG = 60
  Dpbs = {16, 32}
  ResizeSet = {1, 2, 3, 4, 8, 10, 26, 28, 50, 60}
  Geos <- OneGeo
  GdOnly = FALSE
  MaxSteps = 2
  DevTuneMasterOnly = FALSE
  DevFsckIgnoresFeatDiff = FALSE
  DevFlushSkipsLast = FALSE
  DevResizeKeepsOldGdt = FALSE
  DevResizeMovesSoleBackup = FALSE
  DevSearchGuesses8xBs = FALSE
  DevBackupSearchIgnoresSs2 = FALSE
INVARIANT TypeOK
INVARIANT InvCurrent
INVARIANT InvBackupSet
INVARIANT Ss2Shape
INVARIANT InvRecover
PROPERTY FsckKeeps
CHECK_DEADLOCK FALSE
