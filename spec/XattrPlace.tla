----------------------------- MODULE XattrPlace -----------------------------
(* Implementation-shaped specification of lib/ext2fs/ext_attr.c for ONE inode (property C15).

   Transcribed:  ext2fs_xattr_set (same-value short cut, ibody_free / block_free arithmetic with the true
   EXT2_EXT_ATTR_LEN / EXT2_EXT_ATTR_SIZE rounding, system.data pinned to the inode body, ea_inode threshold
   EXT4_XATTR_MIN_LARGE_EA_SIZE and the fall-back to a value inode on EXT2_ET_EA_NO_SPACE),
   xattr_array_update (replace in place, block -> end of ibody, ibody -> sorted position in the block, sorted
   insertion by xattr_find_position), xattr_update_entry (create the new value inode, then drop the old one),
   ext2fs_xattr_remove, ext2fs_xattrs_write (ibody rewritten, magic written; block rewritten / allocated / freed),
   prep_ea_block_for_write (copy-on-write of a block with h_refcount > 1), ext2fs_free_ext_attr.

   State.  place = all entries in array order, the first `ib` live in the inode body and the rest in the block
   (this is struct ext2_xattr_handle: attrs / ibody_count / count and, after ext2fs_xattrs_write, the disk).
   An entry is [n (name id), vlen, tag, ea (id of its value inode, 0 = value stored inline)].
   eai  = value inodes: id -> [ref, size]  (ref 0 = free); ids are handed out lowest-free-first, like inode numbers.
   hasblk = i_file_acl # 0;  magic = the in-inode magic has been written;
   pstate/pblk = a PEER inode that may share our block ("shared": same block, h_refcount 2, the state the kernel's
   mbcache produces; "own": it kept the old block after our copy-on-write, pblk = that block's entries).
   chg = what ext_attr.c has charged to the owner's i_blocks, in filesystem blocks.

   Refinement.  attrs (module Xattr) is the property-level map; every action takes the matching abstract step and
   Refines says the placement read back is exactly that map.

   Named deviations (literal behaviour of the pinned tree, DESIGN 3.5):
     DevKeepEmptyBlock  the block is rewritten (empty) instead of freed when its last entry leaves
     DevNoEaCharge      clusters of a value inode are not charged to the owner's i_blocks
     DevCowNoEaRef      copy-on-write of a shared block does not take references on the value inodes it names  *)
EXTENDS Xattr, Sequences, FiniteSets, TLC
CONSTANTS ISZ, EXTRA, BS,        \* inode size, i_extra_isize, block size
          EAINODE,               \* ea_inode feature
          INLINE,                \* the inode starts with an (empty) system.data entry in its body: an inline-data file
          WithPeer,              \* the environment may make a peer inode share our block
          MaxOps, MaxEa,
          DevKeepEmptyBlock, DevNoEaCharge, DevCowNoEaRef
VARIABLES place, ib, hasblk, magic, pstate, pblk, eai, chg, res, nops
pvars == <<place, ib, hasblk, magic, pstate, pblk, eai, chg, res, nops>>
vars == <<attrs, pvars>>

Rep(c, k) == [i \in 1..k |-> c]
\* name id -> (e_name_index, short name bytes).  Same table as checks/c15.py NAMES (the trace's reset line carries it).
NameTab == <<
   [idx |-> 1, sn |-> <<97>>],                    \* 1 user.a
   [idx |-> 1, sn |-> <<98>>],                    \* 2 user.b
   [idx |-> 1, sn |-> Rep(99, 5)],                \* 3 user.ccccc
   [idx |-> 4, sn |-> <<116>>],                   \* 4 trusted.t
   [idx |-> 6, sn |-> Rep(115, 30)],              \* 5 security.s{30}
   [idx |-> 7, sn |-> <<115>>],                   \* 6 system.s
   [idx |-> 7, sn |-> <<100, 97, 116, 97>>],      \* 7 system.data
   [idx |-> 2, sn |-> <<>>],                      \* 8 system.posix_acl_access (raw handle)
   [idx |-> 1, sn |-> <<97, 97>>] >>              \* 9 user.aa
DATA == 7
Idx(n) == NameTab[n].idx
SN(n) == NameTab[n].sn
NLen(n) == Len(SN(n))

LEN(k) == ((k + 16 + 3) \div 4) * 4              \* EXT2_EXT_ATTR_LEN(name_len)
SIZE(v) == ((v + 3) \div 4) * 4                  \* EXT2_EXT_ATTR_SIZE(value_len)
DB(v) == (v + BS - 1) \div BS                    \* blocks (= clusters, no bigalloc here) holding a value of v bytes
Cost(x) == LEN(NLen(x.n)) + (IF x.ea # 0 THEN 0 ELSE SIZE(x.vlen))
Used(s) == LET F[i \in 0..Len(s)] == IF i = 0 THEN 0 ELSE F[i - 1] + Cost(s[i]) IN F[Len(s)]     \* space_used()
IbodySpace == IF ISZ > 128 THEN ISZ - 128 - EXTRA - 8 ELSE 0      \* minus magic and final null entry
BlockSpace == BS - 32 - 4                                         \* minus header and final null entry
MinLargeEa == BS - LEN(3) - 32 - 4                                \* EXT4_XATTR_MIN_LARGE_EA_SIZE
IbP(s, k) == SubSeq(s, 1, k)
BlP(s, k) == SubSeq(s, k + 1, Len(s))
RemoveAt(s, i) == SubSeq(s, 1, i - 1) \o SubSeq(s, i + 1, Len(s))
InsertAt(s, i, x) == SubSeq(s, 1, i - 1) \o <<x>> \o SubSeq(s, i, Len(s))
IndexOf(s, n) == LET I == {i \in 1..Len(s) : s[i].n = n} IN IF I = {} THEN 0 ELSE CHOOSE i \in I : TRUE

\* memcmp(a, b, len) <= 0 for equal-length names
RECURSIVE LeqName(_, _, _)
LeqName(a, b, i) == IF i > Len(a) THEN TRUE ELSE IF a[i] < b[i] THEN TRUE ELSE IF a[i] > b[i] THEN FALSE ELSE LeqName(a, b, i + 1)
\* strict order the kernel's sorted lookup (xattr_find_entry, sorted = 1) relies on: (index, name_len, name bytes)
KeyLess(m, n) == \/ Idx(m) < Idx(n)
                 \/ Idx(m) = Idx(n) /\ NLen(m) < NLen(n)
                 \/ Idx(m) = Idx(n) /\ NLen(m) = NLen(n) /\ SN(m) # SN(n) /\ LeqName(SN(m), SN(n), 1)
\* xattr_find_position over the block part: 0-based index of the first entry that is not before n
FindPos(blk, n) ==
   LET Stop(x) == \/ Idx(n) < Idx(x.n)
                  \/ Idx(n) = Idx(x.n) /\ NLen(n) < NLen(x.n)
                  \/ Idx(n) = Idx(x.n) /\ NLen(n) = NLen(x.n) /\ LeqName(SN(n), SN(x.n), 1)
       S == {i \in 1..Len(blk) : Stop(blk[i])}
   IN IF S = {} THEN Len(blk) ELSE (CHOOSE i \in S : \A j \in S : i <= j) - 1

\* xattr_array_update: [ok, place, ib]; newid = id the new value inode would get (ininode only)
Update(pl, k, n, v, t, ininode, noblock, newid) ==
   LET old == IndexOf(pl, n)
       ent == [n |-> n, vlen |-> v, tag |-> NormTag(v, t), ea |-> IF ininode THEN newid ELSE 0]
       needed == LEN(NLen(n)) + (IF ininode THEN 0 ELSE SIZE(v))
       ibfree0 == IF ISZ > 128 THEN IbodySpace - Used(IbP(pl, k)) ELSE 0
       ibfree == IF old # 0 /\ old <= k THEN ibfree0 + Cost(pl[old]) ELSE ibfree0
       bfree0 == IF noblock THEN 0 ELSE BlockSpace - Used(BlP(pl, k))
       bfree == IF old > k THEN bfree0 + Cost(pl[old]) ELSE bfree0
   IN IF needed <= ibfree THEN
         IF old = 0 THEN [ok |-> TRUE, place |-> InsertAt(pl, k + 1, ent), ib |-> k + 1]
         ELSE IF old <= k THEN [ok |-> TRUE, place |-> [pl EXCEPT ![old] = ent], ib |-> k]
         ELSE [ok |-> TRUE, place |-> InsertAt(RemoveAt(pl, old), k + 1, ent), ib |-> k + 1]      \* block -> end of ibody
      ELSE IF needed > bfree THEN [ok |-> FALSE, place |-> pl, ib |-> k]                           \* EXT2_ET_EA_NO_SPACE
      ELSE IF old # 0 THEN
              IF old > k THEN [ok |-> TRUE, place |-> [pl EXCEPT ![old] = ent], ib |-> k]
              ELSE LET rest == RemoveAt(pl, old)                                                   \* ibody -> sorted position in the block
                       pos  == FindPos(SubSeq(rest, k, Len(rest)), n)
                   IN [ok |-> TRUE, place |-> InsertAt(rest, k + pos, ent), ib |-> k - 1]
           ELSE LET pos == FindPos(BlP(pl, k), n)
                IN [ok |-> TRUE, place |-> InsertAt(pl, k + 1 + pos, ent), ib |-> k]

NoEa == [ref |-> 0, size |-> 0]
FreeEa(e) == CHOOSE k \in 1..MaxEa : e[k].ref = 0 /\ \A j \in 1..(k - 1) : e[j].ref # 0
EaIds(s) == {s[i].ea : i \in 1..Len(s)} \ {0}
\* value-inode table after one operation: `mk` = id created (0 none) with size v, `inc` = ids a copy-on-write takes a
\* reference on, `dec` = id whose reference the operation drops (0 none); an inode whose count reaches 0 is freed
EaStep(e, mk, v, inc, dec) ==
   [k \in 1..MaxEa |->
      LET base == IF k = mk THEN [ref |-> 1, size |-> v] ELSE e[k]
          r == base.ref + (IF k \in inc THEN 1 ELSE 0) - (IF k = dec THEN 1 ELSE 0)
      IN IF r <= 0 THEN NoEa ELSE [ref |-> r, size |-> base.size]]

\* ext2fs_xattrs_write + prep_ea_block_for_write + ext2fs_free_ext_attr, given the new array (pl, k).
\* Result: [hasblk, pstate, pblk, cow, dchg]   (cow: a private copy of a shared block was made; dchg: i_blocks delta)
WriteBlock(pl, k) ==
   LET empty == BlP(pl, k) = <<>>
       oldblk == BlP(place, ib)
   IN IF empty /\ (~hasblk \/ ~DevKeepEmptyBlock) THEN
         IF ~hasblk THEN [hasblk |-> FALSE, pstate |-> pstate, pblk |-> pblk, cow |-> FALSE, dchg |-> 0]
         ELSE IF pstate = "shared"                                    \* h_refcount 2 -> 1: the peer keeps the block
              THEN [hasblk |-> FALSE, pstate |-> "own", pblk |-> oldblk, cow |-> FALSE, dchg |-> -1]
              ELSE [hasblk |-> FALSE, pstate |-> pstate, pblk |-> pblk, cow |-> FALSE, dchg |-> -1]   \* freed
      ELSE IF ~hasblk THEN [hasblk |-> TRUE, pstate |-> pstate, pblk |-> pblk, cow |-> FALSE, dchg |-> 1]
      ELSE IF pstate = "shared" THEN [hasblk |-> TRUE, pstate |-> "own", pblk |-> oldblk, cow |-> TRUE, dchg |-> 0]
      ELSE [hasblk |-> TRUE, pstate |-> pstate, pblk |-> pblk, cow |-> FALSE, dchg |-> 0]

\* common tail of a successful, state-changing set / remove
Commit(pl, k, mk, v, dec, decsize) ==
   LET w == WriteBlock(pl, k)
       \* leaving a shared block (private copy, or dropping our reference to it): the entries it names stay referenced
       \* by the peer, so what we carry over or drop must not consume the block's references (the kernel clones the
       \* block and takes a reference on every value inode first: ext4_xattr_inode_inc_ref_all)
       inc == IF pstate = "shared" /\ ~DevCowNoEaRef THEN EaIds(BlP(place, ib)) ELSE {}
   IN /\ place' = pl /\ ib' = k
      /\ hasblk' = w.hasblk /\ pstate' = w.pstate /\ pblk' = w.pblk
      /\ magic' = (magic \/ ISZ > 128)
      /\ eai' = EaStep(eai, mk, v, inc, dec)
      /\ chg' = chg + w.dchg + (IF DevNoEaCharge THEN 0 ELSE (IF mk # 0 THEN DB(v) ELSE 0) - (IF dec # 0 THEN DB(decsize) ELSE 0))

Tick == nops < MaxOps /\ nops' = nops + 1          \* MaxOps bounds the length of the histories TLC enumerates
PSet(n, v, t) ==
   LET old == IndexOf(place, n)
       same == old # 0 /\ place[old].ea = 0 /\ place[old].vlen = v /\ (v = 0 \/ place[old].tag = t)
       newid == FreeEa(eai)
       big == EAINODE /\ v > MinLargeEa
       r == IF n = DATA THEN Update(place, ib, n, v, t, FALSE, TRUE, 0)
            ELSE LET r1 == Update(place, ib, n, v, t, big, FALSE, newid)
                 IN IF ~r1.ok /\ ~big /\ EAINODE THEN Update(place, ib, n, v, t, TRUE, FALSE, newid) ELSE r1
       mk == IF r.ok THEN r.place[IndexOf(r.place, n)].ea ELSE 0
       dec == IF old # 0 THEN place[old].ea ELSE 0
   IN /\ Tick
      /\ IF same THEN /\ res' = 0 /\ ASet(n, v, t)                   \* "imitate kernel behavior by skipping update"
                      /\ UNCHANGED <<place, ib, hasblk, magic, pstate, pblk, eai, chg>>
         ELSE IF ~r.ok THEN /\ res' = 1 /\ ARefused
                            /\ UNCHANGED <<place, ib, hasblk, magic, pstate, pblk, eai, chg>>
         ELSE /\ res' = 0 /\ ASet(n, v, t)
              /\ Commit(r.place, r.ib, mk, v, dec, IF old # 0 THEN place[old].vlen ELSE 0)

PRemove(n) ==
   LET old == IndexOf(place, n) IN
   /\ Tick /\ res' = 0 /\ ARemove(n)
   /\ IF old = 0 THEN UNCHANGED <<place, ib, hasblk, magic, pstate, pblk, eai, chg>>       \* "no key found, success!"
      ELSE Commit(RemoveAt(place, old), IF old <= ib THEN ib - 1 ELSE ib, 0, 0, place[old].ea, place[old].vlen)

\* environment: another inode starts sharing our block (h_refcount 1 -> 2)
PShare == /\ WithPeer /\ hasblk /\ pstate = "none"
          /\ pstate' = "shared" /\ Tick /\ res' = 0
          /\ UNCHANGED <<attrs, place, ib, hasblk, magic, pblk, eai, chg>>

InitPresent == IF INLINE THEN {DATA} ELSE {}
Init == /\ AInit(InitPresent)
        /\ place = IF INLINE THEN <<[n |-> DATA, vlen |-> 0, tag |-> 0, ea |-> 0]>> ELSE <<>>
        /\ ib = IF INLINE THEN 1 ELSE 0
        /\ hasblk = FALSE /\ magic = INLINE /\ pstate = "none" /\ pblk = <<>>
        /\ eai = [k \in 1..MaxEa |-> NoEa] /\ chg = 0 /\ res = 0 /\ nops = 0
\* system.data is never removed through this interface (inline_data.c removes it only while converting the file)
Next == \/ \E n \in Names, v \in VLens, t \in Tags : PSet(n, v, t)
        \/ \E n \in Names \ {DATA} : PRemove(n)
        \/ PShare
Spec == Init /\ [][Next]_vars

------------------------------------------------------------------------------
\* what a reader of the placement sees
Abs == [n \in Names |-> LET i == IndexOf(place, n) IN IF i = 0 THEN None ELSE [vlen |-> place[i].vlen, tag |-> place[i].tag]]
Refines == Abs = attrs
TypeOK == /\ AbsTypeOK /\ ib \in 0..Len(place) /\ hasblk \in BOOLEAN /\ magic \in BOOLEAN
          /\ pstate \in {"none", "shared", "own"} /\ res \in {0, 1}
          /\ \A i \in 1..Len(place) : place[i].n \in Names /\ place[i].ea \in 0..MaxEa
NoDup == \A i, j \in 1..Len(place) : i # j => place[i].n # place[j].n
NoOverflow == /\ Used(IbP(place, ib)) <= IbodySpace
              /\ Used(BlP(place, ib)) <= BlockSpace
              /\ (ISZ <= 128 => ib = 0)
SortedBlock == \A i, j \in (ib + 1)..Len(place) : i < j => KeyLess(place[i].n, place[j].n)
DataInIbody == LET i == IndexOf(place, DATA) IN i # 0 => i <= ib
\* storage: the block exists exactly while it has entries (an empty block kept allocated is a leak: DevKeepEmptyBlock breaks this)
BlockIffEntries == hasblk <=> (BlP(place, ib) # <<>>)
Shared == pstate = "shared" => hasblk
\* value inodes: reference count = number of referrers (a shared block counts once); sizes agree; none dangling
Refs(s, k) == Cardinality({i \in 1..Len(s) : s[i].ea = k})
Referrers(k) == Refs(place, k) + (IF pstate = "own" THEN Refs(pblk, k) ELSE 0)
EaRefs == \A k \in 1..MaxEa : eai[k].ref = Referrers(k)
EaSizes == \A i \in 1..Len(place) : place[i].ea # 0 => /\ eai[place[i].ea].ref > 0
                                                       /\ eai[place[i].ea].size = place[i].vlen /\ place[i].vlen > 0
PeerIntact == pstate = "own" => \A i \in 1..Len(pblk) : pblk[i].ea # 0 => eai[pblk[i].ea].size = pblk[i].vlen /\ eai[pblk[i].ea].ref > 0
EaOnlyWithFeature == (~EAINODE) => \A i \in 1..Len(place) : place[i].ea = 0
\* the owner's i_blocks: one block for the xattr block plus the clusters of every value inode it references
EaCharge(s) == LET F[i \in 0..Len(s)] == IF i = 0 THEN 0 ELSE F[i - 1] + (IF s[i].ea # 0 THEN DB(s[i].vlen) ELSE 0) IN F[Len(s)]
Charge == chg = (IF hasblk THEN 1 ELSE 0) + EaCharge(place)
\* allocation totals implied by the state (compared with the real free counts by the trace spec)
BlkAlloc == (IF hasblk THEN 1 ELSE 0) + (IF pstate = "own" THEN 1 ELSE 0)
InoAlloc == Cardinality({k \in 1..MaxEa : eai[k].ref > 0})
DataAlloc == LET F[k \in 0..MaxEa] == IF k = 0 THEN 0 ELSE F[k - 1] + DB(eai[k].size) IN F[MaxEa]
\* exact layout: e_value_offs of entry i of a part whose storage area has `area` bytes (+ `corr` for the block header)
ValOff(s, i, area, corr) == LET F[j \in 0..i] == IF j = 0 THEN 0 ELSE F[j - 1] + (IF s[j].ea # 0 THEN 0 ELSE SIZE(s[j].vlen))
                            IN IF s[i].ea # 0 THEN 0 ELSE area - F[i] + corr
IbodyArea == ISZ - 128 - EXTRA - 4
=============================================================================
