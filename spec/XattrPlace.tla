----------------------------- MODULE XattrPlace -----------------------------
(* Implementation-shaped specification of lib/ext2fs/ext_attr.c for ONE inode (property C15).

   Transcribed:  ext2fs_xattr_set (same-value short cut, ibody_free / block_free arithmetic with the true
   EXT2_EXT_ATTR_LEN / EXT2_EXT_ATTR_SIZE rounding, system.data pinned to the inode body, ea_inode threshold
   EXT4_XATTR_MIN_LARGE_EA_SIZE and the fall-back to a value inode on EXT2_ET_EA_NO_SPACE),
   xattr_array_update (replace in place, block -> end of ibody, ibody -> sorted position in the block, sorted
   insertion by xattr_find_position), xattr_update_entry (create the new value inode, then drop the old one),
   ext2fs_xattr_remove, ext2fs_xattrs_write (ibody rewritten, magic written; block rewritten / allocated / freed),
   prep_ea_block_for_write (copy-on-write of a block with h_refcount > 1), ext2fs_free_ext_attr.

   State.  place = all entries in array order, the first `ib` live in the inode body and the rest in the block
   (this is struct ext2_xattr_handle: attrs / ibody_count / count and, after ext2fs_xattrs_write, the disk).
   An entry is [n (name id), vlen, tag, ea (id of its value inode, 0 = value stored inline)].
   eai  = value inodes: id -> [ref, size]  (ref 0 = free); ids are handed out lowest-free-first, like inode numbers.
   hasblk = i_file_acl # 0;  magic = the in-inode magic has been written;
   pstate/pblk = a PEER inode that may share our block ("shared": same block, h_refcount 2, the state the kernel's
   mbcache produces; "own": it kept the old block after our copy-on-write, pblk = that block's entries).
   chg = what ext_attr.c has charged to the owner's i_blocks, in filesystem blocks.

   Refinement.  attrs (module Xattr) is the property-level map; every action takes the matching abstract step and
   Refines says the placement read back is exactly that map.

   Other subsystems that rewrite the attribute area of the SAME inode (lib/ext2fs/inline_data.c, reached through
   fileio.c, punch.c, mkdir.c / link.c / expanddir.c): an inline-data inode keeps the part of its contents that does
   not fit i_block (60 bytes) in the attribute system.data, which exists exactly while EXT4_INLINE_DATA_FL is set.
   Transcribed: ext2fs_file_write on an inline file (ext2fs_file_write_inline_data -> ext2fs_inline_data_set with
   the ext2fs_xattr_inode_max_size space test, growth of i_size through ext2fs_file_set_size2 which zeroes the
   inline area behind the new size, conversion to a block-mapped file by ext2fs_inline_data_expand when the data
   outgrows the inode body or one block), ext2fs_file_set_size2 (truncation back: the area keeps its size and is
   zeroed behind the new end; size 0 empties system.data through ext2fs_punch), ext2fs_punch, direct
   ext2fs_inline_data_set / ext2fs_inline_data_expand, and ext2fs_mkdir in an inline DIRECTORY with the
   expand-and-retry of its in-tree callers (the 56 bytes of i_block behind the parent pointer fill up, then
   ext2fs_expand_dir converts the directory to one block and removes system.data).
   State: inl = EXT4_INLINE_DATA_FL, isize = i_size, ik = number of leading non-zero bytes of i_block, fblk = data
   blocks the inode owns (always the logical blocks 0..fblk-1), dused = bytes of directory entries, nsub = child
   inodes created.  Every entry carries nz (see Xattr).

   Named deviations (literal behaviour of the pinned tree, DESIGN 3.5):
     DevKeepEmptyBlock  the block is rewritten (empty) instead of freed when its last entry leaves
     DevNoEaCharge      clusters of a value inode are not charged to the owner's i_blocks
     DevCowNoEaRef      copy-on-write of a shared block does not take references on the value inodes it names  *)
EXTENDS Xattr, Sequences, FiniteSets, TLC
CONSTANTS ISZ, EXTRA, BS,        \* inode size, i_extra_isize, block size
          EAINODE,               \* ea_inode feature
          INLINE,                \* the inode starts with an (empty) system.data entry in its body: an inline-data file
          WithPeer,              \* the environment may make a peer inode share our block
          ISDIR,                 \* the inode under test is a directory (INLINE: an inline directory made by ext2fs_mkdir)
          INITSZ,                \* INLINE file: bytes (all non-zero, <= 60) it holds initially
          FSizes,                \* byte counts of the file operations TLC enumerates ({} = none)
          DNameLens,             \* name lengths of the sub-directories TLC creates in a directory under test
          MaxOps, MaxEa,
          DevKeepEmptyBlock, DevNoEaCharge, DevCowNoEaRef
VARIABLES place, ib, hasblk, magic, pstate, pblk, eai, chg, res, nops,
          inl, isize, ik, fblk, dused, nsub
xv == <<place, ib, hasblk, magic, pstate, pblk, eai>>
fvars == <<inl, isize, ik, fblk, dused, nsub>>
pvars == <<xv, chg, res, nops, fvars>>
vars == <<attrs, pvars>>
Max(a, b) == IF a >= b THEN a ELSE b
Min(a, b) == IF a <= b THEN a ELSE b

Rep(c, k) == [i \in 1..k |-> c]
\* name id -> (e_name_index, short name bytes).  Same table as checks/c15.py NAMES (the trace's reset line carries it).
NameTab == <<
   [idx |-> 1, sn |-> <<97>>],                    \* 1 user.a
   [idx |-> 1, sn |-> <<98>>],                    \* 2 user.b
   [idx |-> 1, sn |-> Rep(99, 5)],                \* 3 user.ccccc
   [idx |-> 4, sn |-> <<116>>],                   \* 4 trusted.t
   [idx |-> 6, sn |-> Rep(115, 30)],              \* 5 security.s{30}
   [idx |-> 7, sn |-> <<115>>],                   \* 6 system.s
   [idx |-> 7, sn |-> <<100, 97, 116, 97>>],      \* 7 system.data
   [idx |-> 2, sn |-> <<>>],                      \* 8 system.posix_acl_access (raw handle)
   [idx |-> 1, sn |-> <<97, 97>>] >>              \* 9 user.aa
DATA == 7
Idx(n) == NameTab[n].idx
SN(n) == NameTab[n].sn
NLen(n) == Len(SN(n))

LEN(k) == ((k + 16 + 3) \div 4) * 4              \* EXT2_EXT_ATTR_LEN(name_len)
SIZE(v) == ((v + 3) \div 4) * 4                  \* EXT2_EXT_ATTR_SIZE(value_len)
DB(v) == (v + BS - 1) \div BS                    \* blocks (= clusters, no bigalloc here) holding a value of v bytes
Cost(x) == LEN(NLen(x.n)) + (IF x.ea # 0 THEN 0 ELSE SIZE(x.vlen))
Used(s) == LET F[i \in 0..Len(s)] == IF i = 0 THEN 0 ELSE F[i - 1] + Cost(s[i]) IN F[Len(s)]     \* space_used()
IbodySpace == IF ISZ > 128 THEN ISZ - 128 - EXTRA - 8 ELSE 0      \* minus magic and final null entry
BlockSpace == BS - 32 - 4                                         \* minus header and final null entry
MinLargeEa == BS - LEN(3) - 32 - 4                                \* EXT4_XATTR_MIN_LARGE_EA_SIZE
IbP(s, k) == SubSeq(s, 1, k)
BlP(s, k) == SubSeq(s, k + 1, Len(s))
RemoveAt(s, i) == SubSeq(s, 1, i - 1) \o SubSeq(s, i + 1, Len(s))
InsertAt(s, i, x) == SubSeq(s, 1, i - 1) \o <<x>> \o SubSeq(s, i, Len(s))
IndexOf(s, n) == LET I == {i \in 1..Len(s) : s[i].n = n} IN IF I = {} THEN 0 ELSE CHOOSE i \in I : TRUE

\* memcmp(a, b, len) <= 0 for equal-length names
RECURSIVE LeqName(_, _, _)
LeqName(a, b, i) == IF i > Len(a) THEN TRUE ELSE IF a[i] < b[i] THEN TRUE ELSE IF a[i] > b[i] THEN FALSE ELSE LeqName(a, b, i + 1)
\* strict order the kernel's sorted lookup (xattr_find_entry, sorted = 1) relies on: (index, name_len, name bytes)
KeyLess(m, n) == \/ Idx(m) < Idx(n)
                 \/ Idx(m) = Idx(n) /\ NLen(m) < NLen(n)
                 \/ Idx(m) = Idx(n) /\ NLen(m) = NLen(n) /\ SN(m) # SN(n) /\ LeqName(SN(m), SN(n), 1)
\* xattr_find_position over the block part: 0-based index of the first entry that is not before n
FindPos(blk, n) ==
   LET Stop(x) == \/ Idx(n) < Idx(x.n)
                  \/ Idx(n) = Idx(x.n) /\ NLen(n) < NLen(x.n)
                  \/ Idx(n) = Idx(x.n) /\ NLen(n) = NLen(x.n) /\ LeqName(SN(n), SN(x.n), 1)
       S == {i \in 1..Len(blk) : Stop(blk[i])}
   IN IF S = {} THEN Len(blk) ELSE (CHOOSE i \in S : \A j \in S : i <= j) - 1

\* xattr_array_update: [ok, place, ib]; newid = id the new value inode would get (ininode only); z = nz of the value
Update(pl, k, n, v, t, z, ininode, noblock, newid) ==
   LET old == IndexOf(pl, n)
       ent == [n |-> n, vlen |-> v, tag |-> NormTag(z, t), ea |-> IF ininode THEN newid ELSE 0, nz |-> z]
       needed == LEN(NLen(n)) + (IF ininode THEN 0 ELSE SIZE(v))
       ibfree0 == IF ISZ > 128 THEN IbodySpace - Used(IbP(pl, k)) ELSE 0
       ibfree == IF old # 0 /\ old <= k THEN ibfree0 + Cost(pl[old]) ELSE ibfree0
       bfree0 == IF noblock THEN 0 ELSE BlockSpace - Used(BlP(pl, k))
       bfree == IF old > k THEN bfree0 + Cost(pl[old]) ELSE bfree0
   IN IF needed <= ibfree THEN
         IF old = 0 THEN [ok |-> TRUE, place |-> InsertAt(pl, k + 1, ent), ib |-> k + 1]
         ELSE IF old <= k THEN [ok |-> TRUE, place |-> [pl EXCEPT ![old] = ent], ib |-> k]
         ELSE [ok |-> TRUE, place |-> InsertAt(RemoveAt(pl, old), k + 1, ent), ib |-> k + 1]      \* block -> end of ibody
      ELSE IF needed > bfree THEN [ok |-> FALSE, place |-> pl, ib |-> k]                           \* EXT2_ET_EA_NO_SPACE
      ELSE IF old # 0 THEN
              IF old > k THEN [ok |-> TRUE, place |-> [pl EXCEPT ![old] = ent], ib |-> k]
              ELSE LET rest == RemoveAt(pl, old)                                                   \* ibody -> sorted position in the block
                       pos  == FindPos(SubSeq(rest, k, Len(rest)), n)
                   IN [ok |-> TRUE, place |-> InsertAt(rest, k + pos, ent), ib |-> k - 1]
           ELSE LET pos == FindPos(BlP(pl, k), n)
                IN [ok |-> TRUE, place |-> InsertAt(pl, k + 1 + pos, ent), ib |-> k]

NoEa == [ref |-> 0, size |-> 0]
FreeEa(e) == CHOOSE k \in 1..MaxEa : e[k].ref = 0 /\ \A j \in 1..(k - 1) : e[j].ref # 0
EaIds(s) == {s[i].ea : i \in 1..Len(s)} \ {0}
\* value-inode table after one operation: `mk` = id created (0 none) with size v, `inc` = ids a copy-on-write takes a
\* reference on, `dec` = id whose reference the operation drops (0 none); an inode whose count reaches 0 is freed
EaStep(e, mk, v, inc, dec) ==
   [k \in 1..MaxEa |->
      LET base == IF k = mk THEN [ref |-> 1, size |-> v] ELSE e[k]
          r == base.ref + (IF k \in inc THEN 1 ELSE 0) - (IF k = dec THEN 1 ELSE 0)
      IN IF r <= 0 THEN NoEa ELSE [ref |-> r, size |-> base.size]]

\* ext2fs_xattrs_write + prep_ea_block_for_write + ext2fs_free_ext_attr, given the new array (pl, k).
\* Result: [hasblk, pstate, pblk, cow, dchg]   (cow: a private copy of a shared block was made; dchg: i_blocks delta)
WriteBlock(pl, k) ==
   LET empty == BlP(pl, k) = <<>>
       oldblk == BlP(place, ib)
   IN IF empty /\ (~hasblk \/ ~DevKeepEmptyBlock) THEN
         IF ~hasblk THEN [hasblk |-> FALSE, pstate |-> pstate, pblk |-> pblk, cow |-> FALSE, dchg |-> 0]
         ELSE IF pstate = "shared"                                    \* h_refcount 2 -> 1: the peer keeps the block
              THEN [hasblk |-> FALSE, pstate |-> "own", pblk |-> oldblk, cow |-> FALSE, dchg |-> -1]
              ELSE [hasblk |-> FALSE, pstate |-> pstate, pblk |-> pblk, cow |-> FALSE, dchg |-> -1]   \* freed
      ELSE IF ~hasblk THEN [hasblk |-> TRUE, pstate |-> pstate, pblk |-> pblk, cow |-> FALSE, dchg |-> 1]
      ELSE IF pstate = "shared" THEN [hasblk |-> TRUE, pstate |-> "own", pblk |-> oldblk, cow |-> TRUE, dchg |-> 0]
      ELSE [hasblk |-> TRUE, pstate |-> pstate, pblk |-> pblk, cow |-> FALSE, dchg |-> 0]

\* common tail of a successful, state-changing set / remove; dfile = data blocks of the file gained (lost) in the same operation
Commit(pl, k, mk, v, dec, decsize, dfile) ==
   LET w == WriteBlock(pl, k)
       \* leaving a shared block (private copy, or dropping our reference to it): the entries it names stay referenced
       \* by the peer, so what we carry over or drop must not consume the block's references (the kernel clones the
       \* block and takes a reference on every value inode first: ext4_xattr_inode_inc_ref_all)
       inc == IF pstate = "shared" /\ ~DevCowNoEaRef THEN EaIds(BlP(place, ib)) ELSE {}
   IN /\ place' = pl /\ ib' = k
      /\ hasblk' = w.hasblk /\ pstate' = w.pstate /\ pblk' = w.pblk
      /\ magic' = (magic \/ ISZ > 128)
      /\ eai' = EaStep(eai, mk, v, inc, dec)
      /\ chg' = chg + dfile + w.dchg + (IF DevNoEaCharge THEN 0 ELSE (IF mk # 0 THEN DB(v) ELSE 0) - (IF dec # 0 THEN DB(decsize) ELSE 0))

Tick == nops < MaxOps /\ nops' = nops + 1          \* MaxOps bounds the length of the histories TLC enumerates
PSet(n, v, t) ==
   LET old == IndexOf(place, n)
       same == old # 0 /\ place[old].ea = 0 /\ place[old].vlen = v /\ place[old].nz = v /\ (v = 0 \/ place[old].tag = t)
       newid == FreeEa(eai)
       big == EAINODE /\ v > MinLargeEa
       r == IF n = DATA THEN Update(place, ib, n, v, t, v, FALSE, TRUE, 0)
            ELSE LET r1 == Update(place, ib, n, v, t, v, big, FALSE, newid)
                 IN IF ~r1.ok /\ ~big /\ EAINODE THEN Update(place, ib, n, v, t, v, TRUE, FALSE, newid) ELSE r1
       mk == IF r.ok THEN r.place[IndexOf(r.place, n)].ea ELSE 0
       dec == IF old # 0 THEN place[old].ea ELSE 0
   IN /\ Tick /\ UNCHANGED fvars
      /\ (n = DATA => inl /\ ~ISDIR)                                \* system.data belongs to inline-data inodes only (and an inline
                                                                    \* directory's i_size must follow it: left to inline_data.c)
      /\ IF same THEN /\ res' = 0 /\ ASet(n, v, t)                   \* "imitate kernel behavior by skipping update"
                      /\ UNCHANGED <<xv, chg>>
         ELSE IF ~r.ok THEN /\ res' = 1 /\ ARefused
                            /\ UNCHANGED <<xv, chg>>
         ELSE /\ res' = 0 /\ ASet(n, v, t)
              /\ Commit(r.place, r.ib, mk, v, dec, IF old # 0 THEN place[old].vlen ELSE 0, 0)

PRemove(n) ==
   LET old == IndexOf(place, n) IN
   /\ Tick /\ res' = 0 /\ ARemove(n) /\ UNCHANGED fvars
   /\ IF old = 0 THEN UNCHANGED <<xv, chg>>                                                \* "no key found, success!"
      ELSE Commit(RemoveAt(place, old), IF old <= ib THEN ib - 1 ELSE ib, 0, 0, place[old].ea, place[old].vlen, 0)

\* environment: another inode starts sharing our block (h_refcount 1 -> 2)
PShare == /\ WithPeer /\ hasblk /\ pstate = "none"
          /\ pstate' = "shared" /\ Tick /\ res' = 0
          /\ UNCHANGED <<attrs, place, ib, hasblk, magic, pblk, eai, chg, fvars>>


------------------------------------------------------------------------------
(* Inline data: the other writer of the attribute area.  All of these open their own handle (inline_data.c), so at
   most the content of system.data changes per xattr write.  Where one library call rewrites system.data twice in
   place (write, then zeroing behind the new i_size) the net effect is one rewrite with the final content: the
   second rewrite keeps the size, hence the placement, and a copy-on-write of a shared block happens at the first. *)
DI == IndexOf(place, DATA)
D == place[DI]                                       \* the system.data entry (inl => DI # 0, invariant DataIffInline)
Area == 60 + D.vlen                                  \* ext2fs_inline_data_size
IbFree == IbodySpace - Used(IbP(place, ib))          \* ext2fs_xattr_inode_max_size on a body that has the magic
InlNoSpace(ns) == ns # Area /\ ns > Area + IbFree    \* ext2fs_inline_data_set: EXT2_ET_INLINE_DATA_NO_SPACE
AreaZero == ik = 0 /\ D.nz = 0                       \* the inline area holds only zero bytes
\* ext2fs_xattr_set(h, "system.data", v bytes: z of pattern t, then zeros) through a fresh handle
XData(v, t, z, dfile) ==
   LET same == D.vlen = v /\ D.nz = z /\ D.tag = NormTag(z, t)
       r == Update(place, ib, DATA, v, t, z, FALSE, TRUE, 0)
   IN /\ DI # 0 /\ r.ok                              \* the caller tested the space (InlNoSpace); never refused here
      /\ APut(DATA, ValZ(v, t, z))
      /\ IF same THEN UNCHANGED xv /\ chg' = chg + dfile
         ELSE Commit(r.place, r.ib, 0, 0, 0, 0, dfile)
\* ext2fs_inline_data_ea_remove
XDataRemove(dfile) ==
   /\ APut(DATA, None)
   /\ IF DI = 0 THEN UNCHANGED xv /\ chg' = chg + dfile
      ELSE Commit(RemoveAt(place, DI), IF DI <= ib THEN ib - 1 ELSE ib, 0, 0, 0, 0, dfile)
NoX(dfile) == UNCHANGED <<attrs, xv>> /\ chg' = chg + dfile

\* ext2fs_file_open + ext2fs_file_write(sz bytes of pattern t at offset 0) + ext2fs_file_close
PWrite(sz, t) ==
   /\ ~ISDIR /\ sz > 0 /\ Tick /\ res' = 0 /\ UNCHANGED <<dused, nsub>>
   /\ IF ~inl THEN
         /\ NoX(Max(fblk, DB(sz)) - fblk)
         /\ isize' = Max(isize, sz) /\ fblk' = Max(fblk, DB(sz)) /\ UNCHANGED <<inl, ik>>
      ELSE LET ns == Max(Area, sz)
               c == Max(0, sz - 60)                                  \* bytes of system.data the write covers
           IN IF sz <= BS /\ ~InlNoSpace(ns) THEN
                 LET k1 == IF c >= D.nz THEN c ELSE D.nz
                     t1 == IF c = 0 THEN D.tag ELSE t
                     zero == isize < sz /\ sz < ns                   \* i_size grows inside the area: the rest is zeroed
                     k2 == IF zero THEN Min(k1, c) ELSE k1
                     i1 == Max(ik, Min(sz, 60))
                 IN /\ (c = 0 \/ c >= D.nz \/ D.tag = t \/ zero)    \* universe: the area never mixes two patterns
                    /\ XData(ns - 60, t1, k2, 0)
                    /\ isize' = Max(isize, sz) /\ ik' = (IF zero THEN Min(i1, sz) ELSE i1)
                    /\ UNCHANGED <<inl, fblk>>
              ELSE \* ext2fs_inline_data_expand, i_size put back, then the ordinary block write
                 LET f1 == IF AreaZero THEN 0 ELSE 1                 \* an all-zero area becomes a hole
                     f2 == IF isize = 0 THEN 0 ELSE f1               \* i_size 0: the block is punched again
                     f3 == Max(f2, DB(sz))
                 IN /\ XDataRemove(f3)
                    /\ inl' = FALSE /\ isize' = Max(isize, sz) /\ fblk' = f3 /\ ik' = 0

\* ext2fs_file_open + ext2fs_file_set_size2(s) + ext2fs_file_close
PTrunc(s) ==
   /\ ~ISDIR /\ Tick /\ res' = 0 /\ UNCHANGED <<dused, nsub, inl>>
   /\ IF ~inl THEN
         /\ NoX(Min(fblk, DB(s)) - fblk)
         /\ isize' = s /\ fblk' = Min(fblk, DB(s)) /\ UNCHANGED ik
      ELSE IF s = 0 THEN
         IF isize > 0 THEN XData(0, 0, 0, 0) /\ ik' = 0 /\ isize' = 0 /\ UNCHANGED fblk     \* ext2fs_punch_inline_data
         ELSE NoX(0) /\ UNCHANGED <<isize, ik, fblk>>
      ELSE LET zero == (s % BS # 0) /\ s < Area                      \* ext2fs_file_zero_past_offset
           IN /\ XData(D.vlen, D.tag, IF zero THEN Min(D.nz, Max(0, s - 60)) ELSE D.nz, 0)
              /\ ik' = (IF zero THEN Min(ik, s) ELSE ik) /\ isize' = s /\ UNCHANGED fblk

\* ext2fs_inline_data_set(fs, ino, NULL, sz bytes of pattern t, sz); in-tree callers call it on inline inodes only
PISet(sz, t) ==
   /\ ~ISDIR /\ inl /\ Tick /\ UNCHANGED <<dused, nsub, inl, isize, fblk>>
   /\ IF sz <= 60 THEN res' = 0 /\ XData(0, 0, 0, 0) /\ ik' = Max(ik, sz)
      ELSE IF InlNoSpace(sz) THEN res' = 4 /\ NoX(0) /\ UNCHANGED ik
      ELSE res' = 0 /\ XData(sz - 60, t, sz - 60, 0) /\ ik' = 60

\* ext2fs_inline_data_expand(fs, ino)
PIExpand ==
   /\ Tick /\ UNCHANGED <<dused, nsub>>
   /\ IF ~inl THEN res' = 3 /\ NoX(0) /\ UNCHANGED <<inl, isize, ik, fblk>>              \* EXT2_ET_NO_INLINE_DATA
      ELSE IF ISDIR THEN /\ res' = 0 /\ XDataRemove(1)
                         /\ inl' = FALSE /\ fblk' = 1 /\ isize' = BS /\ UNCHANGED ik
      ELSE LET f1 == IF AreaZero THEN 0 ELSE 1
           IN /\ res' = 0 /\ XDataRemove(f1)
              /\ inl' = FALSE /\ fblk' = f1 /\ isize' = (IF AreaZero THEN 0 ELSE Area) /\ ik' = 0

\* ext2fs_punch(fs, ino, NULL, NULL, 0, ~0ULL)
PPunch ==
   /\ ~ISDIR /\ Tick /\ res' = 0 /\ UNCHANGED <<dused, nsub, inl>>
   /\ IF inl THEN XData(0, 0, 0, 0) /\ ik' = 0 /\ isize' = 0 /\ UNCHANGED fblk
      ELSE NoX(0 - fblk) /\ fblk' = 0 /\ UNCHANGED <<isize, ik>>

\* A new child (an inline directory or an empty inline file: one inode, no block) is linked into the directory under
\* a name of length nl: ext2fs_mkdir(fs, dir, 0, name), or ext2fs_new_inode + ext2fs_link (debugfs write); on
\* EXT2_ET_DIR_NO_SPACE ext2fs_expand_dir + retry (misc/create_inode.c do_mkdir_internal / do_write_internal).
\* Entries are only added, so the free space is one tail.
Rec(nl) == 8 + ((nl + 3) \div 4) * 4                                 \* EXT2_DIR_REC_LEN
DirBlockRoom == BS - 12 - 24                                         \* one block minus checksum tail, "." and ".."
PMkdirIn(nl) ==
   /\ ISDIR /\ Tick /\ res' = 0 /\ nsub' = nsub + 1 /\ dused' = dused + Rec(nl) /\ UNCHANGED ik
   /\ IF inl /\ dused + Rec(nl) <= 56 THEN NoX(0) /\ UNCHANGED <<inl, isize, fblk>>
      ELSE /\ dused + Rec(nl) <= DirBlockRoom                        \* universe: the directory stays within one block
           /\ IF inl THEN XDataRemove(1) /\ inl' = FALSE /\ fblk' = 1 /\ isize' = BS
              ELSE NoX(0) /\ UNCHANGED <<inl, isize, fblk>>

InitPresent == IF INLINE THEN {DATA} ELSE {}
InitISize == IF ~INLINE THEN 0 ELSE IF ISDIR THEN 60 ELSE INITSZ
InitIk == IF INLINE /\ ~ISDIR THEN INITSZ ELSE 0
Init == /\ AInit(InitPresent)
        /\ place = IF INLINE THEN <<[n |-> DATA, vlen |-> 0, tag |-> 0, ea |-> 0, nz |-> 0]>> ELSE <<>>
        /\ ib = IF INLINE THEN 1 ELSE 0
        /\ hasblk = FALSE /\ magic = INLINE /\ pstate = "none" /\ pblk = <<>>
        /\ eai = [k \in 1..MaxEa |-> NoEa] /\ chg = 0 /\ res = 0 /\ nops = 0
        /\ inl = INLINE /\ isize = InitISize /\ ik = InitIk /\ fblk = 0 /\ dused = 0 /\ nsub = 0
\* system.data is never removed through this interface (inline_data.c removes it only while converting the file)
FileOps == FSizes # {}
Next == \/ \E n \in Names, v \in VLens, t \in Tags : PSet(n, v, t)
        \/ \E n \in Names \ {DATA} : PRemove(n)
        \/ PShare
        \/ \E s \in FSizes, t \in Tags : PWrite(s, t) \/ PISet(s, t)
        \/ \E s \in FSizes \cup {0} : FileOps /\ PTrunc(s)
        \/ (FileOps \/ DNameLens # {}) /\ PIExpand
        \/ FileOps /\ PPunch
        \/ \E nl \in DNameLens : PMkdirIn(nl)
Spec == Init /\ [][Next]_vars

------------------------------------------------------------------------------
\* what a reader of the placement sees
Abs == [n \in Names |-> LET i == IndexOf(place, n) IN IF i = 0 THEN None ELSE [vlen |-> place[i].vlen, tag |-> place[i].tag, nz |-> place[i].nz]]
Refines == Abs = attrs
TypeOK == /\ AbsTypeOK /\ ib \in 0..Len(place) /\ hasblk \in BOOLEAN /\ magic \in BOOLEAN
          /\ pstate \in {"none", "shared", "own"} /\ res \in {0, 1, 3, 4}
          /\ \A i \in 1..Len(place) : place[i].n \in Names /\ place[i].ea \in 0..MaxEa /\ place[i].nz \in 0..place[i].vlen
          /\ inl \in BOOLEAN /\ isize \in Nat /\ ik \in 0..60 /\ fblk \in Nat /\ dused \in Nat /\ nsub \in Nat
NoDup == \A i, j \in 1..Len(place) : i # j => place[i].n # place[j].n
NoOverflow == /\ Used(IbP(place, ib)) <= IbodySpace
              /\ Used(BlP(place, ib)) <= BlockSpace
              /\ (ISZ <= 128 => ib = 0)
SortedBlock == \A i, j \in (ib + 1)..Len(place) : i < j => KeyLess(place[i].n, place[j].n)
DataInIbody == LET i == IndexOf(place, DATA) IN i # 0 => i <= ib
\* system.data exists exactly while the inode has EXT4_INLINE_DATA_FL (no stale entry after a conversion, none lost before)
DataIffInline == inl <=> IndexOf(place, DATA) # 0
\* only system.data can have a zero tail; an inline inode owns no data block; the inline area fits one block
ValueShapes == /\ \A i \in 1..Len(place) : place[i].n # DATA => place[i].nz = place[i].vlen
               /\ (inl => fblk = 0 /\ Area <= BS)
\* storage: the block exists exactly while it has entries (an empty block kept allocated is a leak: DevKeepEmptyBlock breaks this)
BlockIffEntries == hasblk <=> (BlP(place, ib) # <<>>)
Shared == pstate = "shared" => hasblk
\* value inodes: reference count = number of referrers (a shared block counts once); sizes agree; none dangling
Refs(s, k) == Cardinality({i \in 1..Len(s) : s[i].ea = k})
Referrers(k) == Refs(place, k) + (IF pstate = "own" THEN Refs(pblk, k) ELSE 0)
EaRefs == \A k \in 1..MaxEa : eai[k].ref = Referrers(k)
EaSizes == \A i \in 1..Len(place) : place[i].ea # 0 => /\ eai[place[i].ea].ref > 0
                                                       /\ eai[place[i].ea].size = place[i].vlen /\ place[i].vlen > 0
PeerIntact == pstate = "own" => \A i \in 1..Len(pblk) : pblk[i].ea # 0 => eai[pblk[i].ea].size = pblk[i].vlen /\ eai[pblk[i].ea].ref > 0
EaOnlyWithFeature == (~EAINODE) => \A i \in 1..Len(place) : place[i].ea = 0
\* the owner's i_blocks: one block for the xattr block plus the clusters of every value inode it references
EaCharge(s) == LET F[i \in 0..Len(s)] == IF i = 0 THEN 0 ELSE F[i - 1] + (IF s[i].ea # 0 THEN DB(s[i].vlen) ELSE 0) IN F[Len(s)]
Charge == chg = (IF hasblk THEN 1 ELSE 0) + EaCharge(place) + fblk
\* allocation totals implied by the state (compared with the real free counts by the trace spec)
BlkAlloc == (IF hasblk THEN 1 ELSE 0) + (IF pstate = "own" THEN 1 ELSE 0) + fblk
InoAlloc == Cardinality({k \in 1..MaxEa : eai[k].ref > 0}) + nsub
DataAlloc == LET F[k \in 0..MaxEa] == IF k = 0 THEN 0 ELSE F[k - 1] + DB(eai[k].size) IN F[MaxEa]
\* exact layout: e_value_offs of entry i of a part whose storage area has `area` bytes (+ `corr` for the block header)
ValOff(s, i, area, corr) == LET F[j \in 0..i] == IF j = 0 THEN 0 ELSE F[j - 1] + (IF s[j].ea # 0 THEN 0 ELSE SIZE(s[j].vlen))
                            IN IF s[i].ea # 0 THEN 0 ELSE area - F[i] + corr
IbodyArea == ISZ - 128 - EXTRA - 4
=============================================================================
