SPECIFICATION Spec
CONSTANTS
  Geos <- AllGeos
  MaxG = 5
  Dpbs = {4}
  ResizeSet = {1, 2, 3}
  GdOnly = TRUE
  MaxSteps = 1
  DevTuneMasterOnly = FALSE
  DevFsckIgnoresFeatDiff = FALSE
  DevFlushSkipsLast = FALSE
  DevResizeKeepsOldGdt = FALSE
  DevResizeMovesSoleBackup = FALSE
  DevSearchGuesses8xBs = TRUE
  DevBackupSearchIgnoresSs2 = FALSE
INVARIANT TypeOK
INVARIANT InvCurrent
INVARIANT InvBackupSet
INVARIANT Ss2Shape
INVARIANT InvRecover
PROPERTY FsckKeeps
CHECK_DEADLOCK FALSE
