SPECIFICATION ASpec
CONSTANTS
  NFiles = 2
  NCuts = 5
  MaxOps = 3
INVARIANT TypeOK
INVARIANT NoDataPastEOF
INVARIANT ReadExact
INVARIANT LastWriteWins
PROPERTY Frame
CHECK_DEADLOCK FALSE
