INIT EmitInit
NEXT EmitNext
CONSTANTS
  Hashes = {0}
  Ids = {1}
  Cap = 2
  LBlks = {0}
  DataBlks = {1}
  MetaBlks = {9}
  InoExt = 1
  NDirect = 1
  MaxDamage = 1
  MaxRuns = 1
  DevRehashDropsCollision = FALSE
  DevRehashDropsBoundary = FALSE
  DevRebuildDropsLast = FALSE
  DevCsumClearsLeaf = FALSE
  DevSbCsumRefuses = FALSE
  InitExtStates = {"w"}
  InvalidIds = {}
  CfModes = {"plain"}
  DevRebuildMergesAcrossState = FALSE
  DevEncCheckIgnoresStrict = FALSE
  DevCasefoldOpaqueHashFails = FALSE
  DevDupFoldsPlainDir = FALSE
  BSz = 2
  SizeClasses = {"end"}
  DevSizeLimitInclusive = FALSE
  DevInodeUninitWipes = FALSE
CHECK_DEADLOCK FALSE
