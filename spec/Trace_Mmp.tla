------------------------------ MODULE Trace_Mmp ------------------------------
(* Trace validation for X01.  One line per scheduling step of the controller in checks/x01.py (the controller serialises
   the real tool processes, so the lines are a total order):
     I  start of a behaviour: the block as mke2fs / tune2fs -O mmp left it, s_mmp_update_interval
     L  a tool process was started (kind, number of clock polls it will make)
     R  node n read the MMP block (rd = the bytes the process got), W  node n wrote it (wr = the bytes it passed to write),
     P  node n looked at the clock in ext2fs_mmp_update2, T  the virtual clock advanced, K  the process was killed,
     C  the block was damaged from outside.
   Every line carries blk = the block on the image after the step as the check reads it, and what the node waits for next
   (next = R / W / P / S + dur / X + fail).  Each line must be the step Mmp takes, with that post-state.           *)
EXTENDS Mmp, Json, IOUtils
VARIABLE l
tvars == <<vars, l>>
Tr == ndJsonDeserialize(IOEnv.TRACE)
Ln == Tr[l]
IsEvent(e) == l <= Len(Tr) /\ Tr[l].e = e /\ l' = l + 1
B(r) == [magic |-> r.magic, seq |-> r.seq, time |-> r.time, node |-> r.node, ival |-> r.ival, ok |-> r.ok]

\* exit status: a run that got through reports success, every refusal / abort reports failure (fail: e2fsck bit 8, others # 0)
\* e2fsck ignores the result of its final ext2fs_close_free (known finding FsckIgnoresCloseError): when ext2fs_mmp_stop fails
\* there, the exit status is the one of a successful run; an abort found by an update ends in fatal_error (exit 8)
ExitOK(r) == \/ r.kind = "peek"
             \/ r.kind = "fsck" /\ r.res \in {"CHANGE_ABORT", "MAGIC", "CSUM"}
             \/ (r.res = "ok") = ~Ln.fail
PostOK(n) == LET p == Pend(nd'[n], Ln.now) IN
             /\ blk' = B(Ln.blk)
             /\ now' = Ln.now
             /\ p.next = Ln.next
             /\ p.dur = Ln.dur
             /\ ((Ln.next = "X") => ExitOK(nd'[n]))

TInit == /\ IsEvent("I")
         /\ blk' = B(Ln.blk) /\ sbi' = Ln.sbi /\ now' = 0
         /\ nd' = [n \in Nodes |-> Idle]
         /\ hist' = [by |-> 0, how |-> "init", own |-> TRUE, seq |-> blk'.seq, valid |-> blk'.magic /\ blk'.ok]
         /\ used' = {} /\ crashes' = 0 /\ forced' = FALSE /\ corrupted' = FALSE
         \* mke2fs -O mmp / tune2fs -O mmp: ext2fs_mmp_init -> ext2fs_mmp_reset
         /\ blk'.magic /\ blk'.ok /\ blk'.seq = CLEAN /\ blk'.ival = Max2(Ln.mkival, MinIval)   \* mkival: the interval when the block was made
TLaunch == /\ IsEvent("L") /\ Launch(Ln.n, Ln.kind, Ln.polls, Ln.imm = 1) /\ PostOK(Ln.n)
TRead == /\ IsEvent("R")
         /\ B(Ln.rd) = blk                    \* the process read what is on the device
         /\ LET n == Ln.n IN
            /\ \/ PeekRead(n) \/ PreRead(n) \/ StartRead1(n) \/ StartRead2(n) \/ StartRead3(n) \/ UpdRead(n) \/ StopRead(n) \/ DumpRead(n)
            /\ PostOK(n)
TWrite == /\ IsEvent("W")
          /\ LET n == Ln.n IN
             /\ \/ PreFix(n) \/ StartWrite1(n) \/ StartWrite2(n) \/ UpdWrite(n) \/ StopWrite(n) \/ ClearWrite(n)
             /\ blk' = B(Ln.wr)              \* the bytes the process handed to write(2) are the ones the step writes
             /\ PostOK(n)
TPoll == IsEvent("P") /\ Poll(Ln.n) /\ PostOK(Ln.n)
TTick == IsEvent("T") /\ Advance(Ln.d) /\ blk = B(Ln.blk) /\ now' = Ln.now
TCrash == IsEvent("K") /\ Crash(Ln.n) /\ blk = B(Ln.blk)
TCorrupt == /\ IsEvent("C") /\ blk' = B(Ln.blk) /\ corrupted' = TRUE
            /\ UNCHANGED <<sbi, now, nd, hist, used, crashes, forced>>

TraceInit == Init /\ l = 1
TraceNext == TInit \/ TLaunch \/ TRead \/ TWrite \/ TPoll \/ TTick \/ TCrash \/ TCorrupt
TraceSpec == TraceInit /\ [][TraceNext]_tvars
TraceAccepted == TLCGet("stats").diameter - 1 = Len(Tr)
=============================================================================
