------------------------------ MODULE EvalAbs ------------------------------
(* Batch driver: evaluates Ext4Abs!FailedConjuncts on every line of the ndjson file named by the       *)
(* environment variable STATES and writes one JSON object per state to the file named by OUT.          *)
(* Optional PAIRS (ndjson of [a, b] index pairs, 1-based) additionally evaluates TreeEq.               *)
(* Run without a behaviour specification: TLC only evaluates the ASSUME below.                         *)
EXTENDS Ext4Abs, Json, IOUtils, SequencesExt

States == ndJsonDeserialize(IOEnv.STATES)

Verdict(st) == LET f == FailedConjuncts(st) IN [consistent |-> f = {}, failed |-> SetToSeq(f)]

Pairs == IF "PAIRS" \in DOMAIN IOEnv /\ IOEnv.PAIRS # "" THEN ndJsonDeserialize(IOEnv.PAIRS) ELSE <<>>

Results == [k \in DOMAIN States |-> Verdict(States[k])]

TreeResults == [k \in DOMAIN Pairs |-> [a |-> Pairs[k][1], b |-> Pairs[k][2],
                                         eq |-> TreeEq(States[Pairs[k][1]], States[Pairs[k][2]])]]

ASSUME /\ ndJsonSerialize(IOEnv.OUT, Results)
       /\ (Pairs = <<>> \/ ndJsonSerialize(IOEnv.OUT \o ".pairs", TreeResults))
       /\ PrintT(<<"EvalAbs", Len(States)>>)
=============================================================================
