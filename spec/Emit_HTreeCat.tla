--------------------------- MODULE Emit_HTreeCat ---------------------------
(* Writes the boundary catalogue of HTree.tla (directory sizes, in leaf blocks, at which the rebuilt index changes shape)
   as JSON (IOEnv.OUT): {"cat": [{bs, csum, kind, at, leaves, per, len, levels, rlim, nlim}, ...]}                      *)
EXTENDS HTree, Json, IOUtils, SequencesExt
VARIABLE x
Univ == [cat |-> SetToSeq(Catalogue({1024, 2048, 4096}, {0, 1}, 255) \cup Catalogue({1024}, {0, 1}, 8))]
ASSUME JsonSerialize(IOEnv.OUT, Univ)
Init == x = 0
Next == x' = x /\ UNCHANGED x
=============================================================================
