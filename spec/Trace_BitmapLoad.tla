-------------------------- MODULE Trace_BitmapLoad --------------------------
(* Trace validation for C17 (thread part): the events hook H3 emits from lib/ext2fs/rw_bitmaps.c while
   harness/bmload.c loads the bitmaps of an image, bracketed by the driver's Load / Done lines, must be a
   behaviour of BitmapLoad:
     Load(G, nreq, flex, ..., fail)       the geometry and the <<group, kind, error class>> triples of the bitmaps
                                          the driver damaged (bad checksum, unreadable block) and that the loader reads
     ThStart(tid, first, last, mt)        one per range of the partition formula, with exactly its bounds
     Enter(tid, g, kind, held, inside)    the thread's next (group, kind), which is not a damaged one; enabled only
                                          while no other thread is between Enter and Leave; held = 1 (the mutex is
                                          really held; -1 on the sequential path, which has none) and inside = 0
     Leave(tid, g, kind)
     ThEnd(tid, rv)                       rv = 0 after the thread's last pair; rv = 1 exactly when its next pair is damaged
     Done(rv, rc, bm, im, same_xx)       after all threads ended: the join loop of the specification gives the call's
                                          result -- error class of the first damaged pair or success, bitmaps absent
                                          or installed with every (group, kind) loaded exactly once -- and the driver
                                          found error code, presence and content of the bitmaps and the flags equal to
                                          the single-threaded load of the same image
   Enter stands for the thread's unlogged Read step followed by Enter (Read touches no shared state).
   tid is the first group of the thread's range (unique per thread).                                         *)
EXTENDS BitmapLoad, Sequences, Json, IOUtils
VARIABLES l
tvars == <<vars, l>>
Tr == ndJsonDeserialize(IOEnv.TRACE)
Ln == Tr[l]
IsEvent(e) == l <= Len(Tr) /\ Tr[l].e = e /\ l' = l + 1
Idx(tid) == CHOOSE i \in Thr : i < N(par) /\ First(par, i) = tid
Known(tid) == \E i \in Thr : i < N(par) /\ First(par, i) = tid

FailOf == {<<Ln.fail[j][1], Ln.fail[j][2]>> : j \in 1..Len(Ln.fail)}
CodeOf(x) == LET j == CHOOSE j \in 1..Len(Ln.fail) : <<Ln.fail[j][1], Ln.fail[j][2]>> = x IN Ln.fail[j][3]
ParOf == [G |-> Ln.G, nreq |-> Ln.nreq, flex |-> Ln.flex, hasflex |-> Ln.hasflex = 1, chthr |-> Ln.chthr = 1,
          kinds |-> Ln.kinds, bad |-> {}, fail |-> FailOf, codes |-> [x \in FailOf |-> CodeOf(x)]]
TLoad == /\ IsEvent("Load") /\ Ln.nreq >= 1 /\ N(ParOf) <= MaxT
         /\ \A x \in FailOf : x[1] >= 0 /\ x[1] < Ln.G /\ x[2] >= 0 /\ x[2] < Ln.kinds
         /\ par' = ParOf /\ th' = [i \in Thr |-> Idle] /\ lock' = -1 /\ inside' = 0 /\ shared' = {}
         /\ cnt' = [x \in (0..(Ln.G - 1)) \X (0..(Ln.kinds - 1)) |-> 0] /\ flags' = FALSE /\ joined' = FALSE
         /\ jn' = 0 /\ rv' = None /\ tacc' = FALSE /\ maps' = TRUE
TStart == /\ IsEvent("ThStart") /\ Known(Ln.tid)
          /\ LET i == Idx(Ln.tid) IN
             /\ Ln.first = First(par, i) /\ Ln.last = Last(par, i) /\ (Ln.mt = 1) = ~Sequential(par)
             /\ Start(i)
TEnter == /\ IsEvent("Enter") /\ Known(Ln.tid)
          /\ LET i == Idx(Ln.tid) IN
             /\ Ln.g = th[i].g /\ Ln.kind = th[i].k
             /\ Ln.held = (IF Sequential(par) THEN -1 ELSE 1) /\ Ln.inside = 0
             /\ EnterFrom(i, "run")
TLeave == /\ IsEvent("Leave") /\ Known(Ln.tid)
          /\ LET i == Idx(Ln.tid) IN Ln.g = th[i].g /\ Ln.kind = th[i].k /\ Leave(i)
TEnd == /\ IsEvent("ThEnd") /\ Known(Ln.tid)
        /\ LET i == Idx(Ln.tid) IN
           IF Ln.rv = 0 THEN th[i].err = None /\ End(i) ELSE FailEnd(i)
\* the tail-problem flags are compared with the single-threaded load by the driver (same_f): `bad` is not known here
TDone == /\ IsEvent("Done") /\ JoinAll
         /\ Ln.rv = (IF rv' = None THEN 0 ELSE 1)
         /\ Ln.rc = (IF rv' = None THEN 0 ELSE par.codes[rv'])
         /\ Ln.bm = (IF maps' THEN 1 ELSE 0) /\ Ln.im = (IF maps' THEN 1 ELSE 0)
         /\ Ln.same_rc = 1 /\ Ln.same_b = 1 /\ Ln.same_i = 1 /\ Ln.same_f = 1

TraceInit == /\ par = [G |-> 1, nreq |-> 1, flex |-> 1, hasflex |-> FALSE, chthr |-> FALSE, kinds |-> 1, bad |-> {},
                       fail |-> {}, codes |-> <<>>]
             /\ th = [i \in Thr |-> Idle] /\ lock = -1 /\ inside = 0 /\ shared = {}
             /\ cnt = [x \in {<<0, 0>>} |-> 0] /\ flags = FALSE /\ joined = TRUE
             /\ jn = 1 /\ rv = None /\ tacc = FALSE /\ maps = TRUE /\ l = 1
TraceNext == TLoad \/ TStart \/ TEnter \/ TLeave \/ TEnd \/ TDone
TraceSpec == TraceInit /\ [][TraceNext]_tvars
TraceAccepted == TLCGet("stats").diameter - 1 = Len(Tr)
\* after a load (the flags are not modelled here: bad = {} stands for "unknown")
Result == joined => (l = 1 \/ /\ rv = MinFail(par) /\ maps = (par.fail = {})
                              /\ maps => (shared = AllPairs /\ \A x \in AllPairs : cnt[x] = 1))
=============================================================================
