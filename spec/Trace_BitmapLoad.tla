-------------------------- MODULE Trace_BitmapLoad --------------------------
(* Trace validation for C17 (thread part): the events hook H3 emits from lib/ext2fs/rw_bitmaps.c while
   harness/bmload.c loads the bitmaps of an image, bracketed by the driver's Load / Done lines, must be a
   behaviour of BitmapLoad:
     ThStart(tid, first, last, mt)        one per range of the partition formula, with exactly its bounds
     Enter(tid, g, kind, held, inside)    the thread's next (group, kind); enabled only while no other thread is
                                          between Enter and Leave; held = 1 (the mutex is really held; -1 on the
                                          sequential path, which has none) and inside = 0 are required
     Leave(tid, g, kind), ThEnd(tid, rv)
     Done(rv, same_b, same_i, same_f)     after all threads ended: every (group, kind) loaded exactly once, and the
                                          driver found bitmaps and flags equal to the single-threaded load
   Enter stands for the thread's unlogged Read step followed by Enter (Read touches no shared state).
   tid is the first group of the thread's range (unique per thread).                                         *)
EXTENDS BitmapLoad, Sequences, Json, IOUtils
VARIABLES l
tvars == <<vars, l>>
Tr == ndJsonDeserialize(IOEnv.TRACE)
Ln == Tr[l]
IsEvent(e) == l <= Len(Tr) /\ Tr[l].e = e /\ l' = l + 1
Idx(tid) == CHOOSE i \in Thr : i < N(par) /\ First(par, i) = tid
Known(tid) == \E i \in Thr : i < N(par) /\ First(par, i) = tid

ParOf == [G |-> Ln.G, nreq |-> Ln.nreq, flex |-> Ln.flex, hasflex |-> Ln.hasflex = 1, chthr |-> Ln.chthr = 1,
          kinds |-> Ln.kinds, bad |-> {}]
TLoad == /\ IsEvent("Load") /\ Ln.nreq >= 1 /\ N(ParOf) <= MaxT
         /\ par' = ParOf /\ th' = [i \in Thr |-> Idle] /\ lock' = -1 /\ inside' = 0 /\ shared' = {}
         /\ cnt' = [x \in (0..(Ln.G - 1)) \X (0..(Ln.kinds - 1)) |-> 0] /\ flags' = FALSE /\ joined' = FALSE
TStart == /\ IsEvent("ThStart") /\ Known(Ln.tid)
          /\ LET i == Idx(Ln.tid) IN
             /\ Ln.first = First(par, i) /\ Ln.last = Last(par, i) /\ (Ln.mt = 1) = ~Sequential(par)
             /\ Start(i)
TEnter == /\ IsEvent("Enter") /\ Known(Ln.tid)
          /\ LET i == Idx(Ln.tid) IN
             /\ Ln.g = th[i].g /\ Ln.kind = th[i].k
             /\ Ln.held = (IF Sequential(par) THEN -1 ELSE 1) /\ Ln.inside = 0
             /\ EnterFrom(i, "run")
TLeave == /\ IsEvent("Leave") /\ Known(Ln.tid)
          /\ LET i == Idx(Ln.tid) IN Ln.g = th[i].g /\ Ln.kind = th[i].k /\ Leave(i)
TEnd == IsEvent("ThEnd") /\ Known(Ln.tid) /\ Ln.rv = 0 /\ End(Idx(Ln.tid))
TDone == /\ IsEvent("Done") /\ Join
         /\ Ln.rv = 0 /\ Ln.same_b = 1 /\ Ln.same_i = 1 /\ Ln.same_f = 1

TraceInit == /\ par = [G |-> 1, nreq |-> 1, flex |-> 1, hasflex |-> FALSE, chthr |-> FALSE, kinds |-> 1, bad |-> {}]
             /\ th = [i \in Thr |-> Idle] /\ lock = -1 /\ inside = 0 /\ shared = {}
             /\ cnt = [x \in {<<0, 0>>} |-> 0] /\ flags = FALSE /\ joined = TRUE /\ l = 1
TraceNext == TLoad \/ TStart \/ TEnter \/ TLeave \/ TEnd \/ TDone
TraceSpec == TraceInit /\ [][TraceNext]_tvars
TraceAccepted == TLCGet("stats").diameter - 1 = Len(Tr)
\* while a load is in progress
Result == joined => (l = 1 \/ (shared = AllPairs /\ \A x \in AllPairs : cnt[x] = 1))
=============================================================================
