SPECIFICATION Spec
INVARIANT FieldNotCovered
INVARIANT InsideObject
INVARIANT FieldInside
INVARIANT CountExact
CHECK_DEADLOCK FALSE
