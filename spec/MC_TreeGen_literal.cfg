\* reference copy: checks/c18.py writes the cfg it runs (the xattr classes depend on what the scratch filesystem stores)
SPECIFICATION Spec
CONSTANTS
  MinNodes = 0
  MaxNodes = 3
  MaxDepth = 2
  MaxFan = 2
  MaxMounts = 1
  NameClasses = {"n8"}
  SizeClasses = {"b1025", "sp_head"}
  TargetClasses = {"t59"}
  DevClasses = {"dev_small"}
  ModeClasses = {"m644", "m4755"}
  OwnerClasses = {"user"}
  MtimeClasses = {"t2001"}
  XattrClasses = {"none"}
  LinkKinds = {"reg", "lnk", "chr", "blk", "fifo", "sock"}
  PopLinkTypes = {"reg", "lnk", "chr", "blk", "fifo", "sock"}
  DevModeMask777 = FALSE
  DevHardlinkByInoOnly = FALSE
  DevHoleAsZeros = FALSE
  DevRdumpDropsTail = FALSE
  DevRdumpSymlinkOwner = TRUE
  KindSeq <- KindSeqMC
INVARIANT InvTreeOK
INVARIANT InvPopulateExact
INVARIANT InvRdumpExact
CHECK_DEADLOCK FALSE
