--------------------------- MODULE CsumUniverse ---------------------------
(* C14 clause (a): WHICH images the tools must be observed on, and what a journal written by the tools owes the format.

   Clause (a) says "every metadata object written by any tool carries the checksum the format defines".  The verdict
   about one filesystem image is the conjunct Csums of Ext4Abs!Consistent (independent reader).  That verdict is only as
   good as the images it is evaluated on; this module states the universe of images and makes it checkable:

   1. Geometry catalogue.  A checksum is computed over the object's on-disk size: group descriptors of 32 / 64 / 128
      bytes, inodes of 128 / 256 / 512 bytes, under both checksum kinds (crc16 of uninit_bg, crc32c of metadata_csum).
   2. Dependency catalogue.  Per object shape: what enters its checksum besides its own bytes (Inputs).  Per tool
      operation: which of those inputs it changes for existing objects (Changes).  An operation must be observed on a
      pre-state that holds, for every shape whose inputs it changes, a live object it really changes (a directory whose
      inode is renumbered, an xattr block that is moved ...): Required(op, kind).  CensusOK decides that from a census
      taken by the independent reader.
   3. Journals.  The tools also WRITE jbd2 logs (debugfs jo [-c [-v 2]] / jw / jc, e2fsck and debugfs jr rewriting the
      journal superblock after recovery, mke2fs -J / tune2fs -J creating it).  AllScenarios is the universe of such logs
      (boundary catalogue: a block whose content begins with the jbd2 magic and must be escaped, descriptor and revoke
      blocks filled exactly / overflowing by one), JournalOK the obligation on a log decoded by an independent decoder.

   DevV1CommitCoversRevoke names a deviation of the pinned tree (debugfs's writer sums the revoke blocks into the
   version-1 commit checksum; a recovery scan does not, so e2fsck calls its own tool's transaction corrupt).          *)
EXTENDS Integers, Sequences, FiniteSets
CONSTANT DevV1CommitCoversRevoke

(***************************************************************************)
(* 1. geometry                                                             *)
(***************************************************************************)
DescSizes  == {32, 64, 128}
InodeSizes == {128, 256, 512}
Kinds      == {"crc16", "crc32c"}
Geoms      == [dsize : DescSizes, isize : InodeSizes, kind : Kinds, flex : {0, 1}]

(***************************************************************************)
(* 2. what a checksum depends on                                           *)
(***************************************************************************)
\* (The MMP block -- seeded like a bitmap -- is a shape too, but every read-write open of an MMP filesystem sleeps 2 * check
\* interval + 1 s; it is observed on one dedicated image (mke2fs -O mmp, then tune2fs -f -U) instead of on every pre-state.)
Shapes == {"sb", "gd", "bb", "ib", "inode", "extblk", "dirleaf_live", "dirleaf_empty", "dxroot", "dxnode", "xblk", "orphanblk", "jsb"}

\* shapes that carry a checksum at all under a checksum kind (crc16 = uninit_bg protects the descriptors only)
Exists(kind) == IF kind = "crc32c" THEN Shapes ELSE {"gd"}

\* inputs of the checksum besides the covered bytes of the object itself
\*   seed = crc32c(uuid) or s_checksum_seed (crc16: the uuid itself); ino / gen = owning inode number and generation;
\*   group = group number; blocknr = the block's own number; isize = on-disk inode size (length of the covered range)
Inputs(s) ==
   CASE s \in {"sb", "jsb"}  -> {}                 \* jsb: seeded by the journal's own s_uuid, which no operation here changes
     [] s = "gd"            -> {"seed", "group", "dsize"}
     [] s \in {"bb", "ib"}  -> {"seed"}
     [] s = "inode"         -> {"seed", "ino", "gen", "isize"}
     [] s \in {"extblk", "dirleaf_live", "dirleaf_empty", "dxroot", "dxnode"} -> {"seed", "ino", "gen"}
     [] s = "xblk"          -> {"seed", "blocknr"}
     [] s = "orphanblk"     -> {"seed", "ino", "gen", "blocknr"}

Ops == {"base", "tune_U", "tune_seed_U", "tune_off_on", "tune_I", "resize_grow", "resize_shrink", "fsck_D", "debugfs"}

\* inputs an operation changes for objects that exist before it (and must therefore recompute)
Changes(op) ==
   CASE op = "tune_U"        -> {"seed"}            \* new UUID, no metadata_csum_seed: every seeded checksum
     [] op = "tune_off_on"   -> {"seed"}            \* checksums dropped and rebuilt from nothing
     [] op = "tune_I"        -> {"isize"}           \* inodes rewritten at twice the size
     [] op = "resize_shrink" -> {"ino", "blocknr"}  \* inodes of the dropped group renumbered, its blocks moved
     [] OTHER                -> {}                  \* base / tune_seed_U (seed kept) / grow / fsck -D / debugfs: objects are
                                                    \* created or rewritten, no input of a surviving object changes

Required(op, kind) == {s \in Exists(kind) : Inputs(s) \cap Changes(op) # {}}

\* operations that make sense on a geometry (tune2fs -I needs room to double and refuses flex_bg; the seed feature needs crc32c)
Applicable(op, g) ==
   CASE op = "tune_I"      -> g.isize < 512 /\ g.flex = 0
     [] op = "tune_seed_U" -> g.kind = "crc32c"
     [] OTHER              -> TRUE

\* every quick run holds these; the thorough tier runs Cases completely
Cases == {c \in [op : Ops, g : Geoms] : Applicable(c.op, c.g)}
\* the pre-state that must carry every required witness: largest sizes, no flex_bg (blocks of the last group's files lie in it)
Rich(g) == g.flex = 0 /\ g.kind = "crc32c"
Mandatory == {c \in Cases : \/ c.op = "base" /\ c.g.flex = 0
                            \/ c.op # "base" /\ Rich(c.g) /\ c.g.dsize = 128 /\ c.g.isize = (IF c.op = "tune_I" THEN 256 ELSE 512)
                            \/ c.op # "base" /\ c.g.kind = "crc16" /\ c.g.dsize = 128 /\ c.g.isize = 128 /\ c.g.flex = 0}

\* census line of one (operation, pre-state): cnt[s] = live objects of shape s whose changed input really changes
CensusOK(op, kind, cnt) == \A s \in Required(op, kind) : cnt[s] >= 1

(***************************************************************************)
(* 3. journals                                                             *)
(***************************************************************************)
\* checksum version of a log: 0 none, 1 COMPAT_CHECKSUM (crc32 big-endian sum in the commit block), 2 / 3 crc32c
TagBytes(ver, b64) == (IF ver = 3 THEN 16 ELSE IF ver = 2 THEN 14 ELSE 12) - (IF b64 = 1 \/ ver = 3 THEN 0 ELSE 4)
TailBytes(ver) == IF ver >= 2 THEN 4 ELSE 0
\* tags one descriptor block holds: 12-byte header, the first tag is followed by the 16-byte UUID, checksum tail at the end
TagCap(bs, ver, b64)   == (bs - 12 - TailBytes(ver) - 16) \div TagBytes(ver, b64)
\* the format's upper bound (every tag flagged SAME_UUID)
TagCapUp(bs, ver, b64) == (bs - 12 - TailBytes(ver)) \div TagBytes(ver, b64)
RevCap(bs, ver, b64)   == (bs - 16 - TailBytes(ver)) \div (IF b64 = 1 THEN 8 ELSE 4)

\* what debugfs is asked for -> version the log must end up with (jo -c: v3 on metadata_csum, -v 2: v2; v1 otherwise)
Reqs == {"none", "c", "c2"}
WantVer(mcsum, req) == IF req = "none" THEN 0 ELSE IF mcsum = 0 THEN 1 ELSE IF req = "c2" THEN 2 ELSE 3
Cfgs == {c \in [mcsum : {0, 1}, b64 : {0, 1}, bs : {1024, 4096}, req : Reqs, origin : {"mkfs", "tune_J"}] : c.req = "c2" => c.mcsum = 1}
CfgVer(c) == WantVer(c.mcsum, c.req)

\* first transaction: n journalled blocks, `magic` = positions whose content begins with the jbd2 magic, r revoked blocks
TShapes(c) == LET cap == TagCap(c.bs, CfgVer(c), c.b64) IN
   {[n |-> 0, magic |-> {}], [n |-> 1, magic |-> {}], [n |-> 1, magic |-> {1}], [n |-> 2, magic |-> {2}], [n |-> 2, magic |-> {1, 2}],
    [n |-> cap, magic |-> {cap}], [n |-> cap + 1, magic |-> {1, cap + 1}], [n |-> cap + 1, magic |-> {cap}]}
RCounts(c) == {0, 1, RevCap(c.bs, CfgVer(c), c.b64) + 1}
\* second transaction of fixed shape (2 blocks, the second one escaped, 1 revoke): none / committed / left without commit block
Seconds == {"none", "commit", "nocommit"}
\* afterwards: nothing / e2fsck -fy (replays, rewrites the journal superblock) / debugfs jr (same through debugfs)
Afters == {"none", "fsck", "jr"}

ScenariosOf(c) == {[cfg |-> c, n |-> t.n, magic |-> t.magic, r |-> r, second |-> s2, after |-> a] :
                      t \in TShapes(c), r \in RCounts(c), s2 \in Seconds, a \in Afters}
AllScenarios == UNION {ScenariosOf(c) : c \in Cfgs}
\* in every quick run: per configuration with checksums the two-descriptor transaction with escaped blocks at both ends, and
\* the smallest escaped transaction followed by a recovery
MandatoryScenario(s) ==
   /\ s.cfg.req # "none" /\ s.cfg.origin = "mkfs"
   /\ LET cap == TagCap(s.cfg.bs, CfgVer(s.cfg), s.cfg.b64) IN
      \/ s.n = cap + 1 /\ s.magic = {1, cap + 1} /\ s.r = 1 /\ s.second = "commit" /\ s.after = "none"
      \/ s.n = 1 /\ s.magic = {1} /\ s.r = 0 /\ s.second = "none" /\ s.after = "fsck"

\* ---- obligation on a decoded log.  j = the decoder's summary:
\*   ver b64 bs start : from the journal superblock;  err : structural complaints of the decoder
\*   tags descs revoked revblocks commits : objects met while walking the log from s_start
\*   objs : one record per checksummed object  [k, st, fm, esc, logmagic, want_esc, data_ok, ctype, n]
\*          st / fm = stored / format-defined checksum as << high, low >> 16-bit halves; fd = what the deviation yields
\* and sc = the scenario that produced it.  dev = TRUE evaluates the literal (deviating) behaviour instead of the format.
ObjOK(o, ver, dev) ==
   /\ IF dev /\ o.k = "commit" /\ ver = 1 THEN o.st = o.fd ELSE o.st = o.fm
   /\ o.k = "tag" => /\ o.logmagic = 0                  \* no data block in the log begins with the magic
                     /\ (o.esc # 0) = (o.want_esc = 1)   \* escaped exactly when the true content does
                     /\ o.data_ok = 1                    \* log image = true content, first four bytes zeroed when escaped
   /\ o.k = "jsb" => o.ctype = 4                         \* JBD2_CRC32C_CHKSUM
   /\ o.k = "commit" /\ ver = 1 => o.ctype = 1 /\ o.n = 4

Committed(sc) == (IF sc.n + sc.r > 0 THEN 1 ELSE 0) + (IF sc.second = "commit" THEN 1 ELSE 0)
WantTags(sc) == sc.n + (IF sc.second # "none" THEN 2 ELSE 0)
WantRevoked(sc) == sc.r + (IF sc.second # "none" THEN 1 ELSE 0)

\* the log on disk is non-empty: s_start is set by the first COMMITTED transaction
Started(sc) == sc.n + sc.r > 0 \/ sc.second = "commit"

JournalOKd(j, sc, dev) ==
   LET ver == CfgVer(sc.cfg) IN
   /\ j.err = <<>>
   /\ j.ver = ver
   /\ \A i \in DOMAIN j.objs : ObjOK(j.objs[i], ver, dev)
   /\ ver >= 2 => \E i \in DOMAIN j.objs : j.objs[i].k = "jsb"
   /\ IF sc.after = "none" /\ Started(sc)
      THEN /\ j.start # 0
           /\ j.tags = WantTags(sc) /\ j.revoked = WantRevoked(sc) /\ j.commits = Committed(sc)
           /\ j.descs * TagCapUp(sc.cfg.bs, ver, sc.cfg.b64) >= j.tags
           /\ j.revblocks * RevCap(sc.cfg.bs, ver, sc.cfg.b64) >= j.revoked
           /\ ver >= 2 => Cardinality({i \in DOMAIN j.objs : j.objs[i].k = "tag"}) = j.tags
      ELSE j.start = 0 /\ j.tags = 0         \* recovered or never started: empty log, superblock still format-exact

JournalOK(j, sc) == JournalOKd(j, sc, FALSE)
\* the pinned tree's literal behaviour (only meaningful while the deviation constant is TRUE)
JournalDev(j, sc) == DevV1CommitCoversRevoke /\ ~JournalOK(j, sc) /\ JournalOKd(j, sc, TRUE)
=============================================================================
