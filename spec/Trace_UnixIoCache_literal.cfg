SPECIFICATION TraceSpec
CONSTANTS
  NG = 48
  K = 8
  D = 4
  InitBS = 2
  DevInvalSkipsClean = TRUE
  DevZeroBypassesCache = TRUE
  DevWriteEvictErrLost = TRUE
  TogglePre = TRUE
  SBG = 2
  IgnoredSites = {"setup.ublk", "setup.rd", "ix.sb1", "ix.sb2", "cl.ufile"}
INVARIANT Coherent
INVARIANT DurableAfterFlush
INVARIANT ErrorReported
INVARIANT Refines
INVARIANT NoDupSlots
INVARIANT LruWellFormed
INVARIANT WriteThroughClean
INVARIANT OuterCoherent
INVARIANT OuterDurable
INVARIANT OuterLogical
INVARIANT OuterErrorReported
INVARIANT OuterCloseClean
INVARIANT OuterRetAsSpecified
PROPERTY RefinesIo
POSTCONDITION TraceAccepted
CHECK_DEADLOCK FALSE
