SPECIFICATION TraceSpec
CONSTANTS
  NG = 48
  K = 8
  D = 4
  InitBS = 2
  DevInvalSkipsClean = TRUE
  DevZeroBypassesCache = TRUE
  DevWriteEvictErrLost = TRUE
  TogglePre = TRUE
INVARIANT Coherent
INVARIANT DurableAfterFlush
INVARIANT ErrorReported
INVARIANT Refines
INVARIANT NoDupSlots
INVARIANT LruWellFormed
INVARIANT WriteThroughClean
PROPERTY RefinesIo
POSTCONDITION TraceAccepted
CHECK_DEADLOCK FALSE
