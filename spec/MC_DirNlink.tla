---------------------------- MODULE MC_DirNlink ----------------------------
(* Model checking of the count abstraction used by Trace_DirNlink.tla (one indexed directory p, sub = number of its
   subdirectories, links = stored count, sat = saturated before) at scaled limits: every sequence of mkdir / rmdir -- the
   counted operations -- keeps the stored count right in e2fsck's reading (CountOK), with and without dir_nlink (that every element of
   the boundary catalogue Dir!NlinkCatalogue is taken is demanded of the conformance part by checks/c10.py).                       *)
EXTENDS Dir
CONSTANT MaxSub
VARIABLE c
Refs2(x) == 2 + x.sub
CountOK(x) == /\ \/ x.links = WantOf(FTDIR, Refs2(x))
                 \/ SaturatedOf(FTDIR, x.links, Refs2(x), x.sat)
              /\ OverflowAllowed(FTDIR, Refs2(x))
Init == c = [links |-> 2, sub |-> 0, sat |-> FALSE]
MkSub == /\ c.sub < MaxSub
      /\ IF MkdirRefusedLinks(c.links) THEN c' = c
         ELSE LET nl == MkdirLinksOf(c.links) IN c' = [links |-> nl, sub |-> c.sub + 1, sat |-> c.sat \/ (DirNlink /\ ~DevMkdirNoNlinkRule /\ nl = 1)]
RmSub == /\ c.sub > 0
      /\ c' = [c EXCEPT !.links = RmdirParentLinks(@), !.sub = @ - 1]
Next == MkSub \/ RmSub
Spec == Init /\ [][Next]_c
InvCountOK == CountOK(c)
InvLinks == c.links \in 0..(LinkMod - 1) /\ (c.links = 1 => c.sat)
=============================================================================
