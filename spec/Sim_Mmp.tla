------------------------------ MODULE Sim_Mmp ------------------------------
(* Schedule source for the replay part of X01: Mmp plus a recorded schedule.  TLC runs this module in simulation mode;
   at the end of every behaviour (all nodes done or crashed) the schedule is printed as JSON ("SCHED" lines), one entry
   per step with what the specification says the step does: the node, what it waits for afterwards (Pend), its result and
   the block after the step.  checks/x01.py replays the entries with real tool processes and compares.               *)
EXTENDS Mmp, Json
VARIABLE h
svars == <<vars, h>>

Entry == IF now' # now THEN [a |-> "T", n |-> 0, d |-> now' - now, blk |-> blk', kind |-> "", polls |-> 0, res |-> "", next |-> "", dur |-> 0, pc |-> ""]
         ELSE IF corrupted' # corrupted THEN [a |-> "C", n |-> 0, d |-> 0, blk |-> blk', kind |-> "", polls |-> 0, res |-> "", next |-> "", dur |-> 0, pc |-> ""]
         ELSE LET n == CHOOSE m \in Nodes : nd'[m] # nd[m]
                  p == Pend(nd'[n], now) IN
              [a |-> IF nd[n].pc = "idle" THEN "L" ELSE IF nd'[n].pc = "crashed" THEN "K" ELSE "S",
               n |-> n, d |-> 0, blk |-> blk', kind |-> nd'[n].kind, polls |-> nd'[n].polls, res |-> nd'[n].res,
               next |-> p.next, dur |-> p.dur, pc |-> nd[n].pc]

SInit == Init /\ h = <<>>
SNext == Next /\ h' = Append(h, Entry)
Terminal == \A n \in Nodes : nd[n].pc \in {"done", "crashed"}
\* evaluated as an invariant: prints the schedule of every finished behaviour
Emit == Terminal => PrintT(<<"SCHED", ToJson([sbi |-> sbi, steps |-> h])>>)
=============================================================================
