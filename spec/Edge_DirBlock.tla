---------------------------- MODULE Edge_DirBlock ----------------------------
(* Property C10: the TRANSITION GRAPH of the layout specification DirBlock.tla, enumerated by TLC so that the conformance
   part of checks/c10.py can take every class of edge through the real code (DESIGN 2.2, replay direction).

   Universe: one linear (or inline) directory, names 1..N (name n is NLen[n] bytes long).  The first Fill operations insert
   the names 1..Fill in this order (a full directory is the only way to reach the later blocks); then every sequence of at
   most MaxOps insertions / removals.  Every transition link_proc / unlink_proc can make from a reached layout is CLASSIFIED:

     removal   blk   "first" | "later"            block (inline: segment) that holds the entry
               pos   "head" | "mid" | "tail"      slot at offset 0 / in between / last slot of the block
               prev  "none" | "live" | "slack" | "unused" | "dots" | "dotslack"
                                                  the slot right before it: none (offset 0); in use with exactly the room its
                                                  name needs; in use and stretched (it absorbed a removed entry: "merged");
                                                  unused (inode 0); ".." (tight / stretched)
               next  "none" | "live" | "unused"   the slot right behind it
               self  "tight" | "slack"            whether the removed entry itself was stretched
     insertion blk, pos, prev as above for the slot of the OLD layout the new entry lands in, and
               how   "reuse" (an unused slot), "reuse+absorb" (an unused slot grown by the unused slot behind it),
                     "split" (the slack of a used slot; "split+absorb" when that slot first absorbed the unused slot behind it), "expand" (a new block), "convert" (inline area -> block)
               sweep 1 when link_proc changed slots it passed without landing there (absorbing unused neighbours), else 0
     both      after "none" | "ins" | "del"       the kind of the previous operation (two removals in a row, removal then
                                                  insertion into the hole, ...)

   The catalogue = the set of classes that occur, each with the first (breadth-first: shortest) operation sequence that
   takes it, labelled with the class of every one of its steps.  Written as JSON to IOEnv.OUT by the postcondition.
   Run with -workers 1 (the catalogue is accumulated in TLC register 1 of the worker).                                  *)
EXTENDS DirBlock, Json, IOUtils, SequencesExt
CONSTANTS N, NLen, G, Inline, Fill, MaxOps, MaxBlocks
VARIABLES d, inl, present, last, k, h
vars == <<d, inl, present, last, k, h>>
View == <<d, inl, present, last>>

\* the catalogue: class -> labelled operation sequence that reaches it first
Note(e, hist) == LET cur == TLCGet(1) IN IF e \in DOMAIN cur THEN TRUE ELSE TLCSet(1, cur @@ (e :> hist))

Init == d = NewDir(50, 2, 2, G, Inline) /\ inl = Inline /\ present = {} /\ last = "none" /\ k = 0 /\ h = <<>>
        /\ TLCSet(1, <<>>)
Ins(n) == /\ n \notin present
          /\ LET r == LinkExpand(d, inl, Slot(100 + n, NLen[n], 0, 1, n), G, 50, 2, 2)
                 e == InsEdge(d, inl, r, n, last)
                 hh == Append(h, [o |-> "ins", n |-> n, e |-> e])
             IN /\ r.done /\ Len(r.d) <= MaxBlocks
                /\ d' = r.d /\ inl' = r.inl /\ h' = hh /\ Note(e, hh)
          /\ present' = present \cup {n} /\ last' = "ins" /\ k' = k + 1
Del(n) == /\ n \in present
          /\ LET e == DelEdge(d, n, last)
                 hh == Append(h, [o |-> "del", n |-> n, e |-> e])
             IN d' = UnlinkDir(d, 1, n) /\ h' = hh /\ Note(e, hh)
          /\ present' = present \ {n} /\ last' = "del" /\ k' = k + 1 /\ UNCHANGED inl
Next == IF k < Fill THEN Ins(k + 1)
        ELSE k < Fill + MaxOps /\ \E n \in 1..N : Ins(n) \/ Del(n)
Spec == Init /\ [][Next]_vars

InvChain == RecLenChainCoversBlock(d, G, inl)
InvLive == LiveSlots(d) = {<<n, 100 + n, 1>> : n \in present} /\ LiveCount(d) = Cardinality(present)

Emit == LET cat == TLCGet(1) IN
        JsonSerialize(IOEnv.OUT, [n |-> N, nlen |-> NLen, fill |-> Fill, maxops |-> MaxOps, g |-> G, inline |-> Inline,
                                  edges |-> SetToSeq({[e |-> e, w |-> cat[e]] : e \in DOMAIN cat})])

L255 == [i \in 1..40 |-> 255]
LMix == <<255, 255, 120, 255, 8, 255, 120, 1, 255, 255, 8, 255>>
LInl == <<1, 8, 1, 20, 8, 1, 36, 4>>
G1kCsum == [bs |-> 1024, tail |-> 12, cs |-> 12]
G1k == [bs |-> 1024, tail |-> 0, cs |-> 0]
G4kCsum == [bs |-> 4096, tail |-> 12, cs |-> 12]
G4k == [bs |-> 4096, tail |-> 0, cs |-> 0]
=============================================================================
