SPECIFICATION TraceSpec
INVARIANT WriteAhead
INVARIANT ExactlyOnce
INVARIANT UnitOk
INVARIANT UndoContract
POSTCONDITION TraceAccepted
CHECK_DEADLOCK FALSE
