INIT Init
NEXT Next
CONSTANTS
  DevV1CommitCoversRevoke = TRUE
CHECK_DEADLOCK FALSE
