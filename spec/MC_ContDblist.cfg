SPECIFICATION DbSpec
CONSTANTS
  DbGrow = 1
  DbGrowThresh = 2
  DbInos = {1, 2}
  DbBlks = {0, 5, 8}
  DbCnts = {0, 1}
  DbInitSizes = {1, 2}
  DbMaxLen = 4
INVARIANT DbStructural
INVARIANT DbRefines
INVARIANT DbResultsAgree
CHECK_DEADLOCK FALSE
