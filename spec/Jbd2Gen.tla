------------------------------ MODULE Jbd2Gen ------------------------------
(* C03 -- the journal over more than one life of the log.

   "Afterwards the journal is empty" is a statement about what happens NEXT: the log is restarted (kernel mount,
   debugfs journal writer), new transactions are written over the beginning of the ring while the blocks of the
   transactions that were just replayed stay where they are, the system crashes again, and either front-end replays
   the journal a second time.  The second replay must apply exactly the committed, unrevoked transactions of the
   SECOND life: no block of a first-life transaction may reach the filesystem again.  What keeps the old blocks dead
   is the sequence number the first replay leaves in the journal superblock (Jbd2!JsbAfterOf).

   This module extends the generator of Jbd2 by
     Restart(sk)   the emptied journal is taken into use again: the log restarts at the first ring position with
                   transaction id  s_sequence + sk  (sk = 0: debugfs/do_journal.c uses j_tail_sequence = s_sequence;
                   sk = 1: the kernel and jbd2_journal_recover's !s_start branch use s_sequence + 1); the generator's
                   history starts afresh -- the ring keeps every block of the previous life;
     Overwrite(b)  a target block is rewritten in place without being journalled (data=ordered file data), so that a
                   re-applied stale image is visible even when no new transaction logs that block.
   Jbd2's WriteTxn / Checkpoint / Damage / Recover and its invariants (ReplayExact: fs = Final of the CURRENT life's
   history, jsb = JsbAfter, needs_recovery clear) apply unchanged to every life.

   Precondition of a restart (part of the universe, stated in the evidence): the previous recovery succeeded without
   a named deviation, the journal is marked empty, and the ring is what a sequential writer leaves -- no control block
   carries a transaction id beyond the transaction the replay stopped at (tid < JsbAfter.seq).  A block with a higher
   tid (an intact transaction behind a damaged one, a wrongly-sequenced block) is an alias of a future transaction that
   no sequence number in the superblock can rule out. *)
EXTENDS Jbd2

CONSTANTS MaxGen,       \* lives of the log a behaviour may go through (1: exactly the behaviours of Jbd2)
          Skews,        \* subset of {0, 1}
          MaxOver       \* in-place rewrites per life after the first

VARIABLES gen,          \* current life of the log (1, 2, ..)
          tid0,         \* first transaction id of this life
          nover         \* in-place rewrites in this life
gvars == <<vars, gen, tid0, nover>>

Ctl == {"desc", "revoke", "commit"}
RingTids(lg) == {lg[p].seq : p \in {q \in DOMAIN lg : lg[q].t \in Ctl}}
\* r: result record of the previous Recover (err, devs, jsbafter = the property-level superblock), lg: ring,
\* j: journal superblock as found, n: needs_recovery as found
RestartableOf(r, lg, j, n) == /\ r.err = "" /\ r.devs = {}
                              /\ j.start = 0 /\ n = 0
                              /\ \A t \in RingTids(lg) : t < r.jsbafter.seq

Restart(sk) ==
   /\ phase = "done" /\ gen < MaxGen
   /\ RestartableOf(res, log, jsb, nr)
   /\ gen' = gen + 1 /\ nover' = 0
   /\ head' = 1 /\ nseq' = jsb.seq + sk /\ tid0' = jsb.seq + sk      \* continues from what the journal superblock announces
   /\ hist' = <<>> /\ phase' = "run" /\ res' = NoRes
   /\ UNCHANGED <<jc, log, jsb, nr, fs, ver, ndmg>>

Overwrite(b) ==
   /\ gen > 1 /\ phase = "run" /\ hist = <<>> /\ jsb.start = 0 /\ nover < MaxOver
   /\ fs' = [fs EXCEPT ![b] = ver + 1] /\ ver' = ver + 1 /\ nover' = nover + 1
   /\ UNCHANGED <<jc, log, head, nseq, jsb, nr, hist, ndmg, phase, res, gen, tid0>>

GInit == Init /\ gen = 1 /\ tid0 = 1 /\ nover = 0
GNext == \/ Next /\ UNCHANGED <<gen, tid0, nover>>
         \/ \E sk \in Skews : Restart(sk)
         \/ \E b \in Blocks : Overwrite(b)
GSpec == GInit /\ [][GNext]_gvars

\* every life may append MaxTxn + 2 transactions (as Bound of Jbd2 for the first life)
GBound == nseq <= tid0 + MaxTxn + 1
GTypeOK == TypeOK /\ gen \in 1..MaxGen /\ nover \in 0..MaxOver
=============================================================================
