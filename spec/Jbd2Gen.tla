------------------------------ MODULE Jbd2Gen ------------------------------
(* C03 -- the journal over more than one life of the log.

   "Afterwards the journal is empty" is a statement about what happens NEXT: the log is restarted (kernel mount,
   debugfs journal writer), new transactions are written over the beginning of the ring while the blocks of the
   transactions that were just replayed stay where they are, the system crashes again, and either front-end replays
   the journal a second time.  The second replay must apply exactly the committed, unrevoked transactions of the
   SECOND life: no block of a first-life transaction may reach the filesystem again.  What keeps the old blocks dead
   is the sequence number the first replay leaves in the journal superblock (Jbd2!JsbAfterOf).

   This module extends the generator of Jbd2 by
     Restart(sk)   the emptied journal is taken into use again: the log restarts at the first ring position with
                   transaction id  s_sequence + sk  (sk = 0: debugfs/do_journal.c uses j_tail_sequence = s_sequence;
                   sk = 1: the kernel and jbd2_journal_recover's !s_start branch use s_sequence + 1); the generator's
                   history starts afresh -- the ring keeps every block of the previous life;
     Overwrite(b)  a target block is rewritten in place without being journalled (data=ordered file data), so that a
                   re-applied stale image is visible even when no new transaction logs that block.
   Jbd2's WriteTxn / Checkpoint / Damage / Recover and its invariants (ReplayExact: fs = Final of the CURRENT life's
   history, jsb = JsbAfter, needs_recovery clear) apply unchanged to every life.

   Precondition of a restart (part of the universe, stated in the evidence): the previous recovery succeeded without
   a named deviation, the journal is marked empty, and the ring is what a sequential writer leaves -- no control block
   carries a transaction id beyond the transaction the replay stopped at (tid < JsbAfter.seq).  A block with a higher
   tid (an intact transaction behind a damaged one, a wrongly-sequenced block) is an alias of a future transaction that
   no sequence number in the superblock can rule out.

   Transaction identifiers wrap (Jbd2: tid = (base + offset) mod 2^32).  The generator's behaviours do not depend on the
   base; what recovery does with them may.  TidBases is the boundary catalogue of the base: in every state in which Recover
   is enabled, its outcome is required to be exact for every base of the catalogue (RecoverExactAnyBase: the blocks and the
   journal superblock RecoverAt(b) leaves are Final and JsbAfter, the passes agree).  An outcome without deviation is
   therefore the same state for every base, and the behaviours that go on from it (Restart) are those explored:
     TidWrapU   offsets z on which tid 0 lands            (base = 2^32 - z:  0xffffffff, 0xfffffffe, ..)
     TidWrapS   offsets z on which tid 0x80000000 lands   (base = 0x80000000 - z:  0x7fffffff, 0x7ffffffe, ..)
     TidSmall   small bases b                             (0: offsets are the tids)
   With z ranging over 1 .. the last offset a behaviour can reach + 2, the log of the first and of the second life
   crosses the boundary at every transaction. *)
EXTENDS Jbd2

CONSTANTS MaxGen,       \* lives of the log a behaviour may go through (1: exactly the behaviours of Jbd2)
          Skews,        \* subset of {0, 1}
          MaxOver,      \* in-place rewrites per life after the first
          TidWrapU, TidWrapS, TidSmall      \* boundary catalogue of the tid base (sets of naturals)

VARIABLES gen,          \* current life of the log (1, 2, ..)
          tid0,         \* first transaction id of this life
          nover         \* in-place rewrites in this life
gvars == <<vars, gen, tid0, nover>>

Ctl == {"desc", "revoke", "commit"}
RingTids(lg) == {lg[p].seq : p \in {q \in DOMAIN lg : lg[q].t \in Ctl}}
\* r: result record of the previous Recover (err, devs, jsbafter = the property-level superblock), lg: ring,
\* j: journal superblock as found, n: needs_recovery as found
RestartableOf(r, lg, j, n) == /\ r.err = "" /\ r.devs = {}
                              /\ j.start = 0 /\ n = 0
                              /\ \A t \in RingTids(lg) : t < r.jsbafter.seq

Restart(sk) ==
   /\ phase = "done" /\ gen < MaxGen
   /\ RestartableOf(res, log, jsb, nr)
   /\ gen' = gen + 1 /\ nover' = 0
   /\ head' = 1 /\ nseq' = jsb.seq + sk /\ tid0' = jsb.seq + sk      \* continues from what the journal superblock announces
   /\ hist' = <<>> /\ phase' = "run" /\ res' = NoRes
   /\ UNCHANGED <<jc, log, jsb, nr, fs, ver, ndmg>>

Overwrite(b) ==
   /\ gen > 1 /\ phase = "run" /\ hist = <<>> /\ jsb.start = 0 /\ nover < MaxOver
   /\ fs' = [fs EXCEPT ![b] = ver + 1] /\ ver' = ver + 1 /\ nover' = nover + 1
   /\ UNCHANGED <<jc, log, head, nseq, jsb, nr, hist, ndmg, phase, res, gen, tid0>>

TidBases == {BaseWrapU(z) : z \in TidWrapU} \cup {BaseWrapS(z) : z \in TidWrapS} \cup {BaseSmall(b) : b \in TidSmall}

GInit == Init /\ gen = 1 /\ tid0 = 1 /\ nover = 0
GNext == \/ Next /\ UNCHANGED <<gen, tid0, nover>>
         \/ \E sk \in Skews : Restart(sk)
         \/ \E b \in Blocks : Overwrite(b)
GSpec == GInit /\ [][GNext]_gvars

\* every life may append MaxTxn + 2 transactions (as Bound of Jbd2 for the first life)
GBound == nseq <= tid0 + MaxTxn + 1
GTypeOK == TypeOK /\ gen \in 1..MaxGen /\ nover \in 0..MaxOver
\* the state invariants of Jbd2 for every base of the catalogue
RecoverExactAnyBase == \A b \in TidBases : RecoverExactAt(b)
\* the arithmetic itself: on the offsets a behaviour can reach (GBound: MaxTxn + 2 per life, restart at most 2 further)
\* the modulo-2^32 signed comparison is the order of the offsets and the successor is +1 modulo 2^32, for every base of
\* the catalogue -- what makes the offset representation exact
MaxOffset == MaxGen * (MaxTxn + 4) + 2
ASSUME TidOrderSound ==
   \A b \in TidBases : \A x, y \in 0..MaxOffset :
      LET C == [tb |-> b] IN
      /\ TidGt(C, x, y) = (x > y) /\ TidGeq(C, x, y) = (x >= y) /\ TidEq(C, x, y) = (x = y)
      /\ Conc(C, x + 1) = Add32(Conc(C, x), 1)
      /\ TidIsZero(C, x) = (b = BaseWrapU(x))
=============================================================================
