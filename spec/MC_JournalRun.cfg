SPECIFICATION Spec
CONSTANTS
  Blocks = {1, 2}
  MaxPlan = 3
  MaxCrash = 1
  ExtChoices = {FALSE, TRUE}
  SyncInRecover = TRUE
  ReleaseAfterFlush = TRUE
  FlushFsyncs = TRUE
  OpenFsyncs = TRUE
  SyncFsDev = TRUE
  DevSbPiecemeal = FALSE
  DevErrorLostOnCrash = FALSE
INVARIANT TypeOK
INVARIANT Idempotent
INVARIANT IdempotentSubsets
INVARIANT NeverEmptyBeforeDurable
INVARIANT CrashImagesAreDeviceProduct
INVARIANT KeepsRequesting
INVARIANT FlagAfterEmpty
INVARIANT FlagAfterEmptyCrash
INVARIANT ProductFormExact
INVARIANT Done
INVARIANT SbAtomic
INVARIANT SbAtomicOrDev
INVARIANT ErrorRemembered
INVARIANT ErrorRememberedSubsets
INVARIANT CrashedIdempotent
INVARIANT NoBlockedWrite
CHECK_DEADLOCK FALSE
