\* schedules of the literal model, 2 nodes
INIT SInit
NEXT SNext
CONSTANTS
  Nodes = {1, 2}
  Seqs = {1, 2, 3}
  KindSet = {"rw", "rwd", "fsck", "ro", "fsckn", "skip", "peek", "clear"}
  RwPolls = {0}
  FsckPolls = {7}
  MinIval = 5
  Upd = 60
  IvalSet = {5}
  TickSet = {1, 11, 60}
  MaxCrash = 1
  AllowCorrupt = FALSE
  DevNonAtomic = TRUE
  DevSeqCollision = FALSE
  DevSameNodename = FALSE
  DevStopUnconditional = FALSE
  DevNoSecondWait = FALSE
  DevNoFsckMarker = FALSE
  DevDumpClobbers = FALSE
INVARIANT Emit
CHECK_DEADLOCK FALSE
