----------------------------- MODULE C06Readers -----------------------------
(* C06 -- the READER-BOUND part of the structured universe: multi-field corruptions of undo files and qcow2 images
   (checksums recomputed by the concretiser), summary-counter corruptions of file system images, degenerate journal
   rings.  C06Universe.tla enumerates <<object class, field, value class>> with value classes that do not depend on
   the file; a reader, however, compares a field with BOUNDS made of OTHER fields (a key's size with a multiple of
   the header's block size, a table's end with the end of the file, a free count with a total).  A value that is
   harmless next to one header is out of bounds next to another.  This module states, per reader,

     * the quantities (bounds) the reader compares a field with or sizes a buffer from,
     * the catalogue of field values placed just below / on / just above every bound and between every two bounds
       that can be confused, under header variants that pull the bounds apart,
     * a small numeric model of the reader's decision (scaled constants) in which TLC decides
         - the repaired reader is safe on every catalogue element                          (ReaderSafeU, ReaderSafeQ, ReaderSafeS),
         - the catalogue is ADEQUATE: a reader that used any other bound of the same family in place of the right
           one behaves differently on some catalogue element (KillsU), and the literal readers of the pinned tree
           (literal = TRUE) are unsafe on some catalogue element                              (ReachesQ, ReachesS),

   and writes the catalogue as JSON (IOEnv.OUT) for gen/c06_inputs.py, which evaluates the symbolic values on the
   real base artefacts.  Every run over these inputs is judged by Trace_ToolExit (Robust) like the rest of C06.

   A value is a symbolic expression  [of, hi, m, d, a]:   hi = ""  ->  m * V(of) \div d + a
                                                          hi # ""  ->  (V(of) + V(hi)) \div 2   (strictly between)
   V(name) is evaluated by the concretiser on the damaged file (header variant applied first), by TLC in the model
   environment below.                                                                                                *)
EXTENDS Integers, Sequences, FiniteSets, TLC, Json, IOUtils, SequencesExt

CONSTANTS DevScanUnbounded      \* literal do_one_pass: nothing but a commit block or a foreign block ends PASS_SCAN

E(of, m, d, a) == [of |-> of, hi |-> "", m |-> m, d |-> d, a |-> a]
V1(of)         == E(of, 1, 1, 0)
Mid(lo, hi)    == [of |-> lo, hi |-> hi, m |-> 1, d |-> 1, a |-> 0]
None           == E("none", 0, 1, 0)
Around(b)      == {E(b, 1, 1, -1), E(b, 1, 1, 0), E(b, 1, 1, 1)}
Val(e, env)    == IF e.hi = "" THEN (e.m * env[e.of]) \div e.d + e.a ELSE (env[e.of] + env[e.hi]) \div 2
Mids(S)        == {Mid(x, y) : x \in S, y \in S} \ {Mid(x, x) : x \in S}

-----------------------------------------------------------------------------
(* Part U -- e2undo (misc/e2undo.c main(): header checks, key loading loop, replay loop)

   header:  block_size bs (MinBS <= bs <= MaxBS, # 0), fs_block_size fsbs (# 0), num_keys, key_offset
   buffers: key table  num_keys * sizeof(undo_key_info);  key block  bs bytes;  replay buffer  MaxExt * bs bytes
   key:     size (bytes, read with io_channel_read_blk64(count = -size) into the replay buffer: accepted only when
            size <= MaxExt * bs), fsblk (written at fsblk * fsbs on the device)
   names:   bs0 fsbs0 nk0 ko0 so0   the header as generated          fb0    length of the undo file in bs0 blocks
            kpb0                    keys per key block                 alloc  2^64 \div sizeof(undo_key_info) + 1
            bs fsbs                 the header after the variant        ext_bs = MaxExt * bs   ext_fsbs = MaxExt * fsbs
            rest                    bytes of the file behind the key's data position
            dev                     device length in fsbs blocks         ovf    2^63 \div fsbs (offset arithmetic wraps)  *)
UHdrFields == {"block_size", "fs_block_size", "num_keys", "key_offset"}
UHdrBounds == [block_size    |-> {"minbs", "maxbs"},                 \* E2UNDO_MIN_BLOCK_SIZE, E2UNDO_MAX_BLOCK_SIZE
               fs_block_size |-> {"bs0", "maxbs"},                   \* no test in the reader but # 0: the undo block size and its limit
               num_keys      |-> {"kpb0", "alloc"},                  \* one key block; the key table's size wraps
               key_offset    |-> {"fb0", "so0"}]                     \* end of the file; the superblock copy
UHdrVals == [f \in UHdrFields |->
    UNION {Around(b) : b \in UHdrBounds[f]} \cup
    CASE f = "block_size"    -> {E("c", 0, 1, 0), E("bs0", 2, 1, 0), E("bs0", 1, 2, 0), E("bs0", 1, 1, 1), V1("max32")}
      [] f = "fs_block_size" -> {E("c", 0, 1, 0), E("c", 1, 1, 0), E("bs0", 2, 1, 0), E("bs0", 64, 1, 0), E("bs0", 1, 2, 0), V1("p31"), V1("max32")}
      [] f = "num_keys"      -> {E("c", 0, 1, 0), E("nk0", 1, 1, 1), E("nk0", 1, 1, -1), V1("p32"), V1("max64")}
      [] f = "key_offset"    -> {E("c", 0, 1, 0), E("ko0", 1, 1, 1), V1("p32"), V1("p63"), V1("max64")}]
\* header elements: one or two fields damaged, header checksum recomputed
UNone == [f \in UHdrFields |-> None]
UHdrAssign == UNION {{[UNone EXCEPT ![f] = v] : v \in UHdrVals[f]} : f \in UHdrFields} \cup
              UNION {{[UNone EXCEPT ![p[1]] = v, ![p[2]] = w] : v \in UHdrVals[p[1]], w \in UHdrVals[p[2]]} :
                     p \in {q \in UHdrFields \X UHdrFields : q[1] # q[2]}}

\* header variants under which the key catalogue is enumerated: they pull the bounds made of bs and of fsbs apart
UScalings == [asis     |-> UNone,
              fsbs_x2  |-> [UNone EXCEPT !["fs_block_size"] = E("bs0", 2, 1, 0)],
              fsbs_x64 |-> [UNone EXCEPT !["fs_block_size"] = E("bs0", 64, 1, 0)],
              fsbs_d2  |-> [UNone EXCEPT !["fs_block_size"] = E("bs0", 1, 2, 0)],
              fsbs_one |-> [UNone EXCEPT !["fs_block_size"] = E("c", 1, 1, 0)],
              bs_x2    |-> [UNone EXCEPT !["block_size"] = E("bs0", 2, 1, 0)]]
UKeyFields     == {"size", "fsblk"}
USizeFamily    == {"bs", "fsbs", "ext_bs", "ext_fsbs", "rest"}        \* bounds a reader can take for one another
USizeBounds    == USizeFamily \cup {"p31", "max32"}                   \* -(int)size changes sign at 2^31
UFsblkBounds   == {"dev", "dev_ext", "p32", "ovf", "max64"}
UKeyVals == [size  |-> UNION {Around(b) : b \in USizeBounds} \cup Mids(USizeFamily) \cup {E("c", 0, 1, 0), E("c", 1, 1, 0)},
             fsblk |-> UNION {Around(b) : b \in UFsblkBounds} \cup {E("c", 0, 1, 0)}]
\* key elements: under every header variant, one key field of one key at every value (key block checksum recomputed)
UKeyCat == {[scaling |-> s, field |-> f, val |-> v] : s \in DOMAIN UScalings, f \in UKeyFields, v \in UKeyVals["size"] \cup UKeyVals["fsblk"]}
UKeyCatalogue == {e \in UKeyCat : e.val \in UKeyVals[e.field]}

\* --- the numeric model (scaled: MinBS 2, MaxBS 16, MaxExt 2; real: 1024, 1048576, 512)
MExt == 2
UModelHdr(s) ==     \* <<bs, fsbs>> of the variant, from bs0 = fsbs0 = 4
    LET env0 == [c |-> 1, bs0 |-> 4]
        a    == UScalings[s]
    IN  [bs   |-> IF a["block_size"] = None THEN 4 ELSE Val(a["block_size"], env0),
         fsbs |-> IF a["fs_block_size"] = None THEN 4 ELSE Val(a["fs_block_size"], env0)]
UModelEnv(s, rest) == LET h == UModelHdr(s)
                      IN  [c |-> 1, bs |-> h.bs, fsbs |-> h.fsbs, ext_bs |-> MExt * h.bs, ext_fsbs |-> MExt * h.fsbs,
                           rest |-> rest, p31 |-> 5000, max32 |-> 9999]
UModelEnvs == {UModelEnv(s, r) : s \in DOMAIN UScalings, r \in {3, 700}}
\* the reader: a key is accepted when its size does not exceed `bound`; size bytes then go into a buffer of ext_bs bytes
UAccepts(bound, env, v) == v <= env[bound]
UOverrun(env, v)        == v > env["ext_bs"]
ReaderSafeU == \A env \in UModelEnvs, e \in UKeyVals["size"] :
                  LET v == Val(e, env) IN v >= 0 /\ UAccepts("ext_bs", env, v) => ~UOverrun(env, v)
\* adequacy: taking any other bound of the family for MaxExt * bs changes the decision on some element; where the wrong
\* bound is the larger one the element overruns the buffer (this is what a mix-up of bs and fsbs does)
KillsU(b) == \E env \in UModelEnvs, e \in UKeyVals["size"] :
                LET v == Val(e, env) IN v >= 0 /\ UAccepts("ext_bs", env, v) # UAccepts(b, env, v)
OverrunsU(b) == \E env \in UModelEnvs, e \in UKeyVals["size"] :
                LET v == Val(e, env) IN v >= 0 /\ UAccepts(b, env, v) /\ UOverrun(env, v)
AdequateU == /\ \A b \in USizeFamily \ {"ext_bs"} : KillsU(b)
             /\ OverrunsU("ext_fsbs") /\ OverrunsU("rest")
             /\ \A f \in UHdrFields : \A b \in UHdrBounds[f] : Around(b) \subseteq UHdrVals[f]
             /\ \A b \in USizeBounds : Around(b) \subseteq UKeyVals["size"]

-----------------------------------------------------------------------------
(* Part Q -- qcow2 input of e2image -r (lib/ext2fs/qcow2.c qcow2_write_raw_image)

   header: cluster_bits cb (9..31), size (virtual), l1_table_offset (cluster aligned), l1_size (<= maxl1 =
           (size >> (2cb - 3)) + cluster), refcount_table_offset, refcount_table_clusters (not read by the converter)
   reads:  the L1 table, 8 * l1_size bytes at l1_table_offset: it must lie inside the file (a short read is an error,
           the table may not be used); L2 tables at offsets below the end of the file
   names:  cb0 size0 l10 n0        the header as generated         cl    cluster size after the variant
           eof_dn / eof_up         the file's length rounded down / up to a cluster
           maxl1                   the reader's limit for l1_size    fit   entries between l1_table_offset and the end of the file
   The output file is part of the input state: qcow2_read_l1_table returns errno after a short read, which is 0 unless
   an earlier call failed -- access() of a missing output file does (OutStates).                                     *)
QFields == <<"cluster_bits", "size", "l1_table_offset", "l1_size", "refcount_table_offset", "refcount_table_clusters">>
QFieldSet == {QFields[i] : i \in DOMAIN QFields}
QBounds == [cluster_bits |-> {"cbmin", "cbmax"}, size |-> {"size0"}, l1_table_offset |-> {"eof_dn", "eof_up"},
            l1_size |-> {"maxl1", "fit"}, refcount_table_offset |-> {"eof_up"}, refcount_table_clusters |-> {}]
QVals == [f \in QFieldSet |->
    CASE f = "cluster_bits"    -> Around("cbmin") \cup Around("cbmax") \cup {E("c", 0, 1, 0), E("cb0", 1, 1, -1), E("cb0", 1, 1, 1), E("c", 63, 1, 0), V1("max32")}
      [] f = "size"            -> Around("size0") \cup {E("c", 0, 1, 0), E("c", 1, 1, 0), V1("cl"), E("size0", 2, 1, 0), V1("p40"), V1("p62"), V1("max64")}
      [] f = "l1_table_offset" -> {E("c", 0, 1, 0), V1("cl"), V1("eof_dn"), V1("eof_up"), E("eof_up", 1, 1, -8), E("eof_up", 2, 1, 0), E("l10", 1, 1, 1),
                                   V1("p40"), V1("p62"), V1("p63"), V1("max64al")}
      [] f = "l1_size"         -> Around("maxl1") \cup Around("fit") \cup {E("c", 0, 1, 0), E("c", 1, 1, 0), E("n0", 1, 1, 1), V1("p28"), V1("max32")}
      [] f = "refcount_table_offset"   -> {E("c", 0, 1, 0), V1("eof_up"), V1("p63"), V1("max64")}
      [] f = "refcount_table_clusters" -> {E("c", 0, 1, 0), E("c", 2, 1, 0), V1("max32")}]
QNone == [f \in QFieldSet |-> None]
QAssign == UNION {{[QNone EXCEPT ![f] = v] : v \in QVals[f]} : f \in QFieldSet} \cup
           UNION {{[QNone EXCEPT ![p[1]] = v, ![p[2]] = w] : v \in QVals[p[1]], w \in QVals[p[2]]} :
                  p \in {q \in QFieldSet \X QFieldSet : q[1] # q[2]}}
OutStates == {"absent", "exists"}

\* --- numeric model: cluster 8 bytes (cb 3), file QF = 44 bytes, table of 2 entries at 8; limits cbmin 3 cbmax 5
QF == 44
QModel(a) ==
    LET base == [c |-> 1, cbmin |-> 3, cbmax |-> 5, cb0 |-> 3, size0 |-> 64, l10 |-> 8, n0 |-> 2, max32 |-> 9999, max64 |-> 99999, max64al |-> 99992,
                 p28 |-> 3000, p40 |-> 20000, p62 |-> 40000, p63 |-> 50000]
        cb   == IF a["cluster_bits"] = None THEN 3 ELSE Val(a["cluster_bits"], base)
        cl   == IF cb \in 0..10 THEN 2 ^ cb ELSE 8
        e1   == base @@ [cl |-> cl, eof_dn |-> (QF \div cl) * cl, eof_up |-> ((QF + cl - 1) \div cl) * cl]
        size == IF a["size"] = None THEN 64 ELSE Val(a["size"], e1)
        off  == IF a["l1_table_offset"] = None THEN 8 ELSE Val(a["l1_table_offset"], e1)
        e2   == e1 @@ [maxl1 |-> size \div 8 + cl, fit |-> IF off <= QF THEN (QF - off) \div 8 ELSE 0]
        n    == IF a["l1_size"] = None THEN 2 ELSE Val(a["l1_size"], e2)
    IN  [cb |-> cb, cl |-> cl, size |-> size, off |-> off, n |-> n, maxl1 |-> e2.maxl1, fit |-> e2.fit]
QHeaderOK(m)  == m.cb \in 3..5 /\ m.off % m.cl = 0 /\ m.n <= m.maxl1
QTableRead(m) == m.off >= 0 /\ m.off + 8 * m.n <= QF                       \* the whole table lies inside the file
\* entries the converter indexes vs entries it holds.  dev = literal qcow2_read_l1_table: a short read returns errno,
\* 0 when no earlier call failed, and the table pointer stays NULL
QUsesTable(m, dev, out) == QHeaderOK(m) /\ (QTableRead(m) \/ (dev /\ out = "exists"))
QSafe(m, dev, out)      == QUsesTable(m, dev, out) /\ m.n > 0 => QTableRead(m)
ReaderSafeQ == \A a \in QAssign, out \in OutStates : QSafe(QModel(a), FALSE, out)
ReachesQ    == /\ \E a \in QAssign : ~QSafe(QModel(a), TRUE, "exists")
               /\ \A a \in QAssign : QSafe(QModel(a), TRUE, "absent")       \* why the output state is part of the universe
AdequateQ   == /\ \A f \in QFieldSet : \A b \in QBounds[f] : V1(b) \in QVals[f]
               /\ \E a \in QAssign : LET m == QModel(a) IN QHeaderOK(m) /\ m.n > 0 /\ QTableRead(m) /\ m.off + 8 * (m.n + 1) > QF    \* the longest table that fits
               /\ \E a \in QAssign : LET m == QModel(a) IN QHeaderOK(m) /\ ~QTableRead(m) /\ m.off + 8 * (m.n - 1) <= QF          \* one entry more

-----------------------------------------------------------------------------
(* Part S -- summary counters of a file system image (superblock free counts, per-group free counts), every checksum
   recomputed.  Readers derive quantities from them: resize2fs -P (calculate_minimum_resize_size) takes
   used inodes = s_inodes_count - s_free_inodes_count to a number of groups, data need = s_blocks_count -
   SUM(min(bg_free_blocks, blocks per group) + overhead) to further groups, and uses group "groups - 1".
   The catalogue places the derived quantities on their boundaries:
     ino   asis | used0 (free = count) | used1 | usedall (free = 0) | over (free = count + 1)
     need  asis | neg (SUM one above the total) | zero | one | full (every group count 0) | bpg (every group count =
           blocks per group) | ones (every group count all-ones)                                                      *)
SIno  == {"asis", "used0", "used1", "usedall", "over"}
SNeed == {"asis", "neg", "zero", "one", "full", "bpg", "ones"}
SCatalogue == {[ino |-> i, need |-> n] : i \in SIno, n \in SNeed} \ {[ino |-> "asis", need |-> "asis"]}
\* model: 3 groups of 4 inodes and 5 data blocks; 5 inodes and 7 blocks in use
SG == 3
SModelUsedIno(i) == CASE i = "asis" -> 5 [] i = "used0" -> 0 [] i = "used1" -> 1 [] i = "usedall" -> 12 [] i = "over" -> -1
SModelNeed(n)    == CASE n = "asis" -> 7 [] n = "neg" -> -1 [] n = "zero" -> 0 [] n = "one" -> 1 [] n = "full" -> 15 [] n = "bpg" -> -1 [] n = "ones" -> -1
SLastGroup(e, dev) ==            \* the group index the calculation ends with; -2 = refused / early return
    LET u == SModelUsedIno(e.ino)
        d == SModelNeed(e.need)
        g0 == (u + 3) \div 4
        g1 == IF ~dev /\ g0 = 0 THEN 1 ELSE g0
        g2 == IF d > 5 * g1 THEN g1 + (d - 5 * g1 + 4) \div 5 ELSE g1
    IN  IF u < 0 \/ d < 0 THEN -2 ELSE g2 - 1
SSafe(e, dev) == SLastGroup(e, dev) = -2 \/ SLastGroup(e, dev) \in 0..(SG - 1)
ReaderSafeS == \A e \in SCatalogue : SSafe(e, FALSE)
ReachesS    == \E e \in SCatalogue : ~SSafe(e, TRUE)

-----------------------------------------------------------------------------
(* Part R -- degenerate journal rings (e2fsck/recovery.c do_one_pass PASS_SCAN, debugfs logdump).

   A ring of RL log blocks; s_start = block 1, expected sequence 0.  Block kinds: descriptor with 1 tag (D1), with 2 tags
   (D2), with RL - 1 tags (DW: the blocks it describes wrap around the whole ring back onto itself), revoke (R), commit
   (C), each carrying sequence 0 or 1, and X (no journal block).  The scan reads the block at pos: X or an unexpected
   sequence ends it; a descriptor moves pos past its data blocks; a revoke block moves on by one; a commit block moves
   on by one and raises the expected sequence.  Only X / a foreign sequence end the literal scan: on a ring the walk of
   which never meets one it circles for ever (DevScanUnbounded).  The repaired scan counts its trips: a log of RL blocks
   is exhausted after RL trips.
   The catalogue = every ring on which the literal scan does not end, unvisited blocks X (canonical form).           *)
RL == 4
RKinds == {"D1", "D2", "DW", "R", "C"}
RSyms  == {[k |-> k, s |-> s] : k \in RKinds, s \in {0, 1}} \cup {[k |-> "X", s |-> 0]}
Rings  == [1..RL -> RSyms]
RAdv(sym) == CASE sym.k = "D1" -> 2 [] sym.k = "D2" -> 3 [] sym.k = "DW" -> RL [] OTHER -> 1
RWrap(p)  == ((p - 1) % RL) + 1
\* one trip of the scan from <<pos, seq>>: the next <<pos, seq>> or <<0, seq>> when the scan ends
RStep(r, st) == LET sym == r[st[1]]
                IN  IF sym.k = "X" \/ sym.s # st[2] THEN <<0, st[2]>>
                    ELSE <<RWrap(st[1] + RAdv(sym)), IF sym.k = "C" THEN st[2] + 1 ELSE st[2]>>
RECURSIVE RWalk(_, _, _)
RWalk(r, st, n) == IF n = 0 \/ st[1] = 0 THEN st ELSE RWalk(r, RStep(r, st), n - 1)
RECURSIVE RVisited(_, _, _)
RVisited(r, st, n) == IF n = 0 \/ st[1] = 0 THEN {} ELSE {st[1]} \cup RVisited(r, RStep(r, st), n - 1)
\* two commits at most raise the sequence (values 0, 1): 3 * RL trips without an end = never an end
REndless(r)  == RWalk(r, <<1, 0>>, 3 * RL)[1] # 0
RCanon(r)    == LET vis == RVisited(r, <<1, 0>>, 3 * RL) IN \A p \in 1..RL : p \notin vis => r[p].k = "X"
RCatalogue   == {r \in Rings : REndless(r) /\ RCanon(r)}
RName(sym)   == IF sym.k = "X" THEN "X" ELSE sym.k \o (IF sym.s = 0 THEN ".0" ELSE ".1")
\* what the concretiser puts into the blocks the scan never reads (X): nothing a journal block, or a copy of block 1
\* ("desc": on the ring D1 X D1 X every block is then a descriptor with the expected sequence)
RFill        == {"junk", "desc"}
AdequateR    == /\ \E r \in RCatalogue : \A p \in 1..RL : r[p].k \in {"D1", "X"}             \* descriptors only, no commit
                /\ \E r \in RCatalogue : \E p \in 1..RL : r[p].k = "DW"                 \* a descriptor chain that wraps
                /\ \E r \in RCatalogue : \E p \in 1..RL : r[p].k = "R"
                /\ \E r \in RCatalogue : r[1].k = "C"                                   \* behind a committed transaction

\* the scan as a behaviour: TLC checks that the repaired scan ends within RL + 1 trips on every ring of the catalogue
\* and of a sample of ordinary rings, and (MC_C06Readers_unbounded.cfg) that the literal one does not
VARIABLES ring, pos, seq, trips
vars == <<ring, pos, seq, trips>>
ROrdinary == {r \in Rings : \A p \in 1..RL : r[p].k \in {"D1", "C", "X"} /\ r[p].s = 0}
Init == ring \in RCatalogue \cup ROrdinary /\ pos = 1 /\ seq = 0 /\ trips = 0
Trip == /\ pos # 0
        /\ IF ~DevScanUnbounded /\ trips + 1 > RL
           THEN pos' = 0 /\ seq' = seq
           ELSE LET st == RStep(ring, <<pos, seq>>) IN pos' = st[1] /\ seq' = st[2]
        /\ trips' = IF trips <= 3 * RL THEN trips + 1 ELSE trips
        /\ ring' = ring
Next == Trip \/ (pos = 0 /\ UNCHANGED vars)
Spec == Init /\ [][Next]_vars /\ WF_vars(Trip)
ScanBounded  == pos # 0 => trips <= RL
ScanEnds     == <>(pos = 0)

-----------------------------------------------------------------------------
ASSUME ReaderSafeU /\ AdequateU
ASSUME ReaderSafeQ /\ ReachesQ /\ AdequateQ
ASSUME ReaderSafeS /\ ReachesS
ASSUME AdequateR

Univ == [undo_hdr  |-> SetToSeq(UHdrAssign),
         undo_key  |-> SetToSeq(UKeyCatalogue),
         undo_scalings |-> UScalings,
         qcow_hdr  |-> SetToSeq(QAssign),
         qcow_out  |-> SetToSeq(OutStates),
         summary   |-> SetToSeq(SCatalogue),
         rings     |-> SetToSeq({[p \in 1..RL |-> RName(r[p])] : r \in RCatalogue}),
         ring_fill |-> SetToSeq(RFill)]
ASSUME JsonSerialize(IOEnv.OUT, Univ)
ASSUME PrintT(<<"C06READERS", Cardinality(UHdrAssign), Cardinality(UKeyCatalogue), Cardinality(QAssign), Cardinality(SCatalogue), Cardinality(RCatalogue)>>)
=============================================================================
