---------------------------- MODULE BitmapLoad ----------------------------
(* Threaded loading of the allocation bitmaps: lib/ext2fs/rw_bitmaps.c, ext2fs_rw_bitmaps() (read side),
   read_bitmaps_thread(), read_bitmaps_range_start(), read_bitmaps_range_end(), read_bitmaps_cleanup_on_error().

   ext2fs_rw_bitmaps(fs, flags, num_threads) splits the G block groups among n threads by the formula below
   (including the flex_bg rounding and the fall-backs to the sequential path), starts the threads and joins
   them.  Each thread walks its range; per group and per bitmap kind (block, inode) it reads the on-disk bitmap
   without any lock (Read), then takes the one mutex, copies the group's bits into the shared in-memory
   bitmap (Enter .. Leave: ext2fs_set_*_bitmap_range2, a read-modify-write of a structure that is not
   thread-safe) and releases the mutex.  Tail problems are collected in a per-thread flag word and or-ed
   together after the join.

   A bitmap that cannot be loaded (the block cannot be read: EXT2_ET_*_BITMAP_READ; its checksum is wrong:
   EXT2_ET_*_BITMAP_CSUM_INVALID) ends the thread that met it at once with that error (`goto cleanup`); the other
   threads go on.  The main thread joins the threads in index order (JoinStep: `if (rc && !retval) retval = rc`,
   the first error is kept) and then either finishes the load (read_bitmaps_range_end: tail flags into fs->flags,
   bitmaps stay installed) or, if any thread failed, frees both bitmaps (read_bitmaps_cleanup_on_error:
   fs->block_map = fs->inode_map = 0, fs->flags untouched) and returns the error.  The sequential path
   (read_bitmaps_range) is the same protocol with one "thread", the caller.

   The property: whatever the number of threads and the interleaving, the outcome (error returned, bitmaps
   installed or absent, their content, the tail flags) equals SeqOutcome(par), the outcome of the single-threaded
   load of the same image -- in particular the call fails iff some thread failed.

   The update is modelled as a non-atomic read-modify-write of `shared` (Enter takes a snapshot, Leave writes
   snapshot + the group), so that a missing lock loses updates.  UseLock = FALSE is the mutant.
   DevJoinLastWins = TRUE is a deviating join loop that keeps the result of the thread joined last.

   par (a variable so that the trace specification can validate loads of many geometries in one run):
     G groups, nreq requested threads, flex = 2^s_log_groups_per_flex, hasflex, chthr = CHANNEL_FLAGS_THREADS on
     the channel, kinds = number of bitmap kinds loaded per group (1 or 2), bad = groups with a tail problem,
     fail = the <<group, kind>> pairs whose on-disk bitmap cannot be loaded, codes = the error each of them gives. *)
EXTENDS Integers, FiniteSets, TLC
CONSTANTS MaxT,       \* thread indices 0..MaxT-1 exist
          UseLock,
          DevJoinLastWins
VARIABLES par, th, lock, inside, shared, cnt, flags, joined,
          jn,         \* join loop: index of the next thread to join
          rv,         \* join loop: `retval` (None = 0; otherwise the pair whose error is being returned)
          tacc,       \* join loop: tail_flags accumulated
          maps        \* the bitmaps are installed in fs->block_map / fs->inode_map
vars == <<par, th, lock, inside, shared, cnt, flags, joined, jn, rv, tacc, maps>>

Thr == 0..(MaxT - 1)
Min(a, b) == IF a < b THEN a ELSE b
None == <<-1, -1>>

(* --- the partition computed by ext2fs_rw_bitmaps ------------------------------------------------------- *)
NCap(p) == Min(p.nreq, p.G)                                         \* if (num_threads > group_desc_count) ...
Avg(p) == LET a == p.G \div NCap(p) IN IF p.hasflex THEN (a \div p.flex) * p.flex ELSE a
Sequential(p) == ~p.chthr \/ p.nreq = 1 \/ NCap(p) <= 1 \/ Avg(p) = 0     \* goto fallback
N(p) == IF Sequential(p) THEN 1 ELSE NCap(p)                         \* threads that run (the caller's thread if sequential)
First(p, i) == IF Sequential(p) \/ i = 0 THEN 0 ELSE Avg(p) * i + 1
Last(p, i) == IF Sequential(p) \/ i = N(p) - 1 THEN p.G - 1 ELSE Avg(p) * (i + 1)
Owns(p, i, g) == i < N(p) /\ First(p, i) <= g /\ g <= Last(p, i)
PartitionExactFor(p) == \A g \in 0..(p.G - 1) : Cardinality({i \in 0..(N(p) - 1) : Owns(p, i, g)}) = 1
Owner(p, g) == CHOOSE i \in 0..(N(p) - 1) : Owns(p, i, g)

(* --- the outcome of the single-threaded load: the first pair (group order, block before inode) that cannot be
       loaded decides ---------------------------------------------------------------------------------------- *)
Before(x, y) == x[1] < y[1] \/ (x[1] = y[1] /\ x[2] <= y[2])
MinFail(p) == IF p.fail = {} THEN None ELSE CHOOSE x \in p.fail : \A y \in p.fail : Before(x, y)
SeqOutcome(p) == [rv |-> MinFail(p), maps |-> p.fail = {}, flags |-> (p.fail = {} /\ p.bad # {})]

Idle == [st |-> "idle", g |-> 0, k |-> 0, tmp |-> {}, tf |-> FALSE, err |-> None]
Begin(p) == /\ par = p /\ th = [i \in Thr |-> Idle] /\ lock = -1 /\ inside = 0 /\ shared = {}
            /\ cnt = [x \in (0..(p.G - 1)) \X (0..(p.kinds - 1)) |-> 0] /\ flags = FALSE /\ joined = FALSE
            /\ jn = 0 /\ rv = None /\ tacc = FALSE /\ maps = TRUE            \* read_bitmaps_range_prepare allocated them
jvars == <<jn, rv, tacc, maps>>

(* --- one thread: read_bitmaps_range_start(fs, flags, first, last, mutex, &tail_flags) --------------------- *)
Start(i) == /\ i < N(par) /\ th[i].st = "idle" /\ ~joined
            /\ th' = [th EXCEPT ![i] = [Idle EXCEPT !.g = First(par, i),
                                                     !.st = IF First(par, i) > Last(par, i) THEN "end" ELSE "run"]]
            /\ UNCHANGED <<par, lock, inside, shared, cnt, flags, joined, jvars>>
Pair(i) == <<th[i].g, th[i].k>>
\* io_channel_read_blk64 + checksum + tail check: no shared state, only the thread's own retval / tail_flags
Read(i) == /\ th[i].st = "run"
           /\ th' = IF Pair(i) \in par.fail
                    THEN [th EXCEPT ![i].st = "end", ![i].err = Pair(i)]                    \* retval = ...; goto cleanup
                    ELSE [th EXCEPT ![i].st = "rd", ![i].tf = @ \/ (th[i].g \in par.bad)]
           /\ UNCHANGED <<par, lock, inside, shared, cnt, flags, joined, jvars>>
\* unix_pthread_mutex_lock(mutex); first half of ext2fs_set_*_bitmap_range2.  `from`: the state the thread must be in
\* ("run": the successful Read is taken in the same step -- the form the trace specification uses)
EnterFrom(i, from) ==
   /\ th[i].st = from
   /\ (from = "run") => Pair(i) \notin par.fail
   /\ (UseLock /\ ~Sequential(par)) => lock = -1
   /\ lock' = IF UseLock /\ ~Sequential(par) THEN i ELSE lock
   /\ inside' = inside + 1
   /\ th' = [th EXCEPT ![i].st = "in", ![i].tmp = shared, ![i].tf = @ \/ (from = "run" /\ th[i].g \in par.bad)]
   /\ UNCHANGED <<par, shared, cnt, flags, joined, jvars>>
Enter(i) == EnterFrom(i, "rd")
\* second half of the update; unix_pthread_mutex_unlock(mutex); next group
Leave(i) == /\ th[i].st = "in"
            /\ shared' = th[i].tmp \cup {<<th[i].g, th[i].k>>}
            /\ cnt' = [cnt EXCEPT ![<<th[i].g, th[i].k>>] = @ + 1]
            /\ inside' = inside - 1
            /\ lock' = IF lock = i THEN -1 ELSE lock
            /\ th' = [th EXCEPT ![i] = LET t == [th[i] EXCEPT !.tmp = {}] IN
                        IF t.k + 1 < par.kinds THEN [t EXCEPT !.k = @ + 1, !.st = "run"]
                        ELSE IF t.g + 1 > Last(par, i) THEN [t EXCEPT !.st = "end"]
                        ELSE [t EXCEPT !.g = @ + 1, !.k = 0, !.st = "run"]]
            /\ UNCHANGED <<par, flags, joined, jvars>>
End(i) == /\ th[i].st = "end" /\ th' = [th EXCEPT ![i].st = "done"]
          /\ UNCHANGED <<par, lock, inside, shared, cnt, flags, joined, jvars>>
\* the failing Read and the end of the thread in one step (the form the trace specification uses)
FailEnd(i) == /\ th[i].st = "run" /\ Pair(i) \in par.fail
              /\ th' = [th EXCEPT ![i].st = "done", ![i].err = Pair(i)]
              /\ UNCHANGED <<par, lock, inside, shared, cnt, flags, joined, jvars>>

(* --- the main thread: for (i = 0; i < num_threads; i++) { pthread_join; if (rc && !retval) retval = rc; ... } *)
JoinOne(r, e) == IF DevJoinLastWins THEN e ELSE IF r = None THEN e ELSE r
JoinStep == /\ ~joined /\ jn < N(par) /\ th[jn].st = "done"
            /\ rv' = JoinOne(rv, th[jn].err) /\ tacc' = (tacc \/ th[jn].tf) /\ jn' = jn + 1
            /\ UNCHANGED <<par, th, lock, inside, shared, cnt, flags, joined, maps>>
\* if (retval == 0) read_bitmaps_range_end(); if (retval) read_bitmaps_cleanup_on_error();
Finish == /\ ~joined /\ jn = N(par) /\ joined' = TRUE
          /\ IF rv = None THEN flags' = tacc /\ maps' = TRUE
                          ELSE flags' = flags /\ maps' = FALSE
          /\ UNCHANGED <<par, th, lock, inside, shared, cnt, jn, rv, tacc>>
\* the whole join loop at once (the trace specification: the loop is not logged)
RECURSIVE JoinUpTo(_, _)
JoinUpTo(t, n) == IF n = 0 THEN None ELSE JoinOne(JoinUpTo(t, n - 1), t[n - 1].err)
JoinAll == /\ ~joined /\ jn = 0 /\ \A i \in 0..(N(par) - 1) : th[i].st = "done"
           /\ rv' = JoinUpTo(th, N(par)) /\ jn' = N(par) /\ tacc' = \E i \in 0..(N(par) - 1) : th[i].tf
           /\ joined' = TRUE /\ maps' = (rv' = None) /\ flags' = IF rv' = None THEN tacc' ELSE flags
           /\ UNCHANGED <<par, th, lock, inside, shared, cnt>>

ThreadStep(i) == Start(i) \/ Read(i) \/ Enter(i) \/ Leave(i) \/ End(i)
Next == (\E i \in Thr : ThreadStep(i)) \/ JoinStep \/ Finish

(* --- model checking: one geometry per initial state ----------------------------------------------------- *)
CONSTANTS Gs, Ns, Flexes, Kinds, BadSets,
          FailModes         \* subset of {"none", "one", "two"}: no bitmap fails / one pair / two pairs
\* The boundary catalogue of damaged groups: the first and the last group of the first, a middle and the last thread
\* (the conformance part enumerates the damaged images from the same operator, see Emit_BitmapLoad)
PosThreads(p) == {0, N(p) \div 2, N(p) - 1}
FailPos(p) == UNION {IF First(p, i) <= Last(p, i) THEN {First(p, i), Last(p, i)} ELSE {} : i \in PosThreads(p)}   \* (a thread's range may be empty)
PosClass(p, g) == LET i == Owner(p, g) IN IF i = 0 THEN "first" ELSE IF i = N(p) - 1 THEN "last" ELSE "middle"
FailChoices(p) ==
   (IF "none" \in FailModes THEN {{}} ELSE {})
   \cup (IF "one" \in FailModes THEN {{<<g, k>>} : g \in FailPos(p), k \in 0..(p.kinds - 1)} ELSE {})
   \cup (IF "two" \in FailModes
         THEN {{x \in S : x[1] < p.G} : S \in
              {{<<Last(p, 0), 0>>, <<First(p, N(p) - 1), p.kinds - 1>>},           \* first and last thread fail
               {<<First(p, N(p) \div 2), p.kinds - 1>>, <<Last(p, N(p) - 1), 0>>},  \* middle and last thread
               {<<First(p, 0), p.kinds - 1>>, <<Last(p, 0), 0>>}}} \ {{}}          \* twice in the first thread
         ELSE {})
\* what makes a bitmap unloadable in the conformance part (harness/bmload.c) and the bitmap kind it hits (0 block, 1 inode;
\* "trunc" cuts the image before the group's first bitmap block: every bitmap block behind the cut is unreadable)
DamageKinds == {"bcsum", "icsum", "brd", "ird", "trunc"}
NeedsCsum(d) == d \in {"bcsum", "icsum"}
Base == [G : Gs, nreq : Ns, flex : Flexes, hasflex : BOOLEAN, chthr : {TRUE}, kinds : Kinds, bad : BadSets]
WithFail(b, f) == [G |-> b.G, nreq |-> b.nreq, flex |-> b.flex, hasflex |-> b.hasflex, chthr |-> b.chthr,
                   kinds |-> b.kinds, bad |-> b.bad, fail |-> f, codes |-> [x \in f |-> 1]]
Init == \E b \in Base : /\ (\A g \in b.bad : g < b.G) /\ N(b) <= MaxT
                        /\ \E f \in FailChoices(b) : Begin(WithFail(b, f))
Spec == Init /\ [][Next]_vars
FairSpec == Spec /\ \A i \in Thr : WF_vars(ThreadStep(i)) /\ WF_vars(JoinStep) /\ WF_vars(Finish)
PartOnly == Init /\ [][FALSE]_vars              \* only the initial states: the partition formula over a large parameter space

(* --- properties ------------------------------------------------------------------------------------------ *)
PartitionExact == PartitionExactFor(par)                              \* every group belongs to exactly one thread
MutualExclusion == inside <= 1                                         \* at most one thread inside an update of the shared bitmap
LockHeld == \A i \in Thr : (th[i].st = "in" /\ UseLock /\ ~Sequential(par)) => lock = i
LoadedOnce == \A x \in DOMAIN cnt : cnt[x] <= 1
AllPairs == (0..(par.G - 1)) \X (0..(par.kinds - 1))
FailsIffThreadFailed ==                                                \* the call fails iff some thread failed
   joined => ((rv # None) <=> (\E i \in 0..(N(par) - 1) : th[i].err # None))
ResultScheduleIndependent ==                                           \* whatever the interleaving and the thread count, after the call:
   joined => /\ [rv |-> rv, maps |-> maps, flags |-> flags] = SeqOutcome(par)   \*   error, presence of the bitmaps and tail flags as single-threaded
             /\ maps => /\ shared = AllPairs                                     \*   every group's bits are in the bitmap,
                        /\ \A x \in AllPairs : cnt[x] = 1                         \*   loaded once
NeverLoadsFailing == \A x \in par.fail : cnt[x] = 0                    \* bits of a bitmap that failed verification are never installed
Termination == <>joined
=============================================================================
