---------------------------- MODULE BitmapLoad ----------------------------
(* Threaded loading of the allocation bitmaps: lib/ext2fs/rw_bitmaps.c, ext2fs_rw_bitmaps() (read side),
   read_bitmaps_thread(), read_bitmaps_range_start(), read_bitmaps_range_end().

   ext2fs_rw_bitmaps(fs, flags, num_threads) splits the G block groups among n threads by the formula below
   (including the flex_bg rounding and the fall-backs to the sequential path), starts the threads and joins
   them.  Each thread walks its range; per group and per bitmap kind (block, inode) it reads the on-disk bitmap
   without any lock (Read), then takes the one mutex, copies the group's bits into the shared in-memory
   bitmap (Enter .. Leave: ext2fs_set_*_bitmap_range2, a read-modify-write of a structure that is not
   thread-safe) and releases the mutex.  Tail problems are collected in a per-thread flag word and or-ed
   together after the join.

   The update is modelled as a non-atomic read-modify-write of `shared` (Enter takes a snapshot, Leave writes
   snapshot + the group), so that a missing lock loses updates.  UseLock = FALSE is the mutant.

   par (a variable so that the trace specification can validate loads of many geometries in one run):
     G groups, nreq requested threads, flex = 2^s_log_groups_per_flex, hasflex, chthr = CHANNEL_FLAGS_THREADS on
     the channel, kinds = number of bitmap kinds loaded per group (1 or 2), bad = groups with a tail problem. *)
EXTENDS Integers, FiniteSets, TLC
CONSTANTS MaxT,       \* thread indices 0..MaxT-1 exist
          UseLock
VARIABLES par, th, lock, inside, shared, cnt, flags, joined
vars == <<par, th, lock, inside, shared, cnt, flags, joined>>

Thr == 0..(MaxT - 1)
Min(a, b) == IF a < b THEN a ELSE b

(* --- the partition computed by ext2fs_rw_bitmaps ------------------------------------------------------- *)
NCap(p) == Min(p.nreq, p.G)                                         \* if (num_threads > group_desc_count) ...
Avg(p) == LET a == p.G \div NCap(p) IN IF p.hasflex THEN (a \div p.flex) * p.flex ELSE a
Sequential(p) == ~p.chthr \/ p.nreq = 1 \/ NCap(p) <= 1 \/ Avg(p) = 0     \* goto fallback
N(p) == IF Sequential(p) THEN 1 ELSE NCap(p)                         \* threads that run (the caller's thread if sequential)
First(p, i) == IF Sequential(p) \/ i = 0 THEN 0 ELSE Avg(p) * i + 1
Last(p, i) == IF Sequential(p) \/ i = N(p) - 1 THEN p.G - 1 ELSE Avg(p) * (i + 1)
Owns(p, i, g) == i < N(p) /\ First(p, i) <= g /\ g <= Last(p, i)
PartitionExactFor(p) == \A g \in 0..(p.G - 1) : Cardinality({i \in 0..(N(p) - 1) : Owns(p, i, g)}) = 1

Idle == [st |-> "idle", g |-> 0, k |-> 0, tmp |-> {}, tf |-> FALSE]
Begin(p) == /\ par = p /\ th = [i \in Thr |-> Idle] /\ lock = -1 /\ inside = 0 /\ shared = {}
            /\ cnt = [x \in (0..(p.G - 1)) \X (0..(p.kinds - 1)) |-> 0] /\ flags = FALSE /\ joined = FALSE

(* --- one thread: read_bitmaps_range_start(fs, flags, first, last, mutex, &tail_flags) --------------------- *)
Start(i) == /\ i < N(par) /\ th[i].st = "idle" /\ ~joined
            /\ th' = [th EXCEPT ![i] = [Idle EXCEPT !.g = First(par, i),
                                                     !.st = IF First(par, i) > Last(par, i) THEN "end" ELSE "run"]]
            /\ UNCHANGED <<par, lock, inside, shared, cnt, flags, joined>>
\* io_channel_read_blk64 + checksum + tail check: no shared state, only the thread's own tail_flags
Read(i) == /\ th[i].st = "run"
           /\ th' = [th EXCEPT ![i].st = "rd", ![i].tf = @ \/ (th[i].g \in par.bad)]
           /\ UNCHANGED <<par, lock, inside, shared, cnt, flags, joined>>
\* unix_pthread_mutex_lock(mutex); first half of ext2fs_set_*_bitmap_range2.  `from`: the state the thread must be in
EnterFrom(i, from) ==
   /\ th[i].st = from
   /\ (UseLock /\ ~Sequential(par)) => lock = -1
   /\ lock' = IF UseLock /\ ~Sequential(par) THEN i ELSE lock
   /\ inside' = inside + 1
   /\ th' = [th EXCEPT ![i].st = "in", ![i].tmp = shared, ![i].tf = @ \/ (from = "run" /\ th[i].g \in par.bad)]
   /\ UNCHANGED <<par, shared, cnt, flags, joined>>
Enter(i) == EnterFrom(i, "rd")
\* second half of the update; unix_pthread_mutex_unlock(mutex); next group
Leave(i) == /\ th[i].st = "in"
            /\ shared' = th[i].tmp \cup {<<th[i].g, th[i].k>>}
            /\ cnt' = [cnt EXCEPT ![<<th[i].g, th[i].k>>] = @ + 1]
            /\ inside' = inside - 1
            /\ lock' = IF lock = i THEN -1 ELSE lock
            /\ th' = [th EXCEPT ![i] = LET t == [th[i] EXCEPT !.tmp = {}] IN
                        IF t.k + 1 < par.kinds THEN [t EXCEPT !.k = @ + 1, !.st = "run"]
                        ELSE IF t.g + 1 > Last(par, i) THEN [t EXCEPT !.st = "end"]
                        ELSE [t EXCEPT !.g = @ + 1, !.k = 0, !.st = "run"]]
            /\ UNCHANGED <<par, flags, joined>>
End(i) == /\ th[i].st = "end" /\ th' = [th EXCEPT ![i].st = "done"]
          /\ UNCHANGED <<par, lock, inside, shared, cnt, flags, joined>>
\* pthread_join of all threads; tail_flags |= ...; read_bitmaps_range_end
Join == /\ ~joined /\ \A i \in 0..(N(par) - 1) : th[i].st = "done"
        /\ joined' = TRUE /\ flags' = \E i \in 0..(N(par) - 1) : th[i].tf
        /\ UNCHANGED <<par, th, lock, inside, shared, cnt>>

ThreadStep(i) == Start(i) \/ Read(i) \/ Enter(i) \/ Leave(i) \/ End(i)
Next == (\E i \in Thr : ThreadStep(i)) \/ Join

(* --- model checking: one geometry per initial state ----------------------------------------------------- *)
CONSTANTS Gs, Ns, Flexes, Kinds, BadSets
Params == [G : Gs, nreq : Ns, flex : Flexes, hasflex : BOOLEAN, chthr : {TRUE}, kinds : Kinds, bad : BadSets]
Init == \E p \in Params : (\A g \in p.bad : g < p.G) /\ N(p) <= MaxT /\ Begin(p)
Spec == Init /\ [][Next]_vars
FairSpec == Spec /\ \A i \in Thr : WF_vars(ThreadStep(i)) /\ WF_vars(Join)
PartOnly == Init /\ [][FALSE]_vars              \* only the initial states: the partition formula over a large parameter space

(* --- properties ------------------------------------------------------------------------------------------ *)
PartitionExact == PartitionExactFor(par)                              \* every group belongs to exactly one thread
MutualExclusion == inside <= 1                                         \* at most one thread inside an update of the shared bitmap
LockHeld == \A i \in Thr : (th[i].st = "in" /\ UseLock /\ ~Sequential(par)) => lock = i
LoadedOnce == \A x \in DOMAIN cnt : cnt[x] <= 1
AllPairs == (0..(par.G - 1)) \X (0..(par.kinds - 1))
ResultScheduleIndependent ==                                           \* whatever the interleaving, after the join:
   joined => /\ shared = AllPairs /\ \A x \in AllPairs : cnt[x] = 1     \*   every group's bits are in the bitmap, loaded once
             /\ flags = (par.bad # {})                                  \*   the tail flags are the or over all groups
Termination == <>joined
=============================================================================
