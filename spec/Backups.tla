------------------------------ MODULE Backups ------------------------------
(* Property C20: backup superblocks and group descriptors are always usable.

   Abstract state = the primary superblock/descriptors and the content of every block that can hold a backup:
     prim.sb   <<s>> : the primary superblock reduced to the fields recovery needs (s is a record, see below); <<>> = destroyed
     prim.gd   sequence over the descriptor blocks 1..DescB of the *table locations* they record (opaque non-empty tuples; <<>> = an
               unreadable / zeroed block); the whole sequence <<>> = destroyed
     sbk[g]    <<s>> | <<>>    first block of group g read as a superblock copy (valid magic, group number, checksum), 1 <= g <= MaxG
     gdk[g]    <<gd>> | <<>>   old-style descriptor table that follows the superblock copy of group g
     mgk[m,k]  <<v>> | <<>>    meta_bg: copy of descriptor block m in the 2nd (k = 1) / last (k = 2) group of meta group m
   A superblock record s has the fields
     gdc, dpb (descriptors per block = meta group size), sparse, ss2, metabg, bk = <<s_backup_bgs[0], s_backup_bgs[1]>>,
     feat, uuid, blocks, inodes, rsv, fixed     (feat/uuid/blocks/inodes/rsv/fixed are opaque to this module)

   Transcribed: lib/ext2fs/closefs.c ext2fs_bg_has_super (through Geometry!BgHasSuper), ext2fs_super_and_bgd_loc2 (Loc),
   ext2fs_flush2 with EXT2_FLAG_MASTER_SB_ONLY / EXT2_FLAG_SUPER_ONLY (FlushSb, FlushGd, FlushMg), lib/ext2fs/openfs.c ext2fs_open2 +
   ext2fs_descriptor_block_loc2 when opened from a backup (ReadFrom), e2fsck/super.c check_backup_super_block and
   e2fsck/unix.c main (FsckRepair), e2fsck/util.c get_backup_sb with its loop over block sizes, its guess of the group size
   and its probe arithmetic (SearchSizes, GuessBpg, IterHits, Search; constants in BackupSearch.tla), resize/resize2fs.c adjust_fs_info's
   sparse_super2 rules (ResizeBk) and resize_fs's final close, misc/tune2fs.c main (MASTER_SB_ONLY cleared at open,
   SUPER_ONLY set unless a request clears it), lib/ext2fs/initialize.c's s_backup_bgs normalisation (MkfsBk).
   s_first_meta_bg = 0 throughout (the tools in scope never produce another value; assumption stated in evidence).
     geo       [bs, bpg, first]: block size, blocks per group, s_first_data_block -- fixed by mke2fs, no tool changes them  *)
EXTENDS Geometry, Integers, BackupSearch
CONSTANTS MaxG,                     \* bound on the number of groups (domain of sbk / gdk)
          DevTuneMasterOnly,        \* negative controls / named deviations (all FALSE for the repaired behaviour):
          DevFsckIgnoresFeatDiff,   \*   tune2fs leaves MASTER_SB_ONLY set; check_backup_super_block ignores feature words;
          DevFlushSkipsLast,        \*   write_backup_super skipped for the last backup group;
          DevResizeKeepsOldGdt,     \*   resize2fs does not rewrite the descriptor backups of groups that existed before
          DevResizeMovesSoleBackup, \*   literal adjust_fs_info (fixes/C20_1_resize_ss2_sole_backup.patch repairs it)
          DevBackupSearchIgnoresSs2,\*   KNOWN FINDING (enabled in the conformance cfg): e2fsck's own search for a backup
                                    \*   (get_backup_sb) probes the sparse_super list 1, 3, 5, 7, 9, 25, ... and takes the first
                                    \*   block that looks like a superblock: it does not know s_backup_bgs and it accepts a stale
                                    \*   copy that an earlier geometry left in a group that no longer is a backup group
          DevSearchGuesses8xBs      \*   literal get_backup_sb: when no superblock could be opened the group size is guessed as
                                    \*   8 * blocksize for EVERY block size, although no group is larger than 65528 blocks: the
                                    \*   probes miss every backup of a default-geometry filesystem with 8k ... 64k blocks
                                    \*   (fixes/C20_backup_search_bpg.patch repairs it: min(8 * blocksize, 65528))
VARIABLES prim, sbk, gdk, mgk, last, steps, saved, rec, geo
vars == <<prim, sbk, gdk, mgk, last, steps, saved, rec, geo>>

MaxM == MaxG \div 2                 \* more meta groups than any dpb >= 2 can give
MgKeys == (0..MaxM) \X {1, 2}
NoSb == [g \in 1..MaxG |-> <<>>]
NoMg == [mk \in MgKeys |-> <<>>]
SetMin(S) == CHOOSE x \in S : \A y \in S : x <= y
SetMax(S) == CHOOSE x \in S : \A y \in S : x >= y

\* ------------------------------------------------------------------ where the format puts things
HasSuper(s, g) == BgHasSuper(g, s.sparse, s.ss2, s.bk)
DescB(s) == CeilDiv(s.gdc, s.dpb)
\* ext2fs_super_and_bgd_loc2 (first_meta_bg = 0): which of {superblock, old-style table, meta_bg block} group g carries,
\* as block offsets inside the group (-1 = none)
Loc(s, g) == LET hs == HasSuper(s, g)
                 r  == g % s.dpb
             IN [super |-> IF hs THEN 0 ELSE -1,
                 old   |-> IF ~s.metabg /\ hs THEN 1 ELSE -1,
                 new   |-> IF s.metabg /\ (r = 0 \/ r = 1 \/ r = s.dpb - 1) THEN (IF hs THEN 1 ELSE 0) ELSE -1]
SbLocs(s) == {g \in 1..(s.gdc - 1) : Loc(s, g).super >= 0}                   \* groups with a backup superblock
GdLocs(s) == IF s.metabg THEN {} ELSE {g \in 1..(s.gdc - 1) : Loc(s, g).old >= 0}                     \* ... followed by an old-style descriptor table
MgGroup(s, mk) == mk[1] * s.dpb + (IF mk[2] = 1 THEN 1 ELSE s.dpb - 1)
MgLocs(s) == IF ~s.metabg THEN {} ELSE {mk \in MgKeys : mk[1] < DescB(s) /\ MgGroup(s, mk) < s.gdc}

\* the format's own definition, stated independently of the code's arithmetic (property text)
FormatSbGroups(s) == IF s.ss2 THEN {0} \cup ({s.bk[1], s.bk[2]} \ {0})
                     ELSE IF ~s.sparse THEN 0..(s.gdc - 1)
                     ELSE ClosedBackups(s.gdc)
FormatMgGroups(s) == IF ~s.metabg THEN {}
                     ELSE {g \in 1..(s.gdc - 1) : g % s.dpb = 1 \/ g % s.dpb = s.dpb - 1}

\* lib/ext2fs/initialize.c: s_backup_bgs as mke2fs -E num_backup_sb=nb leaves it
\* (mke2fs passes {1, ~0}; entries >= group count are clamped to the last group, equal entries collapse, then sorted)
MkfsBk(nb, gdc) == LET b0 == IF nb >= 1 THEN Min(1, gdc - 1) ELSE 0
                       b1 == IF nb >= 2 THEN gdc - 1 ELSE 0
                       c1 == IF b0 = b1 THEN 0 ELSE b1
                   IN IF b0 > c1 THEN <<c1, b0>> ELSE <<b0, c1>>
\* resize/resize2fs.c adjust_fs_info: "Update the location of the backup superblocks if the sparse_super2 feature is enabled"
ResizeBk(bk, ogdc, ngdc) ==
   LET lastn == ngdc - 1  lasto == ogdc - 1 IN
   IF lastn > lasto THEN
        LET b0 == IF ogdc = 1 THEN 1 ELSE bk[1]
            \* repaired: the second slot follows the last group only when it IS the last-group backup; the literal code
            \* moved any non-zero second slot (a sole backup in group 1 sits there after ext2fs_initialize's sort) and left
            \* the blocks of the old copy allocated
            b1 == IF (ogdc < 3 /\ ngdc > 2) \/ (bk[2] # 0 /\ (DevResizeMovesSoleBackup \/ bk[2] = lasto)) THEN lastn ELSE bk[2]
        IN <<b0, b1>>
   ELSE IF lastn < lasto THEN
        LET b0 == IF bk[1] > lastn THEN 0 ELSE bk[1]
            b1a == IF bk[2] > lastn THEN 0 ELSE bk[2]
            b1 == IF lastn > 1 /\ bk[2] = lasto THEN lastn ELSE b1a
        IN <<b0, b1>>
   ELSE bk

\* ------------------------------------------------------------------ ext2fs_flush2
\* (LET-bound sets are evaluated once per flush; TLC caches a LET value, not an operator application)
FlushSb(s, master, old) ==
   IF master THEN old
   ELSE LET L == SbLocs(s)
            W == IF DevFlushSkipsLast /\ L # {} THEN L \ {SetMax(L)} ELSE L
        IN [g \in 1..MaxG |-> IF g \in W THEN <<s>> ELSE old[g]]
FlushGd(s, gd, master, superonly, old) ==
   IF superonly \/ master THEN old
   ELSE LET L == GdLocs(s) IN [g \in 1..MaxG |-> IF g \in L THEN <<gd>> ELSE old[g]]
\* "if (new_desc_blk)" is not guarded by MASTER_SB_ONLY: every non-SUPER_ONLY flush rewrites the meta_bg copies
FlushMg(s, gd, superonly, old) ==
   IF superonly \/ ~s.metabg THEN old
   ELSE LET L == MgLocs(s) IN [mk \in MgKeys |-> IF mk \in L THEN <<gd[mk[1] + 1]>> ELSE old[mk]]
\* a meta_bg descriptor block written into a group WITHOUT a superblock copy occupies the group's first block, i.e. it
\* overwrites whatever superblock copy an earlier geometry left there
DescGroups(s) == IF ~s.metabg THEN {} ELSE {g \in 1..(s.gdc - 1) : Loc(s, g).new = 0}
Clobber(s, superonly, f) == IF superonly \/ ~s.metabg THEN f
                            ELSE LET D == DescGroups(s) IN [g \in 1..MaxG |-> IF g \in D THEN <<>> ELSE f[g]]
Flush(s, gd, master, superonly) ==
   /\ prim' = [sb |-> <<s>>, gd |-> gd]
   /\ sbk' = Clobber(s, superonly, FlushSb(s, master, sbk))
   /\ gdk' = FlushGd(s, gd, master, superonly, gdk)
   /\ mgk' = FlushMg(s, gd, superonly, mgk)

NoGeo == [bs |-> 0, bpg |-> 0, first |-> 0]
\* what mke2fs accepts (misc/mke2fs.c "blocks per group count out of range", ext2fs_initialize's clamp)
GeoOK(ge) == /\ ge.bs \in BlockSizes /\ ge.first = FirstData(ge.bs)
             /\ ge.bpg % 8 = 0 /\ ge.bpg >= 256 /\ ge.bpg <= DefaultBpg(ge.bs)
Blank == /\ prim = [sb |-> <<>>, gd |-> <<>>] /\ sbk = NoSb /\ gdk = NoSb /\ mgk = NoMg
         /\ last = "mkfs" /\ steps = 0 /\ saved = prim /\ rec = "blank" /\ geo = NoGeo
Alive == prim.sb # <<>> /\ rec = "none"
Cur == prim.sb[1]
SameBut(a, b, fields) == \A f \in (DOMAIN a) \ fields : a[f] = b[f]
WellFormed(s) == /\ s.gdc >= 1 /\ s.gdc <= MaxG /\ s.dpb >= 2
                 /\ (s.ss2 => s.bk[1] < s.gdc /\ s.bk[2] < s.gdc)

\* ------------------------------------------------------------------ the tools
\* mke2fs: ext2fs_initialize does not set MASTER_SB_ONLY; the closing flush writes everything
Mkfs(s, gd, ge) ==
   /\ WellFormed(s) /\ Len(gd) = DescB(s) /\ GeoOK(ge) /\ geo' = ge
   /\ prim' = [sb |-> <<s>>, gd |-> gd]
   /\ sbk' = Clobber(s, FALSE, FlushSb(s, FALSE, NoSb)) /\ gdk' = FlushGd(s, gd, FALSE, FALSE, NoSb) /\ mgk' = FlushMg(s, gd, FALSE, NoMg)
   /\ last' = "mkfs" /\ steps' = 0 /\ saved' = prim' /\ rec' = "none"

\* resize2fs (offline): new group count, s_backup_bgs by ResizeBk, new descriptor table; "new_fs->flags &= ~MASTER_SB_ONLY"
\* and ext2fs_close => everything prescribed by the NEW geometry is rewritten
Resize(s, gd) ==
   /\ Alive /\ WellFormed(s) /\ Len(gd) = DescB(s)
   /\ SameBut(s, Cur, {"gdc", "bk", "blocks", "inodes", "rsv"})
   /\ s.bk = (IF Cur.ss2 THEN ResizeBk(Cur.bk, Cur.gdc, s.gdc) ELSE Cur.bk)
   /\ prim' = [sb |-> <<s>>, gd |-> gd]
   /\ sbk' = Clobber(s, FALSE, FlushSb(s, FALSE, sbk))
   /\ gdk' = LET L == GdLocs(s) IN
              [g \in 1..MaxG |-> IF g \in L /\ ~(DevResizeKeepsOldGdt /\ g < Cur.gdc /\ gdk[g] # <<>>) THEN <<gd>> ELSE gdk[g]]
   /\ mgk' = FlushMg(s, gd, FALSE, mgk)
   /\ last' = "resize" /\ steps' = steps + 1 /\ UNCHANGED <<saved, rec, geo>>

\* resize2fs -b / -s: descriptor size (hence dpb) and the 64bit feature change, group count does not
Resize64(s, gd) ==
   /\ Alive /\ WellFormed(s) /\ Len(gd) = DescB(s)
   /\ SameBut(s, Cur, {"dpb", "feat", "fixed", "rsv"}) /\ s.dpb # Cur.dpb
   /\ Flush(s, gd, FALSE, FALSE)
   /\ last' = "resize" /\ steps' = steps + 1 /\ UNCHANGED <<saved, rec, geo>>

\* tune2fs: main() clears MASTER_SB_ONLY right after open, so every flush writes the backup superblocks; descriptors
\* are written only when the request cleared SUPER_ONLY (their table locations do not change, only checksums / flags)
Tune(s, gd, what, full) ==
   /\ Alive /\ WellFormed(s) /\ SameBut(s, Cur, what)
   /\ s.gdc = Cur.gdc /\ s.dpb = Cur.dpb /\ s.ss2 = Cur.ss2 /\ s.metabg = Cur.metabg /\ s.bk = Cur.bk
   /\ (Cur.sparse => s.sparse)                                           \* sparse_super can be set, never cleared
   /\ Len(gd) = DescB(s) /\ (~full => gd = prim.gd)
   /\ Flush(s, gd, DevTuneMasterOnly, ~full)
   /\ last' = "tune" /\ steps' = steps + 1 /\ UNCHANGED <<saved, rec, geo>>
\* (a request that changes nothing -- the UUID it already has -- is still a flush of every superblock copy)
TuneFeature(s, gd, full) == Tune(s, gd, {"feat", "sparse"}, full)
TuneUUID(s, gd, full)    == Tune(s, gd, {"uuid"}, full)
TuneISize(s, gd)         == Tune(s, gd, {"fixed"}, TRUE) /\ s.fixed # Cur.fixed     \* tune2fs -I moves the inode tables

\* something other than the four tools changes the primary only (the kernel setting a feature bit at mount, debugfs
\* set_super_value, a stray write into the primary descriptors) -- not a step of the property, backups need not be current
EnvPrimary(s, gd) ==
   /\ Alive /\ last # "env" /\ WellFormed(s)
   /\ SameBut(s, Cur, {"feat"}) /\ Len(gd) = Len(prim.gd)
   /\ prim' = [sb |-> <<s>>, gd |-> gd]
   /\ last' = "env" /\ UNCHANGED <<sbk, gdk, mgk, steps, saved, rec, geo>>

\* check_backup_super_block: the first backup group whose copy looks like a superblock is compared with the primary
FirstCopy == LET C == {g \in SbLocs(Cur) : sbk[g] # <<>>} IN IF C = {} THEN 0 ELSE SetMin(C)
Differs(a, b) == \/ (~DevFsckIgnoresFeatDiff /\ a.feat # b.feat) \/ a.blocks # b.blocks \/ a.inodes # b.inodes \/ a.uuid # b.uuid
\* a repairing e2fsck that keeps using the primary (it is readable and its descriptors pass ext2fs_check_desc):
\* MASTER_SB_ONLY stays set unless check_backup_super_block (or one of the repairs that clear it: `force`) asks for a refresh
FsckRepair(force) ==
   /\ Alive
   /\ LET s == Cur
          need == force \/ (FirstCopy # 0 /\ Differs(sbk[FirstCopy][1], s))
      IN Flush(s, prim.gd, ~need, FALSE)
   /\ last' = "fsck" /\ steps' = steps + 1 /\ UNCHANGED <<saved, rec, geo>>

\* what ext2fs_open2 reads when told to use the superblock copy of group g: the copy itself, then either the old-style
\* table behind it or (meta_bg, ext2fs_descriptor_block_loc2) the copy in the SECOND group of every meta group -- the
\* first group's own block when the meta group has no second group
ReadFrom(g, pgd) ==
   IF sbk[g] = <<>> THEN [sb |-> <<>>, gd |-> <<>>]
   ELSE LET s == sbk[g][1] IN
        IF ~s.metabg THEN (IF gdk[g] = <<>> THEN [sb |-> <<s>>, gd |-> <<>>] ELSE [sb |-> <<s>>, gd |-> gdk[g][1]])
        ELSE LET ML == MgLocs(s) IN
             [sb |-> <<s>>,
              gd |-> [i \in 1..DescB(s) |->
                        LET mk == <<i - 1, 1>> IN
                        IF mk \in ML THEN (IF mgk[mk] = <<>> THEN <<>> ELSE mgk[mk][1])
                        ELSE IF i <= Len(pgd) THEN pgd[i] ELSE <<>>]]

\* ------------------------------------------------------------------ e2fsck/util.c get_backup_sb
\* e2fsck's own search for a backup superblock.  Two callers' situations (e2fsck/unix.c main):
\*   known = TRUE   "Group descriptors look bad... trying backup blocks": the primary superblock opened (fs->super), so the
\*                  block size and s_blocks_per_group are known and exactly one iteration of the loop runs;
\*   known = FALSE  "Superblock invalid, trying backup blocks": nothing is known; the loop tries EVERY block size from
\*                  EXT2_MIN_BLOCK_SIZE to EXT2_MAX_BLOCK_SIZE inclusive and has to guess the group size of each.
\* Each iteration probes the groups ext2fs_list_backups enumerates (1, 3, 5, 7, 9, 25, 27, ...) up to
\* limit = <size in blocks> / <group size>, inclusive, and accepts the first block with the magic number whose
\* s_log_block_size is the block size being tried.  The device is the image file: its size is the filesystem's.
ListedGroups(n) == ClosedBackups(n) \ {0}
SearchSizes(known) == LoopSizes(IF known THEN geo.bs ELSE MinBlockSize, known)
GuessBpg(pb) == IF DevSearchGuesses8xBs THEN 8 * pb ELSE DefaultBpg(pb)       \* "this_bpg = bpg ? bpg : blocksize * 8"
FsKib(s) == GroupAt(geo.bs, geo.bpg, geo.first, s.gdc)
\* the groups whose superblock copy the iteration for block size pb reads and accepts.  s = the superblock the search is
\* about (the primary as it is, or as it was before it was destroyed).  Repaired behaviour the property asks for
\* (DevBackupSearchIgnoresSs2 = FALSE): the search reaches every group and accepts prescribed copies only.
IterHits(s, known, pb) ==
   LET tb == IF known THEN geo.bpg ELSE GuessBpg(pb)
       limit == (FsKib(s) \div Kb(pb)) \div tb
       P == IF DevBackupSearchIgnoresSs2 THEN ListedGroups(limit + 1) ELSE 1..limit
   IN {g \in 1..MaxG : /\ geo.bs = pb                                        \* "EXT2_BLOCK_SIZE(sb) == blocksize"
                       /\ sbk[g] # <<>>                                      \* "sb->s_magic == EXT2_SUPER_MAGIC"
                       /\ (DevBackupSearchIgnoresSs2 \/ g \in SbLocs(s))
                       /\ \E grp \in P : ProbeAt(pb, tb, grp) = GroupAt(geo.bs, geo.bpg, geo.first, g)}
\* the copies the search can end with: literally the first hit of the first block size that has one
Search(s, known) == LET Sz == {pb \in SearchSizes(known) : IterHits(s, known, pb) # {}} IN
                    IF Sz = {} THEN {}
                    ELSE LET H == IterHits(s, known, SetMin(Sz)) IN IF DevBackupSearchIgnoresSs2 THEN {SetMin(H)} ELSE H
\* the primary descriptors are bad but the primary superblock is fine
SearchPicks == Search(Cur, TRUE)
FsckFromBackup ==
   /\ Alive /\ last = "env"
   /\ \E g \in SearchPicks :
         LET r == ReadFrom(g, prim.gd) IN
         /\ r.gd # <<>>
         /\ Flush(r.sb[1], r.gd, TRUE, FALSE)
   /\ last' = "fsck" /\ steps' = steps + 1 /\ UNCHANGED <<saved, rec, geo>>
\* a repairing e2fsck never replaces the superblock fields of a filesystem whose primary superblock was fine
FsckKeeps == [][(last = "env" /\ last' = "fsck" /\ prim.sb # <<>>) => prim'.sb = prim.sb]_vars

\* ------------------------------------------------------------------ the property's experiment
\* zero the primary superblock and the primary descriptor blocks (meta_bg: the first-group copy of every meta group that
\* has a prescribed backup)
\* sbtoo = FALSE: only the descriptor blocks are lost, the primary superblock still opens
DestroyPrimary(sbtoo) ==
   /\ Alive /\ last # "env"
   /\ saved' = prim
   /\ prim' = [sb |-> IF sbtoo THEN <<>> ELSE prim.sb,
               gd |-> IF Cur.metabg THEN [i \in 1..Len(prim.gd) |-> IF <<i - 1, 1>> \in MgLocs(Cur) THEN <<>> ELSE prim.gd[i]]
                                   ELSE <<>>]
   /\ rec' = (IF sbtoo THEN "destroyed" ELSE "gd_destroyed") /\ UNCHANGED <<sbk, gdk, mgk, last, steps, geo>>
\* e2fsck -b <first block of group g> -B <blocksize>
RecoverFrom(g) ==
   /\ rec = "destroyed" /\ g \in SbLocs(saved.sb[1])
   /\ prim' = ReadFrom(g, prim.gd)
   /\ rec' = "recovered" /\ UNCHANGED <<sbk, gdk, mgk, last, steps, saved, geo>>

\* plain e2fsck -fy after DestroyPrimary: "Superblock invalid, trying backup blocks...".  The property obliges it "when the
\* group size is the default" (and, like -b, when a prescribed backup exists); a search that finds nothing leaves the
\* primary destroyed
PlainObliged(s) == geo.bpg = DefaultBpg(geo.bs) /\ SbLocs(s) # {}
RecoverPlain ==
   /\ rec = "destroyed" /\ PlainObliged(saved.sb[1])
   /\ LET F == Search(saved.sb[1], FALSE) IN
        IF F = {} THEN prim' = prim ELSE \E g \in F : prim' = ReadFrom(g, prim.gd)
   /\ rec' = "recovered" /\ UNCHANGED <<sbk, gdk, mgk, last, steps, saved, geo>>
\* plain e2fsck -fy after only the primary descriptors were lost: "Group descriptors look bad... trying backup blocks...":
\* the same search, told the block and group size by the primary superblock
RecoverPlainGd ==
   /\ rec = "gd_destroyed" /\ PlainObliged(saved.sb[1])
   /\ LET F == Search(saved.sb[1], TRUE) IN
        IF F = {} THEN prim' = prim ELSE \E g \in F : prim' = ReadFrom(g, prim.gd)
   /\ rec' = "recovered" /\ UNCHANGED <<sbk, gdk, mgk, last, steps, saved, geo>>

\* ------------------------------------------------------------------ invariants
SbCurrent(g) == sbk[g] = prim.sb
GdCurrent(g) == gdk[g] = <<prim.gd>>
MgCurrent(mk) == mgk[mk] = <<prim.gd[mk[1] + 1]>>
\* every prescribed location holds a valid, current backup after each of the four tools
InvCurrent == (Alive /\ last # "env") =>
                 /\ \A g \in SbLocs(Cur) : SbCurrent(g)
                 /\ \A g \in GdLocs(Cur) : GdCurrent(g)
                 /\ \A mk \in MgLocs(Cur) : MgCurrent(mk)
\* the set of groups holding backups is exactly the format's
InvBackupSet == Alive =>
                 /\ {0} \cup SbLocs(Cur) = FormatSbGroups(Cur) \cap (0..(Cur.gdc - 1))
                 /\ GdLocs(Cur) = (IF Cur.metabg THEN {} ELSE SbLocs(Cur))
                 /\ {MgGroup(Cur, mk) : mk \in MgLocs(Cur)} = FormatMgGroups(Cur)
                 /\ \A g \in 0..(Cur.gdc - 1) : LET L == Loc(Cur, g) IN ~(L.old >= 0 /\ L.new >= 0) /\ (L.new >= 0 => L.new # L.super)
\* sparse_super2: at most two backup groups, both inside the filesystem
Ss2Shape == Alive /\ Cur.ss2 =>
                 /\ Cur.bk[1] < Cur.gdc /\ Cur.bk[2] < Cur.gdc /\ (Cur.bk[1] # 0 => Cur.bk[1] # Cur.bk[2])
                 /\ Cardinality(SbLocs(Cur)) <= 2
\* recovery from ANY prescribed location gives back the superblock fields and table locations of the lost primary
InvRecover == rec = "recovered" => prim = saved
TypeOK == /\ last \in {"mkfs", "resize", "tune", "fsck", "env"} /\ rec \in {"blank", "none", "destroyed", "gd_destroyed", "recovered"}
          /\ steps \in 0..10 /\ (geo = NoGeo \/ GeoOK(geo))
=============================================================================
