SPECIFICATION Spec6
CONSTANTS
  Fds = {3}
  MaxVer = 2
  MaxRefused = 2
  Signals = {6, 11}
INVARIANT TypeOK6
INVARIANT Robust
INVARIANT TableSane6
INVARIANT ExitDocumented
INVARIANT RoUnmodified
CONSTRAINT VerBound
CHECK_DEADLOCK FALSE
