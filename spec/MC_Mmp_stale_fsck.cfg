\* liveness, one crash: StaleHolderRecoverable as stated has a counterexample (crash with seq = FSCK on disk: refused until clear_mmp)
SPECIFICATION FairSpec
CONSTANTS
  Nodes = {1, 2}
  Seqs = {1, 2}
  KindSet = {"rw", "fsck", "ro"}
  RwPolls = {0, 1}
  FsckPolls = {0, 1}
  MinIval = 1
  Upd = 3
  IvalSet = {1}
  TickSet = {1}
  MaxCrash = 1
  AllowCorrupt = FALSE
  DevNonAtomic = FALSE
  DevSeqCollision = FALSE
  DevSameNodename = FALSE
  DevStopUnconditional = FALSE
  DevNoSecondWait = FALSE
  DevNoFsckMarker = FALSE
  DevDumpClobbers = FALSE
PROPERTY StaleHolderRecoverable
CHECK_DEADLOCK FALSE
