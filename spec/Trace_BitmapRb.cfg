SPECIFICATION TraceSpec
CONSTANTS
  MaxN = 100000
  DevFfzEmpty = FALSE
  DevGetEmpty = FALSE
  DevRemoveRet = FALSE
  DevSetRangeOr = FALSE
  DevCmpLast = FALSE
INVARIANT Structural
INVARIANT Refines
INVARIANT ResultsAgree
POSTCONDITION TraceAccepted
CHECK_DEADLOCK FALSE
