\* mutant: expected counterexample MutualExclusion
SPECIFICATION Spec
CONSTANTS
  Nodes = {1, 2}
  Seqs = {1, 2}
  KindSet = {"rw", "rwd", "fsck", "ro", "fsckn", "skip", "peek", "clear"}
  RwPolls = {0, 1}
  FsckPolls = {0, 1}
  MinIval = 1
  Upd = 3
  IvalSet = {1}
  TickSet = {1}
  MaxCrash = 1
  AllowCorrupt = TRUE
  DevNonAtomic = FALSE
  DevSeqCollision = FALSE
  DevSameNodename = FALSE
  DevStopUnconditional = FALSE
  DevNoSecondWait = FALSE
  DevNoFsckMarker = TRUE
  DevDumpClobbers = FALSE
INVARIANT MutualExclusion
CHECK_DEADLOCK FALSE
