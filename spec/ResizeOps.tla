------------------------------ MODULE ResizeOps ------------------------------
(* Constant-level part of Resize.tla (no variables, no constants): the facts record of an abstract filesystem, the descriptor-area /
   inode-table arithmetic of resize2fs and Marks(f, t), the branch boundaries a (filesystem, request) pair exercises.  Shared by the
   model (Resize.tla), the catalogue emitter (Emit_Resize.tla) and the conformance module (Trace_Resize.tla), which applies the same
   operators to the facts of real images.  See the header of Resize.tla for the record fields. *)
EXTENDS Naturals, Integers, Sequences, FiniteSets, TLC

Min2(a, b) == IF a < b THEN a ELSE b
Max2(a, b) == IF a > b THEN a ELSE b
CeilDiv(a, b) == (a + b - 1) \div b
GF(f, k) == f.first + (k - 1) * f.bpg                     \* first block of group k (1-based)

(***************************************************************************************************************)
(* Descriptor area and inode tables (adjust_fs_info, blocks_to_move second half, move_bg_metadata, move_itables) *)
(***************************************************************************************************************)
NewDpb(f, t) == IF t.kind = "size" THEN f.dpb ELSE f.dpbo
NewNg(f, t)  == IF t.kind = "size" THEN t.nng ELSE f.ng
OldDb(f)     == CeilDiv(f.ng, f.dpb)
NewDb(f, t)  == CeilDiv(NewNg(f, t), NewDpb(f, t))
\* adjust_reserved_gdt_blocks: the reserved blocks absorb the change as far as they can
NewRsv(f, t) == IF f.rsz /\ OldDb(f) # NewDb(f, t)
                  THEN LET n == f.rsv + OldDb(f) - NewDb(f, t) IN IF n < 0 THEN 0 ELSE n
                  ELSE f.rsv
OldArea(f)    == IF f.metabg THEN f.fmb ELSE OldDb(f) + f.rsv
NewArea(f, t) == IF f.metabg THEN f.fmb ELSE NewDb(f, t) + NewRsv(f, t)
HasSuper(f, k) == k <= f.ng /\ f.g[k].hs
\* descriptor blocks of the meta_bg part: first, second and last group of every meta group, behind the backup superblock if any
MetaDesc(f, ngx, dpbx) == IF ~f.metabg THEN {} ELSE
    {GF(f, k) + (IF HasSuper(f, k) THEN 1 ELSE 0) : k \in {k \in 1..Min2(ngx, f.ng) :
         (k - 1) \div dpbx >= f.fmb /\ ((k - 1) % dpbx) \in {0, 1, dpbx - 1}}}
LegacyDesc(f, area) == UNION {GF(f, k) + 1 .. GF(f, k) + area : k \in {k \in 1..f.ng : f.g[k].hs}}
\* blocks that the new layout needs for descriptors and that the old one did not use for them
NewDescBlocks(f, t) == (LegacyDesc(f, NewArea(f, t)) \cup MetaDesc(f, NewNg(f, t), NewDpb(f, t)))
                       \ (LegacyDesc(f, OldArea(f)) \cup MetaDesc(f, f.ng, f.dpb))
ItRange(f, k) == f.g[k].it .. f.g[k].it + f.itb - 1
MustMoveIt(f, t) == {k \in 1..Min2(f.ng, NewNg(f, t)) : ItRange(f, k) \cap NewDescBlocks(f, t) # {}}

(***************************************************************************************************************)
(* Marks: the branch boundaries of the algorithms                                                               *)
(***************************************************************************************************************)
HasFreeIno(gr) == ~gr.i1 \/ ~gr.il \/ gr.io # "all"
HasUsedIno(gr) == gr.i1 \/ gr.il \/ gr.io # "none"
Shrinks(f, t) == t.kind = "size" /\ t.nb < f.blocks
Grows(f, t)   == t.kind = "size" /\ t.nb > f.blocks
Drops(f, t)   == Shrinks(f, t) /\ t.nng < f.ng
\* groups that lie entirely beyond the new end
Beyond(f, t)  == {k \in 1..f.ng : GF(f, k) >= t.nb}
Marks(f, t) ==
       (IF Drops(f, t) /\ f.g[t.nng].il /\ (\E k \in 1..t.nng : HasFreeIno(f.g[k]))  THEN {"shrink/boundary_inode_used"} ELSE {})
  \cup (IF Drops(f, t) /\ ~f.g[t.nng].il /\ (\E k \in t.nng + 1..f.ng : HasUsedIno(f.g[k])) THEN {"shrink/boundary_inode_free"} ELSE {})
  \cup (IF Shrinks(f, t) /\ t.cnb = "data" THEN {"shrink/first_dropped_block_data"} ELSE {})
  \cup (IF Shrinks(f, t) /\ f.csum /\ (\E k \in Beyond(f, t) : k < f.ng /\ f.g[k].bu /\ f.g[k + 1].fb = "data") THEN {"shrink/uninit_then_first_block_data"} ELSE {})
  \cup (IF Shrinks(f, t) /\ f.csum /\ (\E k \in Beyond(f, t) : k < f.ng /\ f.g[k].bu /\ f.g[k + 1].lb = "data") THEN {"shrink/uninit_then_last_block_data"} ELSE {})
  \cup (IF Grows(f, t) /\ ~f.flex /\ ~f.metabg /\ MustMoveIt(f, t) # {} THEN {"grow/itable_moves_past_reserved_gdt"} ELSE {})
  \cup (IF Grows(f, t) /\ f.metabg /\ NewDb(f, t) > OldDb(f) THEN {"grow/meta_bg_new_descriptor_block"} ELSE {})
  \cup (IF Grows(f, t) /\ ~f.metabg /\ f.rsz /\ NewDb(f, t) > OldDb(f) /\ NewArea(f, t) = OldArea(f) THEN {"grow/reserved_gdt_absorbs"} ELSE {})
  \cup (IF t.kind = "conv64" /\ ~f.metabg /\ MustMoveIt(f, t) # {} THEN {"conv64/itable_moves"} ELSE {})
  \cup (IF t.kind = "conv64" /\ f.metabg THEN {"conv64/meta_bg"} ELSE {})
  \cup (IF t.kind = "conv32" /\ ~f.metabg /\ NewArea(f, t) < OldArea(f) THEN {"conv32/descriptor_area_shrinks"} ELSE {})
  \cup (IF t.kind = "conv32" /\ f.metabg THEN {"conv32/meta_bg"} ELSE {})

\* the catalogue as the constant set it evaluates to (Trace_Resize does not re-enumerate the universe; Emit_Resize ASSUMEs equality)
CatalogueNames == {"shrink/boundary_inode_used", "shrink/boundary_inode_free", "shrink/first_dropped_block_data",
                   "shrink/uninit_then_first_block_data", "shrink/uninit_then_last_block_data",
                   "grow/itable_moves_past_reserved_gdt", "grow/meta_bg_new_descriptor_block", "grow/reserved_gdt_absorbs",
                   "conv64/itable_moves", "conv64/meta_bg", "conv32/descriptor_area_shrinks", "conv32/meta_bg"}
=============================================================================
