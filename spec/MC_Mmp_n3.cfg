\* thorough: 3 nodes, three tune2fs-like nodes (start, stop), one crash, atomic read-write pairs
SPECIFICATION Spec
CONSTANTS
  Nodes = {1, 2, 3}
  Seqs = {1, 2, 3}
  KindSet = {"rw"}
  RwPolls = {0}
  FsckPolls = {0}
  MinIval = 1
  Upd = 3
  IvalSet = {1}
  TickSet = {1}
  MaxCrash = 1
  AllowCorrupt = FALSE
  DevNonAtomic = FALSE
  DevSeqCollision = FALSE
  DevSameNodename = FALSE
  DevStopUnconditional = FALSE
  DevNoSecondWait = FALSE
  DevNoFsckMarker = FALSE
  DevDumpClobbers = FALSE
INVARIANT TypeOK
INVARIANT MutualExclusion
INVARIANT NoFalseClean
INVARIANT DetectableOverlap
INVARIANT WrittenValid
INVARIANT SkipNeverWrites
INVARIANT AbortLeavesBlock
CHECK_DEADLOCK FALSE
