------------------------------ MODULE BitmapRb ------------------------------
(* lib/ext2fs/blkmap64_rb.c as an extent list with three cursors, refining a
   set of integers (property C16).

   Positions are relative to bitmap->start (the rb_* entry points subtract it).
   ext    sorted sequence of <<start, count>>  (the in-order walk of the rb tree)
   cur    [w, r, n]: wcursor, rcursor, rcursor_next as indices into ext, 0 = NULL.
          rcursor_next is only ever read while rcursor is non-NULL, so it is
          canonicalised to 0 whenever r = 0 (the H2 hook prints it the same way).
   end, rend   bitmap->end and bitmap->real_end (relative)
   S      the reference set over 0..end  (the property's "mathematical set")
   res    [op, impl, ref]: result computed by the transcription / by the set

   Interval abstraction (DESIGN 2.3).  The code only ever compares positions and adds lengths to them, so a
   position may also be read as the index of a CELL: the trace specification keeps a table of cut points
   c_0 < c_1 < ... (real bit positions drawn from a catalogue of the real constants: byte, 64-bit word, the
   256-byte chunk of ext2fs_mem_is_zero, 2^16, 2^17, 2^32) and maps a real position c_k to k, a real extent
   <<c_i, c_j - c_i>> to <<i, j - i>>.  Adjacent cells are adjacent bit ranges, so merge / split / bridge behave
   identically; every operation whose range ends on cut points is exactly one step of this module on cell
   indices.  The only operation that walks bit by bit is compare (one rb_test_bit per position): a cell wider than
   one bit is tested several times in a row, which is why FoldTest takes the set Wd of wide cells.

   Every operator below transcribes one C function; search loops that end on
   "parent = last node visited" are shape independent (the code skips a
   predecessor explicitly), which is why a sorted list is a faithful model.

   Dev* constants switch on the literal behaviour of the pinned tree where it
   deviates from set semantics (DESIGN.md section 7 rows 4-6 and the set_range
   finding); the registered configuration has all of them FALSE, i.e. the
   behaviour after the fix: commits.                                          *)
EXTENDS Integers, Sequences, FiniteSets, TLC
CONSTANTS MaxN,            \* real_end never exceeds MaxN - 1
          DevFfzEmpty,     \* rb_find_first_zero on an empty tree returns ENOENT
          DevGetEmpty,     \* rb_get_bmap_range on an empty tree leaves the buffer untouched
          DevRemoveRet,    \* rb_remove_extent reports a change when it touches nothing
          DevSetRangeOr,   \* rb_set_bmap_range never clears bits
          DevCmpLast       \* ext2fs_compare_generic_bmap ignores the last bit (i < end)
VARIABLES ext, cur, end, rend, S, res
vars == <<ext, cur, end, rend, S, res>>

ENOENT == -1          \* results are integers throughout (TLC refuses to compare a string with a number)
STALE  == -2
End(e) == e[1] + e[2]
Abs(x) == UNION {e[1]..(End(e) - 1) : e \in {x[i] : i \in 1..Len(x)}}
WellFormed(x) == /\ \A i \in 1..Len(x) : x[i][2] > 0
                 /\ \A i \in 1..(Len(x) - 1) : End(x[i]) < x[i+1][1]     \* disjoint and non-adjacent
Remove(x, i) == SubSeq(x, 1, i - 1) \o SubSeq(x, i + 1, Len(x))
InsertAt(x, i, e) == SubSeq(x, 1, i - 1) \o <<e>> \o SubSeq(x, i, Len(x))
Freed(c, i) == IF c = i THEN 0 ELSE IF c > i THEN c - 1 ELSE c      \* rb_free_extent of node i
Shift(c, i) == IF c >= i THEN c + 1 ELSE c                          \* a node was linked at index i
Fr(c, i) == [w |-> Freed(c.w, i), r |-> Freed(c.r, i), n |-> Freed(c.n, i)]
Sh(c, i) == [w |-> Shift(c.w, i), r |-> Shift(c.r, i), n |-> Shift(c.n, i)]
NoCur == [w |-> 0, r |-> 0, n |-> 0]
Canon(c) == IF c.r = 0 THEN [c EXCEPT !.n = 0] ELSE c
Min(T) == CHOOSE m \in T : \A y \in T : m <= y
Containing(x, p) == {i \in 1..Len(x) : p >= x[i][1] /\ p < End(x[i])}

\* ------------------------------------------------------------ rb_insert_extent(start, count)
\* returns [x, c, rv]
RECURSIVE MergeRight(_, _, _, _, _)
MergeRight(x, k, s, n, c) ==          \* "See if we can merge extent to the right": node k is new_ext = [s, s+n)
   IF k + 1 > Len(x) THEN [x |-> [x EXCEPT ![k] = <<s, n>>], c |-> c]
   ELSE LET e == x[k + 1] IN
        IF End(e) <= s THEN [x |-> [x EXCEPT ![k] = <<s, n>>], c |-> c]      \* "continue" (unreachable on a sorted list)
        ELSE IF s + n < e[1] THEN [x |-> [x EXCEPT ![k] = <<s, n>>], c |-> c]
        ELSE IF s + n >= End(e) THEN MergeRight(Remove(x, k + 1), k, s, n, Fr(c, k + 1))
        ELSE LET n2 == n + (End(e) - (s + n))  x2 == Remove(x, k + 1)
             IN [x |-> [x2 EXCEPT ![k] = <<s, n2>>], c |-> Fr(c, k + 1)]

InsertExtent(x, c0, start, count) ==
   IF count = 0 THEN [x |-> x, c |-> c0, rv |-> 0] ELSE
   LET c     == [c0 EXCEPT !.n = 0]                                    \* bp->rcursor_next = NULL
       hitw  == c.w # 0 /\ start >= x[c.w][1] /\ start <= End(x[c.w])
       found == {i \in 1..Len(x) : start >= x[i][1] /\ start <= End(x[i])}
       k     == IF hitw THEN c.w ELSE IF found = {} THEN 0 ELSE Min(found)
   IN IF k # 0 THEN
        LET e == x[k] IN
        IF start + count <= End(e) THEN [x |-> x, c |-> c, rv |-> 1]
        ELSE LET m == MergeRight(x, k, e[1], count + (start - e[1]), c)
             IN [x |-> m.x, c |-> m.c, rv |-> IF End(e) = start THEN 0 ELSE 1]
      ELSE \* new node linked at its sorted position; wcursor := new node
        LET pos == Cardinality({i \in 1..Len(x) : x[i][1] < start}) + 1
            x1  == InsertAt(x, pos, <<start, count>>)
            c1  == [Sh(c, pos) EXCEPT !.w = pos]
            \* an adjacent predecessor would have matched "start <= End" above, so the left merge never fires
            m   == MergeRight(x1, pos, start, count, c1)
        IN [x |-> m.x, c |-> m.c, rv |-> 0]

\* ------------------------------------------------------------ rb_remove_extent(start, count)
RECURSIVE RemRight(_, _, _, _, _, _)
RemRight(x, k, start, count, c, rv) ==       \* "See if we should delete or truncate extent on the right", from node k
   IF k = 0 \/ k > Len(x) THEN [x |-> x, c |-> c, rv |-> rv]
   ELSE LET e == x[k] IN
        IF End(e) <= start THEN RemRight(x, k + 1, start, count, c, rv)
        ELSE IF (IF DevRemoveRet THEN start + count < e[1] ELSE start + count <= e[1]) THEN [x |-> x, c |-> c, rv |-> rv]
        ELSE IF start + count >= End(e) THEN RemRight(Remove(x, k), k, start, count, Fr(c, k), 1)
        ELSE [x |-> [x EXCEPT ![k] = <<start + count, e[2] - ((start + count) - e[1])>>], c |-> c, rv |-> 1]

RemoveExtent(x, c, start, count) ==
   IF Len(x) = 0 THEN [x |-> x, c |-> c, rv |-> 0] ELSE
   LET found == Containing(x, start) IN
   IF found = {} THEN
      \* parent = last node visited = predecessor or successor; the loop skips a predecessor
      LET succ == {i \in 1..Len(x) : x[i][1] > start}
          k == IF succ = {} THEN 0 ELSE Min(succ)
      IN RemRight(x, k, start, count, c, 0)
   ELSE LET k == Min(found)  e == x[k] IN
      IF start > e[1] /\ start + count < End(e) THEN
         \* split: shrink the left part, insert the right part through rb_insert_extent
         LET x1  == [x EXCEPT ![k] = <<e[1], start - e[1]>>]
             ins == InsertExtent(x1, c, start + count, End(e) - (start + count))
         IN [x |-> ins.x, c |-> ins.c, rv |-> 1]
      ELSE
         LET cut == start + count >= End(e)
             e1  == IF cut THEN <<e[1], start - e[1]>> ELSE e
             rv1 == IF cut THEN 1 ELSE 0
         IN IF e1[2] = 0 THEN  \* node erased, continue with its successor
               RemRight(Remove(x, k), k, start, count, Fr(c, k), rv1)
            ELSE IF start = e1[1] THEN [x |-> [x EXCEPT ![k] = <<e1[1] + count, e1[2] - count>>], c |-> c, rv |-> 1]
            ELSE RemRight([x EXCEPT ![k] = e1], k, start, count, c, rv1)   \* the search loop runs on into the right scan

\* ------------------------------------------------------------ rb_test_bit
TestBit(x, c, bit) ==   \* returns [c, rv]
   LET r == c.r  inr == r # 0 /\ bit >= x[r][1] /\ bit < End(x[r]) IN
   IF inr THEN [c |-> c, rv |-> 1] ELSE
   LET n1  == IF r # 0 /\ c.n = 0 /\ r < Len(x) THEN r + 1 ELSE c.n
       gap == r # 0 /\ n1 # 0 /\ bit >= End(x[r]) /\ bit < x[n1][1]
   IN IF gap THEN [c |-> [c EXCEPT !.n = n1], rv |-> 0] ELSE
   LET inw == r # 0 /\ c.w # 0 /\ bit >= x[c.w][1] /\ bit < End(x[c.w]) IN
   IF inw THEN [c |-> [c EXCEPT !.r = 0, !.n = 0], rv |-> 1] ELSE
   LET found == Containing(x, bit) IN
   IF found = {} THEN [c |-> [c EXCEPT !.r = 0, !.n = 0], rv |-> 0]   \* r = 0: nothing changes; r # 0: both NULLed
   ELSE [c |-> [c EXCEPT !.r = Min(found), !.n = 0], rv |-> 1]

\* ------------------------------------------------------------ rb_test_clear_bmap_extent
TestClear(x, start, len) ==
   IF len = 0 \/ Len(x) = 0 THEN 1
   ELSE IF Containing(x, start) # {} THEN 0
   ELSE LET after == {i \in 1..Len(x) : End(x[i]) > start} IN
        IF after = {} THEN 1
        ELSE IF start + len <= x[Min(after)][1] THEN 1 ELSE 0

\* ------------------------------------------------------------ rb_find_first_zero / rb_find_first_set (relative)
FFZ(x, s, e) ==
   IF Len(x) = 0 THEN (IF DevFfzEmpty THEN ENOENT ELSE s) ELSE
   LET found == Containing(x, s) IN
   IF found = {} THEN s
   ELSE LET n == x[Min(found)] IN IF End(n) <= e THEN End(n) ELSE ENOENT

FFS(x, s, e) ==
   IF Len(x) = 0 THEN ENOENT
   ELSE IF Containing(x, s) # {} THEN s
   ELSE LET succ == {i \in 1..Len(x) : x[i][1] > s} IN
        IF succ = {} THEN ENOENT
        ELSE IF x[Min(succ)][1] <= e THEN x[Min(succ)][1] ELSE ENOENT

\* ------------------------------------------------------------ rb_get_bmap_range / rb_set_bmap_range
\* bit strings are sequences over {0, 1}; element i is bit start + i - 1
GetBits(T, start, num) == [i \in 1..num |-> IF (start + i - 1) \in T THEN 1 ELSE 0]
\* maximal runs of ones as <<0-based offset, length>>, in increasing order (what the scanning loop inserts)
RECURSIVE Runs(_, _, _)
Runs(bits, i, first) ==    \* i: 1-based scan index; first: 0 = no open run, else 1-based index of the run start
   IF i > Len(bits) THEN (IF first = 0 THEN <<>> ELSE << <<first - 1, Len(bits) - first + 1>> >>)
   ELSE IF bits[i] = 1 THEN Runs(bits, i + 1, IF first = 0 THEN i ELSE first)
   ELSE IF first = 0 THEN Runs(bits, i + 1, 0)
   ELSE << <<first - 1, i - first>> >> \o Runs(bits, i + 1, 0)
RECURSIVE InsertRuns(_, _, _, _)
InsertRuns(x, c, start, runs) ==
   IF runs = <<>> THEN [x |-> x, c |-> c]
   ELSE LET o == InsertExtent(x, c, start + runs[1][1], runs[1][2])
        IN InsertRuns(o.x, o.c, start, Tail(runs))

\* ------------------------------------------------------------ rb_truncate(new_max): frees nodes without rb_free_extent
RECURSIVE Truncate(_, _)
Truncate(x, newmax) ==
   IF Len(x) = 0 THEN x
   ELSE LET e == x[Len(x)] IN
        IF End(e) - 1 <= newmax THEN x
        ELSE IF e[1] > newmax THEN Truncate(SubSeq(x, 1, Len(x) - 1), newmax)
        ELSE [x EXCEPT ![Len(x)] = <<e[1], newmax - e[1] + 1>>]

\* ------------------------------------------------------------ set-level reference results
SetFF(T, a, b, want) == LET Z == {p \in a..b : (p \in T) = want} IN IF Z = {} THEN ENOENT ELSE Min(Z)
Bit(b) == IF b THEN 1 ELSE 0
BitsSet(bits, start) == {start + i - 1 : i \in {j \in 1..Len(bits) : bits[j] = 1}}

\* ------------------------------------------------------------ actions (one per vtable entry point)
R(o, i, r) == [op |-> o, impl |-> i, ref |-> r]

Mark(b) == /\ b \in 0..end
           /\ LET o == InsertExtent(ext, cur, b, 1) IN
              /\ ext' = o.x /\ cur' = Canon(o.c)
              /\ S' = S \cup {b} /\ res' = R("mark", o.rv, Bit(b \in S))
           /\ UNCHANGED <<end, rend>>
Unmark(b) == /\ b \in 0..end
             /\ LET o == RemoveExtent(ext, cur, b, 1) IN
                /\ ext' = o.x /\ cur' = Canon(o.c)
                /\ S' = S \ {b} /\ res' = R("unmark", o.rv, Bit(b \in S))
             /\ UNCHANGED <<end, rend>>
Test(b) == /\ b \in 0..end
           /\ LET o == TestBit(ext, cur, b) IN
              /\ cur' = Canon(o.c) /\ res' = R("test", o.rv, Bit(b \in S))
           /\ UNCHANGED <<ext, end, rend, S>>
MarkRange(b, n) == /\ n >= 1 /\ b \in 0..end /\ b + n - 1 <= end
                   /\ LET o == InsertExtent(ext, cur, b, n) IN
                      ext' = o.x /\ cur' = Canon(o.c)
                   /\ S' = S \cup (b..(b + n - 1)) /\ res' = R("mark_range", 0, 0)
                   /\ UNCHANGED <<end, rend>>
UnmarkRange(b, n) == /\ n >= 1 /\ b \in 0..end /\ b + n - 1 <= end
                     /\ LET o == RemoveExtent(ext, cur, b, n) IN
                        ext' = o.x /\ cur' = Canon(o.c)
                     /\ S' = S \ (b..(b + n - 1)) /\ res' = R("unmark_range", 0, 0)
                     /\ UNCHANGED <<end, rend>>
\* ext2fs_test_block_bitmap_range2 with num = 1 goes through test_bmap instead (generic layer), so n >= 2 here
TestClearRange(b, n) == /\ n >= 1 /\ b \in 0..end /\ b + n - 1 <= end
                        /\ res' = R("test_clear_range", TestClear(ext, b, n), Bit((b..(b + n - 1)) \cap S = {}))
                        /\ UNCHANGED <<ext, cur, end, rend, S>>
Ffz(a, b) == /\ a <= b /\ b <= end
             /\ res' = R("ffz", FFZ(ext, a, b), SetFF(S, a, b, FALSE))
             /\ UNCHANGED <<ext, cur, end, rend, S>>
Ffs(a, b) == /\ a <= b /\ b <= end
             /\ res' = R("ffs", FFS(ext, a, b), SetFF(S, a, b, TRUE))
             /\ UNCHANGED <<ext, cur, end, rend, S>>
\* bulk get/set are issued inside 0..end (callers: rw_bitmaps.c, one group at a time)
GetRange(b, n) == /\ n >= 1 /\ b + n - 1 <= end
                  /\ res' = R("get_range", IF DevGetEmpty /\ Len(ext) = 0 THEN [i \in 1..n |-> STALE] ELSE GetBits(Abs(ext), b, n), GetBits(S, b, n))
                  /\ UNCHANGED <<ext, cur, end, rend, S>>
SetRange(b, bits) == /\ Len(bits) >= 1 /\ b + Len(bits) - 1 <= end
                     /\ LET pre == IF DevSetRangeOr THEN [x |-> ext, c |-> cur] ELSE RemoveExtent(ext, cur, b, Len(bits))
                            o   == InsertRuns(pre.x, pre.c, b, Runs(bits, 1, 0))
                        IN ext' = o.x /\ cur' = Canon(o.c)
                     /\ S' = (S \ (b..(b + Len(bits) - 1))) \cup BitsSet(bits, b)
                     /\ res' = R("set_range", 0, 0)
                     /\ UNCHANGED <<end, rend>>
Clear == /\ ext' = <<>> /\ cur' = NoCur /\ S' = {} /\ res' = R("clear", 0, 0) /\ UNCHANGED <<end, rend>>
\* rb_resize_bmap: cursors w, r NULLed; truncate to min(new_end, end); then the padding extent end+1..real_end
Resize(ne, nre) == /\ ne <= nre /\ nre < MaxN
                   /\ LET x1 == Truncate(ext, IF ne < end THEN ne ELSE end)
                          c1 == [w |-> 0, r |-> 0, n |-> 0]
                          o  == IF ne < nre THEN InsertExtent(x1, c1, ne + 1, nre - ne) ELSE [x |-> x1, c |-> c1, rv |-> 0]
                      IN ext' = o.x /\ cur' = Canon(o.c)
                   /\ end' = ne /\ rend' = nre
                   /\ S' = S \cap (0..ne)
                   /\ res' = R("resize", 0, 0)
\* rb_copy_bmap followed by dropping the source: the copy has the same extents and no cursors
Copy == /\ cur' = NoCur /\ res' = R("copy", 0, 0) /\ UNCHANGED <<ext, end, rend, S>>
\* ext2fs_set_generic_bmap_padding: mark_bmap_extent(end + 1, real_end - end)
SetPadding == /\ LET o == InsertExtent(ext, cur, end + 1, rend - end) IN ext' = o.x /\ cur' = Canon(o.c)
              /\ res' = R("set_padding", 0, 0) /\ UNCHANGED <<end, rend, S>>

\* ext2fs_compare_generic_bmap(bitmap, copy of it with bit b flipped / unmodified copy): rb_copy_bmap NULLs the
\* source's rcursor, then both bitmaps are tested position by position until the first difference
\* Wd: cells that stand for more than one bit (interval abstraction; {} when positions are bits).  Two consecutive
\* tests of the same cell are not idempotent (a wcursor hit NULLs rcursor, the next test finds it by tree search),
\* from the second test on they are.
RECURSIVE FoldTest(_, _, _, _, _)
FoldTest(x, c, i, last, Wd) ==
   IF i > last THEN c
   ELSE LET c1 == TestBit(x, c, i).c
            c2 == IF i \in Wd THEN TestBit(x, c1, i).c ELSE c1
        IN FoldTest(x, c2, i + 1, last, Wd)
CmpLast == IF DevCmpLast THEN end - 1 ELSE end          \* relative position of the last compared bit (may be "-1": none)
CompareEqW(Wd) ==
             /\ cur' = Canon(IF DevCmpLast /\ end = 0 THEN [cur EXCEPT !.r = 0, !.n = 0]
                             ELSE FoldTest(ext, [cur EXCEPT !.r = 0, !.n = 0], 0, CmpLast, Wd))
             /\ res' = R("cmp", 0, 0) /\ UNCHANGED <<ext, end, rend, S>>
\* the flipped position b is one bit wide
CompareFlipW(b, Wd) ==
                  /\ b \in 0..end /\ b \notin Wd
                  /\ LET seen == ~(DevCmpLast /\ b = end)
                         c0   == [cur EXCEPT !.r = 0, !.n = 0]
                     IN /\ cur' = Canon(IF seen THEN FoldTest(ext, c0, 0, b, Wd)
                                        ELSE IF end = 0 THEN c0 ELSE FoldTest(ext, c0, 0, end - 1, Wd))
                        /\ res' = R("cmp", Bit(seen), 1)
                  /\ UNCHANGED <<ext, end, rend, S>>
CompareEq == CompareEqW({})
CompareFlip(b) == CompareFlipW(b, {})

BitStrings(n) == [1..n -> {0, 1}]

Init == /\ ext = <<>> /\ cur = NoCur /\ S = {} /\ res = R("init", 0, 0)
        /\ end \in {MaxN - 1, MaxN - 2} /\ rend = MaxN - 1
Next == \/ \E b \in 0..end : Mark(b) \/ Unmark(b) \/ Test(b)
        \/ \E b \in 0..end : \E n \in 1..(end - b + 1) : MarkRange(b, n) \/ UnmarkRange(b, n) \/ TestClearRange(b, n) \/ GetRange(b, n)
        \/ \E a \in 0..end : \E b \in a..end : Ffz(a, b) \/ Ffs(a, b)
        \/ \E b \in 0..end : \E n \in 1..(IF end - b + 1 < 4 THEN end - b + 1 ELSE 4) : \E bits \in BitStrings(n) : SetRange(b, bits)
        \/ Clear \/ Copy \/ SetPadding \/ CompareEq
        \/ \E b \in 0..end : CompareFlip(b)
        \/ CompareEqW(0..end) \/ \E b \in 0..end : CompareFlipW(b, (0..end) \ {b})      \* interval abstraction: every other cell wide
        \/ \E ne \in 0..(MaxN - 1) : \E nre \in ne..(MaxN - 1) : Resize(ne, nre)
Spec == Init /\ [][Next]_vars

\* ------------------------------------------------------------ invariants
Structural == /\ WellFormed(ext)
              /\ cur.w \in 0..Len(ext) /\ cur.r \in 0..Len(ext) /\ cur.n \in 0..Len(ext)
              /\ (cur.n # 0 => cur.r # 0 /\ cur.n = cur.r + 1)          \* rcursor_next, when set, is rcursor's successor
              /\ Abs(ext) \subseteq 0..rend
Refines == Abs(ext) \cap (0..end) = S
ResultsAgree == res.impl = res.ref
View == <<ext, cur, end, rend>>
=============================================================================
