------------------------------ MODULE FileData ------------------------------
(* Property C09, property level: what a file IS, whatever its mapping type.

   Interval abstraction (DESIGN 2.3): NCuts cut points 0 .. NCuts-1 stand for byte offsets
   (cut 0 = offset 0, order preserving); cell i is the byte range [cut i, cut i+1).  Every byte of a
   cell has the same history, so a cell has ONE content:
        Hole   never written / deallocated     -> reads as zeros
        Zero   preallocated-but-unwritten      -> reads as zeros
        t >= 1 payload of the write with tag t -> reads as that payload
   A file is  size (a cut point)  +  cells.  Cells at or beyond `size` are invisible to Read; they are
   Hole or Zero (a preallocation beyond EOF), never data: truncation discards data for good.

   The property is the definition: Read returns, for every cell below size, the payload most recently
   written there or zeros, and exactly `size` bytes; an operation on file f leaves every other file alone.
   Punch and Fallocate act on whole blocks: they are only ever issued on block-aligned cut points (the
   concretiser guarantees it; alignment is irrelevant to the abstract effect).                         *)
EXTENDS Integers, Sequences, FiniteSets, TLC

CONSTANTS NFiles, NCuts, MaxOps
Files == 0 .. (NFiles - 1)
Cuts  == 0 .. (NCuts - 1)
Cells == 0 .. (NCuts - 2)
Hole == -3
Zero == 0
Absent == -1                       \* Read result for a cell beyond EOF
Modes == 0 .. 4                    \* init, uninit, keep_size, zero, zero+keep_size
IsTag(c) == c >= 1
Shown(c) == IF c = Hole THEN Zero ELSE c        \* what a reader sees in a cell below EOF
Max(x, y) == IF x >= y THEN x ELSE y

VARIABLES size,      \* [Files -> Cuts]
          cell,      \* [Files -> [Cells -> {Hole, Zero} \cup tags]]
          op,        \* the last operation (record), for the frame condition and for reading counterexamples
          res,       \* result of the last Read: [len |-> cut, c |-> [Cells -> Absent | Zero | tag]]
          nops       \* number of operations so far; the tag of a Write is its operation number
avars == <<size, cell, op, res, nops>>

NoRes == [len |-> 0, c |-> [i \in Cells |-> Absent]]
ReadOf(sz, cl) == [len |-> sz, c |-> [i \in Cells |-> IF i < sz THEN Shown(cl[i]) ELSE Absent]]

AInit == /\ size = [f \in Files |-> 0]
         /\ cell = [f \in Files |-> [i \in Cells |-> Hole]]
         /\ op = [e |-> "init", f |-> 0, a |-> 0, b |-> 0]
         /\ res = NoRes /\ nops = 0

\* ---- pure state transformers (shared with the trace spec and the implementation-shaped specs) ----
WriteCells(cl, a, b, t) == [i \in Cells |-> IF a <= i /\ i < b THEN t ELSE cl[i]]
WriteSize(sz, b) == Max(sz, b)
TruncCells(cl, sz, a) == IF a < sz THEN [i \in Cells |-> IF i >= a THEN Hole ELSE cl[i]] ELSE cl
PunchCells(cl, a, b) == [i \in Cells |-> IF a <= i /\ i < b THEN Hole ELSE cl[i]]
FallocCells(cl, a, b) == [i \in Cells |-> IF a <= i /\ i < b /\ cl[i] = Hole THEN Zero ELSE cl[i]]

Step(e, f, a, b) == /\ nops < MaxOps /\ nops' = nops + 1
                    /\ op' = [e |-> e, f |-> f, a |-> a, b |-> b]

Write(f, a, b) == /\ a < b /\ Step("write", f, a, b)
                  /\ cell' = [cell EXCEPT ![f] = WriteCells(@, a, b, nops + 1)]
                  /\ size' = [size EXCEPT ![f] = WriteSize(@, b)]
                  /\ UNCHANGED res
SetSize(f, a) == /\ Step("setsize", f, a, 0)
                 /\ cell' = [cell EXCEPT ![f] = TruncCells(@, size[f], a)]
                 /\ size' = [size EXCEPT ![f] = a]
                 /\ UNCHANGED res
Punch(f, a, b) == /\ a < b /\ Step("punch", f, a, b)
                  /\ cell' = [cell EXCEPT ![f] = PunchCells(@, a, b)]
                  /\ UNCHANGED <<size, res>>
\* Modes 0 (init) and 3 (zero) are "allocate and extend": the caller moves EOF to b afterwards.  Modes 1 (uninit) and
\* 2 (keep_size) and 4 (zero, keep_size) never move EOF; how far beyond EOF they preallocate is up to the mapping type (a block-mapped file
\* cannot hold uninitialized blocks, so it preallocates up to `lim`, the end of its last block, only).
Grows(m) == m \in {0, 3}
Fallocate(f, a, b, m, lim) == /\ a < b /\ a <= lim /\ lim <= b /\ (Grows(m) => lim = b) /\ (lim < b => lim >= size[f])
                              /\ Step("falloc", f, a, b)
                              /\ cell' = [cell EXCEPT ![f] = FallocCells(@, a, lim)]
                              /\ size' = [size EXCEPT ![f] = IF Grows(m) THEN Max(@, b) ELSE @]
                              /\ UNCHANGED res
Read(f) == /\ Step("read", f, 0, 0)
           /\ res' = ReadOf(size[f], cell[f])
           /\ UNCHANGED <<size, cell>>
\* Flush, close + reopen of the handle, close + reopen of the filesystem: invisible at this level
Sync(f) == /\ Step("sync", f, 0, 0) /\ UNCHANGED <<size, cell, res>>

ANext == \E f \in Files :
            \/ \E a \in Cuts, b \in Cuts : Write(f, a, b) \/ Punch(f, a, b) \/ (\E m \in Modes, lim \in Cuts : Fallocate(f, a, b, m, lim))
            \/ \E a \in Cuts : SetSize(f, a)
            \/ Read(f) \/ Sync(f)
ASpec == AInit /\ [][ANext]_avars

\* ---- the property ----
TypeOK == /\ size \in [Files -> Cuts]
          /\ \A f \in Files, i \in Cells : cell[f][i] \in ({Hole, Zero} \cup (1 .. MaxOps))
\* nothing beyond EOF is data
NoDataPastEOF == \A f \in Files, i \in Cells : i >= size[f] => ~IsTag(cell[f][i])
\* a read returns exactly size bytes and, below size, the most recent write or zeros
ReadExact == op.e = "read" =>
                /\ res.len = size[op.f]
                /\ \A i \in Cells : res.c[i] = (IF i < size[op.f] THEN Shown(cell[op.f][i]) ELSE Absent)
\* an operation on one file never changes another file
Frame == [][\A g \in Files : g # op'.f => (size'[g] = size[g] /\ cell'[g] = cell[g])]_avars
\* the most recent write wins: right after Write(f, a, b) every cell of [a, b) shows that write's tag
LastWriteWins == op.e = "write" => \A i \in Cells : (op.a <= i /\ i < op.b) => cell[op.f][i] = nops
=============================================================================
