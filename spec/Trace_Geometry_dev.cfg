SPECIFICATION TraceSpecDev
POSTCONDITION TraceAccepted
CHECK_DEADLOCK FALSE
