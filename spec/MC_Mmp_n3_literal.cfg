\* thorough: 3 tune2fs-like nodes, no crash, literal
SPECIFICATION Spec
CONSTANTS
  Nodes = {1, 2, 3}
  Seqs = {1, 2, 3}
  KindSet = {"rw"}
  RwPolls = {0}
  FsckPolls = {0}
  MinIval = 1
  Upd = 3
  IvalSet = {1}
  TickSet = {1}
  MaxCrash = 0
  AllowCorrupt = FALSE
  DevNonAtomic = TRUE
  DevSeqCollision = FALSE
  DevSameNodename = FALSE
  DevStopUnconditional = FALSE
  DevNoSecondWait = FALSE
  DevNoFsckMarker = FALSE
  DevDumpClobbers = FALSE
INVARIANT TypeOK
INVARIANT DetectableOverlap
INVARIANT WrittenValid
INVARIANT SkipNeverWrites
INVARIANT AbortLeavesBlock
CHECK_DEADLOCK FALSE
