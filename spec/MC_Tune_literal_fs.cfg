SPECIFICATION Spec
CONSTANTS
  MaxLen = 2
  DevRewriteSkipsOrphanFile = TRUE
  DevJournalOffKeepsOrphanFile = TRUE
  DevDirIndexOffNoFsck = TRUE
INVARIANT InvFeatureSet

VIEW View
CHECK_DEADLOCK FALSE
