SPECIFICATION TraceSpec
CONSTANTS
  MaxT = 16
  UseLock = TRUE
  Gs = {1}
  Ns = {1}
  Flexes = {1}
  Kinds = {1}
  BadSets = {{}}
INVARIANT PartitionExact
INVARIANT MutualExclusion
INVARIANT LockHeld
INVARIANT LoadedOnce
INVARIANT Result
POSTCONDITION TraceAccepted
CHECK_DEADLOCK FALSE
