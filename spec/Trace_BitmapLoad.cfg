SPECIFICATION TraceSpec
CONSTANTS
  MaxT = 16
  UseLock = TRUE
  DevJoinLastWins = FALSE
  Gs = {1}
  Ns = {1}
  Flexes = {1}
  Kinds = {1}
  BadSets = {{}}
  FailModes = {"none"}
INVARIANT PartitionExact
INVARIANT MutualExclusion
INVARIANT LockHeld
INVARIANT LoadedOnce
INVARIANT FailsIffThreadFailed
INVARIANT NeverLoadsFailing
INVARIANT Result
POSTCONDITION TraceAccepted
CHECK_DEADLOCK FALSE
