--------------------------- MODULE Trace_DirNlink ---------------------------
(* Property C10, the link-count rule of a directory AT THE REAL LIMIT (EXT2_LINK_MAX = 65000): trace validation of mkdir /
   rmdir in a directory that really has about LinkMax subdirectories, through libext2fs (harness/dirdrv.c nlmkdir / nlrmdir)
   and through debugfs.  The filesystem then holds ~65000 directories, so the observation is the COUNT abstraction of the
   Dir.tla state for that one directory p (harness/dirdrv.c dump_count):

     links   stored i_links_count of p            sub    names of p that are directories whose ".." names p and whose count is 2
     other   names of p that are not directories  bad    names that are inconsistent (dangling, wrong file type, ...)
     ddsub   in-use directories whose ".." names p (counted from the inode table, independent of p's own blocks)
     ndirs   in-use directories in all, fi / fb   free inodes / blocks (from the bitmaps), idx = p is indexed

   so that Refs(p) = 2 + sub.  The rules are Dir.tla's own, as functions of numbers: MkdirRefusedLinks, MkdirLinksOf,
   RmdirParentLinks, LinksOK, OverflowAllowed.  One line = one operation (or one e2fsck -fn) and the observation after it.
   e2fsck -fn is the consistency oracle: clean exactly when the model says so (pass 4 tolerates a saturated count of 1 on a
   directory that dropped below the limit again only when the directory is indexed: "could be exact value").            *)
EXTENDS Dir, Json, IOUtils
VARIABLES l, c
Tr == ndJsonDeserialize(IOEnv.TRACE)
Holds(p) == p = TRUE
IsEvent(e) == l <= Len(Tr) /\ Tr[l].e = e /\ l' = l + 1

Refs2(x) == 2 + x.sub
\* what a sound observation of p looks like, whatever the counts are
\* (ddsub = -1: the sweep over the inode table was left to the next full observation -- the one of the following e2fsck -fn line)
Sound(o) == o.ty = FTDIR /\ o.lsr = "ok" /\ o.bad = 0 /\ o.dot = o.dir /\ (o.ddsub = -1 \/ o.sub = o.ddsub)
Full(o) == o.ddsub # -1
\* the stored count is right (Dir!Consistent, restricted to p), in e2fsck's reading of "saturated"
CountOK(x) == /\ \/ x.links = WantOf(FTDIR, Refs2(x))
                 \/ (SaturatedOf(FTDIR, x.links, Refs2(x), x.sat) /\ (Refs2(x) > LinkMax \/ x.idx = 1))
              /\ OverflowAllowed(FTDIR, Refs2(x))
Obs(o, sat) == [links |-> o.links, sub |-> o.sub, other |-> o.other, fi |-> o.fi, fb |-> o.fb, ndirs |-> o.ndirs, idx |-> o.idx,
                dir |-> o.dir, sat |-> sat]

TReset ==
   /\ IsEvent("reset")
   /\ LET o == Tr[l].nl IN
      /\ Holds(Sound(o) /\ Full(o))
      /\ Holds(o.dirnlink = (IF DirNlink THEN 1 ELSE 0))
      /\ c' = Obs(o, o.links = 1)
      /\ Holds(CountOK(Obs(o, o.links = 1)))            \* the prepared directory is consistent

\* ln.r: result class of the library call ("ok", "emlink", ...); debugfs (fe = 1) reports nothing that is logged
TMkdir ==
   /\ IsEvent("mkdir")
   /\ LET ln == Tr[l]  o == ln.nl IN
      /\ Holds(Sound(o)) /\ o.dir = c.dir
      /\ IF MkdirRefusedLinks(c.links)
         THEN /\ Holds(ln.fe = 1 \/ ln.r = "emlink")
              /\ c' = c /\ Obs(o, c.sat) = c                                  \* refused: nothing changes
         ELSE LET nl == MkdirLinksOf(c.links)
                  sat == c.sat \/ (DirNlink /\ ~DevMkdirNoNlinkRule /\ nl = 1)
              IN /\ Holds(ln.fe = 1 \/ ln.r = "ok")
                 /\ o.links = nl /\ o.sub = c.sub + 1 /\ o.other = c.other /\ o.fi = c.fi - 1 /\ o.ndirs = c.ndirs + 1
                 /\ o.idx = c.idx
                 /\ o.fb <= c.fb - 1 /\ o.fb >= c.fb - 4                      \* the new directory's block; the parent may grow (leaf / node split)
                 /\ c' = Obs(o, sat)

TRmdir ==
   /\ IsEvent("rmdir")
   /\ LET ln == Tr[l]  o == ln.nl IN
      /\ Holds(Sound(o)) /\ o.dir = c.dir
      /\ c.sub > 0
      /\ Holds(ln.fe = 1 \/ ln.r = "ok")
      /\ o.links = RmdirParentLinks(c.links) /\ o.sub = c.sub - 1 /\ o.other = c.other /\ o.fi = c.fi + 1 /\ o.ndirs = c.ndirs - 1
      /\ o.idx = c.idx /\ o.fb = c.fb + 1                                     \* removed objects release their inode and blocks
      /\ c' = Obs(o, c.sat)

TFsckN ==
   /\ IsEvent("fsckn")
   /\ LET ln == Tr[l] IN
      /\ Holds((ln.rc = 0) <=> CountOK(c))
      /\ ln.rc \in {0, 4}
      /\ Holds(Sound(ln.nl) /\ Full(ln.nl)) /\ Obs(ln.nl, c.sat) = c
   /\ UNCHANGED c

TraceInit == l = 1 /\ c = [links |-> 0, sub |-> 0, other |-> 0, fi |-> 0, fb |-> 0, ndirs |-> 0, idx |-> 0, dir |-> 0, sat |-> FALSE]
TraceNext == TReset \/ TMkdir \/ TRmdir \/ TFsckN
TraceSpec == TraceInit /\ [][TraceNext]_<<l, c>>
TraceAccepted == TLCGet("stats").diameter - 1 = Len(Tr)

Started == l > 1
\* counted operations keep the count right: the filesystem stays consistent across the limit, with and without dir_nlink
InvCountOK == Started => CountOK(c)
InvTypeOK == Started => c.links \in 0..(LinkMod - 1) /\ c.sub >= 0
=============================================================================
