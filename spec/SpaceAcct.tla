------------------------------ MODULE SpaceAcct ------------------------------
(* Property C09, last sentence: "after the filesystem is closed it is consistent, with i_blocks and the block bitmap
   matching what the files map" -- on nearly full filesystems as well as empty ones.

   Space accounting of libext2fs in allocation units (blocks; clusters with bigalloc).  Every unit of the filesystem
   that is not part of the base (what was in use before the history started) is in exactly one place:
        free          its bit in the block bitmap is clear
        own[f]        file f maps it (data, extent-tree node, indirect block, EA block)
        leak[f]       marked in use, but nothing maps it (an operation on f lost it)
   i_blocks of f is ib[f] = own[f] + ibx[f]; ibx[f] # 0 means i_blocks counts units f does not map.
   The ON-DISK bitmap has dfree clear bits; ext2fs_close writes the in-memory bitmap only when it was marked dirty
   (bbdirty), ext2fs_open + ext2fs_read_bitmaps load it.

   The allocation protocols are those of the code, one action per protocol:
     Grow      ext2fs_bmap2(BMAP_ALLOC) under ext2fs_file_write / flush and under the block-mapped fallocate loop:
               ONE logical block = nd data unit (0 if mapped already) + nm units for the mapping to grow
               (extent files: one per full node on the path from the leaf upward, extent_node_split();
               block-mapped files: one per missing indirect level).  Units are taken one at a time with
               ext2fs_alloc_block3 / ext2fs_block_alloc_stats2; when one cannot be had the call fails with the
               ENOSPC class, the data unit is given back (bmap.c extent_bmap: "ext2fs_block_alloc_stats2(fs, blk64, -1)"),
               growth already linked into the mapping stays (and is accounted).
     Prealloc  ext2fs_fallocate on an extent file (ext_falloc_helper): claim_range() takes a RANGE of c <= nd units
               with ext2fs_block_alloc_stats_range and charges i_blocks, then ext2fs_extent_insert links it, which
               may need nm units like Grow.
     Release   ext2fs_punch / truncation.
     Unmount / Mount   ext2fs_close, ext2fs_open + ext2fs_read_bitmaps: the session boundary.

   Named deviations (DESIGN 3.5):
     DevFallocLeak      = TRUE is the literal behaviour of the tree, a KNOWN FINDING (fixes/C09_falloc_unclaim.patch
                          cannot be committed, it changes tests/f_jnl_etb_alloc_fail/expect.1 and .2): when the insert of
                          Prealloc fails for lack of space the claimed range stays marked and charged to i_blocks.
     DevWriteLeak       the data unit of a failed Grow is not given back          (must never be observed)
     DevRangeNotDirty   a range claim does not mark the bitmap dirty              (must never be observed)
   With all three FALSE the invariants hold; each one alone makes one of them fail (checks/c09.py requires that).

   The ENOSPC LADDER (universe of the conformance run) is defined here from the format constants: for every
   tree-growth situation of `Sits`, every r in 0 .. MaxFree free units left and every operation of LadderOps, the
   operation is issued with exactly r units free.                                                              *)
EXTENDS Integers, Sequences, FiniteSets, TLC

CONSTANTS NOwn,              \* owners followed: 0 .. NOwn-1 (conformance: files 0, 1 and the ballast)
          Units,             \* model checking: units outside the base
          MaxFree,           \* ladder: 0 .. MaxFree units free when the operation is issued
          MaxMeta,           \* model checking: the mapping grows by at most this many units per logical block
          RootSlots,         \* extents in the inode body (4)
          LeafCap,           \* entries of one extent-tree block: (blocksize - 12) / 12
          AddrPB,            \* block numbers per indirect block: blocksize / 4
          DevFallocLeak, DevWriteLeak, DevRangeNotDirty

Owners == 0 .. (NOwn - 1)
RECURSIVE SumTo(_, _)
SumTo(fn, k) == IF k < 0 THEN 0 ELSE fn[k] + SumTo(fn, k - 1)
Total(fn) == SumTo(fn, NOwn - 1)
Least(x, y) == IF x <= y THEN x ELSE y

VARIABLES free, own, leak, ibx, dfree, bbdirty, mounted, aop
svars == <<free, own, leak, ibx, dfree, bbdirty, mounted, aop>>
Ib(f) == own[f] + ibx[f]

\* ------------------------------------------------------------------ the ladder catalogue
ExtentSits == {"root_full", "leaf_full", "index_full"}
IndSits == {"ind", "dind"}
Sits == ExtentSits \cup IndSits
\* blocks the prelude writes (one extent each: the two files are written alternately block by block) / densely for block maps
Prelude(s) == CASE s = "root_full" -> RootSlots
                [] s = "leaf_full" -> LeafCap
                [] s = "index_full" -> RootSlots * (LeafCap - 1) + 1     \* a leaf split at the end of the file leaves LeafCap - 1 behind
                [] s = "ind" -> 12
                [] s = "dind" -> 12 + AddrPB
\* units the mapping must grow by when one more extent / block is added in that situation
NeedMeta(s) == CASE s = "root_full" -> 1 [] s = "leaf_full" -> 1 [] s = "index_full" -> 2 [] s = "ind" -> 1 [] s = "dind" -> 2
\* first logical block of the operation: extents are kept apart from the prelude by a one-block hole (never merged)
At(s) == IF s \in ExtentSits THEN Prelude(s) + 1 ELSE Prelude(s)
\* operations: name, number of blocks, fallocate mode (-1 = write)
LadderOps == {[op |-> "W1", n |-> 1, mode |-> -1], [op |-> "W2", n |-> 2, mode |-> -1],
              [op |-> "F1u", n |-> 1, mode |-> 1], [op |-> "F2z", n |-> 2, mode |-> 3]}
OpsOf(s) == IF s \in ExtentSits THEN LadderOps ELSE {o \in LadderOps : o.mode # 1}     \* no uninitialized blocks in a block map
LadderOf(s) == {[sit |-> s, kind |-> IF s \in ExtentSits THEN "extent" ELSE "ind", r |-> r, op |-> o.op, n |-> o.n, mode |-> o.mode,
                 pre |-> Prelude(s), at |-> At(s), needmeta |-> NeedMeta(s)] :
                   r \in 0 .. MaxFree, o \in OpsOf(s)}
\* path = occupancy <<entries, max>> of the tree nodes from the root to the leaf of the insertion point, as observed
\* (for a block map: <<1, 1>> per missing indirect level, <<0, 1>> per present one)
NodeFull(p) == p[1] >= p[2]
SitHolds(s, path) ==
   CASE s = "root_full"  -> Len(path) = 1 /\ NodeFull(path[1]) /\ path[1][2] = RootSlots
     [] s = "leaf_full"  -> Len(path) = 2 /\ NodeFull(path[2]) /\ ~NodeFull(path[1]) /\ path[2][2] = LeafCap
     [] s = "index_full" -> Len(path) = 2 /\ NodeFull(path[2]) /\ NodeFull(path[1]) /\ path[2][2] = LeafCap /\ path[1][2] = RootSlots
     [] s = "ind"        -> Len(path) = 1 /\ NodeFull(path[1])
     [] s = "dind"       -> Len(path) = 2 /\ NodeFull(path[1]) /\ NodeFull(path[2])
     [] OTHER -> FALSE
\* session shapes: one operation per open .. close session
SessionOps == {[op |-> "W", a |-> 1, b |-> 4, mode |-> -1], [op |-> "FU", a |-> 2, b |-> 5, mode |-> 1],
               [op |-> "FZ", a |-> 1, b |-> 3, mode |-> 3], [op |-> "FK", a |-> 3, b |-> 5, mode |-> 2]}
SessionSteps == {[op |-> o.op, a |-> o.a, b |-> o.b, mode |-> o.mode, f |-> f] : o \in SessionOps, f \in 0 .. 1}

\* ------------------------------------------------------------------ the protocols (model checking)
SInit == /\ free \in 0 .. MaxFree
         /\ own = [f \in Owners |-> IF f = NOwn - 1 THEN Units - free ELSE 0]        \* the last owner is the ballast
         /\ leak = [f \in Owners |-> 0] /\ ibx = [f \in Owners |-> 0]
         /\ dfree = free /\ bbdirty = FALSE /\ mounted = TRUE
         /\ aop = [k |-> "init", f |-> 0, ret |-> 0]

\* order = "data" : the data unit is taken first, then the tree grows (extent files)
\* order = "meta" : the indirect blocks are taken first, then the data unit (block-mapped files)
Grow(f, nd, nm, order) ==
   /\ mounted /\ nd + nm >= 1
   /\ IF free >= nd + nm
      THEN /\ own' = [own EXCEPT ![f] = @ + nd + nm] /\ free' = free - (nd + nm)
           /\ UNCHANGED <<leak, ibx>> /\ bbdirty' = TRUE
           /\ aop' = [k |-> "grow", f |-> f, ret |-> 0]
      ELSE LET gotdata == order = "data" /\ nd = 1 /\ free >= 1
               kept == IF order = "data" THEN (IF free >= nd THEN Least(nm, free - nd) ELSE 0) ELSE Least(nm, free)
               lost == IF DevWriteLeak /\ gotdata THEN 1 ELSE 0
           IN /\ own' = [own EXCEPT ![f] = @ + kept]
              /\ leak' = [leak EXCEPT ![f] = @ + lost]
              /\ free' = free - kept - lost
              /\ bbdirty' = (bbdirty \/ free >= 1)
              /\ UNCHANGED ibx
              /\ aop' = [k |-> "grow", f |-> f, ret |-> 1]
   /\ UNCHANGED <<dfree, mounted>>

Prealloc(f, nd, nm) ==
   /\ mounted /\ nd >= 1
   /\ LET c == Least(nd, free)             \* ext2fs_new_range hands out what is there
          f1 == free - c
          rdirty == IF DevRangeNotDirty THEN bbdirty ELSE (bbdirty \/ c > 0)
      IN IF c = 0
         THEN /\ UNCHANGED <<free, own, leak, ibx, bbdirty>> /\ aop' = [k |-> "prealloc", f |-> f, ret |-> 1]
         ELSE IF f1 >= nm
         THEN /\ own' = [own EXCEPT ![f] = @ + c + nm] /\ free' = f1 - nm
              /\ UNCHANGED <<leak, ibx>> /\ bbdirty' = (rdirty \/ nm > 0)
              /\ aop' = [k |-> "prealloc", f |-> f, ret |-> IF c = nd THEN 0 ELSE 1]
         ELSE \* the insert cannot get the units it needs: f1 of them were linked before it gave up
              IF DevFallocLeak
              THEN /\ own' = [own EXCEPT ![f] = @ + f1] /\ free' = 0
                   /\ leak' = [leak EXCEPT ![f] = @ + c] /\ ibx' = [ibx EXCEPT ![f] = @ + c]
                   /\ bbdirty' = (rdirty \/ f1 > 0)
                   /\ aop' = [k |-> "prealloc-leak", f |-> f, ret |-> 1]
              ELSE /\ own' = [own EXCEPT ![f] = @ + f1] /\ free' = c
                   /\ UNCHANGED <<leak, ibx>> /\ bbdirty' = (rdirty \/ f1 > 0)
                   /\ aop' = [k |-> "prealloc", f |-> f, ret |-> 1]
   /\ UNCHANGED <<dfree, mounted>>

Release(f, k) == /\ mounted /\ k >= 1 /\ k <= own[f]
                 /\ own' = [own EXCEPT ![f] = @ - k] /\ free' = free + k /\ bbdirty' = TRUE
                 /\ aop' = [k |-> "release", f |-> f, ret |-> 0]
                 /\ UNCHANGED <<leak, ibx, dfree, mounted>>
Unmount == /\ mounted /\ mounted' = FALSE
           /\ dfree' = IF bbdirty THEN free ELSE dfree
           /\ aop' = [k |-> "unmount", f |-> 0, ret |-> 0]
           /\ UNCHANGED <<free, own, leak, ibx, bbdirty>>
Mount == /\ ~mounted /\ mounted' = TRUE
         /\ free' = dfree /\ bbdirty' = FALSE
         /\ aop' = [k |-> "mount", f |-> 0, ret |-> 0]
         /\ UNCHANGED <<own, leak, ibx, dfree>>

SNext == \/ \E f \in Owners, nd \in 0 .. 1, nm \in 0 .. MaxMeta, o \in {"data", "meta"} : Grow(f, nd, nm, o)
         \/ \E f \in Owners, nd \in 1 .. 2, nm \in 0 .. MaxMeta : Prealloc(f, nd, nm)
         \/ \E f \in Owners, k \in 1 .. 2 : Release(f, k)
         \/ Unmount \/ Mount
SSpec == SInit /\ [][SNext]_svars

\* ------------------------------------------------------------------ the property
\* every unit is in exactly one place (in memory while mounted, on disk after close)
Conservation == mounted => free + Total(own) + Total(leak) = Units
\* the bitmap marks what the files map and nothing else; i_blocks counts what the file maps and nothing else
NoLeak == \A f \in Owners : leak[f] = 0 /\ ibx[f] = 0
\* what ext2fs_close leaves on disk is the bitmap of what the files map (e2fsck -fn after close)
DiskRecorded == ~mounted => dfree + Total(own) + Total(leak) = Units
\* a failing call never takes more than there is
NeverNegative == free >= 0 /\ dfree >= 0 /\ \A f \in Owners : own[f] >= 0

\* ------------------------------------------------------------------ the same property as a relation on observed records
\* (conformance: Trace_FileData conjoins one of these with every logged line; o = the accounting record of the line,
\*  taken AFTER the call: free / sb / gd free counts, own and ib per owner, stray, unm, shared)
ObsOwn(o) == [f \in Owners |-> o.own[f + 1]]
\* the record shows exactly the model state, and the three free counts agree
ObsIs(o) == /\ o.free = free' /\ o.sb = free' /\ o.gd = free'
            /\ \A f \in Owners : o.own[f + 1] = own'[f] /\ o.ib[f + 1] = own'[f] + ibx'[f]
            /\ o.stray = Total(leak') /\ o.unm = 0 /\ o.shared = 0
Conserved == free' + Total(own') + Total(leak') = free + Total(own) + Total(leak)
OthersKeep(f) == \A g \in Owners : g # f => own'[g] = own[g]
\* the call may have allocated for f (write, fallocate, flush / close of a handle, filling the ballast)
RelGrow(f, o) == /\ own' = ObsOwn(o) /\ free' = o.free /\ own'[f] >= own[f]
                 /\ OthersKeep(f) /\ UNCHANGED <<leak, ibx>> /\ Conserved /\ ObsIs(o)
\* the call may have released units of f, or moved them (punch splits an extent: a tree block may be added)
RelAny(f, o) == /\ own' = ObsOwn(o) /\ free' = o.free
                /\ OthersKeep(f) /\ UNCHANGED <<leak, ibx>> /\ Conserved /\ ObsIs(o)
\* nothing is allocated or released (read; and close + open of the filesystem: the disk recorded everything)
RelNone(o) == /\ UNCHANGED <<free, own, leak, ibx>> /\ ObsIs(o)
\* several files may have allocated (both files of an alternating prelude; closing the handles before ext2fs_close: a flush
\* converts an uninitialized block and may split its extent)
RelGrowAll(o) == /\ own' = ObsOwn(o) /\ free' = o.free /\ \A g \in Owners : own'[g] >= own[g]
                 /\ UNCHANGED <<leak, ibx>> /\ Conserved /\ ObsIs(o)
\* DevFallocLeak: a fallocate that ran out of space exactly at the insert; the claimed c units stay marked and charged
RelFallocLeak(f, o) == /\ DevFallocLeak
                       /\ own' = ObsOwn(o) /\ free' = 0 /\ o.free = 0 /\ own'[f] >= own[f] /\ OthersKeep(f)
                       /\ \E c \in 1 .. free : /\ leak' = [leak EXCEPT ![f] = @ + c] /\ ibx' = [ibx EXCEPT ![f] = @ + c]
                                               /\ own'[f] - own[f] = free - c
                       /\ ObsIs(o)

\* ------------------------------------------------------------------ the protocols are instances of the relations
ObsOf == [free |-> free', sb |-> free', gd |-> free', own |-> [i \in 1 .. NOwn |-> own'[i - 1]],
          ib |-> [i \in 1 .. NOwn |-> own'[i - 1] + ibx'[i - 1]], stray |-> Total(leak'), unm |-> 0, shared |-> 0]
StepIsRelation == CASE aop'.k \in {"grow", "prealloc"} -> RelGrow(aop'.f, ObsOf)
                    [] aop'.k = "prealloc-leak" -> RelFallocLeak(aop'.f, ObsOf)
                    [] aop'.k = "release" -> RelAny(aop'.f, ObsOf)
                    [] aop'.k \in {"unmount", "mount"} -> RelNone(ObsOf)
                    [] OTHER -> FALSE
RefinesRelations == [][StepIsRelation]_svars
=============================================================================
