SPECIFICATION TraceSpec
CONSTANTS
  NG = 48
  K = 8
  D = 4
  InitBS = 2
  DevInvalSkipsClean = FALSE
  DevZeroBypassesCache = FALSE
  DevWriteEvictErrLost = FALSE
  TogglePre = TRUE
INVARIANT Coherent
INVARIANT DurableAfterFlush
INVARIANT ErrorReported
INVARIANT Refines
INVARIANT NoDupSlots
INVARIANT LruWellFormed
INVARIANT WriteThroughClean
PROPERTY RefinesIo
POSTCONDITION TraceAccepted
CHECK_DEADLOCK FALSE
