------------------------- MODULE Trace_UnixIoCache -------------------------
(* Trace validation for C17 (cache part): every line that harness/iodrv.c logs for a call on the unix I/O
   channel (arguments, return code, returned tags, the 8 cache slots + access_time order from hook H1, the
   handler calls, the device events seen by iotrace.so, the backing file read directly) must be exactly the step
   the action of UnixIoCache for that entry point takes; the invariants of UnixIoCache (Coherent,
   DurableAfterFlush, ErrorReported, Refines, ...) and the refinement of IoChannel are evaluated at every line.
   Behaviours whose reset line has cfg[4] = 1 are histories applied to an undo_io channel wrapped around the unix
   channel: o_begin / o_end bracket every call made on the wrapper, the nested calls on the unix channel are the
   ordinary lines in between and the calls on the undo file's channel are the "u_*" lines.  They must be behaviours
   of StackedIo (the order of the nested calls, which results are dropped, the value the wrapper returns), and
   StackedIo's properties at the wrapper's level (OuterCoherent, OuterDurable, OuterLogical, OuterErrorReported,
   OuterCloseClean) are evaluated at every o_end.                                                            *)
EXTENDS StackedIo, Json, IOUtils
VARIABLES l,
          stacked       \* the behaviour is a history on the wrapper
tvars == <<vars, svars, l, stacked>>
Tr == ndJsonDeserialize(IOEnv.TRACE)
Ln == Tr[l]
IsEvent(e) == l <= Len(Tr) /\ Tr[l].e = e /\ l' = l + 1

Writes(ev) == SelectSeq(ev, LAMBDA x : x[1] = 1)
Modelled(ev) == SelectSeq(ev, LAMBDA x : x[1] = 1 \/ x[1] = 2)
FOf == LET w == Writes(Ln.ev) IN {k \in 1..Len(w) : w[k][4] = 1}         \* the write attempts iotrace.so failed
Dio == Ln.cfg[5] = 1

SlotsMatch == /\ \A i \in 1..K : /\ slot'[i].use = (Ln.slots[i][2] = 1)
                                 /\ slot'[i].use => /\ slot'[i].blk = Ln.slots[i][1]
                                                    /\ slot'[i].dirty = (Ln.slots[i][3] = 1)
                                                    /\ slot'[i].werr = (Ln.slots[i][4] = 1)
              /\ lru' = Ln.lru
FileMatch == \A g \in G : dev'[g] = Ln.file[g + 1]
Logged == /\ SlotsMatch /\ FileMatch
          /\ res'.ret = Ln.ret /\ res'.hb = Ln.hb
          /\ (Dio \/ res'.ev = Modelled(Ln.ev))
          /\ open' => /\ cfg'.nocache = (Ln.nocache = 1)
                      /\ (Dio \/ cfg'.align = Ln.align)
                      /\ bs' = Ln.bs

CfgOf == [nocache |-> Ln.cfg[6] = 1, wt |-> Ln.cfg[1] = 1, bounce |-> Ln.cfg[2] = 1, handler |-> Ln.cfg[3] = 1, align |-> IF Dio THEN 4096 ELSE 0]
Fresh == [g \in G |-> 1]
NoRes(op) == [op |-> op, ret |-> 0, rng |-> {}, data |-> <<>>, rok |-> TRUE, ev |-> <<>>, hb |-> <<>>, nfail |-> 0, fg |-> {}]

Plain == ~stacked /\ UNCHANGED <<svars, stacked>>
\* a new behaviour: fresh backing file (tag 1 everywhere), channel opened with the logged configuration
TReset == /\ IsEvent("reset") /\ Ln.a = NG
          /\ dev' = Fresh /\ logical' = Fresh /\ slot' = NoSlots /\ lru' = <<>> /\ bs' = InitBS /\ open' = TRUE
          /\ cfg' = CfgOf /\ unrep' = FALSE /\ res' = NoRes("open")
          /\ SlotsMatch /\ FileMatch /\ bs' = Ln.bs
          /\ stacked' = (Ln.cfg[4] = 1) /\ oc' = IdleOc /\ ust' = FreshUst(InitBS) /\ ores' = NoOres /\ ounrep' = FALSE
OpenArgs(A(_, _, _, _, _)) == A(Ln.cfg[1] = 1, Ln.cfg[2] = 1, Ln.cfg[3] = 1, IF Dio THEN 4096 ELSE 0, Ln.cfg[6] = 1)
TOpen == /\ IsEvent("open") /\ UNCHANGED stacked
         /\ IF stacked THEN OpenArgs(OOpen) ELSE OpenArgs(Open) /\ UNCHANGED svars
         /\ SlotsMatch /\ FileMatch /\ bs' = Ln.bs
TRead == /\ IsEvent("read") /\ Read(Ln.a, Ln.b, FOf) /\ Logged /\ Plain
         /\ (Ln.ret = 0 => res'.data = Ln.data)
TWrite == IsEvent("write") /\ Write(Ln.a, Ln.b, Ln.tags, FOf) /\ Logged /\ Plain
TWByte == IsEvent("wbyte") /\ WriteByte(Ln.a, Ln.b, Ln.tags, FOf) /\ Logged /\ Plain
TZero == IsEvent("zero") /\ Zeroout(Ln.a, Ln.b, Ln.ret = 0, 0, FOf) /\ Logged /\ Plain
TDiscard == IsEvent("discard") /\ Zeroout(Ln.a, Ln.b, Ln.ret = 0, 0, FOf) /\ Logged /\ Plain
TFlush == IsEvent("flush") /\ Flush(FOf) /\ Logged /\ Plain
TClose == IsEvent("close") /\ Close(FOf) /\ Logged /\ Plain
TBlksize == IsEvent("blksize") /\ SetBlksize(Ln.a, FOf) /\ Logged /\ Plain
TCacheOff == IsEvent("cacheoff") /\ CacheOff(FOf) /\ Logged /\ Plain
TCacheOn == IsEvent("cacheon") /\ CacheOn /\ Logged /\ Plain
TReadahead == IsEvent("readahead") /\ UNCHANGED vars /\ Plain            \* posix_fadvise only
TSkip == IsEvent("skip") /\ UNCHANGED <<vars, svars, stacked>>          \* the driver refused a request (outside the backing file; block sizes of wrapper and channel differ)

\* ---- a history on the undo_io wrapper: every line is the step of StackedIo for it
Nested == stacked /\ UNCHANGED stacked
TOBegin == IsEvent("o_begin") /\ Nested /\ OBegin(Ln.op, Ln.a, Ln.b, Ln.tags)
TNRead == /\ IsEvent("read") /\ Nested /\ NRead(Ln.a, Ln.b, FOf) /\ Logged
          /\ (Ln.ret = 0 => res'.data = Ln.data)
TNWrite == IsEvent("write") /\ Nested /\ Ln.tags = oc.tags /\ NWrite(Ln.a, Ln.b, Ln.tags, FOf) /\ Logged
TNWByte == IsEvent("wbyte") /\ Nested /\ Ln.tags = oc.tags /\ NWByte(Ln.a, Ln.b, Ln.tags, FOf) /\ Logged
TNZero == IsEvent("zero") /\ Nested /\ NZero("zero", Ln.a, Ln.b, Ln.ret = 0, 0, FOf) /\ Logged
TNDiscard == IsEvent("discard") /\ Nested /\ NZero("discard", Ln.a, Ln.b, Ln.ret = 0, 0, FOf) /\ Logged
TNFlush == IsEvent("flush") /\ Nested /\ NFlush(FOf) /\ Logged
TNClose == IsEvent("close") /\ Nested /\ NClose(FOf) /\ Logged
TNBlksize == IsEvent("blksize") /\ Nested /\ NBlksize(Ln.a, FOf) /\ Logged
TNCacheOff == IsEvent("cacheoff") /\ Nested /\ NCacheOff(FOf) /\ Logged
TNCacheOn == IsEvent("cacheon") /\ Nested /\ NCacheOn /\ Logged
TNReadahead == IsEvent("readahead") /\ Nested /\ NReadahead(Ln.ret)
TUCall == \E k \in {"blksize", "read", "write", "flush", "close"} : IsEvent("u_" \o k) /\ Nested /\ (UCall(k, Ln.ret) \/ UExtra(k, Ln.ret))
\* the properties at the wrapper's level are evaluated with the value the caller really got; that it is the value the
\* transcription computes is the invariant OuterRetAsSpecified
TOEnd == /\ IsEvent("o_end") /\ Nested /\ OFinish(Ln.ret)
         /\ Ln.op = oc.op
         /\ (oc.op = "read" /\ Ln.ret = 0) => Ln.data = oc.data             \* the wrapper handed the nested read's data to its caller

TraceInit == InitWith(Fresh) /\ l = 1 /\ stacked = FALSE /\ SInit
TraceNext == TReset \/ TOpen \/ TRead \/ TWrite \/ TWByte \/ TZero \/ TDiscard \/ TFlush \/ TClose \/ TBlksize
             \/ TCacheOff \/ TCacheOn \/ TReadahead \/ TSkip
             \/ TOBegin \/ TNRead \/ TNWrite \/ TNWByte \/ TNZero \/ TNDiscard \/ TNFlush \/ TNClose \/ TNBlksize
             \/ TNCacheOff \/ TNCacheOn \/ TNReadahead \/ TUCall \/ TOEnd
TraceSpec == TraceInit /\ [][TraceNext]_tvars
TraceAccepted == TLCGet("stats").diameter - 1 = Len(Tr)
RefinesIo == [][IO!NextObs \/ (l <= Len(Tr) /\ Tr[l].e = "reset")]_vars      \* a reset line starts a new behaviour
=============================================================================
