------------------------- MODULE Trace_UnixIoCache -------------------------
(* Trace validation for C17 (cache part): every line that harness/iodrv.c logs for a call on the unix I/O
   channel (arguments, return code, returned tags, the 8 cache slots + access_time order from hook H1, the
   handler calls, the device events seen by iotrace.so, the backing file read directly) must be exactly the step
   the action of UnixIoCache for that entry point takes; the invariants of UnixIoCache (Coherent,
   DurableAfterFlush, ErrorReported, Refines, ...) and the refinement of IoChannel are evaluated at every line.
   Lines "o_*" are the calls made on an undo_io channel wrapped around the unix channel: what the caller of the
   wrapper sees must agree with `logical`.                                                                   *)
EXTENDS UnixIoCache, Json, IOUtils
VARIABLES l
tvars == <<vars, l>>
Tr == ndJsonDeserialize(IOEnv.TRACE)
Ln == Tr[l]
IsEvent(e) == l <= Len(Tr) /\ Tr[l].e = e /\ l' = l + 1

Writes(ev) == SelectSeq(ev, LAMBDA x : x[1] = 1)
Modelled(ev) == SelectSeq(ev, LAMBDA x : x[1] = 1 \/ x[1] = 2)
FOf == LET w == Writes(Ln.ev) IN {k \in 1..Len(w) : w[k][4] = 1}         \* the write attempts iotrace.so failed
Dio == Ln.cfg[5] = 1

SlotsMatch == /\ \A i \in 1..K : /\ slot'[i].use = (Ln.slots[i][2] = 1)
                                 /\ slot'[i].use => /\ slot'[i].blk = Ln.slots[i][1]
                                                    /\ slot'[i].dirty = (Ln.slots[i][3] = 1)
                                                    /\ slot'[i].werr = (Ln.slots[i][4] = 1)
              /\ lru' = Ln.lru
FileMatch == \A g \in G : dev'[g] = Ln.file[g + 1]
Logged == /\ SlotsMatch /\ FileMatch
          /\ res'.ret = Ln.ret /\ res'.hb = Ln.hb
          /\ (Dio \/ res'.ev = Modelled(Ln.ev))
          /\ open' => /\ cfg'.nocache = (Ln.nocache = 1)
                      /\ (Dio \/ cfg'.align = Ln.align)
                      /\ bs' = Ln.bs

CfgOf == [nocache |-> Ln.cfg[6] = 1, wt |-> Ln.cfg[1] = 1, bounce |-> Ln.cfg[2] = 1, handler |-> Ln.cfg[3] = 1, align |-> IF Dio THEN 4096 ELSE 0]
Fresh == [g \in G |-> 1]
NoRes(op) == [op |-> op, ret |-> 0, rng |-> {}, data |-> <<>>, rok |-> TRUE, ev |-> <<>>, hb |-> <<>>, nfail |-> 0, fg |-> {}]

\* a new behaviour: fresh backing file (tag 1 everywhere), channel opened with the logged configuration
TReset == /\ IsEvent("reset") /\ Ln.a = NG
          /\ dev' = Fresh /\ logical' = Fresh /\ slot' = NoSlots /\ lru' = <<>> /\ bs' = InitBS /\ open' = TRUE
          /\ cfg' = CfgOf /\ unrep' = FALSE /\ res' = NoRes("open")
          /\ SlotsMatch /\ FileMatch /\ bs' = Ln.bs
TOpen == /\ IsEvent("open") /\ Open(Ln.cfg[1] = 1, Ln.cfg[2] = 1, Ln.cfg[3] = 1, IF Dio THEN 4096 ELSE 0, Ln.cfg[6] = 1)
         /\ SlotsMatch /\ FileMatch /\ bs' = Ln.bs
TRead == /\ IsEvent("read") /\ Read(Ln.a, Ln.b, FOf) /\ Logged
         /\ (Ln.ret = 0 => res'.data = Ln.data)
TWrite == IsEvent("write") /\ Write(Ln.a, Ln.b, Ln.tags, FOf) /\ Logged
TWByte == IsEvent("wbyte") /\ WriteByte(Ln.a, Ln.b, Ln.tags, FOf) /\ Logged
TZero == IsEvent("zero") /\ Zeroout(Ln.a, Ln.b, Ln.ret = 0, 0, FOf) /\ Logged
TDiscard == IsEvent("discard") /\ Zeroout(Ln.a, Ln.b, Ln.ret = 0, 0, FOf) /\ Logged
TFlush == IsEvent("flush") /\ Flush(FOf) /\ Logged
TClose == IsEvent("close") /\ Close(FOf) /\ Logged
TBlksize == IsEvent("blksize") /\ SetBlksize(Ln.a, FOf) /\ Logged
TCacheOff == IsEvent("cacheoff") /\ CacheOff(FOf) /\ Logged
TCacheOn == IsEvent("cacheon") /\ CacheOn /\ Logged
TReadahead == IsEvent("readahead") /\ UNCHANGED vars            \* posix_fadvise only
TSkip == IsEvent("skip") /\ UNCHANGED vars                      \* the driver refused a request outside the backing file

\* ---- calls on the undo_io wrapper: only what its caller sees
ORng == IF Ln.e = "o_wbyte" THEN Ln.a..(Ln.a + Ln.b - 1) ELSE Rng(Ln.a, Ln.b)
Seen(sq, g) == sq[g - First(ORng) + 1]
TORead == /\ IsEvent("o_read") /\ UNCHANGED vars
          /\ Ln.ret = 0 => \A g \in ORng : logical[g] = UNK \/ Seen(Ln.data, g) = logical[g]
TOWrite == /\ (IsEvent("o_write") \/ IsEvent("o_wbyte")) /\ UNCHANGED vars
           /\ Ln.ret = 0 => \A g \in ORng : logical[g] = Seen(Ln.tags, g)
TOZero == /\ (IsEvent("o_zero") \/ IsEvent("o_discard")) /\ UNCHANGED vars
          /\ Ln.ret = 0 => \A g \in ORng : logical[g] = 0
TOFlush == /\ (IsEvent("o_flush") \/ IsEvent("o_close")) /\ UNCHANGED vars
           /\ Ln.ret = 0 => Agrees(logical, dev, G)
TOOther == (IsEvent("o_blksize") \/ IsEvent("o_cacheoff") \/ IsEvent("o_cacheon") \/ IsEvent("o_readahead")) /\ UNCHANGED vars

TraceInit == InitWith(Fresh) /\ l = 1
TraceNext == TReset \/ TOpen \/ TRead \/ TWrite \/ TWByte \/ TZero \/ TDiscard \/ TFlush \/ TClose \/ TBlksize
             \/ TCacheOff \/ TCacheOn \/ TReadahead \/ TSkip \/ TORead \/ TOWrite \/ TOZero \/ TOFlush \/ TOOther
TraceSpec == TraceInit /\ [][TraceNext]_tvars
TraceAccepted == TLCGet("stats").diameter - 1 = Len(Tr)
RefinesIo == [][IO!NextObs \/ (l <= Len(Tr) /\ Tr[l].e = "reset")]_vars      \* a reset line starts a new behaviour
=============================================================================
