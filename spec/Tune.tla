------------------------------- MODULE Tune -------------------------------
(* C11 -- tune2fs conversions.  Implementation-shaped specification of misc/tune2fs.c: the request/effect relation of
   update_feature_set(), handle_quota_options(), add_journal() and the option handling of main(), over an abstract
   superblock state.  One operator per code path; the order of the stages is the order of the C code (a refusal in an
   earlier stage hides the later ones).

   Abstract state (a record):
     feats    set of feature names            label, lastmnt, extopts   strings
     uuid     class: "orig" | "A" | "B" | "null" | "random" | "time" | "other"
     seed     relation of s_checksum_seed to the UUID: "zero" | "uuid" (= crc32c(~0, uuid)) | "other"
     blocks, rblocks, errors, maxmnt, mntcount, interval, isz, bs, resuid, resgid, stride, stripe, hashalg   integers
     mntopts  set of the one-bit default mount options   jmode  the 2-bit journalling-mode FIELD of s_default_mount_opts (0..3)
     quota  set of quota types with a quota inode   qinum  [usr, grp, prj |-> inode number of the quota file, 0 = none]
     firstino  s_first_ino   lowfree  the lowest free inode >= s_first_ino (observed; 0 = none): where libext2fs allocates next
     journal, orphino, mmp, testfs, valid, errfs, packed  0/1     mmpint, csumtype, lastcheck, mtime  integers

   Literal behaviours of the pinned tree that break property C11 are kept behind Dev* constants (TRUE = what the
   unrepaired code does); the conformance configuration uses FALSE for every defect that has a fix patch.           *)
EXTENDS Integers, Sequences, FiniteSets, TLC

CONSTANTS DevRewriteSkipsOrphanFile,     \* rewrite_metadata_checksums() does not visit the orphan file's blocks (DESIGN 7 row 17)
          DevJournalOffKeepsOrphanFile,  \* -O ^has_journal is accepted while orphan_file stays set
          DevDirIndexOffNoFsck           \* -O ^dir_index without metadata_csum neither rewrites directories nor asks for e2fsck

AsSet(q) == {q[i] : i \in 1..Len(q)}

(* ---------------------------------------------------------------------------------------------------------------- *)
(* ok_features[] / clear_ok_features[] of tune2fs.c                                                                  *)
SetOK   == {"has_journal", "dir_index", "fast_commit", "stable_inodes", "orphan_file",
            "filetype", "extent", "flex_bg", "ea_inode", "mmp", "64bit", "encrypt", "metadata_csum_seed", "large_dir", "casefold",
            "large_file", "huge_file", "dir_nlink", "extra_isize", "uninit_bg", "sparse_super", "quota", "metadata_csum",
            "read-only", "project", "verity"}
ClearOK == {"has_journal", "resize_inode", "dir_index", "fast_commit", "orphan_file",
            "filetype", "flex_bg", "mmp", "64bit", "metadata_csum_seed", "casefold",
            "large_file", "huge_file", "dir_nlink", "extra_isize", "uninit_bg", "quota", "project", "metadata_csum", "read-only"}

QTypes == {"usr", "grp", "prj"}
QName(t) == CASE t = "usr" -> "usrquota" [] t = "grp" -> "grpquota" [] t = "prj" -> "prjquota"
RW_EA == "ea"  RW_DIR == "dir"  RW_NONDIR == "nondir"
RewriteAll == {RW_EA, RW_DIR, RW_NONDIR}

(* check_fsck_needed(): "This operation requires a freshly checked filesystem."                                      *)
Fresh(st) == st.valid = 1 /\ st.errfs = 0 /\ st.lastcheck >= st.mtime

(* ext2fs_init_csum_seed() at open time: the seed the library computes checksums with                                *)
HasCsumKey(feats) == "metadata_csum" \in feats \/ "ea_inode" \in feats

(* ---------------------------------------------------------------------------------------------------------------- *)
(* The run context threaded through the stages                                                                       *)
Ctx0(st) == [ref |-> "",                 \* "" = not refused so far, else the reason
             st |-> st, old |-> st.feats, e |-> st.feats,
             rw |-> {},                  \* rewrite_checksums flags
             askf |-> FALSE,             \* request_fsck_afterwards()
             jadd |-> FALSE,             \* journal_size set: add_journal() will run
             oadd |-> FALSE,             \* orphan_file_blocks set: ext2fs_create_orphan_file() will run
             qflag |-> FALSE, q |-> [t \in QTypes |-> 0],     \* quota_enable[]: 1 enable, -1 disable, 0 untouched
             mayfail |-> FALSE,          \* allocation of new objects may legitimately fail (ENOSPC): no claim on refusal
             offreq |-> {},              \* features the -O string clears explicitly
             touched |-> {}]             \* components whose superblock fields may change
Refuse(c, why) == [c EXCEPT !.ref = why]
On(c, f)  == f \notin c.old /\ f \in c.e
Off(c, f) == f \in c.old /\ f \notin c.e
Changed(c, f) == (f \in c.old) # (f \in c.e)

(* ---- update_feature_set() --------------------------------------------------------------------------------------- *)
SEdit(c, on, off) ==
   IF (on \ SetOK) # {} THEN Refuse(c, "setting not supported")
   ELSE IF (off \ ClearOK) # {} THEN Refuse(c, "clearing not supported")
   ELSE [c EXCEPT !.e = (c.e \cup on) \ off]

SJournalOff(c) ==
   IF ~Off(c, "has_journal") THEN c
   ELSE IF "needs_recovery" \in c.st.feats THEN Refuse(c, "needs_recovery is set")
   ELSE IF ~DevJournalOffKeepsOrphanFile /\ "orphan_file" \in c.e THEN Refuse(c, "orphan_file requires a journal")
   ELSE [c EXCEPT !.st.journal = 0, !.touched = @ \cup {"journal"}]           \* remove_journal_inode()

SOrphanOff(c) ==
   IF ~Off(c, "orphan_file") THEN c
   ELSE IF "orphan_present" \in c.st.feats THEN Refuse(c, "orphan_present is set")
   ELSE [c EXCEPT !.st.orphino = 0, !.e = @ \ {"orphan_file", "orphan_present"}, !.touched = @ \cup {"orphan"}]

SOrphanOn(c) ==
   IF ~On(c, "orphan_file") THEN c
   ELSE IF "has_journal" \notin c.e THEN Refuse(c, "orphan_file needs a journal")
   ELSE [c EXCEPT !.oadd = TRUE, !.mayfail = TRUE, !.touched = @ \cup {"orphan"}]

SSparseOn(c) ==
   IF On(c, "sparse_super") /\ "meta_bg" \in c.e THEN Refuse(c, "sparse_super not supported with meta_bg") ELSE c

SMmp(c) ==
   IF On(c, "mmp") THEN [c EXCEPT !.st.mmp = 1, !.st.mmpint = 5, !.mayfail = TRUE, !.touched = @ \cup {"mmp"}]
   ELSE IF Off(c, "mmp") THEN [c EXCEPT !.st.mmp = 0, !.st.mmpint = 0, !.touched = @ \cup {"mmp"}]
   ELSE c

SJournalOn(c) ==
   IF ~On(c, "has_journal") THEN c
   ELSE [c EXCEPT !.jadd = TRUE, !.e = @ \ {"has_journal"}]                     \* add_journal() sets the flag later

SDirIndexOn(c) ==
   IF On(c, "dir_index") /\ c.st.hashalg = 0 THEN [c EXCEPT !.st.hashalg = 1, !.touched = @ \cup {"hash"}]
   ELSE IF On(c, "dir_index") THEN [c EXCEPT !.touched = @ \cup {"hash"}] ELSE c

SDirIndexOff(c) ==
   IF ~(Off(c, "dir_index") /\ "metadata_csum" \in c.e) THEN c
   ELSE IF ~Fresh(c.st) THEN Refuse(c, "needs a freshly checked filesystem")
   ELSE [c EXCEPT !.rw = @ \cup {RW_DIR}]

SFlexOff(c) ==
   IF Off(c, "flex_bg") /\ c.st.packed = 1 THEN Refuse(c, "clearing flex_bg would make the filesystem inconsistent") ELSE c

SCsumOn(c) ==
   IF ~On(c, "metadata_csum") THEN c
   ELSE IF ~Fresh(c.st) THEN Refuse(c, "needs a freshly checked filesystem")
   ELSE [c EXCEPT !.rw = RewriteAll,
                  !.e = @ \ {"uninit_bg"},                                     \* metadata_csum supersedes uninit_bg
                  !.old = @ \ {"uninit_bg"},                                   \* "pretend uninit_bg has been off all along"
                  !.touched = @ \cup {"csum", "gd"}]

SCsumOff(c) ==
   IF ~Off(c, "metadata_csum") THEN c
   ELSE IF ~Fresh(c.st) THEN Refuse(c, "needs a freshly checked filesystem")
   ELSE LET keep == c.offreq                                                    \* features the user cleared explicitly
            e1 == IF "uninit_bg" \notin keep THEN c.e \cup {"uninit_bg"} ELSE c.e
            old1 == IF "uninit_bg" \in e1 THEN c.old \cup {"uninit_bg"} ELSE c.old
        IN [c EXCEPT !.rw = RewriteAll, !.e = e1 \ {"metadata_csum_seed"}, !.old = old1,
                     !.st.seed = "zero", !.touched = @ \cup {"csum", "gd", "seed"}]

SUninitOn(c) ==
   IF ~On(c, "uninit_bg") THEN c
   ELSE IF "metadata_csum" \in c.e THEN [c EXCEPT !.e = @ \ {"uninit_bg"}]     \* not enabled next to metadata_csum
   ELSE [c EXCEPT !.touched = @ \cup {"gd"}]                                   \* enable_uninit_bg()
SUninitOff(c) ==
   IF Off(c, "uninit_bg") THEN [c EXCEPT !.touched = @ \cup {"gd"}] ELSE c     \* disable_uninit_bg()

S64(c) ==                                                                       \* delegated to resize2fs: the bit is put back
   IF On(c, "64bit") THEN [c EXCEPT !.e = @ \ {"64bit"}]
   ELSE IF Off(c, "64bit") THEN [c EXCEPT !.e = @ \cup {"64bit"}] ELSE c

SQuotaOn(c) ==
   IF ~On(c, "quota") THEN c
   ELSE LET c1 == IF c.qflag THEN c ELSE [c EXCEPT !.qflag = TRUE, !.q = [t \in QTypes |-> IF t = "prj" THEN -1 ELSE 1]]
        IN [c1 EXCEPT !.e = @ \ {"quota"}]
SProjectOn(c) ==
   IF ~On(c, "project") THEN c
   ELSE IF c.st.isz = 128 THEN Refuse(c, "inode size too small for project")
   ELSE [c EXCEPT !.qflag = TRUE, !.q["prj"] = 1]
SProjectOff(c) == IF Off(c, "project") THEN [c EXCEPT !.qflag = TRUE, !.q["prj"] = -1] ELSE c
SQuotaOff(c) == IF Off(c, "quota") THEN [c EXCEPT !.qflag = TRUE, !.q = [t \in QTypes |-> -1]] ELSE c

SMisc(c) ==
   LET c1 == IF On(c, "encrypt") THEN [c EXCEPT !.touched = @ \cup {"encrypt"}] ELSE c
   IN IF Changed(c1, "casefold") THEN [c1 EXCEPT !.touched = @ \cup {"casefold"}] ELSE c1

SSeedOn(c) ==
   IF ~On(c, "metadata_csum_seed") THEN c
   ELSE IF "metadata_csum" \notin c.e THEN Refuse(c, "metadata_csum_seed needs metadata_csum")
   ELSE [c EXCEPT !.st.seed = IF HasCsumKey(c.st.feats) THEN "uuid" ELSE "zero",   \* s_checksum_seed = fs->csum_seed (as of open)
                  !.touched = @ \cup {"seed"}]
SSeedOff(c) ==
   IF ~Off(c, "metadata_csum_seed") THEN c
   ELSE IF c.st.seed = "uuid" THEN c                                            \* stored seed = crc32c(uuid): nothing to rewrite
   ELSE IF ~Fresh(c.st) THEN Refuse(c, "needs a freshly checked filesystem")
   ELSE [c EXCEPT !.rw = RewriteAll, !.touched = @ \cup {"csum"}]

SAskFsck(c) ==
   IF Changed(c, "sparse_super") \/ Off(c, "huge_file") \/ Changed(c, "filetype") \/ Changed(c, "resize_inode") \/ Off(c, "large_file")
      \/ (~DevDirIndexOffNoFsck /\ Off(c, "dir_index") /\ RW_DIR \notin c.rw)
   THEN [c EXCEPT !.askf = TRUE] ELSE c

UpdateFeatureSet(c, on, off) ==
   LET c0 == SEdit([c EXCEPT !.offreq = off], on, off)
       s1 == IF c0.ref # "" THEN c0 ELSE SJournalOff(c0)
       s2 == IF s1.ref # "" THEN s1 ELSE SOrphanOff(s1)
       s3 == IF s2.ref # "" THEN s2 ELSE SOrphanOn(s2)
       s4 == IF s3.ref # "" THEN s3 ELSE SSparseOn(s3)
       s5 == IF s4.ref # "" THEN s4 ELSE SMmp(s4)
       s6 == IF s5.ref # "" THEN s5 ELSE SJournalOn(s5)
       s7 == IF s6.ref # "" THEN s6 ELSE SDirIndexOn(s6)
       s8 == IF s7.ref # "" THEN s7 ELSE SDirIndexOff(s7)
       s9 == IF s8.ref # "" THEN s8 ELSE SFlexOff(s8)
       s10 == IF s9.ref # "" THEN s9 ELSE SCsumOn(s9)
       s11 == IF s10.ref # "" THEN s10 ELSE SCsumOff(s10)
       s12 == IF s11.ref # "" THEN s11 ELSE SUninitOn(s11)
       s13 == IF s12.ref # "" THEN s12 ELSE SUninitOff(s12)
       s14 == IF s13.ref # "" THEN s13 ELSE S64(s13)
       s15 == IF s14.ref # "" THEN s14 ELSE SQuotaOn(s14)
       s16 == IF s15.ref # "" THEN s15 ELSE SProjectOn(s15)
       s17 == IF s16.ref # "" THEN s16 ELSE SProjectOff(s16)
       s18 == IF s17.ref # "" THEN s17 ELSE SQuotaOff(s17)
       s19 == IF s18.ref # "" THEN s18 ELSE SMisc(s18)
       s20 == IF s19.ref # "" THEN s19 ELSE SSeedOn(s19)
       s21 == IF s20.ref # "" THEN s20 ELSE SSeedOff(s20)
       s22 == IF s21.ref # "" THEN s21 ELSE SAskFsck(s21)
   IN s22

(* ---- main(): what follows the option handlers --------------------------------------------------------------------- *)
AddJournal(c) ==                                                                \* add_journal()
   IF ~c.jadd THEN c
   ELSE IF "has_journal" \in c.e THEN Refuse(c, "the filesystem already has a journal")
   ELSE [c EXCEPT !.e = @ \cup {"has_journal"}, !.st.journal = 1, !.mayfail = TRUE, !.touched = @ \cup {"journal"}]

AddOrphan(c) == IF c.oadd THEN [c EXCEPT !.e = @ \cup {"orphan_file"}, !.st.orphino = 1] ELSE c

(* Which inode a quota file occupies.  User and group quota files live in the reserved inodes 3 and 4.  The project quota
   file lives in an ORDINARY inode: quota_file_create() takes it from ext2fs_new_inode(), i.e. any free inode >= s_first_ino,
   s_first_ino itself (11) included -- the lowest one.  It is released again (inode bitmap, free counts) when the file is
   removed, whatever its number.                                                                                        *)
ReservedQuotaIno(t) == CASE t = "usr" -> 3 [] t = "grp" -> 4
QuotaIno(t, st) == IF t = "prj" THEN st.lowfree ELSE ReservedQuotaIno(t)             \* what libext2fs does; the property allows QuotaInoAllowed
QuotaInoAllowed(t, ino, st) == IF t = "prj" THEN ino >= st.firstino ELSE ino = ReservedQuotaIno(t)
QuotaInumsOK(st) == /\ st.quota = {t \in QTypes : st.qinum[t] # 0}
                    /\ \A t \in st.quota : QuotaInoAllowed(t, st.qinum[t], st)
HandleQuota(c) ==                                                               \* handle_quota_options()
   IF ~c.qflag \/ (\A t \in QTypes : c.q[t] = 0) THEN c
   ELSE IF c.q["prj"] = 1 /\ c.st.isz = 128 THEN Refuse(c, "inode size too small for project quota")
   ELSE IF c.q["prj"] = 1 /\ "prj" \notin c.st.quota /\ c.st.lowfree = 0 THEN Refuse(c, "no free inode for the project quota file")
   ELSE LET en == {t \in QTypes : c.q[t] = 1}
            dis == {t \in QTypes : c.q[t] = -1}
            created == en \ c.st.quota
            q1 == (c.st.quota \cup en) \ dis
            e1 == IF created # {} THEN c.e \cup {"quota"} ELSE c.e
            e2 == IF "prj" \in created THEN e1 \cup {"project"} ELSE e1
            e3 == IF "prj" \in dis THEN e2 \ {"project"} ELSE e2
            e4 == IF en = {} /\ q1 = {} THEN e3 \ {"quota"} ELSE e3
            qi == [t \in QTypes |-> IF t \in dis THEN 0 ELSE IF t \in created THEN QuotaIno(t, c.st) ELSE c.st.qinum[t]]
        IN [c EXCEPT !.e = e4, !.st.quota = q1, !.st.qinum = [usr |-> qi["usr"], grp |-> qi["grp"], prj |-> qi["prj"]],
                     !.mayfail = (@ \/ created # {}), !.touched = @ \cup {"quota"}]

UuidToken(a) == IF a = "clear" \/ a = "null" THEN "null" ELSE IF a = "random" THEN "random" ELSE IF a = "time" THEN "time"
                ELSE IF a = "0a0a0a0a-1b1b-4c2c-8d3d-4e4e4e4e4e4e" THEN "A" ELSE IF a = "b0b0b0b0-c1c1-4d2d-9e3e-f4f4f4f4f4f4" THEN "B" ELSE "other"
UuidSame(st, tok) == tok \in {"A", "B", "null"} /\ st.uuid = tok

SetUuid(c, a) ==
   IF "stable_inodes" \in c.e THEN Refuse(c, "stable_inodes forbids changing the UUID")
   ELSE LET needrw == "metadata_csum_seed" \notin c.e /\ HasCsumKey(c.e)
            tok == UuidToken(a)
        IN IF needrw /\ ~Fresh(c.st) THEN Refuse(c, "needs a freshly checked filesystem")
           ELSE [c EXCEPT !.rw = IF needrw THEN RewriteAll ELSE @,
                          !.st.uuid = tok,
                          !.st.seed = IF c.st.seed = "zero" \/ UuidSame(c.st, tok) THEN c.st.seed ELSE "other",
                          !.touched = @ \cup {"uuid"} \cup (IF "uninit_bg" \in c.e \/ "metadata_csum" \in c.e THEN {"gd"} ELSE {})]

ResizeInode(c, n) ==
   IF n = c.st.isz THEN Refuse(c, "the inode size is already n")
   ELSE IF n < c.st.isz THEN Refuse(c, "shrinking the inode size is not supported")
   ELSE IF n > c.st.bs THEN Refuse(c, "invalid inode size")
   ELSE IF ~Fresh(c.st) THEN Refuse(c, "needs a freshly checked filesystem")
   ELSE IF "flex_bg" \in c.e THEN Refuse(c, "not supported with flex_bg")
   ELSE [c EXCEPT !.st.isz = n, !.rw = RewriteAll, !.mayfail = TRUE, !.touched = @ \cup {"isize"}]

Rewrite(c) ==                                                                   \* rewrite_metadata_checksums()
   IF c.rw = {} THEN c ELSE [c EXCEPT !.st.csumtype = IF "metadata_csum" \in c.e THEN 1 ELSE 0, !.touched = @ \cup {"csum"}]

(* -o: e2p_edit_mntopts().  The words are applied from left to right.  A one-bit option sets / (with ^) clears its bit.
   The journalling mode is ONE 2-bit field: naming a mode stores that mode in the field (whatever was there), ^mode
   empties the field (whatever was there).                                                                              *)
JModeNames == {"journal_data", "journal_data_ordered", "journal_data_writeback"}
JModeVal(name) == CASE name = "journal_data" -> 1 [] name = "journal_data_ordered" -> 2 [] name = "journal_data_writeback" -> 3
MntKnown == {"debug", "bsdgroups", "user_xattr", "acl", "uid16", "nobarrier", "block_validity", "discard", "nodelalloc"} \cup JModeNames
MntWord(m, x, neg) == IF x \in JModeNames THEN [m EXCEPT !.jmode = IF neg THEN 0 ELSE JModeVal(x)]
                      ELSE [m EXCEPT !.opts = IF neg THEN @ \ {x} ELSE @ \cup {x}]
RECURSIVE MntFold(_, _, _, _)
MntFold(m, q, neg, i) == IF i > Len(q) THEN m ELSE MntFold(MntWord(m, q[i], neg), q, neg, i + 1)
MntEdit(st, on, off) == MntFold(MntFold([opts |-> st.mntopts, jmode |-> st.jmode], on, FALSE, 1), off, TRUE, 1)   \* argv = on words, then ^off words
HashAlg(a) == CASE a = "hash_alg=legacy" -> 0 [] a = "hash_alg=half_md4" -> 1 [] a = "hash_alg=tea" -> 2 [] OTHER -> -1
ErrCode(a) == CASE a = "continue" -> 1 [] a = "remount-ro" -> 2 [] a = "panic" -> 3 [] OTHER -> -1
Label16(a) == IF a = "a_label_longer_than_16" THEN "a_label_longer_t" ELSE a      \* strncpy(.., 16)

(* One tune2fs invocation = one request.  op = [k, on, off, a, n].                                                       *)
Run(op, st) ==
   LET c == Ctx0(st)
       on == AsSet(op.on)  off == AsSet(op.off)
       k == op.k
       body ==
         CASE k = "c" -> IF op.n > 16000 \/ op.n < -16000 THEN Refuse(c, "bad mounts count") ELSE [c EXCEPT !.st.maxmnt = IF op.n = 0 THEN -1 ELSE op.n, !.touched = {"c"}]
           [] k = "C" -> IF op.n > 16000 \/ op.n < 0 THEN Refuse(c, "bad mounts count") ELSE [c EXCEPT !.st.mntcount = op.n, !.touched = {"C"}]
           [] k = "e" -> IF ErrCode(op.a) < 0 THEN Refuse(c, "bad error behavior") ELSE [c EXCEPT !.st.errors = ErrCode(op.a), !.touched = {"e"}]
           [] k = "g" -> [c EXCEPT !.st.resgid = op.n, !.touched = {"g"}]
           [] k = "u" -> [c EXCEPT !.st.resuid = op.n, !.touched = {"u"}]
           [] k = "i" -> [c EXCEPT !.st.interval = op.n, !.touched = {"i"}]
           [] k = "m" -> IF op.n > 50 \/ op.n < 0 THEN Refuse(c, "bad reserved block ratio") ELSE [c EXCEPT !.st.rblocks = (op.n * st.blocks) \div 100, !.touched = {"r"}]
           [] k = "r" -> IF op.n > st.blocks \div 2 THEN Refuse(c, "reserved blocks count is too big") ELSE [c EXCEPT !.st.rblocks = op.n, !.touched = {"r"}]
           [] k = "T" -> [c EXCEPT !.st.lastcheck = op.n, !.touched = {"T"}]
           [] k = "L" -> [c EXCEPT !.st.label = Label16(op.a), !.touched = {"L"}]
           [] k = "M" -> [c EXCEPT !.st.lastmnt = op.a, !.touched = {"M"}]
           [] k = "o" -> IF (on \cup off) \ MntKnown # {} THEN Refuse(c, "invalid mount option set")
                         ELSE LET m == MntEdit(st, op.on, op.off) IN [c EXCEPT !.st.mntopts = m.opts, !.st.jmode = m.jmode, !.touched = {"o"}]
           [] k = "O" -> UpdateFeatureSet(c, on, off)
           [] k = "E" -> CASE op.a = "stride" -> [c EXCEPT !.st.stride = op.n, !.touched = {"stride"}]
                           [] op.a = "stripe_width" -> [c EXCEPT !.st.stripe = op.n, !.touched = {"stripe"}]
                           [] HashAlg(op.a) >= 0 -> [c EXCEPT !.st.hashalg = HashAlg(op.a), !.touched = {"hash"}]
                           [] op.a = "test_fs" -> [c EXCEPT !.st.testfs = 1, !.touched = {"flags"}]
                           [] op.a = "^test_fs" -> [c EXCEPT !.st.testfs = 0, !.touched = {"flags"}]
                           [] op.a = "force_fsck" -> [c EXCEPT !.st.errfs = 1, !.touched = {"state"}]
                           [] op.a = "mount_opts=journal_checksum" -> [c EXCEPT !.st.extopts = "journal_checksum", !.touched = {"extopts"}]
                           [] op.a = "clear_mmp" -> [c EXCEPT !.mayfail = (st.mmp = 0), !.touched = {"mmpblk"}]   \* run with -f; rewrites the MMP block, no superblock field
                           [] op.a = "mount_opts=" -> [c EXCEPT !.st.extopts = "", !.touched = {"extopts"}]
                           [] OTHER -> Refuse(c, "bad extended option")
           [] k = "J" -> [c EXCEPT !.jadd = TRUE]
           [] k = "j" -> [c EXCEPT !.jadd = TRUE]
           [] k = "Q" -> IF (on \cup off) \ {"usrquota", "grpquota", "prjquota"} # {} THEN Refuse(c, "bad quota options")
                         ELSE [c EXCEPT !.qflag = TRUE,
                                        !.q = [t \in QTypes |-> IF QName(t) \in off THEN -1 ELSE IF QName(t) \in on THEN 1 ELSE 0]]
           [] k = "U" -> c
           [] k = "I" -> c
           [] OTHER -> Refuse(c, "unknown request")
       a1 == IF body.ref # "" THEN body ELSE AddJournal(body)
       a2 == IF a1.ref # "" THEN a1 ELSE AddOrphan(a1)
       a3 == IF a2.ref # "" THEN a2 ELSE HandleQuota(a2)
       a4 == IF a3.ref # "" \/ k # "U" THEN a3 ELSE SetUuid(a3, op.a)
       a5 == IF a4.ref # "" \/ k # "I" THEN a4 ELSE ResizeInode(a4, op.n)
       a6 == IF a5.ref # "" THEN a5 ELSE Rewrite(a5)
   IN IF a6.ref # "" THEN a6
      ELSE [a6 EXCEPT !.st.feats = a6.e, !.st.valid = IF a6.askf THEN 0 ELSE @]

Refused(op, st) == Run(op, st).ref # ""
Effect(op, st) == Run(op, st).st
Expected(op, st) == IF Refused(op, st) THEN "refused" ELSE Effect(op, st)

(* request_dir_fsck_afterwards() is data dependent (a directory block without room for the checksum tail, a full htree
   node): possible exactly when directories are rewritten while metadata_csum is on.                                    *)
MayAskDirFsck(op, st) == LET r == Run(op, st) IN r.ref = "" /\ RW_DIR \in r.rw /\ "metadata_csum" \in r.e
MustAskFsck(op, st) == LET r == Run(op, st) IN r.ref = "" /\ r.askf

(* ---------------------------------------------------------------------------------------------------------------- *)
(* Checksum obligations: which checksummed object classes exist, when their key changes, what the rewrite covers       *)
ObjClasses(st) ==
   {"sb", "gd", "inode", "bitmap"}
   \cup (IF "extent" \in st.feats THEN {"extent"} ELSE {})
   \cup {"dirleaf"} \cup (IF "dir_index" \in st.feats THEN {"dxnode"} ELSE {})
   \cup {"xattrblk"} \cup (IF "ea_inode" \in st.feats THEN {"eahash"} ELSE {})
   \cup (IF st.mmp = 1 THEN {"mmp"} ELSE {})
   \cup (IF st.orphino = 1 THEN {"orphanblk"} ELSE {})
(* Did the request change what checksums are computed from?  (scheme, effective seed, inode size / metadata layout)    *)
Crc(st) == "metadata_csum" \in st.feats
SeedFeat(st) == "metadata_csum_seed" \in st.feats
UuidChanged(op, st) == op.k = "U" /\ ~UuidSame(st, UuidToken(op.a))
KeyChanged(op, st0, st1) ==
   \/ Crc(st0) # Crc(st1)
   \/ ("uninit_bg" \in st0.feats) # ("uninit_bg" \in st1.feats)
   \/ UuidChanged(op, st0) /\ ~SeedFeat(st1)                                   \* seed = crc32c(uuid)
   \/ SeedFeat(st0) /\ ~SeedFeat(st1) /\ st0.seed # "uuid"                      \* stored seed dropped, differs from crc32c(uuid)
   \/ ~SeedFeat(st0) /\ SeedFeat(st1) /\ st1.seed # "uuid"                      \* stored seed differs from the seed used so far
   \/ st0.isz # st1.isz                                                         \* inode tables rebuilt, blocks moved
(* the object classes whose stored checksum (or checksum field) is wrong after such a change unless rewritten *)
Needs(op, st0, st1) ==
   LET dirchg == IF "dir_index" \in st0.feats /\ "dir_index" \notin st1.feats /\ Crc(st1) THEN {"dirleaf"} ELSE {}
   IN IF ~KeyChanged(op, st0, st1) THEN dirchg
      ELSE dirchg
           \cup (IF Crc(st1) THEN ObjClasses(st1) \ {"sb", "eahash"} ELSE {})
           \cup (IF Crc(st1) \/ Crc(st0) \/ "uninit_bg" \in st1.feats \/ "uninit_bg" \in st0.feats THEN {"gd"} ELSE {})
           \cup (IF st1.orphino = 1 /\ st0.orphino = 1 /\ (Crc(st0) \/ Crc(st1)) THEN {"orphanblk"} ELSE {})  \* valid, or zero when csum is off
           \cup (IF "ea_inode" \in st1.feats /\ "ea_inode" \in st0.feats /\ (UuidChanged(op, st0) \/ SeedFeat(st0) # SeedFeat(st1)) THEN {"eahash"} ELSE {})
RewriteCovers(r) ==
   (IF r.rw # {} \/ "gd" \in r.touched THEN {"gd"} ELSE {})
   \cup (IF r.rw = {} THEN {} ELSE {"bitmap", "mmp"})
   \cup (IF RewriteAll \subseteq r.rw THEN {"inode", "extent", "xattrblk", "eahash"} ELSE {})
   \cup (IF RW_DIR \in r.rw THEN {"dirleaf", "dxnode"} ELSE {})
   \cup (IF r.rw # {} /\ ~DevRewriteSkipsOrphanFile THEN {"orphanblk"} ELSE {})
   \cup (IF r.oadd THEN {"orphanblk"} ELSE {})                                  \* a freshly created orphan file is written with the current key
(* object classes left with a stale checksum by an accepted request: RewriteAllCsums obligation = this set is empty *)
Stale(op, st) ==
   LET r == Run(op, st) IN IF r.ref # "" THEN {} ELSE Needs(op, st, r.st) \ RewriteCovers(r)

(* ---------------------------------------------------------------------------------------------------------------- *)
(* Feature sets libext2fs opens and e2fsck accepts without complaint (lib/ext2fs/openfs.c, e2fsck/super.c, unix.c,      *)
(* journal.c): the combinations they reject                                                                            *)
LibSupported == {"dir_prealloc", "imagic_inodes", "has_journal", "resize_inode", "dir_index", "ext_attr", "sparse_super2", "fast_commit",
                 "stable_inodes", "orphan_file",
                 "filetype", "journal_dev", "meta_bg", "needs_recovery", "extent", "flex_bg", "ea_inode", "mmp", "64bit", "inline_data",
                 "encrypt", "casefold", "metadata_csum_seed", "large_dir",
                 "sparse_super", "huge_file", "large_file", "dir_nlink", "extra_isize", "uninit_bg", "bigalloc", "quota", "metadata_csum",
                 "read-only", "project", "shared_blocks", "verity", "orphan_present"}
FeatureSetOK(st) ==
   /\ st.feats \subseteq LibSupported                                            \* EXT2_ET_UNSUPP_FEATURE / RO_UNSUPP_FEATURE
   /\ ~("metadata_csum" \in st.feats /\ "uninit_bg" \in st.feats)                \* PR_0_META_AND_GDT_CSUM_SET
   /\ ("metadata_csum_seed" \in st.feats => "metadata_csum" \in st.feats)        \* PR_0_CSUM_SEED_WITHOUT_META_CSUM
   /\ ("64bit" \in st.feats => "extent" \in st.feats)                            \* PR_0_64BIT_WITHOUT_EXTENTS
   /\ ~("resize_inode" \in st.feats /\ "meta_bg" \in st.feats)                   \* PR_0_DISABLE_RESIZE_INODE
   /\ ("orphan_file" \in st.feats => "has_journal" \in st.feats)                 \* PR_6_ORPHAN_FILE_WITHOUT_JOURNAL
   /\ ("orphan_present" \in st.feats => "orphan_file" \in st.feats)
   /\ ("orphan_file" \in st.feats <=> st.orphino = 1)
   /\ ("has_journal" \in st.feats <=> (st.journal = 1 \/ st.jdev = 1))           \* e2fsck/journal.c
   /\ ("needs_recovery" \in st.feats => "has_journal" \in st.feats)
   /\ ("quota" \in st.feats <=> st.quota # {})                                   \* quota feature <=> some quota inode
   /\ QuotaInumsOK(st)                                                           \* each quota file in an inode it may occupy
   /\ ("project" \in st.feats => st.isz > 128)
   /\ ("prj" \in st.quota => "project" \in st.feats)
   /\ ("mmp" \in st.feats <=> st.mmp = 1)
   /\ (st.csumtype = 1 <=> "metadata_csum" \in st.feats)                         \* s_checksum_type (ext2fs_verify_csum_type)
   /\ ("bigalloc" \in st.feats => "extent" \in st.feats)

(* ---------------------------------------------------------------------------------------------------------------- *)
(* Which raw superblock fields a request may change (everything else must stay byte-identical)                          *)
Always == {"s_wtime", "s_wtime_hi", "s_kbytes_written", "s_checksum"}
FeatFields == {"s_feature_compat", "s_feature_incompat", "s_feature_ro_compat"}
FreeFields == {"s_free_blocks_count", "s_free_blocks_hi", "s_free_inodes_count"}
TouchedFields(t) ==
   CASE t = "c" -> {"s_max_mnt_count"} [] t = "C" -> {"s_mnt_count"} [] t = "e" -> {"s_errors"} [] t = "g" -> {"s_def_resgid"}
     [] t = "u" -> {"s_def_resuid"} [] t = "i" -> {"s_checkinterval"} [] t = "r" -> {"s_r_blocks_count", "s_r_blocks_count_hi"}
     [] t = "T" -> {"s_lastcheck", "s_lastcheck_hi"} [] t = "L" -> {"s_volume_name"} [] t = "M" -> {"s_last_mounted"}
     [] t = "o" -> {"s_default_mount_opts"} [] t = "stride" -> {"s_raid_stride"} [] t = "stripe" -> {"s_raid_stripe_width"}
     [] t = "hash" -> {"s_def_hash_version", "s_hash_seed"} [] t = "flags" -> {"s_flags"} [] t = "state" -> {"s_state"}
     [] t = "extopts" -> {"s_mount_opts"}
     [] t = "journal" -> {"s_journal_inum", "s_jnl_blocks", "s_jnl_backup_type", "s_overhead_clusters", "s_journal_uuid", "s_journal_dev"} \cup FreeFields
     [] t = "orphan" -> {"s_orphan_file_inum"} \cup FreeFields
     [] t = "quota" -> {"s_usr_quota_inum", "s_grp_quota_inum", "s_prj_quota_inum"} \cup FreeFields
     [] t = "mmp" -> {"s_mmp_block", "s_mmp_update_interval"} \cup FreeFields
     [] t = "csum" -> {"s_checksum_type"} [] t = "seed" -> {"s_checksum_seed"} [] t = "gd" -> {}
     [] t = "encrypt" -> {"s_encrypt_algos"} [] t = "casefold" -> {"s_encoding", "s_encoding_flags"}
     [] t = "uuid" -> {"s_uuid"}
     [] t = "isize" -> {"s_inode_size", "s_jnl_blocks", "s_overhead_clusters"} \cup FreeFields
     [] OTHER -> {}
(* Any e2fsck run that may write assigns a UUID to a filesystem that has none (e2fsck/super.c check_super_block(),
   PR_0_ADD_UUID "did not have a UUID; generating one"), unless metadata_csum is on.  So after `-U clear` the e2fsck run a
   LATER request asks for generates a UUID: part of what that run does, not a change made by the request.               *)
FsckAddsUuid(st) == st.uuid = "null" /\ "metadata_csum" \notin st.feats
FsckUuids(st) == IF FsckAddsUuid(st) THEN {"random", "time"} ELSE {st.uuid}
(* what the e2fsck run tune2fs asked for may touch on top *)
FsckFields == {"s_state", "s_lastcheck", "s_lastcheck_hi", "s_mnt_count", "s_jnl_blocks", "s_reserved_gdt_blocks", "s_flags",
               "s_min_extra_isize", "s_want_extra_isize", "s_overhead_clusters", "s_feature_ro_compat"} \cup FreeFields
AllowedChange(op, st, asked) ==
   LET r == Run(op, st)
   IN Always \cup UNION {TouchedFields(t) : t \in r.touched}
      \cup (IF r.e # st.feats \/ op.k \in {"O", "Q", "J", "j"} THEN FeatFields ELSE {})
      \cup (IF r.askf THEN {"s_state"} ELSE {})
      \cup (IF asked THEN FsckFields ELSE {})
      \cup (IF asked /\ r.ref = "" /\ FsckAddsUuid([r.st EXCEPT !.feats = r.e]) THEN {"s_uuid"} ELSE {})
MustChange(op, st) == IF op.k = "U" /\ UuidToken(op.a) \in {"random", "time"} /\ ~Refused(op, st) THEN {"s_uuid"} ELSE {}
(* features the requested e2fsck may put back while completing the conversion (data dependent) *)
FsckMayRestore(op) == AsSet(op.off) \cap {"large_file"}

(* ---------------------------------------------------------------------------------------------------------------- *)
(* Quota accounting.  The quota file of type t records, for every id that owns a charged inode, the bytes and the number  *)
(* of inodes charged to it (lib/support/mkquota.c quota_compute_usage(); the rule e2fsck and the kernel apply).             *)
(* Per in-use inode the independent reader supplies f = <<ino, uid, gid, project id, i_blocks in bytes, EA-inode flag,     *)
(* system flag>>; system = reserved inode other than the root directory, or the project quota inode / orphan file when     *)
(* they live above the reserved range.  The blocks of an EA inode are charged through the inodes that refer to it.         *)
QidOf(f, t) == CASE t = "usr" -> f[2] [] t = "grp" -> f[3] [] t = "prj" -> f[4]
Charged(f) == f[7] = 0
SpaceOf(f) == IF f[6] = 1 THEN 0 ELSE f[5]
RECURSIVE SumSpace(_, _)
SumSpace(fs, ks) == IF ks = {} THEN 0 ELSE LET k == CHOOSE x \in ks : TRUE IN SpaceOf(fs[k]) + SumSpace(fs, ks \ {k})
RealUsage(fs, t) ==
   LET idx == {k \in 1..Len(fs) : Charged(fs[k])}
       ids == {QidOf(fs[k], t) : k \in idx}
   IN {LET mine == {k \in idx : QidOf(fs[k], t) = id} IN <<id, SumSpace(fs, mine), Cardinality(mine)>> : id \in ids}
(* q = [t, entries (the <<id, bytes, inodes>> records a lookup by id finds in the quota tree), err (structural defects)]  *)
QuotaFileOK(q, fs) == q.err = <<>> /\ AsSet(q.entries) = RealUsage(fs, q.t)

(* ---------------------------------------------------------------------------------------------------------------- *)
(* Boundary catalogue of the STARTING IMAGES.  The rewrite obligation above quantifies over object classes; whether the    *)
(* real rewrite reaches every object of a class depends on where the object sits (an extent block below another extent     *)
(* block, an index node that has no room left for the checksum tail, a quota entry that opens a new data block).  Every    *)
(* starting image of the conformance universe must therefore contain each class at each depth / fill boundary named here;  *)
(* gen/c11_rich.py builds that content from these constants and TLC decides (UniverseOK) that it is really there.          *)
QtBlock == 1024   QtHeader == 16   QtEntry == 72                  \* quota tree: 1 KiB blocks, v2r1 entries
QuotaPerBlock == (QtBlock - QtHeader) \div QtEntry                 \* 14 entries fill a data block
OwnerCount == QuotaPerBlock + 6                                    \* the next data block is opened and partly filled
OwnerBase(t) == CASE t = "usr" -> 5000 [] t = "grp" -> 6000 [] t = "prj" -> 7000
FarIds == <<65534, 16777223, 2147483646>>                          \* other branches of the radix tree at depth 2, 0, 0
OwnerIdSeq(t) == [i \in 1..OwnerCount |-> OwnerBase(t) + i - 1] \o FarIds
ExtPerNode(bs) == (bs - 12) \div 12
DeepExtents(bs) == 4 * ExtPerNode(bs) + 14                         \* more than the inode's 4 index entries x full leaves: depth 2
DirExtents == 8                                                    \* more than the inode's 4 extents: depth 1
DxNameLen == 200
DxRecLen(len) == 8 + 4 * ((len + 3) \div 4)
DxRootLimit(bs, csum) == (bs - 32 - (IF csum = 1 THEN 8 ELSE 0)) \div 8
DxLeafCap(bs, csum, len) == (bs - (IF csum = 1 THEN 12 ELSE 0)) \div DxRecLen(len)
MaxDirEntries == 600                                               \* bound on the size of a catalogue directory
FullRootEntries(bs, csum) ==                                       \* e2fsck -D packs the leaves: this many names fill the dx root exactly
   LET n == DxRootLimit(bs, csum) * DxLeafCap(bs, csum, DxNameLen) IN IF n <= MaxDirEntries THEN n ELSE 0
TwoLevelFeasible(bs, csum) == (DxRootLimit(bs, csum) + 1) * DxLeafCap(bs, csum, 255) <= MaxDirEntries
CatBlockSizes == {1024, 2048, 4096}
CatalogueRows == {[bs |-> b, csum |-> c, deep |-> DeepExtents(b), fragdir |-> DirExtents, fullroot |-> FullRootEntries(b, c),
                   leafcap |-> DxLeafCap(b, c, DxNameLen), leafcap255 |-> DxLeafCap(b, c, 255), namelen |-> DxNameLen] : b \in CatBlockSizes, c \in {0, 1}}
CatalogueOwners == [usr |-> OwnerIdSeq("usr"), grp |-> OwnerIdSeq("grp"), prj |-> OwnerIdSeq("prj")]
(* FirstInoFree: whether the first ordinary inode (s_first_ino, 11) is free.  mke2fs puts lost+found there; a filesystem
   whose lost+found was re-created has it elsewhere.  Each starting profile exists in both variants: "" (in use) and
   "i11" (free): the next ordinary inode tune2fs allocates is then s_first_ino itself.                                  *)
CatVariants == {"", "i11"}
VariantOK(st, v) == IF v = "i11" THEN st.lowfree = st.firstino ELSE st.lowfree > st.firstino
(* c = census of an image by the independent reader *)
UniverseOK(st, c) ==
   LET crc == IF "metadata_csum" \in st.feats THEN 1 ELSE 0
   IN /\ c.stale = <<>>                                                          \* starts with every checksum right
      /\ c.variant \in CatVariants /\ VariantOK(st, c.variant)
      /\ c.first_ino_free = (IF c.variant = "i11" THEN 1 ELSE 0)                  \* the reader's inode bitmap agrees
      /\ c.nusr > QuotaPerBlock /\ c.ngrp > QuotaPerBlock                        \* quota trees span several data blocks
      /\ (st.isz > 128 => c.nprj > QuotaPerBlock)
      /\ ("extent" \in st.feats => c.file_depth >= 2 /\ c.dir_depth >= 1)        \* interior extent blocks; directory extent blocks
      /\ ("dir_index" \in st.feats => c.dx_root_notfull >= 1)
      /\ ("dir_index" \in st.feats /\ FullRootEntries(st.bs, crc) > 0 => c.dx_root_full >= 1)
      /\ ("dir_index" \in st.feats /\ TwoLevelFeasible(st.bs, crc) => c.dx_interior_full >= 1)
      /\ c.xattr_blocks >= 1

(* ---------------------------------------------------------------------------------------------------------------- *)
(* The request catalogue: the universe the conformance check enumerates (checks/c11.py reads it through Emit_Tune)     *)
F(on, off) == [k |-> "O", on |-> on, off |-> off, a |-> "", n |-> 0]
K(k, a, n) == [k |-> k, on |-> <<>>, off |-> <<>>, a |-> a, n |-> n]
S(k, on, off) == [k |-> k, on |-> on, off |-> off, a |-> "", n |-> 0]
Toggle == {"metadata_csum", "uninit_bg", "has_journal", "orphan_file", "quota", "project", "extent", "dir_index", "dir_nlink", "huge_file",
           "flex_bg", "large_file", "extra_isize", "metadata_csum_seed", "ea_inode", "mmp", "sparse_super", "filetype", "resize_inode",
           "64bit", "large_dir", "encrypt", "casefold", "verity", "stable_inodes", "fast_commit", "read-only",
           "inline_data", "bigalloc", "meta_bg", "sparse_super2", "ext_attr"}
FeatureOps ==
   {F(<<f>>, <<>>) : f \in Toggle} \cup {F(<<>>, <<f>>) : f \in Toggle}
   \cup {F(<<>>, <<"metadata_csum", "uninit_bg">>), F(<<"metadata_csum", "metadata_csum_seed">>, <<>>), F(<<"extent", "metadata_csum">>, <<>>),
         F(<<"uninit_bg">>, <<"metadata_csum">>), F(<<"has_journal", "orphan_file">>, <<>>), F(<<>>, <<"has_journal", "orphan_file">>),
         F(<<"quota", "project">>, <<>>), F(<<>>, <<"dir_index", "metadata_csum">>), F(<<"metadata_csum">>, <<"dir_index">>),
         F(<<"metadata_csum">>, <<"huge_file">>), F(<<"orphan_file">>, <<"has_journal">>)}
UuidOps == {K("U", "random", 0), K("U", "time", 0), K("U", "clear", 0), K("U", "0a0a0a0a-1b1b-4c2c-8d3d-4e4e4e4e4e4e", 0),
            K("U", "b0b0b0b0-c1c1-4d2d-9e3e-f4f4f4f4f4f4", 0)}
InodeSizeOps == {K("I", "", n) : n \in {128, 256, 512, 1024, 2048}}
QuotaOps == {S("Q", <<"usrquota">>, <<>>), S("Q", <<>>, <<"usrquota">>), S("Q", <<"grpquota">>, <<>>), S("Q", <<>>, <<"grpquota">>),
             S("Q", <<"prjquota">>, <<>>), S("Q", <<>>, <<"prjquota">>), S("Q", <<"usrquota", "grpquota">>, <<>>),
             S("Q", <<"prjquota">>, <<"usrquota">>), S("Q", <<>>, <<"usrquota", "grpquota", "prjquota">>)}
JournalOps == {K("J", "", 1), K("J", "", 4), K("j", "", 0)}
(* -o: every option and every ^option by itself, two words in one request, two journalling modes in one request (last wins) *)
MntOptOps == {S("o", <<x>>, <<>>) : x \in MntKnown} \cup {S("o", <<>>, <<x>>) : x \in MntKnown}
             \cup {S("o", <<"acl", "user_xattr">>, <<"debug">>), S("o", <<"journal_data", "journal_data_ordered">>, <<>>),
                   S("o", <<"journal_data_writeback", "nodelalloc">>, <<"journal_data_writeback", "acl">>)}
TunableOps ==
   {K("L", "newlabel", 0), K("L", "", 0), K("L", "a_label_longer_than_16", 0), K("L", "second", 0)}
   \cup {K("m", "", 0), K("m", "", 1), K("m", "", 5), K("m", "", 50), K("r", "", 0), K("r", "", 100), K("r", "", 5000)}
   \cup {K("e", "continue", 0), K("e", "remount-ro", 0), K("e", "panic", 0)}
   \cup {K("c", "", 0), K("c", "", 30), K("c", "", -1), K("C", "", 5), K("C", "", 0)}
   \cup {K("i", "0", 0), K("i", "1d", 86400), K("i", "2w", 1209600), K("i", "3m", 7776000), K("i", "100s", 100)}
   \cup {K("E", "stride", 8), K("E", "stripe_width", 16), K("E", "hash_alg=tea", 0), K("E", "hash_alg=legacy", 0), K("E", "hash_alg=half_md4", 0),
         K("E", "test_fs", 0), K("E", "^test_fs", 0), K("E", "force_fsck", 0), K("E", "mount_opts=journal_checksum", 0),
         K("E", "mount_opts=", 0), K("E", "clear_mmp", 0), K("E", "stride", 0), K("E", "stripe_width", 0)}
   \cup {K("g", "", 100), K("u", "", 1000), K("M", "/mnt/x", 0), K("T", "20200101000000", 1577836800)}
   \cup MntOptOps
StructuralOps == FeatureOps \cup UuidOps \cup InodeSizeOps \cup QuotaOps \cup JournalOps
AllOps == StructuralOps \cup TunableOps

(* ---- multi-valued superblock fields: every TRANSITION between values -------------------------------------------------- *)
(* A field that holds one of several values (the journalling mode, the error behaviour, the default hash) is owned by a    *)
(* family of requests; a request sequence must be able to take the field from every value to every value.  FieldFamilies   *)
(* names, per field, the requests that own it; FieldPairs = every ordered pair inside a family (a ; b): together with the   *)
(* single requests (taken from the value of the starting image) every transition v -> w is taken -- MC_Tune decides that   *)
(* (ASSUME FieldTransitionsTaken) from the starting states of the universe.                                                 *)
JModeOps == {S("o", <<x>>, <<>>) : x \in JModeNames} \cup {S("o", <<>>, <<x>>) : x \in JModeNames}
ErrorsOps == {K("e", "continue", 0), K("e", "remount-ro", 0), K("e", "panic", 0)}
HashOps == {K("E", "hash_alg=tea", 0), K("E", "hash_alg=legacy", 0), K("E", "hash_alg=half_md4", 0)}
FieldFamilies == [jmode |-> JModeOps, errors |-> ErrorsOps, hashalg |-> HashOps]
FieldValues == [jmode |-> 0..3, errors |-> 1..3, hashalg |-> 0..2]
FieldOf(f, st) == CASE f = "jmode" -> st.jmode [] f = "errors" -> st.errors [] f = "hashalg" -> st.hashalg
FieldPairs == UNION {{<<a, b>> : a \in FieldFamilies[f], b \in FieldFamilies[f]} : f \in DOMAIN FieldFamilies}
(* the transitions of field f taken from starting state s0 by the single requests and the pairs of its family *)
FieldTransitions(f, s0) ==
   LET fam == FieldFamilies[f]
       ok(a, s) == ~Refused(a, s)
   IN {<<FieldOf(f, s0), FieldOf(f, Effect(a, s0))>> : a \in {x \in fam : ok(x, s0)}}
      \cup UNION {LET s1 == Effect(a, s0) IN {<<FieldOf(f, s1), FieldOf(f, Effect(b, s1))>> : b \in {x \in fam : ok(x, s1)}} : a \in {x \in fam : ok(x, s0)}}
FieldTransitionsTaken(s0) ==
   \A f \in DOMAIN FieldFamilies :
      LET reach == {FieldOf(f, s0)} \cup {FieldOf(f, Effect(a, s0)) : a \in {x \in FieldFamilies[f] : ~Refused(x, s0)}}
      IN /\ FieldValues[f] \subseteq reach                                        \* every value is reached ...
         /\ (reach \X FieldValues[f]) \subseteq FieldTransitions(f, s0)            \* ... and taken to every value

(* ---- objects tune2fs allocates in ORDINARY inodes: the project quota file, the orphan file ----------------------------- *)
(* created by a ; removed again by b.  Run on the starting images in which the first ordinary inode (s_first_ino) is FREE    *)
(* (catalogue element FirstInoFree below), so that the new object occupies exactly s_first_ino, and on those where it is not. *)
PrjCreateOps == {F(<<"project">>, <<>>), F(<<"quota", "project">>, <<>>), S("Q", <<"prjquota">>, <<>>), S("Q", <<"prjquota">>, <<"usrquota">>)}
PrjRemoveOps == {F(<<>>, <<"project">>), F(<<>>, <<"quota">>), S("Q", <<>>, <<"prjquota">>), S("Q", <<>>, <<"usrquota", "grpquota", "prjquota">>)}
OrphanCreateOps == {F(<<"orphan_file">>, <<>>), F(<<"has_journal", "orphan_file">>, <<>>)}
OrphanRemoveOps == {F(<<>>, <<"orphan_file">>), F(<<>>, <<"has_journal", "orphan_file">>)}
AllocSeqs == {<<a, b>> : a \in PrjCreateOps, b \in PrjRemoveOps} \cup {<<a, b>> : a \in OrphanCreateOps, b \in OrphanRemoveOps}
             \cup {<<b, a, b>> : a \in PrjCreateOps, b \in PrjRemoveOps}        \* a filesystem that starts with project quota:
             \cup {<<b, a, b>> : a \in OrphanCreateOps, b \in OrphanRemoveOps}  \* ... or with an orphan file: remove, create, remove
(* other pairs that only make sense together *)
ExtraPairs == {<<F(<<"mmp">>, <<>>), K("E", "clear_mmp", 0)>>}

(* ordered pairs are formed over this representative subset *)
PairOps ==
   {F(<<"metadata_csum">>, <<>>), F(<<>>, <<"metadata_csum">>), F(<<>>, <<"uninit_bg">>), F(<<"uninit_bg">>, <<>>),
    F(<<"has_journal">>, <<>>), F(<<>>, <<"has_journal">>), F(<<>>, <<"has_journal", "orphan_file">>),
    F(<<"orphan_file">>, <<>>), F(<<>>, <<"orphan_file">>), F(<<"quota">>, <<>>), F(<<>>, <<"quota">>), F(<<"project">>, <<>>),
    F(<<"extent">>, <<>>), F(<<>>, <<"dir_index">>), F(<<"dir_index">>, <<>>), F(<<>>, <<"huge_file">>), F(<<"flex_bg">>, <<>>),
    F(<<"metadata_csum_seed">>, <<>>), F(<<>>, <<"metadata_csum_seed">>), F(<<"ea_inode">>, <<>>), F(<<>>, <<"filetype">>),
    F(<<>>, <<"resize_inode">>), F(<<"mmp">>, <<>>), F(<<>>, <<"large_file">>),
    K("U", "random", 0), K("U", "0a0a0a0a-1b1b-4c2c-8d3d-4e4e4e4e4e4e", 0), K("U", "clear", 0), K("I", "", 512),
    S("Q", <<"prjquota">>, <<>>), S("Q", <<>>, <<"usrquota">>), K("L", "newlabel", 0), K("E", "force_fsck", 0), K("j", "", 0)}
(* triples: every ordering of each of these sets is run (order matters) *)
TripleSeeds ==
   {{F(<<>>, <<"metadata_csum">>), K("U", "random", 0), F(<<"metadata_csum">>, <<>>)},
    {F(<<>>, <<"metadata_csum">>), K("U", "0a0a0a0a-1b1b-4c2c-8d3d-4e4e4e4e4e4e", 0), F(<<"metadata_csum">>, <<>>)},
    {F(<<"metadata_csum_seed">>, <<>>), K("U", "random", 0), F(<<>>, <<"metadata_csum_seed">>)},
    {F(<<"metadata_csum_seed">>, <<>>), K("U", "b0b0b0b0-c1c1-4d2d-9e3e-f4f4f4f4f4f4", 0), F(<<>>, <<"metadata_csum">>)},
    {F(<<>>, <<"has_journal", "orphan_file">>), F(<<"has_journal">>, <<>>), F(<<"orphan_file">>, <<>>)},
    {F(<<>>, <<"has_journal", "orphan_file">>), F(<<"has_journal", "orphan_file">>, <<>>), F(<<>>, <<"metadata_csum">>)},
    {K("I", "", 512), F(<<"metadata_csum">>, <<>>), K("U", "random", 0)},
    {K("I", "", 256), F(<<"project">>, <<>>), F(<<>>, <<"quota">>)},
    {F(<<"quota">>, <<>>), S("Q", <<"prjquota">>, <<>>), S("Q", <<>>, <<"usrquota">>)},
    {F(<<>>, <<"dir_index">>), F(<<"metadata_csum">>, <<>>), F(<<"dir_index">>, <<>>)},
    {F(<<>>, <<"uninit_bg">>), F(<<"metadata_csum">>, <<>>), F(<<>>, <<"metadata_csum", "uninit_bg">>)},
    {F(<<"ea_inode">>, <<>>), K("U", "time", 0), F(<<>>, <<"metadata_csum">>)},
    {F(<<"orphan_file">>, <<>>), K("U", "clear", 0), F(<<>>, <<"metadata_csum">>)},
    {K("E", "force_fsck", 0), F(<<"metadata_csum">>, <<>>), F(<<>>, <<"huge_file">>)},
    {F(<<"extent", "metadata_csum">>, <<>>), F(<<"flex_bg">>, <<>>), K("I", "", 1024)}}
=============================================================================
