-------------------------- MODULE Emit_BitmapLoad --------------------------
(* Writes the catalogue of damaged-image positions of BitmapLoad.tla as JSON (IOEnv.OUT): for every geometry line
   {"G", "flex", "hasflex"} of the ndjson file IOEnv.GEOM the groups FailPos names (first and last group of the first,
   a middle and the last thread) for every thread count of Ns that takes the threaded path, each with the position
   class of the thread that owns it; plus the damage kinds.  checks/c17.py builds its damaged images from this. *)
EXTENDS BitmapLoad, Json, IOUtils, SequencesExt, Sequences
VARIABLE x
Geo == ndJsonDeserialize(IOEnv.GEOM)
ParFor(r, n) == [G |-> r.G, nreq |-> n, flex |-> r.flex, hasflex |-> r.hasflex = 1, chthr |-> TRUE, kinds |-> 2, bad |-> {},
                 fail |-> {}, codes |-> <<>>]
Threaded(r) == {p \in {ParFor(r, n) : n \in Ns} : ~Sequential(p) /\ N(p) <= MaxT}
Pos(r) == UNION {{[g |-> g, class |-> PosClass(p, g), n |-> p.nreq] : g \in FailPos(p)} : p \in Threaded(r)}
Out == [kinds |-> SetToSeq(DamageKinds), csum_kinds |-> SetToSeq({d \in DamageKinds : NeedsCsum(d)}),
        geo |-> [i \in 1..Len(Geo) |-> [G |-> Geo[i].G, flex |-> Geo[i].flex, hasflex |-> Geo[i].hasflex, pos |-> SetToSeq(Pos(Geo[i]))]]]
ASSUME JsonSerialize(IOEnv.OUT, Out)
EInit == x = 0
ENext == UNCHANGED x
=============================================================================
