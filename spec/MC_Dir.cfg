SPECIFICATION Spec
CONSTANTS
  Root = 1
  FirstIno = 2
  NInodes = 6
  LinkMax = 3
  LinkMod = 8
  DirNlink = TRUE
  FileType = TRUE
  DevMkdirNoNlinkRule = FALSE
  DevKillLeaksEaBlock = FALSE
  DevMkdirExistsLeak = FALSE
  DevSymlinkExistsLeak = FALSE
  DevMkdirNoEmlink = FALSE
  NameSet = {1, 2, 3}
  MaxDirs = 3
  TotalBlocks = 12
  MaxDepth = 4
CONSTRAINT Depth
INVARIANT InvTypeOK
INVARIANT InvLinksRule
INVARIANT InvNoFreeReferenced
INVARIANT InvBalancedIsConsistent
INVARIANT InvConservation
INVARIANT InvNoLeak
INVARIANT InvConsistentIsBalanced
CHECK_DEADLOCK FALSE
