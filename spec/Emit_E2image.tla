---------------------------- MODULE Emit_E2image ----------------------------
(* The boundary catalogue of C19's conformance universe (E2image.tla Part 4), written as JSON (IOEnv.OUT) for
   gen/c19_images.py:
     sizes_quick / sizes_more   [bs, blocks]: small populated filesystems on / next to the L2-table boundaries
     wide_quick / wide_more     [bs, cbits, blocks, targets]: one filesystem of `blocks` blocks of size bs that must hold
                                non-zero metadata in every block of `targets` (the blocks just below, at and just above the
                                byte offsets 2^31 and 2^32, where an offset evaluated in fewer than 64 bits breaks)
   The harness chooses a geometry that realises the targets; Trace_E2imageLayout (Covers) has TLC confirm that the image
   e2image wrote maps every target.                                                                                   *)
EXTENDS E2image, Json, IOUtils, SequencesExt
Size(p)  == [bs |-> p[1], blocks |-> p[2]]
Wide(cb) == [bs |-> 2 ^ cb, cbits |-> cb, blocks |-> WideBlocks(cb), targets |-> SetToSortSeq(WidthTargets(cb), <)]
Univ == [sizes_quick |-> SetToSeq({Size(p) : p \in SizesQuick}), sizes_more |-> SetToSeq({Size(p) : p \in SizesMore}),
         wide_quick |-> SetToSeq({Wide(cb) : cb \in WideQuick}), wide_more |-> SetToSeq({Wide(cb) : cb \in WideMore}),
         boundary_bits |-> SetToSortSeq(WidthBoundaryBits, <)]
ASSUME JsonSerialize(IOEnv.OUT, Univ)
EmitInit == phase = "emit" /\ cls = <<>> /\ src = <<>> /\ all = FALSE /\ marked = {} /\ raw = <<>> /\ q = <<>> /\ nb = 0 /\ conv = <<>>
EmitSpec == EmitInit /\ [][UNCHANGED vars]_vars
=============================================================================
