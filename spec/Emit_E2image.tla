---------------------------- MODULE Emit_E2image ----------------------------
(* The boundary catalogue of C19's conformance universe (E2image.tla Part 4), written as JSON (IOEnv.OUT) for
   gen/c19_images.py:
     sizes_quick / sizes_more   [bs, blocks]: small populated filesystems on / next to the L2-table boundaries
     wide_quick / wide_more     [kind, bs, cbits, blocks, targets, hole]: one filesystem of `blocks` blocks of size bs that must
                                hold non-zero metadata in every block of `targets` (the blocks just below, at and just above
                                the byte offsets 2^31 and 2^32, where an offset evaluated in fewer than 64 bits breaks) and,
                                when hole > 0, no metadata at all along at least `hole` consecutive blocks (2^31 bytes)
   The harness chooses a geometry that realises the targets; Trace_E2imageLayout (Covers, CoversHole) has TLC confirm that
   the source filesystem does.                                                                                        *)
EXTENDS E2image, Json, IOUtils, SequencesExt
Size(p)  == [bs |-> p[1], blocks |-> p[2]]
Wide(kind, cb) == [kind |-> kind, bs |-> 2 ^ cb, cbits |-> cb, blocks |-> WideBlocks(cb),
                   targets |-> SetToSortSeq(WideTargets(kind, cb), <), hole |-> WideHole(kind, cb)]
Univ == [sizes_quick |-> SetToSeq({Size(p) : p \in SizesQuick}), sizes_more |-> SetToSeq({Size(p) : p \in SizesMore}),
         wide_quick |-> SetToSeq({Wide(k, cb) : k \in WideKinds, cb \in WideQuick}), wide_more |-> SetToSeq({Wide(k, cb) : k \in WideKinds, cb \in WideMore}),
         boundary_bits |-> SetToSortSeq(WidthBoundaryBits, <)]
ASSUME JsonSerialize(IOEnv.OUT, Univ)
EmitInit == phase = "emit" /\ cls = <<>> /\ src = <<>> /\ all = FALSE /\ marked = {} /\ raw = <<>> /\ q = <<>> /\ nb = 0 /\ conv = <<>>
EmitSpec == EmitInit /\ [][UNCHANGED vars]_vars
=============================================================================
