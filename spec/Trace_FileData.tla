--------------------------- MODULE Trace_FileData ---------------------------
(* Trace validation for C09.  harness/filedrv.c executes a history on a real filesystem through the public
   libext2fs API and logs one line per operation: the operation with its cut-point arguments, the API result
   class, and -- for every file it observed -- the complete read-back classified per cell (tag / zeros / absent
   / mismatch), the length returned, the size reported, and whether the blocks under each cell are mapped.
   Each line must be the FileData step for that operation AND every observed file must equal the model
   (for the file operated on: the property; for the other one: the frame condition).  The last line of a
   behaviour is taken after ext2fs_close + reopen read-only and carries the verdict of the consistency
   oracle (checks/c09.py: consistency_oracle) on the image.

   ret = 0 success; ret = 1 the library ran out of space (ENOSPC class): the operation may have taken partial
   effect, the file is `tainted` and only the OTHER file and the final consistency are still checked;
   ret = 2 any other error = a refusal: the state must be unchanged.

   SPACE ACCOUNTING (SpaceAcct): every line carries the accounting record `acct` taken after the call (free units by
   the bitmap, the superblock and the group descriptors; units mapped and i_blocks of files 0, 1 and the ballast; units
   marked but mapped by nobody, units mapped but not marked, units mapped twice).  Every line must ALSO be one of the
   SpaceAcct relations: whatever the outcome of the call -- success, ENOSPC, refusal -- every unit stays in exactly one
   place, only the file operated on gains or loses units, i_blocks is what the file maps.  After `remount` and in the
   final line the bitmaps come from disk: the relation then says that ext2fs_close recorded every allocation of the
   session (a later session cannot hand the same blocks to another file).

   ENOSPC LADDER (strict = 1 on the reset line): the history is  prelude (establishes the tree-growth situation `sit`
   of SpaceAcct!Sits) ; setfree r (the ballast absorbs all but r units) ; the operation `lad` of SpaceAcct!LadderOps.
   A failed write is then EXACT: the blocks before the one that could not be allocated are written, nothing else
   changes, nobody is tainted.  `lseen` collects <<sit, r, lad, outcome>> for every ladder operation that was issued
   in the situation it claims (SitHolds on the observed tree path); checks/c09.py compares it with the ladder
   SpaceAcct defines (vacuity guard).  outcome 0 = success, 1 = ENOSPC, 2 = ENOSPC through DevFallocLeak.      *)
EXTENDS FileData, SpaceAcct, Json, IOUtils, SequencesExt
VARIABLES l, taint, al, uok, eofc, strict, sit, lad, armed, lseen, bid
tvars == <<avars, svars, l, taint, al, uok, eofc, strict, sit, lad, armed, lseen, bid>>
Tr == ndJsonDeserialize(IOEnv.TRACE)
Acct == Tr[l].acct
KeepDisk == UNCHANGED <<dfree, bbdirty, mounted, aop>>         \* the session variables of the protocol model are not observed
KeepLad == UNCHANGED <<strict, sit, lad, lseen, bid>>

IsEvent(e) == l <= Len(Tr) /\ Tr[l].e = e /\ l' = l + 1
F == Tr[l].f
A == Tr[l].a
B == Tr[l].b
Ok == Tr[l].ret = 0 /\ Tr[l].full = 1
NoSpace == Tr[l].ret = 1 \/ (Tr[l].ret = 0 /\ Tr[l].full = 0)
Refused == Tr[l].ret = 2
Keep == UNCHANGED <<al, uok, eofc>> /\ KeepDisk
Stamp(e) == /\ op' = [e |-> e, f |-> F, a |-> A, b |-> B] /\ nops' = nops + 1

\* an observed, untainted file must be exactly the model's file
SeenOk(g) == LET o == Tr[l].fs[g + 1]
                 want == ReadOf(size'[g], cell'[g]) IN
             (o.obs = 1 /\ ~taint'[g]) =>
                /\ o.size = size'[g]                       \* i_size as the handle reports it
                /\ o.len = want.len                        \* exactly size bytes come back
                /\ \A i \in Cells : o.c[i + 1] = want.c[i]
                \* written or preallocated data is backed by mapped blocks (3 = inline data, no blocks)
                /\ \A i \in Cells : (IsTag(cell'[g][i]) \/ cell'[g][i] = Zero) => o.m[i + 1] \in {1, 3}
Seen == \A g \in Files : SeenOk(g)
\* blocks that an operation deallocates are unmapped afterwards (only whole blocks can be)
Unmapped(g, from, to) == LET o == Tr[l].fs[g + 1] IN
             (o.obs = 1 /\ ~taint'[g]) => \A i \in Cells : (from <= i /\ i < to) => o.m[i + 1] \in {0, 3}
NextAligned(g, a) == LET S == {c \in Cuts : c >= a /\ al[g + 1][c + 1] = 1} IN
                     IF S = {} THEN NCuts - 1 ELSE CHOOSE c \in S : \A d \in S : c <= d

Tainted == /\ taint' = [taint EXCEPT ![F] = TRUE] /\ UNCHANGED <<size, cell, res>>
Unchanged == UNCHANGED <<size, cell, res, taint>>

TReset == /\ IsEvent("reset")
          /\ size' = [f \in Files |-> 0] /\ cell' = [f \in Files |-> [i \in Cells |-> Hole]]
          /\ op' = [e |-> "init", f |-> 0, a |-> 0, b |-> 0] /\ res' = NoRes /\ nops' = 0
          /\ taint' = [f \in Files |-> FALSE]
          /\ al' = Tr[l].al /\ uok' = Tr[l].uok /\ eofc' = Tr[l].eofc
          /\ free' = 0 /\ own' = [f \in Owners |-> 0] /\ leak' = [f \in Owners |-> 0] /\ ibx' = [f \in Owners |-> 0]
          /\ KeepDisk /\ strict' = Tr[l].strict /\ sit' = Tr[l].sit /\ lad' = Tr[l].lad /\ armed' = FALSE /\ UNCHANGED lseen
          /\ bid' = Tr[l].id
\* the files exist and are empty, nothing has been written yet: the accounting starts from what is there
TBegin == /\ IsEvent("begin") /\ Keep /\ KeepLad /\ UNCHANGED <<avars, taint, armed>>
          /\ free' = Acct.free /\ own' = ObsOwn(Acct) /\ leak' = [f \in Owners |-> 0] /\ ibx' = [f \in Owners |-> 0]
          /\ ObsIs(Acct)
\* the ladder operation: the first write / fallocate after setfree
Outcome(dev) == IF Ok THEN 0 ELSE IF dev THEN 2 ELSE 1
Note(dev) == /\ armed' = FALSE
             /\ lseen' = IF armed /\ SitHolds(sit, Tr[l].path) THEN lseen \cup {<<sit, free, lad, Outcome(dev)>>} ELSE lseen
             /\ UNCHANGED <<strict, sit, lad, bid>>
\* the ballast absorbs free space until exactly A units are left; the two files are not touched
TSetFree == /\ IsEvent("setfree") /\ Stamp("sync") /\ Keep /\ Ok /\ Unchanged
            /\ RelGrow(2, Acct) /\ free' = A
            /\ armed' = TRUE /\ KeepLad
            /\ Seen
\* pair = 1 / 2: the two lines of an alternating prelude (both files were written block by block, logged afterwards)
WriteAcct == IF Tr[l].pair = 1 THEN RelGrowAll(Acct) ELSE IF Tr[l].pair = 2 THEN RelNone(Acct) ELSE RelGrow(F, Acct)
\* strict: a write that ran out of space stopped at cut dcut; exactly the part before it was written
PartialExact == /\ Tr[l].dcut >= A /\ Tr[l].dcut < B
                /\ cell' = [cell EXCEPT ![F] = WriteCells(@, A, Tr[l].dcut, Tr[l].tag)]
                /\ size' = [size EXCEPT ![F] = IF Tr[l].dcut > A THEN WriteSize(@, Tr[l].dcut) ELSE @]
                /\ UNCHANGED <<res, taint>>
TWrite == /\ IsEvent("write") /\ Stamp("write") /\ Keep
          /\ \/ /\ Ok /\ A < B
                /\ cell' = [cell EXCEPT ![F] = WriteCells(@, A, B, Tr[l].tag)]
                /\ size' = [size EXCEPT ![F] = WriteSize(@, B)]
                /\ UNCHANGED <<res, taint>>
             \/ NoSpace /\ (IF strict = 1 THEN PartialExact ELSE Tainted)
             \/ Refused /\ Unchanged
          /\ WriteAcct /\ Note(FALSE)
          /\ Seen
TSetSize == /\ IsEvent("setsize") /\ Stamp("setsize") /\ Keep
            /\ \/ /\ Ok
                  /\ cell' = [cell EXCEPT ![F] = TruncCells(@, size[F], A)]
                  /\ size' = [size EXCEPT ![F] = A]
                  /\ UNCHANGED <<res, taint>>
               \/ NoSpace /\ Tainted
               \/ Refused /\ Unchanged
            /\ RelAny(F, Acct) /\ KeepLad /\ UNCHANGED armed
            /\ Seen
\* Documented behaviour of the library for inline data (punch.c: "we will remove all inline data in ext2fs_punch()";
\* lib/ext2fs tst_inline_data expects it): punching block 0 of an inline-data file empties the file, i_size becomes 0.
\* The property text does not forbid it (a read still returns exactly size bytes), so it is part of the model.
TPunch == /\ IsEvent("punch") /\ Stamp("punch") /\ Keep
          /\ \/ /\ Ok /\ A < B /\ Tr[l].inl[F + 1] = 1 /\ A = 0
                /\ cell' = [cell EXCEPT ![F] = [i \in Cells |-> Hole]]
                /\ size' = [size EXCEPT ![F] = 0]
                /\ UNCHANGED <<res, taint>>
             \/ /\ Ok /\ A < B /\ ~(Tr[l].inl[F + 1] = 1 /\ A = 0)
                /\ cell' = [cell EXCEPT ![F] = PunchCells(@, A, B)]
                /\ UNCHANGED <<size, res, taint>>
                /\ Unmapped(F, A, B)
             \/ NoSpace /\ Tainted
             \/ Refused /\ Unchanged
          /\ RelAny(F, Acct) /\ KeepLad /\ UNCHANGED armed
          /\ Seen
\* how far a keep-size preallocation reaches: to B on files that can hold uninitialized extents, else to the end of the
\* block holding EOF (eofc[f][s] = the last cut point not beyond the end of the block that holds cut s)
FallocLim == IF Tr[l].inl[F + 1] = 1 THEN A          \* inline data: nothing to preallocate, the request is a no-op or refused
             ELSE IF Grows(Tr[l].mode) \/ uok[F + 1] = 1 THEN B
             ELSE LET e == eofc[F + 1][size[F] + 1] IN IF e < A THEN A ELSE IF e < B THEN e ELSE B
\* strict: a preallocation that ran out of space leaves the bytes alone (what it did allocate reads as zeros like the hole
\* it replaces); the caller of an allocate-and-extend mode may still have moved EOF
FallocFailExact == /\ UNCHANGED <<cell, res, taint>>
                   /\ \E s \in {size[F], Max(size[F], B)} : (s # size[F] => Grows(Tr[l].mode)) /\ size' = [size EXCEPT ![F] = s]
TFalloc == /\ IsEvent("falloc") /\ Stamp("falloc") /\ Keep
           /\ \/ /\ Ok /\ A < B
                 /\ cell' = [cell EXCEPT ![F] = FallocCells(@, A, FallocLim)]
                 /\ size' = [size EXCEPT ![F] = IF Grows(Tr[l].mode) THEN Max(@, B) ELSE @]
                 /\ UNCHANGED <<res, taint>>
                 /\ RelGrow(F, Acct) /\ Note(FALSE)
              \/ /\ NoSpace /\ (IF strict = 1 THEN FallocFailExact ELSE Tainted)
                 /\ \/ RelGrow(F, Acct) /\ Note(FALSE)
                    \* known finding DevFallocLeak: only extent-mapped files have a range claim followed by an insert
                    \/ uok[F + 1] = 1 /\ Tr[l].inl[F + 1] = 0 /\ RelFallocLeak(F, Acct) /\ Note(TRUE)
              \/ Refused /\ Unchanged /\ RelGrow(F, Acct) /\ Note(FALSE)
           /\ Seen
TRead == /\ IsEvent("read") /\ Stamp("read") /\ Keep
         /\ res' = ReadOf(size[F], cell[F]) /\ UNCHANGED <<size, cell, taint>>
         \* reading through the handle flushes its buffer first (a converted uninitialized block may split its extent)
         /\ RelGrow(F, Acct) /\ KeepLad /\ UNCHANGED armed
         /\ Seen
\* flush / reopen of the handle / remount of the filesystem: no abstract effect.  Running out of space while
\* flushing loses the buffered block: tainted.
\* flush / reopen write the buffered block (converting an uninitialized block may split its extent); remount closes
\* both handles and the filesystem and opens it again: the record after it is the ON-DISK state, everything the
\* session allocated must have been recorded
TSync(e) == /\ IsEvent(e) /\ Stamp("sync") /\ Keep
            /\ \/ Ok /\ Unchanged
               \/ NoSpace /\ Tainted
               \/ Refused /\ Unchanged
            /\ (IF e = "remount" THEN RelGrowAll(Acct) ELSE RelGrow(F, Acct)) /\ KeepLad /\ UNCHANGED armed
            /\ Seen
\* after ext2fs_close: both files as a fresh read-only open sees them, and the consistency oracle's verdict
\* closing a handle flushes its buffer; running out of space there loses that block: the file is tainted
TFinal == /\ IsEvent("final") /\ Stamp("final") /\ Keep
          /\ \A g \in Files : Tr[l].cret[g + 1] \in {0, 1}
          /\ taint' = [g \in Files |-> taint[g] \/ Tr[l].cret[g + 1] = 1]
          /\ UNCHANGED <<size, cell, res>>
          /\ RelGrowAll(Acct) /\ KeepLad /\ UNCHANGED armed
          /\ Seen
          \* e2fsck -fn after close; a leak (only DevFallocLeak can produce one) is exactly what it then reports
          /\ (Total(leak') = 0 => Tr[l].consistent = 1)

TraceInit == /\ AInit /\ l = 1 /\ taint = [f \in Files |-> FALSE] /\ al = <<>> /\ uok = <<>> /\ eofc = <<>>
             /\ free = 0 /\ own = [f \in Owners |-> 0] /\ leak = [f \in Owners |-> 0] /\ ibx = [f \in Owners |-> 0]
             /\ dfree = 0 /\ bbdirty = FALSE /\ mounted = TRUE /\ aop = [k |-> "init", f |-> 0, ret |-> 0]
             /\ strict = 0 /\ sit = "" /\ lad = "" /\ armed = FALSE /\ lseen = {} /\ bid = -1
TraceNext == TReset \/ TBegin \/ TSetFree \/ TWrite \/ TSetSize \/ TPunch \/ TFalloc \/ TRead
             \/ TSync("flush") \/ TSync("reopen") \/ TSync("remount") \/ TFinal
TraceSpec == TraceInit /\ [][TraceNext]_tvars
TraceAccepted == TLCGet("stats").diameter - 1 = Len(Tr)
\* Every accepted history that is a ladder history or that took the named deviation leaves a note next to the trace file
\* (read by checks/c09.py): the ladder elements seen so far, and its own id if units are leaked at its end.  Only the
\* branch RelFallocLeak of TFalloc can make leak non-zero, so `dev` lists exactly the behaviours in which the known
\* finding DevFallocLeak shows; everything else in them conforms (they were accepted).
Record == IF l > 1 /\ Tr[l - 1].e = "final" /\ (strict = 1 \/ Total(leak) > 0)
          THEN JsonSerialize(IOEnv.TRACE \o "." \o ToString(l) \o ".note.json",
                             [lad |-> SetToSeq(lseen), dev |-> IF Total(leak) > 0 THEN <<bid>> ELSE <<>>])
          ELSE TRUE
\* The property invariant the known finding violates.  It is listed in Trace_FileData_strict.cfg (DevFallocLeak enabled, this
\* invariant on): a behaviour noted under `dev` must fail exactly this invariant there (checks/c09.py confirms that once per run
\* and `--replay` of the known finding shows it).
NoFallocLeak == \A f \in Owners : leak[f] = 0 /\ ibx[f] = 0
TraceTypeOK == /\ size \in [Files -> Cuts]
               /\ \A f \in Files, i \in Cells : cell[f][i] \in ({Hole, Zero} \cup (1 .. MaxOps))
=============================================================================
