--------------------------- MODULE Trace_FileData ---------------------------
(* Trace validation for C09.  harness/filedrv.c executes a history on a real filesystem through the public
   libext2fs API and logs one line per operation: the operation with its cut-point arguments, the API result
   class, and -- for every file it observed -- the complete read-back classified per cell (tag / zeros / absent
   / mismatch), the length returned, the size reported, and whether the blocks under each cell are mapped.
   Each line must be the FileData step for that operation AND every observed file must equal the model
   (for the file operated on: the property; for the other one: the frame condition).  The last line of a
   behaviour is taken after ext2fs_close + reopen read-only and carries the verdict of the consistency
   oracle (checks/c09.py: consistency_oracle) on the image.

   ret = 0 success; ret = 1 the library ran out of space (ENOSPC class): the operation may have taken partial
   effect, the file is `tainted` and only the OTHER file and the final consistency are still checked;
   ret = 2 any other error = a refusal: the state must be unchanged.                                     *)
EXTENDS FileData, Json, IOUtils
VARIABLES l, taint, al, uok, eofc
tvars == <<avars, l, taint, al, uok, eofc>>
Tr == ndJsonDeserialize(IOEnv.TRACE)

IsEvent(e) == l <= Len(Tr) /\ Tr[l].e = e /\ l' = l + 1
F == Tr[l].f
A == Tr[l].a
B == Tr[l].b
Ok == Tr[l].ret = 0 /\ Tr[l].full = 1
NoSpace == Tr[l].ret = 1 \/ (Tr[l].ret = 0 /\ Tr[l].full = 0)
Refused == Tr[l].ret = 2
Keep == UNCHANGED <<al, uok, eofc>>
Stamp(e) == /\ op' = [e |-> e, f |-> F, a |-> A, b |-> B] /\ nops' = nops + 1

\* an observed, untainted file must be exactly the model's file
SeenOk(g) == LET o == Tr[l].fs[g + 1]
                 want == ReadOf(size'[g], cell'[g]) IN
             (o.obs = 1 /\ ~taint'[g]) =>
                /\ o.size = size'[g]                       \* i_size as the handle reports it
                /\ o.len = want.len                        \* exactly size bytes come back
                /\ \A i \in Cells : o.c[i + 1] = want.c[i]
                \* written or preallocated data is backed by mapped blocks (3 = inline data, no blocks)
                /\ \A i \in Cells : (IsTag(cell'[g][i]) \/ cell'[g][i] = Zero) => o.m[i + 1] \in {1, 3}
Seen == \A g \in Files : SeenOk(g)
\* blocks that an operation deallocates are unmapped afterwards (only whole blocks can be)
Unmapped(g, from, to) == LET o == Tr[l].fs[g + 1] IN
             (o.obs = 1 /\ ~taint'[g]) => \A i \in Cells : (from <= i /\ i < to) => o.m[i + 1] \in {0, 3}
NextAligned(g, a) == LET S == {c \in Cuts : c >= a /\ al[g + 1][c + 1] = 1} IN
                     IF S = {} THEN NCuts - 1 ELSE CHOOSE c \in S : \A d \in S : c <= d

Tainted == /\ taint' = [taint EXCEPT ![F] = TRUE] /\ UNCHANGED <<size, cell, res>>
Unchanged == UNCHANGED <<size, cell, res, taint>>

TReset == /\ IsEvent("reset")
          /\ size' = [f \in Files |-> 0] /\ cell' = [f \in Files |-> [i \in Cells |-> Hole]]
          /\ op' = [e |-> "init", f |-> 0, a |-> 0, b |-> 0] /\ res' = NoRes /\ nops' = 0
          /\ taint' = [f \in Files |-> FALSE]
          /\ al' = Tr[l].al /\ uok' = Tr[l].uok /\ eofc' = Tr[l].eofc
TWrite == /\ IsEvent("write") /\ Stamp("write") /\ Keep
          /\ \/ /\ Ok /\ A < B
                /\ cell' = [cell EXCEPT ![F] = WriteCells(@, A, B, Tr[l].tag)]
                /\ size' = [size EXCEPT ![F] = WriteSize(@, B)]
                /\ UNCHANGED <<res, taint>>
             \/ NoSpace /\ Tainted
             \/ Refused /\ Unchanged
          /\ Seen
TSetSize == /\ IsEvent("setsize") /\ Stamp("setsize") /\ Keep
            /\ \/ /\ Ok
                  /\ cell' = [cell EXCEPT ![F] = TruncCells(@, size[F], A)]
                  /\ size' = [size EXCEPT ![F] = A]
                  /\ UNCHANGED <<res, taint>>
               \/ NoSpace /\ Tainted
               \/ Refused /\ Unchanged
            /\ Seen
\* Documented behaviour of the library for inline data (punch.c: "we will remove all inline data in ext2fs_punch()";
\* lib/ext2fs tst_inline_data expects it): punching block 0 of an inline-data file empties the file, i_size becomes 0.
\* The property text does not forbid it (a read still returns exactly size bytes), so it is part of the model.
TPunch == /\ IsEvent("punch") /\ Stamp("punch") /\ Keep
          /\ \/ /\ Ok /\ A < B /\ Tr[l].inl[F + 1] = 1 /\ A = 0
                /\ cell' = [cell EXCEPT ![F] = [i \in Cells |-> Hole]]
                /\ size' = [size EXCEPT ![F] = 0]
                /\ UNCHANGED <<res, taint>>
             \/ /\ Ok /\ A < B /\ ~(Tr[l].inl[F + 1] = 1 /\ A = 0)
                /\ cell' = [cell EXCEPT ![F] = PunchCells(@, A, B)]
                /\ UNCHANGED <<size, res, taint>>
                /\ Unmapped(F, A, B)
             \/ NoSpace /\ Tainted
             \/ Refused /\ Unchanged
          /\ Seen
\* how far a keep-size preallocation reaches: to B on files that can hold uninitialized extents, else to the end of the
\* block holding EOF (eofc[f][s] = the last cut point not beyond the end of the block that holds cut s)
FallocLim == IF Tr[l].inl[F + 1] = 1 THEN A          \* inline data: nothing to preallocate, the request is a no-op or refused
             ELSE IF Grows(Tr[l].mode) \/ uok[F + 1] = 1 THEN B
             ELSE LET e == eofc[F + 1][size[F] + 1] IN IF e < A THEN A ELSE IF e < B THEN e ELSE B
TFalloc == /\ IsEvent("falloc") /\ Stamp("falloc") /\ Keep
           /\ \/ /\ Ok /\ A < B
                 /\ cell' = [cell EXCEPT ![F] = FallocCells(@, A, FallocLim)]
                 /\ size' = [size EXCEPT ![F] = IF Grows(Tr[l].mode) THEN Max(@, B) ELSE @]
                 /\ UNCHANGED <<res, taint>>
              \/ NoSpace /\ Tainted
              \/ Refused /\ Unchanged
           /\ Seen
TRead == /\ IsEvent("read") /\ Stamp("read") /\ Keep
         /\ res' = ReadOf(size[F], cell[F]) /\ UNCHANGED <<size, cell, taint>>
         /\ Seen
\* flush / reopen of the handle / remount of the filesystem: no abstract effect.  Running out of space while
\* flushing loses the buffered block: tainted.
TSync(e) == /\ IsEvent(e) /\ Stamp("sync") /\ Keep
            /\ \/ Ok /\ Unchanged
               \/ NoSpace /\ Tainted
               \/ Refused /\ Unchanged
            /\ Seen
\* after ext2fs_close: both files as a fresh read-only open sees them, and the consistency oracle's verdict
\* closing a handle flushes its buffer; running out of space there loses that block: the file is tainted
TFinal == /\ IsEvent("final") /\ Stamp("final") /\ Keep
          /\ \A g \in Files : Tr[l].cret[g + 1] \in {0, 1}
          /\ taint' = [g \in Files |-> taint[g] \/ Tr[l].cret[g + 1] = 1]
          /\ UNCHANGED <<size, cell, res>>
          /\ Seen
          /\ Tr[l].consistent = 1

TraceInit == /\ AInit /\ l = 1 /\ taint = [f \in Files |-> FALSE] /\ al = <<>> /\ uok = <<>> /\ eofc = <<>>
TraceNext == TReset \/ TWrite \/ TSetSize \/ TPunch \/ TFalloc \/ TRead
             \/ TSync("flush") \/ TSync("reopen") \/ TSync("remount") \/ TFinal
TraceSpec == TraceInit /\ [][TraceNext]_tvars
TraceAccepted == TLCGet("stats").diameter - 1 = Len(Tr)
TraceTypeOK == /\ size \in [Files -> Cuts]
               /\ \A f \in Files, i \in Cells : cell[f][i] \in ({Hole, Zero} \cup (1 .. MaxOps))
=============================================================================
