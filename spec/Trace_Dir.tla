----------------------------- MODULE Trace_Dir -----------------------------
(* Trace validation for C10.  One line = one observation of the real filesystem after a short run of operations
   (one operation through harness/dirdrv.c; a few commands of one `debugfs -w -f` session; one e2fsck run).
   The run is applied to the namespace model (Dir.tla) and to the layout model (DirBlock.tla, HTree.tla); the result
   must be exactly what was observed: listing of every directory (name, inode, file type), type / link count /
   xattr-block flag of every inode, in-use inode set, slot layout of every linear directory block, htree index of every
   indexed directory, free inode and block counts.  Lines carry only what changed since the previous observation
   (checks/c10.py computes the difference on the raw observations); everything not mentioned must be unchanged in the model.
   Names travel as small integers (index into the name table of the reset line: <<name_len, hash>>).                 *)
EXTENDS Dir, HTree, Json, IOUtils
CONSTANT CheckEdges      \* TRUE: a step that carries catalogue labels (ln.eg) must be of exactly those transition classes
VARIABLES l,      \* next line
          s,      \* Dir.tla state record
          L,      \* [directory inode -> [b |-> blocks (DirBlock), inl |-> BOOLEAN, dx |-> htree index or NoDx]]
          g,      \* geometry [bs, tail, cs]
          NT,     \* name table: NT[nid] = <<name_len, hash >> 1>>
          K       \* conserved totals [blk, ino]
tvars == <<l, s, L, g, NT, K>>
Tr == ndJsonDeserialize(IOEnv.TRACE)
ToSet(q) == {q[i] : i \in 1..Len(q)}

\* ------------------------------------------------------------ the observation of one directory / one line
\* (by position: a set of the logged records would have to be sorted, i.e. whole directories compared)
DirRec(ln, d) == ln.dirs[CHOOSE k \in 1..Len(ln.dirs) : ln.dirs[k].ino = d]
Logged(ln) == {ln.dirs[k].ino : k \in 1..Len(ln.dirs)}
LayOf(r) == [b |-> r.blks, inl |-> (r.inl = 1), dx |-> IF r.idx = 1 THEN DxOf(r.dx) ELSE NoDx]
\* the listing is logged in the order of the name ids (the order in which ext2fs_dir_iterate2 delivered it is compared with
\* the raw blocks by the harness and reported in r.ok): position of a name by bisection
RECURSIVE PosOf(_, _, _, _)
PosOf(q, e, lo, hi) == LET m == (lo + hi) \div 2 IN
                       IF q[m][1] = e THEN m ELSE IF q[m][1] < e THEN PosOf(q, e, m + 1, hi) ELSE PosOf(q, e, lo, m - 1)
LsSorted(q) == \A k \in 1..(Len(q) - 1) : q[k][1] < q[k + 1][1]
LsOf(r) == LET q == r.ls IN [e \in {q[k][1] : k \in 1..Len(q)} |-> LET x == q[PosOf(q, e, 1, Len(q))] IN <<x[2], x[3]>>]

\* ------------------------------------------------------------ one operation on both models
Op(o, fe) == [op |-> o.op, d |-> o.d, n |-> o.n, i |-> o.i, v |-> o.v, sz |-> 0, exp |-> 0, fe |-> fe]
NewSlot(t, n) == Slot(t[1], NT[n][1], 0, t[2], n)
Adds == {"mkdir", "create", "symlink", "mknod", "link", "hlink"}
Dels == {"unlink", "rm", "rmdir"}

\* does a raw ext2fs_link (no expansion) find room?
Fits(ly, nw) == IF ly.dx # NoDx THEN DxLink(ly, nw, NT, g).done
                ELSE LinkOnce(ly.b, 1, nw, g, ly.inl)[2]

InsertLay(ly, nw, expand, self, parent) ==
   IF ly.dx # NoDx THEN LET r == DxLink(ly, nw, NT, g) IN [b |-> r.b, inl |-> FALSE, dx |-> r.dx]
   ELSE IF expand THEN LET r == LinkExpand(ly.b, ly.inl, nw, g, self, parent, Ft(FTDIR)) IN [b |-> r.d, inl |-> r.inl, dx |-> NoDx]
        ELSE [ly EXCEPT !.b = LinkOnce(ly.b, 1, nw, g, ly.inl)[1]]

Step1(sl, o, fe) ==
   LET s0 == sl.s  L0 == sl.L
       oo == Op(o, fe)
       isadd == o.op \in Adds /\ o.d \in DOMAIN s0.ent /\ o.d \in DOMAIN L0
       \* the inode a successful add will name: the source for ln / hlink, the lowest free inode otherwise
       tgt == IF o.op \in {"link", "hlink"} THEN (IF o.i \in Alloc(s0) THEN <<o.i, Ft(s0.ty[o.i])>> ELSE <<o.i, 0>>)
              ELSE <<MinFree(s0), Ft(CASE o.op = "mkdir" -> 2 [] o.op = "create" -> 1 [] o.op = "symlink" -> 7 [] OTHER -> o.v)>>
       fit == IF o.op = "link" /\ isadd /\ o.n \notin DOMAIN s0.ent[o.d] THEN Fits(L0[o.d], NewSlot(tgt, o.n)) ELSE TRUE
       s1 == Apply(s0, oo, fit)
       added == isadd /\ o.n \notin DOMAIN s0.ent[o.d] /\ o.d \in DOMAIN s1.ent /\ o.n \in DOMAIN s1.ent[o.d]
       removed == o.op \in Dels /\ o.d \in DOMAIN s0.ent /\ o.n \in DOMAIN s0.ent[o.d]
                  /\ (o.d \notin DOMAIN s1.ent \/ o.n \notin DOMAIN s1.ent[o.d])
       La == IF added THEN [L0 EXCEPT ![o.d] = InsertLay(@, NewSlot(s1.ent[o.d][o.n], o.n), o.op # "link", o.d, s0.dd[o.d])]
             ELSE IF removed THEN [L0 EXCEPT ![o.d] = [@ EXCEPT !.b = UnlinkDir(@, 1, o.n)]]
             ELSE L0
       Lb == IF added /\ o.op = "mkdir"
             THEN LET i == s1.ent[o.d][o.n][1] IN
                  La @@ (i :> [b |-> NewDir(i, o.d, Ft(FTDIR), g, K.inline), inl |-> K.inline, dx |-> NoDx])
             ELSE La
   IN [s |-> s1, L |-> [d \in DOMAIN s1.ent |-> Lb[d]]]

RECURSIVE Run(_, _, _, _)
Run(sl, ops, k, fe) == IF k > Len(ops) THEN sl ELSE Run(Step1(sl, ops[k], fe), ops, k + 1, fe)

\* ------------------------------------------------------------ replay of the edge catalogue (DirBlock!DelEdge / InsEdge)
\* A step of a catalogue replay carries, per operation, the class the catalogue (spec/Edge_DirBlock.tla) lists the transition
\* under.  The operation applied to the model layout reached so far -- which every earlier line showed to be the layout on disk --
\* must be of exactly that class: then the real code took the catalogued edge.  (A mismatch means the replay went astray, not that
\* the code is wrong: checks/c10.py reports CHECK-BROKEN.)
EdgeOfOp(sl, o, aft) ==
   LET ly == sl.L[o.d] IN
   IF o.op \in Adds
   THEN LET r == LinkExpand(ly.b, ly.inl, Slot(1, NT[o.n][1], 0, 0, o.n), g, o.d, sl.s.dd[o.d], Ft(FTDIR)) IN InsEdge(ly.b, ly.inl, r, o.n, aft)
   ELSE DelEdge(ly.b, o.n, aft)
EdgePre(sl, o) == /\ o.d \in DOMAIN sl.L /\ o.d \in DOMAIN sl.s.ent /\ sl.L[o.d].dx = NoDx
                  /\ IF o.op \in Adds THEN o.n \notin DOMAIN sl.s.ent[o.d] ELSE o.op \in Dels /\ o.n \in DOMAIN sl.s.ent[o.d]
RECURSIVE EdgesRun(_, _, _, _, _)
EdgesRun(sl, ops, eg, k, fe) ==
   IF k > Len(ops) THEN TRUE
   ELSE /\ (eg[k].op = "" \/ (EdgePre(sl, ops[k]) /\ EdgeOfOp(sl, ops[k], eg[k].after) = eg[k]))
        /\ EdgesRun(Step1(sl, ops[k], fe), ops, eg, k + 1, fe)
EdgesAgree(ln, sl) == IF ~CheckEdges \/ Len(ln.eg) = 0 THEN TRUE ELSE Len(ln.eg) = Len(ln.ops) /\ EdgesRun(sl, ln.ops, ln.eg, 1, ln.fe)

\* ------------------------------------------------------------ comparison with the observation
\* inode records <<ino, type, links, blocks, has xattr block>>
InoRec(ln, i) == CHOOSE r \in ToSet(ln.ino) : r[1] = i
InoLogged(ln) == {r[1] : r \in ToSet(ln.ino)}
WithObservedBlocks(ln, x) ==
   [x EXCEPT !.blk = [i \in Alloc(x) |-> IF i \in InoLogged(ln) THEN InoRec(ln, i)[4] ELSE x.blk[i]], !.fb = ln.fb]

InodesAgree(ln, x0, x1) ==
   /\ Alloc(x1) = (Alloc(x0) \cup InoLogged(ln)) \ ToSet(ln.gone)
   /\ ToSet(ln.gone) \cap InoLogged(ln) = {}
   /\ \A i \in Alloc(x1) :
        IF i \in InoLogged(ln)
        THEN LET r == InoRec(ln, i) IN x1.ty[i] = r[2] /\ x1.links[i] = r[3] /\ x1.ea[i] = r[5]
        ELSE i \in Alloc(x0) /\ x1.ty[i] = x0.ty[i] /\ x1.links[i] = x0.links[i] /\ x1.ea[i] = x0.ea[i]

DirAgrees(r, x1, ly, resync) ==
   /\ r.ok = 1 /\ LsSorted(r.ls)
   /\ r.ino \in DOMAIN x1.ent
   /\ LsOf(r) = x1.ent[r.ino] /\ Len(r.ls) = Cardinality(DOMAIN x1.ent[r.ino])
   /\ r.dd = x1.dd[r.ino]
   /\ IF resync THEN TRUE ELSE LayOf(r) = ly        \* (not a disjunction: TLC would branch on it)

DirsAgree(ln, x0, x1, L0, L1, resync) ==
   /\ Logged(ln) \subseteq DOMAIN x1.ent
   /\ \A d \in DOMAIN x1.ent :
        IF d \in Logged(ln) THEN DirAgrees(DirRec(ln, d), x1, L1[d], resync)
        ELSE d \in DOMAIN x0.ent /\ x1.ent[d] = x0.ent[d] /\ x1.dd[d] = x0.dd[d] /\ L1[d] = L0[d]

Conserved(ln, x) == /\ ln.fb + SumBlk(x) + x.leak = K.blk
                    /\ ln.fi + Cardinality(Alloc(x)) = K.ino

\* ------------------------------------------------------------ actions
\* TLC expands the conjuncts of an action syntactically and BRANCHES on every disjunction it meets on the way, also in
\* unprimed predicates (k true disjunctions = 2^k identical successors).  The observation predicates are therefore
\* handed to it as values: Holds(p) is evaluated as a whole.
Holds(p) == p = TRUE
IsEvent(e) == l <= Len(Tr) /\ Tr[l].e = e /\ l' = l + 1

TReset ==
   /\ IsEvent("reset")
   /\ LET ln == Tr[l]
          al == InoLogged(ln)
          dirs == Logged(ln)
          x == [ent |-> [d \in dirs |-> LsOf(DirRec(ln, d))],
                ty |-> [i \in al |-> InoRec(ln, i)[2]], links |-> [i \in al |-> InoRec(ln, i)[3]],
                dd |-> [d \in dirs |-> DirRec(ln, d).dd], ea |-> [i \in al |-> InoRec(ln, i)[5]],
                blk |-> [i \in al |-> InoRec(ln, i)[4]], fb |-> ln.fb, leak |-> 0, zomb |-> {},
                skew |-> [i \in al |-> 0], taint |-> {}, sat |-> {}]
      IN /\ s' = x
         /\ L' = [d \in dirs |-> LayOf(DirRec(ln, d))]
         /\ g' = LET g0 == [bs |-> ln.bs, tail |-> ln.tail, cs |-> ln.cs] IN
                 [bs |-> ln.bs, tail |-> ln.tail, cs |-> ln.cs, rlim |-> RootLimit(g0), nlim |-> NodeLimit(g0), maxlv |-> ln.maxlv]
         /\ NT' = ln.names
         /\ K' = [blk |-> ln.fb + SumBlk(x), ino |-> ln.fi + Cardinality(al), inline |-> (ln.inline = 1), dirindex |-> (ln.dirindex = 1)]
         /\ Holds(Consistent(x))                           \* a fresh mke2fs filesystem (plus, for the large-directory
         /\ Holds(\A d \in dirs : DirRec(ln, d).ok = 1)    \* behaviours, a prepared directory holding exactly the names ln.want)
         /\ Holds(\A w \in ToSet(ln.want) : w[1] \in dirs /\ DOMAIN x.ent[w[1]] = ToSet(w[2]) /\ Len(DirRec(ln, w[1]).ls) = Len(w[2]))

TStep ==
   /\ IsEvent("step")
   /\ LET ln == Tr[l]
          r == Run([s |-> s, L |-> L], ln.ops, 1, ln.fe)
          x1 == WithObservedBlocks(ln, r.s)
      IN /\ Holds(InodesAgree(ln, s, x1))
         /\ Holds(DirsAgree(ln, s, x1, L, r.L, FALSE))
         /\ Holds(Conserved(ln, x1))
         /\ Holds(EdgesAgree(ln, [s |-> s, L |-> L]))
         /\ s' = x1 /\ L' = r.L
   /\ UNCHANGED <<g, NT, K>>

\* e2fsck -fyD: issued on consistent filesystems only; must find nothing to repair; namespace unchanged; every
\* directory is written anew and must have exactly the form HTree.tla states for a rebuilt directory: an inline directory
\* is left alone; the others become an htree (leaf blocks filled in hash order, the index calculate_tree derives from the
\* number of leaves: one, two or three levels) or a packed linear directory, as RebuildIndexes decides from the old layout.
\* lost+found keeps the blocks it had (as empty blocks) when the rebuilt directory is shorter.
LostFound == IF 1 \in DOMAIN s.ent[Root] THEN s.ent[Root][1][1] ELSE 0       \* name 1 is "lost+found"
RebuiltOK(d, pre, post) ==
   IF pre.inl THEN post = pre
   ELSE LET self == d  par == s.dd[d]  ftd == Ft(FTDIR)
            Form(x) == IF RebuildIndexes(pre, g, K.dirindex) THEN IsRebuiltDx(post, self, par, ftd, NT, g, x)
                       ELSE IsRebuiltLinear(post, self, par, ftd, g, x)
            cap == g.bs - g.tail
            \* blocks at the end that hold nothing but one unused slot
            Trail == Cardinality({j \in 2..Len(post.b) : \A k \in j..Len(post.b) : /\ post.b[k] = <<Empty(cap)>>
                                                                                     /\ (post.dx = NoDx \/ (k - 1) \notin DOMAIN post.dx.nodes)})
        IN IF d # LostFound THEN Form(0)
           ELSE Len(post.b) >= Len(pre.b) /\ (Trail > 0 => Len(post.b) = Len(pre.b)) /\ Form(Trail)
TFsckD ==
   /\ IsEvent("fsckD")
   /\ LET ln == Tr[l]
          x1 == WithObservedBlocks(ln, s)
          L1 == [d \in DOMAIN s.ent |-> IF d \in Logged(ln) THEN LayOf(DirRec(ln, d)) ELSE L[d]]
      IN /\ Holds(Consistent(s))
         /\ ln.rc = 0
         /\ Holds(InodesAgree(ln, s, x1))
         /\ Holds(DirsAgree(ln, s, x1, L, L1, TRUE))
         /\ Holds(\A d \in DOMAIN s.ent : RebuiltOK(d, L[d], L1[d]))
         /\ Holds(Conserved(ln, x1))
         /\ s' = x1 /\ L' = L1
   /\ UNCHANGED <<g, NT, K>>

\* e2fsck -fn as the consistency oracle: clean exactly when the model says the filesystem is consistent
\* (pass 4 accepts a count that saturated to 1 on a directory that is below the limit again -- "could be exact value" -- only when the
\* directory is indexed; the same reading as Trace_DirNlink!CountOK)
SatIndexed == \A i \in s.sat \cap DOMAIN s.ent : (s.links[i] = 1 /\ Refs(s, i) <= LinkMax) => (i \in DOMAIN L /\ L[i].dx # NoDx)
TFsckN ==
   /\ IsEvent("fsckn")
   /\ Holds((Tr[l].rc = 0) <=> (Consistent(s) /\ SatIndexed))
   /\ Tr[l].rc \in {0, 4}
   /\ UNCHANGED <<s, L, g, NT, K>>

TraceInit == /\ l = 1 /\ s = [ent |-> <<>>, ty |-> <<>>, links |-> <<>>, dd |-> <<>>, ea |-> <<>>, blk |-> <<>>, fb |-> 0, leak |-> 0, zomb |-> {},
                               skew |-> <<>>, taint |-> {}, sat |-> {}]
             /\ L = <<>> /\ g = [bs |-> 1024, tail |-> 0, cs |-> 0, rlim |-> 0, nlim |-> 0, maxlv |-> 2] /\ NT = <<>>
             /\ K = [blk |-> 0, ino |-> 0, inline |-> FALSE, dirindex |-> FALSE]
TraceNext == TReset \/ TStep \/ TFsckD \/ TFsckN
TraceSpec == TraceInit /\ [][TraceNext]_tvars
TraceAccepted == TLCGet("stats").diameter - 1 = Len(Tr)

\* ------------------------------------------------------------ diagnosis of a rejected line (development aid, not used by the check):
\* TRACE=<file> DIAG=<line number, 1-based> with SPECIFICATION DiagSpec prints which part of the observation disagrees
DStep ==
   /\ l = atoi(IOEnv.DIAG) /\ IsEvent("step")
   /\ LET ln == Tr[l]
          r == Run([s |-> s, L |-> L], ln.ops, 1, ln.fe)
          x1 == WithObservedBlocks(ln, r.s)
      IN /\ PrintT(<<"DIAG line", l, "inodes agree", InodesAgree(ln, s, x1), "alloc model", Alloc(x1), "logged", InoLogged(ln), "gone", ln.gone>>)
         /\ PrintT(<<"DIAG model inodes", [i \in InoLogged(ln) \cap Alloc(x1) |-> <<x1.ty[i], x1.links[i], x1.ea[i]>>]>>)
         /\ PrintT(<<"DIAG conserved", ln.fb, SumBlk(x1), x1.leak, K.blk, ln.fi, Cardinality(Alloc(x1)), K.ino>>)
         /\ PrintT(<<"DIAG dirs", [d \in Logged(ln) |-> IF d \in DOMAIN x1.ent
                                     THEN LET rr == DirRec(ln, d) IN <<rr.ok, LsOf(rr) = x1.ent[d], rr.dd = x1.dd[d], LayOf(rr) = r.L[d]>>
                                     ELSE <<"not a directory in the model">>]>>)
         /\ PrintT(<<"DIAG unlogged dirs changed in model", {d \in DOMAIN x1.ent \ Logged(ln) : d \notin DOMAIN s.ent \/ x1.ent[d] # s.ent[d] \/ r.L[d] # L[d]}>>)
         /\ PrintT(<<"DIAG model layouts", [d \in Logged(ln) \cap DOMAIN r.L |-> r.L[d]]>>)
         /\ PrintT(<<"DIAG model ent", [d \in Logged(ln) \cap DOMAIN x1.ent |-> x1.ent[d]]>>)
         /\ s' = x1 /\ L' = r.L
   /\ UNCHANGED <<g, NT, K>>
DiagNext == IF l = atoi(IOEnv.DIAG) THEN DStep ELSE TraceNext
DiagSpec == TraceInit /\ [][DiagNext]_tvars

\* ------------------------------------------------------------ invariants evaluated after every line
Started == l > 1
InvTypeOK == Started => TypeOK(s)
InvLinksRule == Started => LinksRule(s)
InvNoFreeReferenced == Started => NoFreeReferenced(s)
InvBalancedIsConsistent == Started => BalancedIsConsistent(s)
InvNoLeak == Started => NoLeak(s)
\* RecLenChainCoversBlock /\ live names = model, for every directory; htree: sorted index, hash ranges partition
InvLayout == Started => \A d \in DOMAIN s.ent :
                /\ d \in DOMAIN L
                /\ \A j \in LeafIdx(L[d]) : ChainCovers(L[d].b[j], IF L[d].inl THEN 56 ELSE g.bs - g.tail)
                /\ LiveSlots(L[d].b) = {<<n, s.ent[d][n][1], s.ent[d][n][2]>> : n \in DOMAIN s.ent[d]}
                /\ LiveCount(L[d].b) = Cardinality(DOMAIN s.ent[d])
                /\ L[d].dx # NoDx => DxInvariant(L[d], NT, g) /\ \A n \in DOMAIN s.ent[d] : LookupFinds(L[d], NT, n)
=============================================================================
