------------------------- MODULE Emit_SpaceLadder -------------------------
(* Writes the ENOSPC ladder and the session shapes that SpaceAcct defines as JSON (IOEnv.OUT):
   {"ladder": [{sit, r, op, n, mode, pre, at, needmeta}, ...], "shapes": [[step, step], ...]}; step = {op, a, b, mode, f} *)
EXTENDS SpaceAcct, Json, IOUtils, SequencesExt
VARIABLE x
Shapes2 == {<<p, q>> : p \in SessionSteps, q \in SessionSteps}
Univ == [ladder |-> SetToSeq(UNION {LadderOf(s) : s \in Sits}), shapes |-> SetToSeq(Shapes2)]
ASSUME JsonSerialize(IOEnv.OUT, Univ)
Init == x = 0 /\ free = 0 /\ own = <<>> /\ leak = <<>> /\ ibx = <<>> /\ dfree = 0 /\ bbdirty = FALSE /\ mounted = FALSE /\ aop = 0
Next == UNCHANGED <<x, svars>>
=============================================================================
