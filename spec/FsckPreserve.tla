---------------------------- MODULE FsckPreserve ----------------------------
(***************************************************************************)
(* C05 -- e2fsck never alters healthy files.                               *)
(*                                                                         *)
(* Three layers in one module.                                             *)
(*                                                                         *)
(* (1) The property (contract) is stated on the ABSTRACT variables only:   *)
(*     tree (what a user observes through the namespace), tree0 (the tree  *)
(*     when the filesystem was handed to e2fsck), cons (Consistent), exit, *)
(*     mode, dmgd.  Invariants TreeUnchanged, ExitOK, ConsistentAfter and  *)
(*     the step contract FsckContract.                                     *)
(* (2) The implementation-shaped part is a small transcription of what the *)
(*     repair modes do to the REPRESENTATION: one directory (leaf blocks   *)
(*     of at most Cap entries, an optional hash index with continuation    *)
(*     flags -- e2fsck/rehash.c), one file mapping (sorted extent list or  *)
(*     block map plus the metadata blocks that hold it -- e2fsck/          *)
(*     extents.c; its i_size against the mapping and the limits of the     *)
(*     format -- pass1.c check_blocks;                                     *)
(*     every extent is written or unwritten = fallocated: a                *)
(*     read of an unwritten block returns zeros whatever the disk holds),  *)
(*     the directory's name semantics (casefold flag of the directory,     *)
(*     strict-encoding flag of the filesystem, names that are not valid    *)
(*     UTF-8, names that differ only in case -- pass2.c                    *)
(*     encoded_check_name, rehash.c duplicate search),                     *)
(*     and the allocation summaries (bitmap, free count,                   *)
(*     BLOCK_UNINIT, the set of objects whose stored checksum is wrong --  *)
(*     pass 5, recheck_bad_inode_checksum, pass 2 "passes checks but       *)
(*     checksum does not match").  Actions: Rehash (-D, or forced by a bad *)
(*     dx checksum), RebuildExtents (opportunistic collapse),              *)
(*     Bmap2Extent, FixSummaries, PreenRefuse; summary-only corruptions.   *)
(*     Literal faulty behaviours are named Dev* constants (FALSE in the    *)
(*     conformance configuration; each one TRUE makes TLC produce a        *)
(*     TreeUnchanged counterexample: the invariant binds).                 *)
(* (3) Trace_FsckPreserve.tla drives the abstract variables with what was  *)
(*     observed on real e2fsck runs and evaluates the same invariants.     *)
(***************************************************************************)
EXTENDS Integers, Sequences, FiniteSets, TLC, SequencesExt

CONSTANTS Hashes,      \* hash values of the model names (names sharing a hash = collision group)
          Ids,         \* Names == Hashes \X Ids
          Cap,         \* directory entries per leaf block
          LBlks,       \* logical blocks of the file, 0..n
          DataBlks,    \* physical blocks that may hold file data
          MetaBlks,    \* physical blocks that may hold mapping metadata (indirect block / extent leaf)
          InoExt,      \* extents that fit in the inode (4 in the real format)
          NDirect,     \* direct slots of a block-mapped inode (12 in the real format)
          MaxDamage,   \* summary corruptions applied before e2fsck runs
          MaxRuns,     \* consecutive e2fsck runs
          DevRehashDropsCollision,   \* rehash loses the entry that continues a collision chain into the next leaf
          DevRehashDropsBoundary,    \* rehash loses the last entry of a full leaf
          DevRebuildDropsLast,       \* extent rebuild loses the last extent when the list spills out of the inode
          DevCsumClearsLeaf,         \* pass 2 clears a directory block whose only fault is its checksum
          DevSbCsumRefuses,          \* a superblock whose only fault is its checksum is not repaired (exit 8): literal behaviour of the
                                     \* pinned tree when no backup is found at the default geometry (fixes/C05_backup_sb_group_size)
          DevInodeUninitWipes,       \* a set *_UNINIT flag with a valid descriptor checksum is believed: the group is not scanned and
                                     \* everything that lives in it is released (fixes/C05_inode_uninit_first_group)
          InitExtStates,             \* states the extents of a start may be in: subset of {"w", "u"}
          InvalidIds,                \* ids of the model names whose bytes are not valid UTF-8
          CfModes,                   \* start configurations of the directory: subset of CfModeSet
          DevRebuildMergesAcrossState,   \* extent rebuild merges a written and an unwritten neighbour (the first one's state wins)
          DevEncCheckIgnoresStrict,  \* pass 2 verifies the encoding of the names of a casefolded directory although the filesystem is not strict
          DevCasefoldOpaqueHashFails,    \* literal behaviour of the pinned tree (fixes/C05_casefold_opaque_hash): the directory hash of a
                                     \* name that is not valid UTF-8 FAILS in a casefolded directory instead of being the hash of
                                     \* the bytes: pass 2 cannot reproduce the hashes stored in the index ("bad max hash"), clears
                                     \* the index, pass 3A cannot rebuild it ("Failed to optimize directory"), and the block that
                                     \* held the index root is left without the checksum tail of a linear block
          DevDupFoldsPlainDir,       \* the duplicate search of the directory rebuild compares case-insensitively in a directory without the casefold flag
          BSz,                       \* bytes per block of the model file (i_size is counted in these bytes)
          SizeClasses,               \* i_size classes of a start: subset of SizeClassSet (relative to the mapping and to the format limit)
          DevSizeLimitInclusive      \* pass 1 takes a block-mapped file whose i_size EQUALS the largest size the block map can express for
                                     \* too big (>= instead of >) and rewrites i_size to the end of the last mapped block

Modes == {"p", "y", "yD", "b2e", "fo"}       \* -fp, -fy, -fyD, -fy -E bmap2extent, -fy -E fixes_only

\* MutId: the id a name gets when e2fsck rewrites it (invalid bytes replaced by dots, duplicate made unique); never in a start
MutId == 0
Names == Hashes \X (Ids \cup {MutId})
StartNames == Hashes \X Ids
Hash(n) == n[1]                     \* the hash the directory's hash function gives the name (of the folded name in a casefolded directory)
\* names that differ only in case (or only in Unicode normalisation): same folded form, hence same hash in a casefolded
\* directory; ids 2k and 2k+1 are such twins.  In a directory without the casefold flag they are simply two names.
Fold(i) == i \div 2
Twin(a, b) == a # b /\ a[1] = b[1] /\ Fold(a[2]) = Fold(b[2]) /\ a[2] # MutId /\ b[2] # MutId
ValidEnc(n) == n[2] \notin InvalidIds
CfModeSet == {"plain", "plain_strict", "folded", "folded_strict"}     \* casefold flag of the directory x EXT4_ENC_STRICT_MODE_FL of the fs
IsFolded(c) == c \in {"folded", "folded_strict"}
IsStrict(c) == c \in {"plain_strict", "folded_strict"}
NameLt(a, b) == a[1] < b[1] \/ (a[1] = b[1] /\ a[2] < b[2])          \* hash_cmp: hash, then name
AllBlks == DataBlks \cup MetaBlks
Rng(s) == {s[k] : k \in DOMAIN s}
Min2(a, b) == IF a <= b THEN a ELSE b

VARIABLES
  \* ---- abstract (property level)
  tree, tree0, cons, exit, mode, dmgd, dch, mch, lin3,
  \* ---- representation: the directory
  leaves, index, indexed, cfm,
  \* ---- representation: the file mapping
  exts, kind, meta, fsize,
  \* ---- representation: allocation summaries and checksum fields
  bitmap, freecnt, uninit, badcsum,
  \* ---- bookkeeping
  dmg, runs

absvars == <<tree, tree0, cons, exit, mode, dmgd, dch, mch, lin3>>
repvars == <<leaves, index, indexed, cfm, exts, kind, meta, fsize, bitmap, freecnt, uninit, badcsum>>
vars == <<absvars, repvars, dmg, runs>>

(***************************************************************************)
(* (1) The contract                                                        *)
(***************************************************************************)
ExitSet(m, damaged) ==
    IF ~damaged THEN {0, 1}                                   \* clean, or "modified without errors"
    ELSE IF m = "p" THEN 0..15                                \* preen may refuse what it is not allowed to fix (bit 4) or to open (bit 8)
    ELSE 0..3                                                 \* no uncorrected-error / operational-error bit
Claimed(x) == x \in 0..3                                      \* e2fsck claims the filesystem is now fine

\* -D rebuilds every directory; a bad dx checksum forces a rebuild in any mode; and pass 1 schedules every directory of
\* three or more blocks that has no index for indexing, whatever the mode (pass1.c: `(i_size / blocksize) >= 3`)
MayRehash(m, damaged, big) == m = "yD" \/ damaged \/ big
MayRemap(m, damaged)  == m # "fo"                             \* fixes_only never optimises or converts a mapping

TreeUnchanged   == tree = tree0
ExitOK          == mode # "none" => exit \in ExitSet(mode, dmgd)
ConsistentAfter == (mode # "none" /\ Claimed(exit)) => cons
ModeScope       == mode # "none" => (dch => MayRehash(mode, dmgd, lin3)) /\ (mch => MayRemap(mode, dmgd))

\* one run of e2fsck, as a relation between abstract states (what the trace lines are checked against)
FsckContract ==
    /\ mode' \in Modes
    /\ tree' = tree
    /\ exit' \in ExitSet(mode', dmgd')
    /\ (Claimed(exit') => cons')
    /\ (dch' => MayRehash(mode', dmgd', lin3')) /\ (mch' => MayRemap(mode', dmgd'))

\* a corruption confined to summaries and checksum fields
DamageContract == mode' = "none" /\ tree' = tree

(***************************************************************************)
(* (2) Representation and abstraction function                             *)
(***************************************************************************)
Flat(lv) == IF Len(lv) = 0 THEN <<>> ELSE FoldLeft(LAMBDA acc, b : acc \o b, <<>>, lv)
Count(lv, n) == Cardinality({<<k, j>> \in (DOMAIN lv) \X (1..Cap) : j \in DOMAIN lv[k] /\ lv[k][j] = n})
\* an extent is <<first logical block, length, first physical block, state>>, state "w" (written) or "u" (unwritten)
Covered(es) == UNION {{<<e[1] + i, e[3] + i>> : i \in 0..(e[2] - 1)} : e \in Rng(es)}      \* <<logical block, physical block>>
\* what a read returns: the bytes of the physical block for a written block; zeros for an unwritten block exactly as for a
\* hole, whatever the disk holds there (so only written blocks contribute to the content)
Readable(es) == UNION {{<<e[1] + i, e[3] + i>> : i \in 0..(e[2] - 1)} : e \in {x \in Rng(es) : x[4] = "w"}}
\* the initialised state of every mapped block
InitMap(es) == UNION {{<<e[1] + i, e[3] + i, e[4]>> : i \in 0..(e[2] - 1)} : e \in Rng(es)}

\* what the user sees: which names exist (as a bag) and which physical block backs each logical block of the file
\* (data blocks are never moved by the modelled repairs, so the block a logical offset maps to stands for its bytes)
\* ---- i_size (pass1.c check_blocks, the branch for everything that is not a directory).  The size of a regular file is a
\* fact of its own, independent of the mapping: a file may end in a hole (truncate up), may end inside its last block, may own
\* unwritten blocks past its end (fallocate KEEP_SIZE) and pass 1 also tolerates written blocks past the end as long as the
\* LAST written block still starts at or below i_size (`size < last_init_lblock * blocksize` is the test).  The only upper
\* bound is what the mapping format can express:
\*   block map: every addressable block full -- (12 + n + n^2 + n^3) * blocksize, n = blocksize / 4 (ext2_max_sizes[]); a size
\*              EQUAL to it is the largest healthy size (`size > ext2_max_sizes`), what truncate -s max gives on ext2/ext3;
\*   extents:   ee_block is 32 bits and block 2^32 - 1 cannot be mapped: 2^32 * blocksize - 1 (`size > (1 << (32 + bits)) - 1`).
\* In the model LBlks are the addressable logical blocks of both formats.
MaxLblk == IF LBlks = {} THEN -1 ELSE CHOOSE b \in LBlks : \A c \in LBlks : c <= b
LastBlk(es) == IF Len(es) = 0 THEN -1 ELSE es[Len(es)][1] + es[Len(es)][2] - 1
LastInit(es) == LET w == {k \in DOMAIN es : es[k][4] = "w"}
                IN  IF w = {} THEN -1 ELSE LET k == CHOOSE a \in w : \A b \in w : b <= a IN es[k][1] + es[k][2] - 1
SizeLimit(kd) == IF kd = "ind" THEN (MaxLblk + 1) * BSz ELSE (MaxLblk + 2) * BSz - 1
TooSmall(sz, es) == LastInit(es) >= 0 /\ sz < LastInit(es) * BSz
SizeOK(sz, es, kd) == sz >= 0 /\ ~TooSmall(sz, es) /\ sz <= SizeLimit(kd)
\* what pass 1 calls a bad size (bad_size = 3, 4, 6); PR_1_BAD_I_SIZE is answered yes in every repairing mode, preen included
Pass1SizeBad(sz, es, kd) == \/ TooSmall(sz, es)
                            \/ sz > SizeLimit(kd)
                            \/ (DevSizeLimitInclusive /\ kd = "ind" /\ sz = SizeLimit(kd))
Pass1Size(sz, es, kd) == IF Pass1SizeBad(sz, es, kd) THEN (LastBlk(es) + 1) * BSz ELSE sz
\* the i_size classes of a start, each relative to the mapping or to the limit of the format
SizeClassSet == {"end", "end_partial", "last_init_first_byte", "sparse_tail", "max_minus1", "max"}
SizeOf(c, es, kd) == CASE c = "end" -> (LastBlk(es) + 1) * BSz                    \* the file ends with its last mapped block
                       [] c = "end_partial" -> (LastBlk(es) + 1) * BSz - 1        \* ... inside its last mapped block
                       [] c = "last_init_first_byte" -> LastInit(es) * BSz        \* smallest size the written blocks allow (blocks past EOF)
                       [] c = "sparse_tail" -> (LastBlk(es) + 2) * BSz            \* a hole behind the last mapped block
                       [] c = "max_minus1" -> SizeLimit(kd) - 1
                       [] c = "max" -> SizeLimit(kd)

\* the bytes below i_size are the content; the size is observable by itself (stat)
AbsTree(lv, es, sz) == [names |-> [n \in Names |-> Count(lv, n)], content |-> {c \in Readable(es) : c[1] * BSz < sz}, size |-> sz]

Owned(es, mt) == {c[2] : c \in Covered(es)} \cup mt

DirOK ==
    /\ Len(leaves) >= 1
    /\ \A k \in DOMAIN leaves : Len(leaves[k]) <= Cap
    /\ \A n \in Names : Count(leaves, n) <= 1
    /\ cfm \in CfModeSet
    \* a casefolded directory never holds two names with the same folded form (the kernel's lookup is case-insensitive there),
    \* and on a strict filesystem every name of a casefolded directory is valid UTF-8 (the kernel refuses to create others)
    /\ (IsFolded(cfm) => \A a, b \in Rng(Flat(leaves)) : ~Twin(a, b))
    /\ (IsFolded(cfm) /\ IsStrict(cfm) => \A a \in Rng(Flat(leaves)) : ValidEnc(a))
    /\ IF indexed
       THEN /\ Len(index) = Len(leaves) /\ index[1].h = 0 /\ ~index[1].cont
            /\ \A k \in DOMAIN leaves : \A j \in DOMAIN leaves[k] :
                 /\ Hash(leaves[k][j]) >= index[k].h
                 /\ (k < Len(leaves) => Hash(leaves[k][j]) <= index[k + 1].h)
            /\ \A k \in 2..Len(leaves) :
                 (\E j \in DOMAIN leaves[k - 1] : Hash(leaves[k - 1][j]) = index[k].h) => index[k].cont
       ELSE index = <<>>

MapOK ==
    /\ \A k \in DOMAIN exts : exts[k][2] >= 1 /\ exts[k][1] \in LBlks /\ (exts[k][1] + exts[k][2] - 1) \in LBlks
    /\ \A k \in DOMAIN exts : exts[k][4] \in {"w", "u"} /\ (kind = "ind" => exts[k][4] = "w")      \* a block map has no unwritten state
    /\ \A k \in 1..(Len(exts) - 1) : exts[k][1] + exts[k][2] <= exts[k + 1][1]
    /\ \A c \in Covered(exts) : c[2] \in DataBlks
    /\ \A c, d \in Covered(exts) : c[2] = d[2] => c = d
    /\ meta \subseteq MetaBlks /\ Cardinality(meta) <= 1
    /\ IF kind = "ext" THEN (Len(exts) > InoExt => meta # {})
       ELSE (meta # {}) = (\E c \in Covered(exts) : c[1] >= NDirect)
    /\ SizeOK(fsize, exts, kind)

SummOK ==
    /\ bitmap = Owned(exts, meta)
    /\ freecnt = Cardinality(AllBlks) - Cardinality(Owned(exts, meta))
    /\ (uninit => Owned(exts, meta) = {})
    /\ badcsum = {}

RepOK == DirOK /\ MapOK /\ SummOK

(***************************************************************************)
(* rehash.c: collect every live entry of every block (fill_dir_block),     *)
(* sort by (hash, name), pack into blocks (copy_dir_entries), build the    *)
(* index with continuation flags (calculate_tree).  A directory that fits  *)
(* in one block is written back linear.                                    *)
(***************************************************************************)
\* pass2.c check_dir_block / encoded_check_name: only in a casefolded directory of a filesystem in strict mode (or with
\* -E check_encoding, not one of the five modes) is the encoding of a name verified; a name that is not valid UTF-8 is then
\* rewritten (offending bytes replaced by dots).  Elsewhere names are opaque byte strings and are left alone.
EncChecked(c) == IsFolded(c) /\ (IsStrict(c) \/ DevEncCheckIgnoresStrict)
FixName(n) == <<n[1], MutId>>
Pass2Names(lv, c) == IF EncChecked(c)
                     THEN [k \in DOMAIN lv |-> [j \in DOMAIN lv[k] |-> IF ValidEnc(lv[k][j]) THEN lv[k][j] ELSE FixName(lv[k][j])]]
                     ELSE lv
\* rehash.c duplicate_search_and_fix: neighbours of the sorted list that are the same name are made unique; "the same" is
\* case-insensitive exactly when the directory carries the casefold flag (name_cmp_ctx.casefold)
DupFold(c) == IsFolded(c) \/ DevDupFoldsPlainDir
Dedup(srt, c) == [j \in DOMAIN srt |-> IF j > 1 /\ DupFold(c) /\ Twin(srt[j - 1], srt[j]) THEN FixName(srt[j]) ELSE srt[j]]

RehashDir(lv, c) ==
    LET srt == SortSeq(Dedup(SortSeq(Flat(lv), NameLt), c), NameLt)
        n   == Len(srt)
    IN  IF n <= Cap THEN [leaves |-> <<srt>>, index |-> <<>>, indexed |-> FALSE]
        ELSE LET nb  == (n + Cap - 1) \div Cap
                 raw == [k \in 1..nb |-> SubSeq(srt, (k - 1) * Cap + 1, Min2(k * Cap, n))]
                 chained(k) == k > 1 /\ Hash(raw[k][1]) = Hash(raw[k - 1][Len(raw[k - 1])])
                 out == [k \in 1..nb |->
                           LET b1 == IF DevRehashDropsCollision /\ chained(k) THEN Tail(raw[k]) ELSE raw[k]
                           IN  IF DevRehashDropsBoundary /\ k < nb /\ Len(b1) = Cap THEN SubSeq(b1, 1, Cap - 1) ELSE b1]
                 idx == [k \in 1..nb |-> [h |-> IF k = 1 THEN 0 ELSE Hash(raw[k][1]), cont |-> chained(k)]]
             IN  [leaves |-> out, index |-> idx, indexed |-> TRUE]

(***************************************************************************)
(* extents.c rebuild_extents: read every mapping into a list, merge        *)
(* neighbours that are contiguous logically and physically, write the list *)
(* back: into the inode if it fits, otherwise into one leaf block.         *)
(***************************************************************************)
\* load_extents: a neighbour is attached to the previous extent when it continues it logically AND physically AND is in the
\* same initialised state (Dev: the state is not compared; the merged extent keeps the state of its first part)
Adj(a, b) == a[1] + a[2] = b[1] /\ a[3] + a[2] = b[3] /\ (a[4] = b[4] \/ DevRebuildMergesAcrossState)
MStarts(es) == {k \in DOMAIN es : k = 1 \/ ~Adj(es[k - 1], es[k])}
RunEnd(es, s) == CHOOSE e \in s..Len(es) : (e = Len(es) \/ (e + 1) \in MStarts(es)) /\ \A j \in (s + 1)..e : j \notin MStarts(es)
Merged(es) ==
    LET st == SetToSortSeq(MStarts(es), LAMBDA a, b : a < b)
    IN  [i \in DOMAIN st |-> LET s == st[i]  e == RunEnd(es, s) IN <<es[s][1], es[e][1] + es[e][2] - es[s][1], es[s][3], es[s][4]>>]
LowMeta == CHOOSE b \in MetaBlks : \A c \in MetaBlks : b <= c
Rebuild(es) ==
    LET m  == Merged(es)
        m2 == IF DevRebuildDropsLast /\ Len(m) > InoExt THEN SubSeq(m, 1, Len(m) - 1) ELSE m
    IN  [exts |-> m2, kind |-> "ext", meta |-> IF Len(m2) <= InoExt THEN {} ELSE {LowMeta}]
\* e2fsck_should_rebuild_extents: a level can go when it holds FEWER extents than a level above it has room for
\* (`ei->num_extents < eti->ext_info[j].max_extents`)
CanCollapse == kind = "ext" /\ Len(exts) < InoExt /\ meta # {}

(***************************************************************************)
(* Initial states: every consistent filesystem of the small universe       *)
(***************************************************************************)
\* extent list of an injective partial map f, split additionally at the logical blocks in cuts
ExtStarts(f, cuts) == {l \in DOMAIN f : (l - 1) \notin DOMAIN f \/ f[l - 1] + 1 # f[l] \/ l \in cuts}
ExtLen(f, cuts, s) == CHOOSE n \in 1..Cardinality(LBlks) :
                         /\ \A i \in 0..(n - 1) : (s + i) \in DOMAIN f /\ (i > 0 => (s + i) \notin ExtStarts(f, cuts))
                         /\ ((s + n) \notin DOMAIN f \/ (s + n) \in ExtStarts(f, cuts))
ExtsOf(f, cuts, un) == LET st == SetToSortSeq(ExtStarts(f, cuts), LAMBDA a, b : a < b)
                       IN  [i \in DOMAIN st |-> <<st[i], ExtLen(f, cuts, st[i]), f[st[i]], IF st[i] \in un THEN "u" ELSE "w">>]
Injective(f) == \A a, b \in DOMAIN f : f[a] = f[b] => a = b
LinearDir(S) == LET sq == SetToSortSeq(S, LAMBDA a, b : a[2] < b[2] \/ (a[2] = b[2] /\ a[1] > b[1]))     \* not in hash order
                    n  == Len(sq)
                    nb == IF n = 0 THEN 1 ELSE (n + Cap - 1) \div Cap
                IN  [leaves |-> [k \in 1..nb |-> SubSeq(sq, (k - 1) * Cap + 1, Min2(k * Cap, n))], index |-> <<>>, indexed |-> FALSE]

Init ==
    /\ \E S \in SUBSET StartNames : \E lay \in {"linear", "indexed"} : \E c \in CfModes :
         LET d == IF lay = "linear" THEN LinearDir(S) ELSE RehashDir(LinearDir(S).leaves, c)
         IN  leaves = d.leaves /\ index = d.index /\ indexed = d.indexed /\ cfm = c
             /\ Rng(Flat(d.leaves)) \subseteq StartNames          \* (building the index did not have to rename anything)
    /\ \E D \in SUBSET LBlks : \E f \in {g \in [D -> DataBlks] : Injective(g)} : \E kd \in {"ext", "ind"} : \E mt \in SUBSET MetaBlks :
       \E cuts \in (IF kd = "ind" THEN {D} ELSE SUBSET D) :                      \* a block map is read block by block
       \* un = first blocks of the extents that are unwritten (a block map has no such state)
       \E un \in (IF kd = "ind" \/ "u" \notin InitExtStates THEN {{}} ELSE SUBSET ExtStarts(f, cuts)) :
         /\ exts = ExtsOf(f, cuts, un) /\ kind = kd /\ meta = mt
    /\ \E c \in SizeClasses : fsize = SizeOf(c, exts, kind)
    /\ bitmap = Owned(exts, meta) /\ freecnt = Cardinality(AllBlks) - Cardinality(bitmap)
    /\ uninit \in {u \in BOOLEAN : u => bitmap = {}} /\ badcsum = {}
    /\ DirOK /\ MapOK
    /\ tree = AbsTree(leaves, exts, fsize) /\ tree0 = tree /\ cons = TRUE
    /\ exit = 0 /\ mode = "none" /\ dmgd = FALSE /\ dch = FALSE /\ mch = FALSE /\ lin3 = FALSE /\ dmg = 0 /\ runs = 0

(***************************************************************************)
(* Corruptions confined to allocation summaries and checksum fields        *)
(***************************************************************************)
CsumObjs == {"sb", "gd", "bb", "ino", "leaf"} \cup (IF indexed THEN {"dxroot"} ELSE {})
            \cup (IF kind = "ext" /\ meta # {} THEN {"extblk"} ELSE {})

Damage ==
    /\ mode = "none" /\ dmg < MaxDamage
    /\ \/ \E b \in AllBlks : bitmap' = (bitmap \ {b}) \cup ({b} \ bitmap) /\ UNCHANGED <<freecnt, uninit, badcsum>>
       \/ \E c \in {freecnt - 1, freecnt + 1, 0} : c >= 0 /\ c # freecnt /\ freecnt' = c /\ UNCHANGED <<bitmap, uninit, badcsum>>
       \/ uninit' = ~uninit /\ UNCHANGED <<bitmap, freecnt, badcsum>>
       \/ \E o \in CsumObjs \ badcsum : badcsum' = badcsum \cup {o} /\ UNCHANGED <<bitmap, freecnt, uninit>>
    /\ dmg' = dmg + 1
    /\ UNCHANGED <<tree, tree0, exit, mode, dmgd, dch, mch, lin3, leaves, index, indexed, cfm, exts, kind, meta, fsize, runs>>
    /\ cons' = RepOK'

(***************************************************************************)
(* One e2fsck run                                                          *)
(***************************************************************************)
Fsck(m) ==
    /\ runs < MaxRuns
    /\ LET damaged == ~SummOK
           \* pass 2: a leaf whose checksum alone is wrong is rewritten with a fresh checksum (Dev: its entries are cleared)
           wipe == DevInodeUninitWipes /\ uninit /\ Owned(exts, meta) # {}
           lv0  == IF wipe THEN <<<<>>>>
                   ELSE IF "leaf" \in badcsum /\ DevCsumClearsLeaf THEN [leaves EXCEPT ![1] = <<>>] ELSE leaves
           lv1  == Pass2Names(lv0, cfm)                          \* pass 2 looks at every name
           \* a dx root that fails its checksum is cleared (clear_htree) and the directory rebuilt in pass 3A
           big  == ~indexed /\ Len(leaves) >= 3
           doRehash == m = "yD" \/ ("dxroot" \in badcsum /\ indexed) \/ big
           hashfails == DevCasefoldOpaqueHashFails /\ ~wipe /\ IsFolded(cfm) /\ \E n \in Rng(Flat(lv1)) : ~ValidEnc(n)
           idxlost == hashfails /\ indexed
           dirN == IF wipe THEN [leaves |-> lv1, index |-> <<>>, indexed |-> FALSE]
                   ELSE IF hashfails THEN [leaves |-> lv1, index |-> <<>>, indexed |-> FALSE]      \* index cleared if there was one; no rebuild
                   ELSE IF doRehash THEN RehashDir(lv1, cfm) ELSE [leaves |-> lv1, index |-> index, indexed |-> indexed]
           \* "extent tree could be shorter.  Optimize?" is answered yes by -y, is not asked with -E fixes_only, and is IGNORED by
           \* preen (PR_1E_CAN_COLLAPSE_EXTENT_TREE carries PR_PREEN_NO)
           doRemap == (m = "b2e" /\ kind = "ind") \/ (m \notin {"fo", "p"} /\ CanCollapse)
           mapN == IF wipe THEN [exts |-> <<>>, kind |-> kind, meta |-> {}]
                   ELSE IF doRemap THEN Rebuild(exts) ELSE [exts |-> exts, kind |-> kind, meta |-> meta]
           \* pass 1 check_blocks: i_size against the mapping as found (before any rebuild) and against the limit of its format
           szN  == IF wipe THEN 0 ELSE Pass1Size(fsize, exts, kind)
           sbstuck == DevSbCsumRefuses /\ "sb" \in badcsum
           own  == Owned(mapN.exts, mapN.meta)
           changed == damaged \/ dirN.leaves # leaves \/ dirN.index # index \/ mapN.exts # exts \/ mapN.meta # meta \/ mapN.kind # kind \/ szN # fsize
       IN  \/ \* repair
              /\ ~sbstuck /\ ~(m = "p" /\ idxlost)
              /\ leaves' = dirN.leaves /\ index' = dirN.index /\ indexed' = dirN.indexed /\ cfm' = cfm
              /\ exts' = mapN.exts /\ kind' = mapN.kind /\ meta' = mapN.meta /\ fsize' = szN
              /\ bitmap' = own /\ freecnt' = Cardinality(AllBlks) - Cardinality(own)          \* pass 5
              /\ uninit' = (uninit /\ own = {}) /\ badcsum' = (IF idxlost THEN {"dirblk0"} ELSE {})
              /\ exit' = IF changed THEN 1 ELSE 0
              /\ dch' = (dirN.leaves # leaves \/ dirN.index # index) /\ mch' = (mapN.exts # exts \/ mapN.kind # kind \/ mapN.meta # meta)
              /\ tree' = AbsTree(dirN.leaves, mapN.exts, szN)
              /\ dmgd' = damaged /\ lin3' = big
           \/ \* (literal) the primary superblock does not verify and no backup is found: e2fsck gives up
              /\ sbstuck
              /\ UNCHANGED <<repvars, tree>>
              /\ exit' = 8 /\ dch' = FALSE /\ mch' = FALSE /\ dmgd' = TRUE /\ lin3' = big
           \/ \* preen meets a problem it may not fix on its own and stops: nothing is written
              /\ m = "p" /\ (damaged \/ idxlost)
              /\ UNCHANGED <<repvars, tree>>
              /\ exit' = 4 /\ dch' = FALSE /\ mch' = FALSE /\ dmgd' = damaged /\ lin3' = big
    /\ mode' = m /\ runs' = runs + 1
    /\ cons' = RepOK'
    /\ UNCHANGED <<tree0, dmg>>

Next == Damage \/ \E m \in Modes : Fsck(m)
Spec == Init /\ [][Next]_vars

\* RebuildExtents / Bmap2Extent / every other step of a run: the initialised state of every mapped block is preserved -- no
\* block changes between written and unwritten, none is added, dropped or moved (stronger than the byte content: it also
\* excludes turning an unwritten block into a hole).  Stated on the representation, checked as an action property.
InitStatePreserved == [][runs' # runs => InitMap(exts') = InitMap(exts)]_vars

\* the implementation-shaped actions refine the contract (checked as an action property)
ContractRefined == [][(runs' # runs => FsckContract) /\ (dmg' # dmg => DamageContract)]_vars

TypeOK == /\ mode \in Modes \cup {"none"} /\ exit \in 0..15 /\ cons \in BOOLEAN /\ dmgd \in BOOLEAN
          /\ bitmap \subseteq AllBlks /\ freecnt \in 0..(Cardinality(AllBlks) + MaxDamage)

(***************************************************************************)
(* The universe of real inputs the conformance step concretises           *)
(* (gen/c05_family.py, gen/c05_summary.py read these through               *)
(* Emit_FsckPreserve)                                                      *)
(***************************************************************************)
EntryClasses == {"zero", "one", "blk_minus1", "blk_full", "blk_plus1", "two_leaves",
                 "idx_minus1", "idx_full", "idx_plus1", "two_levels"}
NameLenClasses == {1, 8, 120, 255}
CollisionClasses == {"none", "pair", "pairs_at_boundary"}
DirFamily == {<<e, n, c>> \in EntryClasses \X NameLenClasses \X CollisionClasses :
                \* a collision needs at least two entries; a one-character name space has < 256 members; the two-level classes
                \* need more entries than inodes/links are worth with short names (stated in the evidence)
                /\ (c # "none" => e \notin {"zero", "one"} /\ n \in {8, 255})
                /\ (n = 1 => e \in {"zero", "one", "blk_minus1", "blk_full", "blk_plus1", "two_leaves"})
                /\ (e \in {"idx_minus1", "idx_full", "idx_plus1", "two_levels"} => n \in {120, 255})}
\* the part of the family the quick tier concretises (the thorough tier takes all of it)
QuickDirFamily == {f \in DirFamily : /\ f[1] \notin {"idx_minus1", "idx_full", "two_levels"}
                                     /\ (f[1] = "idx_plus1" => f[2] = 255 /\ f[3] = "none")}
MapShapes == {"ext_inode_1", "ext_inode_4", "ext_leaf_5", "ext_leaf_full", "ext_depth2", "ext_uninit", "ext_collapsible",
              "ind_11", "ind_12", "ind_13", "ind_268", "ind_269", "ind_sparse", "ind_dind_far"}
StartLayouts == {"linear", "rehashed", "rehashed_then_grown"}

\* ---- written / unwritten state per extent (only the extent format has it).  One file per element:
\*   tree class   "inode": depth 0, nothing to rebuild; "collapsible": a depth-1 tree left with fewer extents than the inode holds
\*                (after a punch), which e2fsck rebuilds in pass 1E in every mode but fixes_only; "leaf": a depth-1 tree that needs
\*                its leaf; "collapsible_d2": a depth-2 tree left with few extents
\*   pattern      the states of up to three neighbouring extents, in logical order
\*   adjacency    "contig": each extent continues the previous one logically AND physically (what the rebuild may merge when the
\*                states agree); "loggap": a hole between them; "physgap": logically contiguous, physically elsewhere
\* The bytes on disk under every unwritten block are non-zero (stale data), so that a reader that forgets the state sees them.
ExtTreeClasses == {"inode", "collapsible", "leaf", "collapsible_d2"}
ExtStates == {"w", "u"}
StatePatterns == UNION {[1..n -> ExtStates] : n \in 1..3}
AdjClasses == {"contig", "loggap", "physgap"}
ExtStateFamily == {<<t, p, a>> \in ExtTreeClasses \X StatePatterns \X AdjClasses :
                     /\ (Len(p) = 1 => a = "contig")                            \* a single extent has no neighbour
                     /\ (t = "collapsible_d2" => a = "contig" /\ Len(p) = 2)}
\* ---- casefold (mke2fs -O casefold): encoding mode of the filesystem x casefold flag of the directory x name class x size.
\* Name classes are a boundary catalogue of UTF-8: valid multi-byte sequences of every length, precomposed vs decomposed forms,
\* and every way a byte string can fail to be UTF-8.  Constraints = the consistent universe (DirOK): a casefolded directory holds
\* no two names with the same folded form, and on a strict filesystem no invalid name.
EncModes == {"nonstrict", "strict"}
CfDirFlags == {"folded", "plain"}
ValidNameKinds == {"ascii_mixed_case", "utf8_2byte", "utf8_3byte", "utf8_4byte", "utf8_decomposed"}
TwinNameKinds == {"differ_in_case_ascii", "differ_in_case_utf8", "differ_in_normalisation"}      \* pairs with the same folded form
InvalidNameKinds == {"latin1_high_byte", "lone_continuation", "truncated_2byte", "truncated_3byte", "truncated_4byte", "overlong_2byte",
                     "surrogate", "above_10ffff", "bytes_fe_ff"}
NameKinds == ValidNameKinds \cup TwinNameKinds \cup InvalidNameKinds
CfSizeClasses == {"one_block", "indexed"}
CfDirFamily == {<<m, f, k, z>> \in EncModes \X CfDirFlags \X NameKinds \X CfSizeClasses :
                  /\ (f = "folded" => k \notin TwinNameKinds)
                  /\ (f = "folded" /\ m = "strict" => k \notin InvalidNameKinds)}

\* ---- i_size boundaries (pass1.c check_blocks / e2fsck_pass1_check_symlink): one healthy file per element, built by the tools
\* (debugfs write of a sparse host file; set_inode_field size where the class is a size no mapped block reaches), on one small
\* carrier per (mapping format, block size).  Classes are relative to the file's mapping or to the limit of the format, as
\* SizeClassSet above; the limits themselves are the format's:
\*   block map  IndMaxBlocks(n) = 12 + n + n^2 + n^3 addressable blocks, n = blocksize / 4 pointers per block
\*   extents    2^ExtLblkBits logical block numbers, the last of which cannot be mapped (a length would overflow):
\*              largest size 2^ExtLblkBits * blocksize - 1, last mappable block 2^ExtLblkBits - 2
\*   symlinks   a target shorter than FastSymlinkArea = 60 bytes (i_block) is stored in the inode, a longer one in ONE block together
\*              with its terminating NUL: lengths 59 | 60 and blocksize - 2 | blocksize - 1
\*   directory  i_size is the number of blocks times the block size, nothing else (class "blocks"); not an observable of the
\*              property (the tree oracle does not compare it), the entries are
SizeBlockSizes == {1024, 4096}
IndMaxBlocks(n) == 12 + n + n * n + n * n * n
ExtLblkBits == 32
FastSymlinkArea == 60
RegSizeClasses == SizeClassSet \cup
                  {"max_last_block_mapped",     \* the last block the format can map is mapped and full (for a block map this IS the maximum size)
                   "unwritten_past_eof",        \* fallocate KEEP_SIZE: unwritten extents behind i_size (extents only)
                   "huge_file_iblocks"}         \* EXT4_HUGE_FILE_FL: i_blocks counted in filesystem blocks (huge_file feature)
SymlinkSizeClasses == {"fast_max", "slow_min", "slow_max_minus1", "slow_max"}
SizeFamily == {<<t, m, b, c>> \in {"reg"} \X {"ind", "ext"} \X SizeBlockSizes \X RegSizeClasses :
                 (c \in {"unwritten_past_eof", "huge_file_iblocks"} => m = "ext")} \cup
              ({"lnk"} \X {"ind", "ext"} \X SizeBlockSizes \X SymlinkSizeClasses) \cup
              ({"dir"} \X {"ind", "ext"} \X SizeBlockSizes \X {"blocks"})
SizeLimits == [b \in SizeBlockSizes |-> [indmaxblocks |-> IndMaxBlocks(b \div 4), extlblkbits |-> ExtLblkBits, fastsymlink |-> FastSymlinkArea]]

SummaryKinds ==
    {<<"bb", v>> : v \in {"clear_data", "clear_index", "clear_dirblock", "clear_fixed", "set_free", "clear_padding"}} \cup
    {<<"ib", v>> : v \in {"clear_used", "clear_reserved", "set_free"}} \cup
    {<<f, v>> : f \in {"gd_free_blocks", "gd_free_inodes", "gd_used_dirs"}, v \in {"plus1", "minus1", "zero"}} \cup
    {<<f, v>> : f \in {"sb_free_blocks", "sb_free_inodes"}, v \in {"plus1", "minus1", "zero"}} \cup
    {<<"gd_flags", v>> : v \in {"set_block_uninit", "set_inode_uninit", "flip_itable_zeroed"}} \cup
    {<<"gd_itable_unused", v>> : v \in {"zero", "ipg", "plus1", "hide_used"}} \cup
    {<<"csum", o>> : o \in {"sb", "gd", "bbitmap", "ibitmap", "inode_root", "inode_dir_htree", "inode_dir_linear", "inode_reg_extent",
                            "inode_reg_ind", "inode_symlink", "inode_special", "inode_journal", "inode_free_initialised", "extent_block",
                            "dir_leaf", "dir_linear_block", "dx_root", "dx_node", "xattr_block", "orphan_block", "journal_sb"}}
GdCsumVariants == {"recomputed", "stale"}      \* for the gd_* kinds: descriptor checksum recomputed by the reader's code, or left stale
=============================================================================
