---- MODULE BitmapRb_TTrace_1790558181 ----
EXTENDS Sequences, TLCExt, BitmapRb, Toolbox, Naturals, TLC

_expression ==
    LET BitmapRb_TEExpression == INSTANCE BitmapRb_TEExpression
    IN BitmapRb_TEExpression!expression
----

_trace ==
    LET BitmapRb_TETrace == INSTANCE BitmapRb_TETrace
    IN BitmapRb_TETrace!trace
----

_inv ==
    ~(
        TLCGet("level") = Len(_TETrace)
        /\
        ext = (<<<<1, 1>>>>)
        /\
        cur = ([w |-> 1, r |-> 0, n |-> 0])
        /\
        res = ([op |-> "unmark", impl |-> 1, ref |-> 0])
        /\
        S = ({1})
        /\
        end = (4)
        /\
        rend = (5)
    )
----

_init ==
    /\ cur = _TETrace[1].cur
    /\ S = _TETrace[1].S
    /\ ext = _TETrace[1].ext
    /\ res = _TETrace[1].res
    /\ end = _TETrace[1].end
    /\ rend = _TETrace[1].rend
----

_next ==
    /\ \E i,j \in DOMAIN _TETrace:
        /\ \/ /\ j = i + 1
              /\ i = TLCGet("level")
        /\ cur  = _TETrace[i].cur
        /\ cur' = _TETrace[j].cur
        /\ S  = _TETrace[i].S
        /\ S' = _TETrace[j].S
        /\ ext  = _TETrace[i].ext
        /\ ext' = _TETrace[j].ext
        /\ res  = _TETrace[i].res
        /\ res' = _TETrace[j].res
        /\ end  = _TETrace[i].end
        /\ end' = _TETrace[j].end
        /\ rend  = _TETrace[i].rend
        /\ rend' = _TETrace[j].rend

\* Uncomment the ASSUME below to write the states of the error trace
\* to the given file in Json format. Note that you can pass any tuple
\* to `JsonSerialize`. For example, a sub-sequence of _TETrace.
    \* ASSUME
    \*     LET J == INSTANCE Json
    \*         IN J!JsonSerialize("BitmapRb_TTrace_1790558181.json", _TETrace)

=============================================================================

 Note that you can extract this module `BitmapRb_TEExpression`
  to a dedicated file to reuse `expression` (the module in the 
  dedicated `BitmapRb_TEExpression.tla` file takes precedence 
  over the module `BitmapRb_TEExpression` below).

---- MODULE BitmapRb_TEExpression ----
EXTENDS Sequences, TLCExt, BitmapRb, Toolbox, Naturals, TLC

expression == 
    [
        \* To hide variables of the `BitmapRb` spec from the error trace,
        \* remove the variables below.  The trace will be written in the order
        \* of the fields of this record.
        cur |-> cur
        ,S |-> S
        ,ext |-> ext
        ,res |-> res
        ,end |-> end
        ,rend |-> rend
        
        \* Put additional constant-, state-, and action-level expressions here:
        \* ,_stateNumber |-> _TEPosition
        \* ,_curUnchanged |-> cur = cur'
        
        \* Format the `cur` variable as Json value.
        \* ,_curJson |->
        \*     LET J == INSTANCE Json
        \*     IN J!ToJson(cur)
        
        \* Lastly, you may build expressions over arbitrary sets of states by
        \* leveraging the _TETrace operator.  For example, this is how to
        \* count the number of times a spec variable changed up to the current
        \* state in the trace.
        \* ,_curModCount |->
        \*     LET F[s \in DOMAIN _TETrace] ==
        \*         IF s = 1 THEN 0
        \*         ELSE IF _TETrace[s].cur # _TETrace[s-1].cur
        \*             THEN 1 + F[s-1] ELSE F[s-1]
        \*     IN F[_TEPosition - 1]
    ]

=============================================================================



Parsing and semantic processing can take forever if the trace below is long.
 In this case, it is advised to uncomment the module below to deserialize the
 trace from a generated binary file.

\*
\*---- MODULE BitmapRb_TETrace ----
\*EXTENDS IOUtils, BitmapRb, TLC
\*
\*trace == IODeserialize("BitmapRb_TTrace_1790558181.bin", TRUE)
\*
\*=============================================================================
\*

---- MODULE BitmapRb_TETrace ----
EXTENDS BitmapRb, TLC

trace == 
    <<
    ([ext |-> <<>>,cur |-> [w |-> 0, r |-> 0, n |-> 0],res |-> [op |-> "init", impl |-> 0, ref |-> 0],S |-> {},end |-> 4,rend |-> 5]),
    ([ext |-> <<<<1, 1>>>>,cur |-> [w |-> 1, r |-> 0, n |-> 0],res |-> [op |-> "mark", impl |-> 0, ref |-> 0],S |-> {1},end |-> 4,rend |-> 5]),
    ([ext |-> <<<<1, 1>>>>,cur |-> [w |-> 1, r |-> 0, n |-> 0],res |-> [op |-> "unmark", impl |-> 1, ref |-> 0],S |-> {1},end |-> 4,rend |-> 5])
    >>
----


=============================================================================

---- CONFIG BitmapRb_TTrace_1790558181 ----
CONSTANTS
    MaxN = 6
    DevFfzEmpty = TRUE
    DevGetEmpty = TRUE
    DevRemoveRet = TRUE
    DevSetRangeOr = TRUE

INVARIANT
    _inv

CHECK_DEADLOCK
    \* CHECK_DEADLOCK off because of PROPERTY or INVARIANT above.
    FALSE

INIT
    _init

NEXT
    _next

CONSTANT
    _TETrace <- _trace

ALIAS
    _expression
=============================================================================
\* Generated on Mon Sep 28 01:16:22 UTC 2026