--------------------------- MODULE Trace_ToolRun ---------------------------
(* Trace validation for C13.  A trace is the concatenation of runs; every run is

     {"e":"reset","tool":T,"class":"ro"|"rw","state":"<profile>/<variant>","inv":"<invocation id>"}
     the iotrace.so events of the target, in order (harness/iotrace.c):
        open {fd, acc, creat, trunc} | pwrite / write / pwritev {fd, off_hi, off_lo, len} | ftruncate {fd, off_hi, off_lo}
        | fallocate {fd, off_hi, off_lo, len, x = mode} | fsync {fd} | close {fd}
     {"e":"exit","code":c,"sig":s,"digest_equal":0|1}        written by checks/c13.py (sha256 before = after)

   Every line must be the ToolRun step of that system call.  In class "ro" no effective write-class step is enabled,
   so a pwrite / write / ftruncate / fallocate on a writable descriptor of the target, or an open with O_TRUNC /
   O_CREAT, makes the trace REJECTED at that line.  The exit line is rejected when the digest changed although the
   model saw no modification (a write that went around the recorder).  A run killed by a signal (sig # 0: crash,
   or the harness' timeout) takes the environment step Killed -- property C06 judges it, not this one -- but all of
   the above still applies to it.  RoUnmodified and ExitDocumented are evaluated after every line.            *)
EXTENDS ToolRun, Json, IOUtils, Sequences, TLC
VARIABLES l
tvars == <<vars, l>>
Tr == ndJsonDeserialize(IOEnv.TRACE)

IsEvent(e) == l <= Len(Tr) /\ Tr[l].e = e /\ l' = l + 1
Ended == pc \in {"idle", "exited", "killed"}

TReset == /\ IsEvent("reset") /\ Ended
          /\ Tr[l].tool \in ToolNames /\ Tr[l].class \in Classes
          /\ tool' = Tr[l].tool /\ class' = Tr[l].class
          /\ device' = 0 /\ dev0' = 0 /\ open' = {} /\ modified' = FALSE /\ refused' = 0
          /\ pc' = "run" /\ code' = -1 /\ sig' = 0

TOpen == IsEvent("open") /\ Open(Tr[l].fd, Tr[l].acc, Tr[l].trunc = 1 \/ Tr[l].creat = 1)

\* offsets are logged split at 2^31; only their sign matters to the protocol
WrEvent == {"pwrite", "write", "pwritev"}
TWrite  == /\ l <= Len(Tr) /\ Tr[l].e \in WrEvent /\ l' = l + 1
           /\ \/ DevWrite(Tr[l].fd, Tr[l].off_lo, Tr[l].len)
              \/ DevWriteRefused(Tr[l].fd)
TTrunc  == IsEvent("ftruncate") /\ (DevTruncate(Tr[l].fd, Tr[l].off_lo) \/ DevWriteRefused(Tr[l].fd))
TFalloc == IsEvent("fallocate") /\ (DevFallocate(Tr[l].fd, Tr[l].x, Tr[l].off_lo, Tr[l].len) \/ DevWriteRefused(Tr[l].fd))
TFsync  == IsEvent("fsync") /\ DevFsync(Tr[l].fd)
TClose  == IsEvent("close") /\ Close(Tr[l].fd)

\* the digest may only differ if the model saw an effective write-class call
DigestAgrees == Tr[l].digest_equal = 0 => modified
TExit   == IsEvent("exit") /\ Tr[l].sig = 0 /\ ExitAny(Tr[l].code) /\ DigestAgrees
TKilled == IsEvent("exit") /\ Tr[l].sig # 0 /\ KilledAny(Tr[l].sig) /\ DigestAgrees

TraceInit == /\ tool = "e2fsck" /\ class = "ro" /\ device = 0 /\ dev0 = 0 /\ open = {} /\ modified = FALSE
             /\ refused = 0 /\ pc = "idle" /\ code = -1 /\ sig = 0 /\ l = 1
TraceNext == TReset \/ TOpen \/ TWrite \/ TTrunc \/ TFalloc \/ TFsync \/ TClose \/ TExit \/ TKilled
TraceSpec == TraceInit /\ [][TraceNext]_tvars
\* accepted = every line consumed and the last run ended
TraceAccepted == TLCGet("stats").diameter - 1 = Len(Tr)
=============================================================================
