--------------------------- MODULE Trace_ToolRun ---------------------------
(* Trace validation for C13.  A trace is the concatenation of runs; every run is

     {"e":"reset","tool":T,"class":"ro"|"rw","state":"<profile>/<variant>","inv":"<invocation id>"}
     the iotrace.so events of the target set (obj = 0: the device of the command line; obj = 3: the external journal
     device the invocation names or reaches) and of the auxiliary files of the command line (obj = 1: the -z undo file,
     obj = 2: the undo log replayed by e2undo; object classes and protocol in ToolRunZ.tla), in order (harness/iotrace.c),
     each with obj:
        open {fd, acc, creat, trunc} | pwrite / write / pwritev {fd, off_hi, off_lo, len} | ftruncate {fd, off_hi, off_lo}
        | fallocate {fd, off_hi, off_lo, len, x = mode} | fsync {fd} | close {fd}
     {"e":"exit","code":c,"sig":s,"digest_equal":0|1,"jdigest_equal":0|1}   written by checks/c13.py (sha256 before = after,
                                                              of the command-line device and of the external journal device)

   Every line must be the ToolRunZ step of that system call on that object; write-class calls on an auxiliary file are
   steps of every class and never touch the device.  In class "ro" no effective write-class step is enabled,
   so a pwrite / write / ftruncate / fallocate on a writable descriptor of the target, or an open with O_TRUNC /
   O_CREAT, makes the trace REJECTED at that line.  The exit line is rejected when the digest changed although the
   model saw no modification (a write that went around the recorder).  A run killed by a signal (sig # 0: crash,
   or the harness' timeout) takes the environment step Killed -- property C06 judges it, not this one -- but all of
   the above still applies to it.  RoUnmodified and ExitDocumented are evaluated after every line.            *)
EXTENDS ToolRunZ, Json, IOUtils, Sequences, TLC
VARIABLES l
tvars == <<varsZ, l>>
Tr == ndJsonDeserialize(IOEnv.TRACE)

IsEvent(e) == l <= Len(Tr) /\ Tr[l].e = e /\ l' = l + 1
Ended == pc \in {"idle", "exited", "killed"}
\* obj: iotrace.so reports which path of VERIF_IOTRACE_TARGET matched; ToolRunZ!ObjClass says whether that object belongs
\* to the TARGET set or is an auxiliary file of the command line (the -z undo file, the undo log replayed by e2undo)
\* round 3: the target is the SET ToolRunZ!TargetObjs (0: the device of the command line, 3: the external journal device
\* the invocation names with -j / logdump -f or reaches through s_journal_uuid); an object of neither class is no step
OnTarget == Tr[l].obj \in TargetObjs
KnownObj == ObjClass(Tr[l].obj) # "unknown"

TReset == /\ IsEvent("reset") /\ Ended
          /\ Tr[l].tool \in ToolNames /\ Tr[l].class \in Classes
          /\ tool' = Tr[l].tool /\ class' = Tr[l].class
          /\ device' = 0 /\ dev0' = 0 /\ open' = {} /\ modified' = FALSE /\ refused' = 0
          /\ pc' = "run" /\ code' = -1 /\ sig' = 0
          /\ auxopen' = {} /\ auxmod' = FALSE

TOpen == /\ IsEvent("open")
         /\ KnownObj
         /\ IF OnTarget THEN TOpenZ(Tr[l].fd, Tr[l].acc, Tr[l].trunc = 1 \/ Tr[l].creat = 1)
                        ELSE AuxOpen(Tr[l].fd, Tr[l].acc, Tr[l].trunc = 1 \/ Tr[l].creat = 1)

\* offsets are logged split at 2^31; only their sign matters to the protocol
WrEvent == {"pwrite", "write", "pwritev"}
AuxWr   == AuxWrite(Tr[l].fd) \/ AuxRefused(Tr[l].fd)
TWrite  == /\ l <= Len(Tr) /\ Tr[l].e \in WrEvent /\ l' = l + 1
           /\ KnownObj
           /\ IF OnTarget THEN TWriteZ(Tr[l].fd, Tr[l].off_lo, Tr[l].len) \/ TRefusedZ(Tr[l].fd) ELSE AuxWr
TTrunc  == /\ IsEvent("ftruncate")
           /\ KnownObj
           /\ IF OnTarget THEN TTruncZ(Tr[l].fd, Tr[l].off_lo) \/ TRefusedZ(Tr[l].fd) ELSE AuxWr
TFalloc == /\ IsEvent("fallocate")
           /\ KnownObj
           /\ IF OnTarget THEN TFallocZ(Tr[l].fd, Tr[l].x, Tr[l].off_lo, Tr[l].len) \/ TRefusedZ(Tr[l].fd) ELSE AuxWr
TFsync  == IsEvent("fsync") /\ IF OnTarget THEN TFsyncZ(Tr[l].fd) ELSE AuxFsync(Tr[l].fd)
TClose  == IsEvent("close") /\ IF OnTarget THEN TCloseZ(Tr[l].fd) ELSE AuxClose(Tr[l].fd)

\* the digest may only differ if the model saw an effective write-class call ON THE TARGET
\* (digest_equal: sha256 of object 0; jdigest_equal: sha256 of object 3, 1 when the run has no journal device)
DigestAgrees == (Tr[l].digest_equal = 0 \/ Tr[l].jdigest_equal = 0) => modified
TExit   == IsEvent("exit") /\ Tr[l].sig = 0 /\ ExitAnyZ(Tr[l].code) /\ DigestAgrees
TKilled == IsEvent("exit") /\ Tr[l].sig # 0 /\ KilledAnyZ(Tr[l].sig) /\ DigestAgrees

TraceInit == /\ tool = "e2fsck" /\ class = "ro" /\ device = 0 /\ dev0 = 0 /\ open = {} /\ modified = FALSE
             /\ refused = 0 /\ pc = "idle" /\ code = -1 /\ sig = 0 /\ l = 1
             /\ auxopen = {} /\ auxmod = FALSE
TraceNext == TReset \/ TOpen \/ TWrite \/ TTrunc \/ TFalloc \/ TFsync \/ TClose \/ TExit \/ TKilled
TraceSpec == TraceInit /\ [][TraceNext]_tvars
\* accepted = every line consumed and the last run ended
TraceAccepted == TLCGet("stats").diameter - 1 = Len(Tr)
=============================================================================
