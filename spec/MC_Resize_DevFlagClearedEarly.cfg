SPECIFICATION Spec
CONSTANTS
  MaxG = 4
  DevUninitSkipOffByOne = FALSE
  DevBoundaryInodeMoved = FALSE
  DevFlagClearedEarly = TRUE
INVARIANT NoBlockLost
INVARIANT InodesBijective
INVARIANT CrashInvariant
INVARIANT EndsClean
CHECK_DEADLOCK FALSE
