SPECIFICATION Spec
CONSTANTS
  MaxG = 12
  Dpbs = {4, 8}
  ResizeSet = {1, 2, 3, 4, 8, 10}
  Geos <- OneGeo
  GdOnly = FALSE
  MaxSteps = 2
  DevTuneMasterOnly = FALSE
  DevFsckIgnoresFeatDiff = TRUE
  DevFlushSkipsLast = FALSE
  DevResizeKeepsOldGdt = FALSE
  DevResizeMovesSoleBackup = FALSE
  DevSearchGuesses8xBs = FALSE
  DevBackupSearchIgnoresSs2 = FALSE
INVARIANT TypeOK
INVARIANT InvCurrent
INVARIANT InvBackupSet
INVARIANT Ss2Shape
INVARIANT InvRecover
CHECK_DEADLOCK FALSE
