----------------------------- MODULE Trace_Jbd2 -----------------------------
(* Trace validation for C03.  One behaviour per journal:

     {"e":"load", cfg, jsb, nr, fs0, log, hist}          the abstract journal that gen/jbd2write.py encoded into the image;
                                                         cfg.tb = {hi, lo}: the tid base of the concretisation (every seq is an offset)
     {"e":"recover", obs:[fe1, fe2, fe3], jstart:[..], jseq:[{hi, lo}..], nro:[..], stray:[..]}
                                                         target-block versions, journal s_start / s_sequence and needs_recovery read
                                                         back from the image after each front-end
                                                         (e2fsck -y -E journal_only, e2fsck -fy, debugfs -w -R jr); s_sequence as the
                                                         32-bit value found, in 16-bit halves (hi = -1: no journal superblock found)

   TLoad puts the logged journal into the state of Jbd2 (a state of the generator's shape: GroundTruthSound checks
   that `valid` in the history is exactly "all blocks in the log as written" and that every difference is damage
   the format can detect).  TRecover is Jbd2!Recover conjoined with the observation: the blocks every front-end
   left must be what the transcription of recovery.c computes, all three front-ends agree, the journal is empty
   and the flag is clear.  The property itself (ReplayExactOrDev: observed blocks = Final computed by TLC from the
   history, unless a named deviation was taken) is an INVARIANT of the trace cfg.

   Second life of the log (Jbd2Gen), one further behaviour per continued journal:

     {"e":"load", ...}                                    the same first-life journal
     {"e":"replayed", fe, obs, jsb:{start,seq}, seq32:{hi,lo}, nro}
                                                         the image front-end `fe` left: the state is set to the OBSERVED
                                                         post-state (no claim here: the claims about the first replay are made
                                                         by the first behaviour); res = what the spec says about that replay
     {"e":"restart", skew, jsb, nr, fs0, log, hist}      the generator continued on that image from the journal superblock it
                                                         found there: first tid = observed s_sequence + skew, log restarted at
                                                         ring position 1, old blocks left in place, some target blocks rewritten
     {"e":"recover", ...}                                 the second replay, by all three front-ends

   TRestart is Jbd2Gen!Restart followed by the generator's writes, bound to the logged ring: every position that the new
   history did not write must still hold the block of the first life.  Whether the journal may be continued at all
   (RestartableOf: first recovery succeeded without deviation, sequential ring) is decided here, from the spec's own
   result of the first replay, never from what was observed: when it is not, the two lines are skipped (TSkipRestart, TSkipRecover).
   The second recover line is checked like the first: Recover on the ring of both lives must give the observed blocks,
   and ReplayExactOrDev compares them with Final of the SECOND life's history.

   Besides acceptance, TLC writes <TRACE>.out: per load line the property-level Final, the model's result, the
   deviations taken and the stop reason (used for the known-finding routing, stratification counts, evidence). *)
EXTENDS Jbd2Gen, Json, IOUtils
VARIABLES l
tvars == <<gvars, l>>
Tr == ndJsonDeserialize(IOEnv.TRACE)

IsEvent(e) == l <= Len(Tr) /\ Tr[l].e = e /\ l' = l + 1
CfgOf(x) == [L |-> x.cfg.L, csum |-> x.cfg.csum, async |-> x.cfg.async, tb |-> [hi |-> x.cfg.tb.hi, lo |-> x.cfg.tb.lo]]
Halves(x) == [hi |-> x.hi, lo |-> x.lo]

TLoad == /\ IsEvent("load")
         /\ jc' = CfgOf(Tr[l])
         /\ log' = Tr[l].log /\ jsb' = [start |-> Tr[l].jsb.start, seq |-> Tr[l].jsb.seq]
         /\ nr' = Tr[l].nr /\ fs' = Tr[l].fs0 /\ hist' = Tr[l].hist
         /\ phase' = "dmg" /\ res' = NoRes
         /\ head' = 1 /\ nseq' = 0 /\ ver' = 0 /\ ndmg' = 0 /\ gen' = 1 /\ tid0' = 1 /\ nover' = 0
         /\ Len(Tr[l].log) = Tr[l].cfg.L /\ Tr[l].jsb.start \in 0..Tr[l].cfg.L
         /\ Tr[l].cfg.tb.hi \in 0..(H16 - 1) /\ Tr[l].cfg.tb.lo \in 0..(H16 - 1)

TRecover == /\ IsEvent("recover") /\ phase = "dmg"
            /\ Recover /\ UNCHANGED <<gen, tid0, nover>>
            /\ \A i \in 1..Len(Tr[l].obs) :
                 /\ Tr[l].obs[i] = fs'                      \* every front-end = transcription of recovery.c; hence all agree
                 /\ Tr[l].jstart[i] = jsb'.start            \* journal empty:
                 /\ Halves(Tr[l].jseq[i]) = Conc(jc, jsb'.seq) \* s_start = 0 and the sequence number of *_journal_release after a
                                                           \*   recovery with this outcome (= JsbAfter unless a deviation was taken),
                                                           \*   as the 32-bit value on disk: equality modulo 2^32
                 /\ Tr[l].nro[i] = nr'                      \* no longer requests recovery
                 /\ Tr[l].stray[i] = 0                     \* no block outside targets / journal / fs metadata was written

\* ---- second life
JsbOf(x) == [start |-> x.jsb.start, seq |-> x.jsb.seq]
TReplayed == /\ IsEvent("replayed") /\ phase = "dmg" /\ nr = 1
             /\ Halves(Tr[l].seq32) = Conc(jc, Tr[l].jsb.seq)      \* the offset the generator continues from IS the s_sequence found on the image
             /\ fs' = Tr[l].obs /\ jsb' = JsbOf(Tr[l]) /\ nr' = Tr[l].nro
             /\ res' = [err |-> Rec.err, end |-> Rec.end, devs |-> Rec.devs, reason |-> Rec.reason, final |-> Final, jsbafter |-> JsbAfter]
             /\ phase' = "replayed"
             /\ UNCHANGED <<jc, log, head, nseq, hist, ver, ndmg, gen, tid0, nover>>
WrittenBy(h) == UNION {{AdvL(jc.L, h[k].at, i - 1) : i \in 1..h[k].wr} : k \in 1..Len(h)}
TRestart == /\ IsEvent("restart") /\ phase = "replayed"
            /\ RestartableOf(res, log, jsb, nr)
            /\ LET x == Tr[l] IN
                 /\ x.skew \in {0, 1} /\ x.jsb.seq = jsb.seq + x.skew          \* continues from the superblock found on the image
                 /\ x.jsb.start = 1 /\ Len(x.hist) > 0 /\ x.hist[1].at = 1     \* the log restarts at s_first
                 /\ Len(x.log) = jc.L /\ Len(x.fs0) = Len(fs)
                 /\ \A p \in 1..jc.L : p \notin WrittenBy(x.hist) => x.log[p] = log[p]      \* the first life's blocks stay in the ring
                 /\ log' = x.log /\ hist' = x.hist /\ jsb' = JsbOf(x) /\ nr' = x.nr /\ fs' = x.fs0
            /\ gen' = gen + 1 /\ tid0' = Tr[l].jsb.seq /\ nover' = 0 /\ phase' = "dmg" /\ res' = NoRes
            /\ UNCHANGED <<jc, head, nseq, ver, ndmg>>
TSkipRestart == /\ IsEvent("restart") /\ phase = "replayed" /\ ~RestartableOf(res, log, jsb, nr)
                /\ phase' = "skip" /\ UNCHANGED <<jc, log, head, nseq, jsb, nr, fs, hist, ver, ndmg, res, gen, tid0, nover>>
TSkipRecover == /\ IsEvent("recover") /\ phase = "skip"
                /\ phase' = "skipped" /\ UNCHANGED <<jc, log, head, nseq, jsb, nr, fs, hist, ver, ndmg, res, gen, tid0, nover>>

TraceInit == /\ GInit /\ l = 1
TraceNext == TLoad \/ TRecover \/ TReplayed \/ TRestart \/ TSkipRestart \/ TSkipRecover
TraceSpec == TraceInit /\ [][TraceNext]_tvars
TraceAccepted == TLCGet("stats").diameter - 1 = Len(Tr)

\* only meaningful between load and recover
TraceSound == (phase = "dmg") => GroundTruthSound

\* ------------------------------------------------------------------ side output
SetToSeq2(S) == IF S = {} THEN <<>> ELSE
   LET names == <<"AsyncLastBadCommit", "CommitBreakContinues", "ReplayPastBadTag", "ScanAbort", "TidZeroUnset">> IN
   SelectSeq(names, LAMBDA n : n \in S)
OutOf(cf, x) ==
   LET j  == [start |-> x.jsb.start, seq |-> x.jsb.seq]
       r  == RecoverOf(cf, x.log, j, x.fs0)
       f  == FinalOf(x.fs0, x.hist, j, DOMAIN x.fs0)
       a  == JsbAfterOf(x.hist, j)
   IN [final |-> f, model |-> r.fs, err |-> r.err, devs |-> SetToSeq2(r.devs), reason |-> r.reason,
       end |-> r.end, failed |-> r.failed, nvalid |-> Len(ValidPrefix(x.hist)), seqafter |-> a.seq,
       seqmodel |-> IF r.err = "" THEN r.end + 1 ELSE j.seq,
       seqafter32 |-> Conc(cf, a.seq), seqmodel32 |-> Conc(cf, IF r.err = "" THEN r.end + 1 ELSE j.seq),
       ringdead |-> IF \A t \in RingTids(x.log) : t < a.seq THEN 1 ELSE 0]
OutLine(n) ==
   LET x == Tr[n] IN
   IF x.e = "restart" THEN                      \* the load line of the same behaviour is two lines up
        LET ld == Tr[n - 2]  cf == CfgOf(ld)  o1 == OutOf(cf, ld)  o2 == OutOf(cf, x)
        IN [e |-> "restart", restartable |-> IF o1.err = "" /\ o1.devs = <<>> /\ o1.ringdead = 1 THEN 1 ELSE 0,
            final |-> o2.final, model |-> o2.model, err |-> o2.err, devs |-> o2.devs, reason |-> o2.reason, end |-> o2.end,
            nvalid |-> o2.nvalid, seqafter |-> o2.seqafter, seqmodel |-> o2.seqmodel,
            seqafter32 |-> o2.seqafter32, seqmodel32 |-> o2.seqmodel32]
   ELSE IF x.e # "load" THEN [e |-> x.e]
   ELSE [e |-> "load"] @@ OutOf(CfgOf(x), x)
ASSUME ndJsonSerialize(IOEnv.TRACE \o ".out", [n \in 1..Len(Tr) |-> OutLine(n)])
=============================================================================
