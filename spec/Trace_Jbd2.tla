----------------------------- MODULE Trace_Jbd2 -----------------------------
(* Trace validation for C03.  One behaviour per journal:

     {"e":"load", cfg, jsb, nr, fs0, log, hist}          the abstract journal that gen/jbd2write.py encoded into the image
     {"e":"recover", obs:[fe1, fe2, fe3], jstart:[..], nro:[..], stray:[..]}
                                                         target-block versions, journal s_start and needs_recovery read
                                                         back from the image after each front-end
                                                         (e2fsck -y -E journal_only, e2fsck -fy, debugfs -w -R jr)

   TLoad puts the logged journal into the state of Jbd2 (a state of the generator's shape: GroundTruthSound checks
   that `valid` in the history is exactly "all blocks in the log as written" and that every difference is damage
   the format can detect).  TRecover is Jbd2!Recover conjoined with the observation: the blocks every front-end
   left must be what the transcription of recovery.c computes, all three front-ends agree, the journal is empty
   and the flag is clear.  The property itself (ReplayExactOrDev: observed blocks = Final computed by TLC from the
   history, unless a named deviation was taken) is an INVARIANT of the trace cfg.

   Besides acceptance, TLC writes <TRACE>.out: per load line the property-level Final, the model's result, the
   deviations taken and the stop reason (used for the known-finding routing, stratification counts, evidence). *)
EXTENDS Jbd2, Json, IOUtils
VARIABLES l
tvars == <<vars, l>>
Tr == ndJsonDeserialize(IOEnv.TRACE)

IsEvent(e) == l <= Len(Tr) /\ Tr[l].e = e /\ l' = l + 1
CfgOf(x) == [L |-> x.cfg.L, csum |-> x.cfg.csum, async |-> x.cfg.async]

TLoad == /\ IsEvent("load")
         /\ jc' = CfgOf(Tr[l])
         /\ log' = Tr[l].log /\ jsb' = [start |-> Tr[l].jsb.start, seq |-> Tr[l].jsb.seq]
         /\ nr' = Tr[l].nr /\ fs' = Tr[l].fs0 /\ hist' = Tr[l].hist
         /\ phase' = "dmg" /\ res' = NoRes
         /\ head' = 1 /\ nseq' = 0 /\ ver' = 0 /\ ndmg' = 0
         /\ Len(Tr[l].log) = Tr[l].cfg.L /\ Tr[l].jsb.start \in 0..Tr[l].cfg.L

TRecover == /\ IsEvent("recover")
            /\ Recover
            /\ \A i \in 1..Len(Tr[l].obs) :
                 /\ Tr[l].obs[i] = fs'                      \* every front-end = transcription of recovery.c; hence all agree
                 /\ Tr[l].jstart[i] = jsb'.start            \* journal empty
                 /\ Tr[l].nro[i] = nr'                      \* no longer requests recovery
                 /\ Tr[l].stray[i] = 0                     \* no block outside targets / journal / fs metadata was written

TraceInit == /\ Init /\ l = 1
TraceNext == TLoad \/ TRecover
TraceSpec == TraceInit /\ [][TraceNext]_tvars
TraceAccepted == TLCGet("stats").diameter - 1 = Len(Tr)

\* only meaningful between load and recover
TraceSound == (phase = "dmg") => GroundTruthSound

\* ------------------------------------------------------------------ side output
SetToSeq2(S) == IF S = {} THEN <<>> ELSE
   LET names == <<"AsyncLastBadCommit", "CommitBreakContinues", "ReplayPastBadTag", "ScanAbort">> IN
   SelectSeq(names, LAMBDA n : n \in S)
OutLine(x) ==
   IF x.e # "load" THEN [e |-> x.e]
   ELSE LET cf == CfgOf(x)
            j  == [start |-> x.jsb.start, seq |-> x.jsb.seq]
            r  == RecoverOf(cf, x.log, j, x.fs0)
            f  == FinalOf(x.fs0, x.hist, j, DOMAIN x.fs0)
        IN [e |-> "load", final |-> f, model |-> r.fs, err |-> r.err, devs |-> SetToSeq2(r.devs), reason |-> r.reason,
            end |-> r.end, failed |-> r.failed, nvalid |-> Len(ValidPrefix(x.hist))]
ASSUME ndJsonSerialize(IOEnv.TRACE \o ".out", [n \in 1..Len(Tr) |-> OutLine(Tr[n])])
=============================================================================
