---------------------------- MODULE Emit_Resize ----------------------------
(* Writes the boundary catalogue of Resize.tla as JSON (IOEnv.OUT): {"catalogue": [{"mark": m, "f": facts, "t": request}, ...]} -- one
   lightest witness of the model universe per mark -- and checks that the catalogue is the set of names Trace_Resize demands. *)
EXTENDS Resize, Json, IOUtils, SequencesExt
Rows == {[mark |-> m, f |-> Witness(m)[1], t |-> Witness(m)[2]] : m \in Catalogue}
ASSUME Catalogue = CatalogueNames
ASSUME JsonSerialize(IOEnv.OUT, [catalogue |-> SetToSeq(Rows)])
EInit == x = 0 /\ pc = 0 /\ dErr = FALSE /\ dMod = FALSE /\ pend = {} /\ phase = "run"
ENext == UNCHANGED vars
=============================================================================
