SPECIFICATION TraceSpec
CONSTANTS
  ND = 12
  A = 256
  Inf = 2000000001
  DevIndPunchRange = TRUE
  MaxPunches = 1000000
POSTCONDITION TraceAccepted
CHECK_DEADLOCK FALSE
