SPECIFICATION Spec
CONSTANTS
  NB = 9
  L2N = 4
  RPB = 8
  CacheN = 2
  MClasses = {"dirdata", "free"}
  AllModes = {FALSE}
  DevEaInodeDataSkipped = FALSE
  DevLastByteZeroed = FALSE
  DevL1VsVirtualSize = FALSE
INVARIANT TypeOK
INVARIANT DiscoveryOK
INVARIANT RawContract
INVARIANT WriterSane
INVARIANT MapExact
INVARIANT RefcountExact
INVARIANT L2TablesDistinct
INVARIANT ConvertEqualsRaw
CHECK_DEADLOCK FALSE
