\* expected counterexample: DetectableOverlap (debugfs dump_mmp reads a foreign block into the buffer ext2fs_mmp_stop compares with)
\* derived from: the code as it is (read and write are separate steps): MutualExclusion has a counterexample, DetectableOverlap and the rest hold
SPECIFICATION Spec
CONSTANTS
  Nodes = {1, 2}
  Seqs = {1, 2}
  KindSet = {"rw", "rwd", "fsck", "ro", "fsckn", "skip", "peek", "clear"}
  RwPolls = {0, 1}
  FsckPolls = {0, 1}
  MinIval = 1
  Upd = 3
  IvalSet = {1}
  TickSet = {1}
  MaxCrash = 1
  AllowCorrupt = TRUE
  DevNonAtomic = TRUE
  DevSeqCollision = FALSE
  DevSameNodename = FALSE
  DevStopUnconditional = FALSE
  DevNoSecondWait = FALSE
  DevNoFsckMarker = FALSE
  DevDumpClobbers = TRUE
INVARIANT DetectableOverlap
CHECK_DEADLOCK FALSE
