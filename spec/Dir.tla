-------------------------------- MODULE Dir --------------------------------
(* Property C10, namespace level: what mkdir / create / symlink / mknod / ln / unlink / rm / rmdir / kill_file /
   sif links_count do to the directory tree, the inode table and the free-inode set, as debugfs.c, misc/create_inode.c
   and lib/ext2fs/{mkdir,symlink,link,unlink}.c implement them, together with what a reference model demands.

   One state is a record s:
     ent    [directory inode -> [name -> <<inode, file_type>>]]   ("." and ".." are not names; see dd)
     ty     [in-use inode -> 1..7]     (EXT2_FT_* codes: 1 reg, 2 dir, 3 chr, 4 blk, 5 fifo, 6 sock, 7 symlink);  DOMAIN ty = in-use set
     links  [in-use inode -> stored i_links_count]
     dd     [in-use directory -> inode its ".." names]
     ea     [in-use inode -> 0/1]      owns an xattr block
     blk    [in-use inode -> blocks owned], fb = free blocks, leak = blocks in use without an owner
     zomb   free inodes whose inode-table slot looks in use (link count > 0): what a refused mkdir / symlink leaves behind when
            the name is looked up only after the inode was written (a defect), and what kill_file of an inode with a count
            above 0 leaves behind by design (those are tainted as well: NoLeak)
   and two history components that say how far RAW operations (ln, unlink, kill_file, sif) moved the stored count
   away from the directory references:
     skew   [in-use inode -> Int]      expected value of Refs(i) - links[i]
     taint  set of inodes released while names still pointed at them (until the last such name is gone)
     sat    set of directories whose count saturated to 1 under dir_nlink (it then stays 1, as in the kernel)
   The front ends differ (DESIGN section 5 C10): ln / unlink change names only, rm / rmdir / mkdir / write keep counts,
   so "links = refs" is demanded exactly when skew = 0.

   Operations are total operators Apply(s, o, fit) on records (so that a trace step may be a short run of operations);
   fit tells whether a raw ln finds room in the directory (decided by the layout model DirBlock/HTree in Trace_Dir,
   nondeterministic here).  An operation whose precondition fails is refused and leaves s unchanged.             *)
EXTENDS Integers, Sequences, FiniteSets, TLC
CONSTANTS Root,                  \* inode of the root directory
          FirstIno, NInodes,     \* allocatable inodes are FirstIno..NInodes; ext2fs_new_inode takes the lowest free one (one group)
          LinkMax,               \* EXT2_LINK_MAX (65000)
          LinkMod,               \* i_links_count is a __u16: arithmetic modulo 65536
          DirNlink, FileType,    \* features
          DevMkdirNoNlinkRule,   \* literal: ext2fs_mkdir does parent.i_links_count++ with no dir_nlink saturation
          DevKillLeaksEaBlock,   \* literal: debugfs kill_file_by_inode leaves the victim's xattr block allocated
          DevMkdirExistsLeak,    \* literal: ext2fs_mkdir of an existing name writes the new inode before it looks the name up
          DevSymlinkExistsLeak,  \* literal: ext2fs_symlink of an existing name does the same
          DevMkdirNoEmlink       \* literal: without dir_nlink ext2fs_mkdir does not refuse a parent that already has EXT2_LINK_MAX links

FTDIR == 2
Dom(f) == DOMAIN f
Without(f, x) == [y \in (DOMAIN f) \ {x} |-> f[y]]
With(f, x, v) == [y \in (DOMAIN f) \cup {x} |-> IF y = x THEN v ELSE f[y]]
Alloc(s) == DOMAIN s.ty
IsDir(s, i) == i \in Alloc(s) /\ s.ty[i] = FTDIR
Ft(t) == IF FileType THEN t ELSE 0

\* ---- derived: directory references, the count a reference model demands ----
Entries(s) == UNION {{<<d, n>> : n \in DOMAIN s.ent[d]} : d \in DOMAIN s.ent}
Names(s, i) == Cardinality({e \in Entries(s) : s.ent[e[1]][e[2]][1] = i})
SubDirs(s, i) == Cardinality({c \in DOMAIN s.dd : s.dd[c] = i})            \* ".." entries naming i (the root names itself)
Refs(s, i) == Names(s, i) + (IF s.ty[i] = FTDIR THEN 1 + SubDirs(s, i) ELSE 0)
\* ---- the rules of the stored count as functions of numbers (ty = type, l = stored count, r = references, sat = saturated before):
\*      used below on the state record and by the count abstraction Trace_DirNlink.tla on directories with tens of thousands of subdirectories
WantOf(ty, r) == IF ty = FTDIR /\ r > LinkMax THEN 1 ELSE r
\* saturation exists only under dir_nlink: without the feature pass 4 reports PR_4_DIR_NLINK_FEATURE for such a directory, so a stored 1
\* over more than LinkMax references is skew there, not balance (found by the thorough tier: sif links_count 1 + debugfs ln of a directory)
SaturatedOf(ty, l, r, sat) == DirNlink /\ ty = FTDIR /\ l = 1 /\ (sat \/ r > LinkMax)
LinksOK(ty, l, r, sat) == l = WantOf(ty, r) \/ SaturatedOf(ty, l, r, sat)
OverflowAllowed(ty, r) == ty = FTDIR /\ r > LinkMax => DirNlink
\* mkdir in a parent whose stored count is l: without dir_nlink a directory holds at most LinkMax links and the request is refused
\* (EMLINK, nothing changes: ext4_mkdir tests EXT4_DIR_LINK_MAX first); with dir_nlink the count saturates to 1 and stays there
MkdirRefusedLinks(l) == ~DevMkdirNoEmlink /\ ~DirNlink /\ l >= LinkMax
MkdirLinksOf(l) ==
   LET nl == l + 1 IN
   IF DevMkdirNoNlinkRule THEN nl % LinkMod
   ELSE IF DirNlink /\ (nl > LinkMax \/ l = 1) THEN 1 ELSE nl % LinkMod
\* rmdir (debugfs do_rmdir): the parent's count drops unless it reads 0 or 1
RmdirParentLinks(l) == IF l > 1 THEN l - 1 ELSE l
\* the boundary catalogue of the link-count rule: stored counts of the parent around LinkMax (and the overflowed value 1) x operation
NlinkCatalogue == {[dirnlink |-> IF DirNlink THEN 1 ELSE 0, links |-> l, op |-> o,
                    refused |-> IF o = "mkdir" /\ MkdirRefusedLinks(l) THEN 1 ELSE 0,
                    after |-> IF o = "mkdir" THEN (IF MkdirRefusedLinks(l) THEN l ELSE MkdirLinksOf(l)) ELSE RmdirParentLinks(l)]
                   : l \in {LinkMax - 2, LinkMax - 1, LinkMax} \cup (IF DirNlink THEN {1} ELSE {}), o \in {"mkdir", "rmdir"}}

Want(s, i) == WantOf(s.ty[i], Refs(s, i))
\* under dir_nlink a directory count that overflowed reads 1 and stays 1
Saturated(s, i) == SaturatedOf(s.ty[i], s.links[i], Refs(s, i), i \in s.sat)
Dangling(s) == {e \in Entries(s) : s.ent[e[1]][e[2]][1] \notin Alloc(s)}
\* the same counts for every in-use inode at once (one pass over the entries per inode instead of one per use)
NameMap(s) == LET E == Entries(s) IN [i \in Alloc(s) |-> Cardinality({e \in E : s.ent[e[1]][e[2]][1] = i})]
RefMap(s) == LET N == NameMap(s) IN [i \in Alloc(s) |-> N[i] + (IF s.ty[i] = FTDIR THEN 1 + SubDirs(s, i) ELSE 0)]
WantR(s, R, i) == WantOf(s.ty[i], R[i])
SaturatedR(s, R, i) == SaturatedOf(s.ty[i], s.links[i], R[i], i \in s.sat)

MinFree(s) == LET used == Alloc(s) IN
              CHOOSE m \in FirstIno..NInodes : m \notin used /\ \A y \in FirstIno..(m - 1) : y \in used
HasFree(s) == \E m \in FirstIno..NInodes : m \notin Alloc(s)

\* ---- the filesystem is consistent (what e2fsck -fn must agree with) ----
\* shape of the tree: every object but the root is named, a directory exactly once and by the directory its ".." names,
\* and every name carries the type of its inode
Structure(s) ==
   LET N == NameMap(s) IN
   /\ \A i \in Alloc(s) :
        /\ i # Root => N[i] >= 1
        /\ s.ty[i] = FTDIR /\ i # Root =>
              /\ N[i] = 1
              /\ s.dd[i] \in DOMAIN s.ent /\ \E n \in DOMAIN s.ent[s.dd[i]] : s.ent[s.dd[i]][n][1] = i
        /\ OverflowAllowed(s.ty[i], N[i] + 1 + SubDirs(s, i))
   /\ \A e \in Entries(s) : LET t == s.ent[e[1]][e[2]] IN t[1] \in Alloc(s) => t[2] = Ft(s.ty[t[1]])
   /\ s.dd[Root] = Root
Consistent(s) ==
   /\ Dangling(s) = {}
   /\ s.leak = 0 /\ s.zomb = {}
   /\ LET R == RefMap(s) IN \A i \in Alloc(s) : s.links[i] = WantR(s, R, i) \/ SaturatedR(s, R, i)
   /\ Structure(s)

\* ---- releasing an inode (debugfs kill_file_by_inode; fuse2fs-style release in harness/dirdrv.c) ----
\* fe = 1: debugfs front end, fe = 0: library driver
Release(s, i, fe) ==
   LET leaks == DevKillLeaksEaBlock /\ fe = 1 /\ s.ea[i] = 1
       s1 == [s EXCEPT !.ty = Without(@, i), !.links = Without(@, i), !.ea = Without(@, i), !.skew = Without(@, i),
                       !.blk = Without(@, i),
                       !.dd = IF i \in DOMAIN @ THEN Without(@, i) ELSE @,
                       !.ent = IF i \in DOMAIN @ THEN Without(@, i) ELSE @,
                       !.fb = @ + s.blk[i] - (IF leaks THEN 1 ELSE 0),
                       !.leak = @ + (IF leaks THEN 1 ELSE 0)]
   IN s1
\* raw operations: the history says the balance moved by exactly the change of Want
\* (a directory whose count reads 1 while its references exceed the limit IS saturated from then on, however it got there)
Reskew(s1) == LET R == RefMap(s1) IN [s1 EXCEPT !.skew = [j \in Alloc(s1) |-> IF SaturatedR(s1, R, j) THEN 0 ELSE R[j] - s1.links[j]],
                                                !.sat = @ \cup {j \in Alloc(s1) : SaturatedR(s1, R, j)}]
\* counted operations keep skew; a freshly allocated inode inherits the names that dangled at its number
NewSkew(s, i, t) == Cardinality({e \in Entries(s) : s.ent[e[1]][e[2]][1] = i})
                    + (IF t = FTDIR THEN Cardinality({c \in DOMAIN s.dd : s.dd[c] = i}) ELSE 0)
\* a released inode stays tainted until no name points at it any more
Clean(s) == [s EXCEPT !.taint = {i \in @ : i \in s.zomb \/ \E e \in Entries(s) : s.ent[e[1]][e[2]][1] = i}, !.sat = @ \cap Alloc(s)]

AddName(s, d, n, i, t) == [s EXCEPT !.ent[d] = With(@, n, <<i, Ft(t)>>)]
DelName(s, d, n) == [s EXCEPT !.ent[d] = Without(@, n)]
CanName(s, d, n) == IsDir(s, d) /\ d \in DOMAIN s.ent /\ n \notin DOMAIN s.ent[d]
HasName(s, d, n) == IsDir(s, d) /\ d \in DOMAIN s.ent /\ n \in DOMAIN s.ent[d]

\* o.sz = blocks the new object owns, o.exp = 1 when the parent directory had to be expanded by one block
NewInode(s, i, t, l, sz) ==
   [s EXCEPT !.ty = With(@, i, t), !.links = With(@, i, l), !.ea = With(@, i, 0), !.blk = With(@, i, sz),
             !.skew = With(@, i, NewSkew(s, i, t)), !.fb = @ - sz, !.zomb = @ \ {i}]
Expand(s, d, e) == [s EXCEPT !.blk[d] = @ + e, !.fb = @ - e]

MkdirLinks(s, d) == MkdirLinksOf(s.links[d])

\* A request that names an existing entry is refused and NOTHING changes.  Literally (Dev*): the inode had already been
\* written when the name was looked up; the bitmaps are rolled back, the inode-table slot keeps its link count.
\* (The slot is the lowest free inode; allocating that inode later overwrites it: NewInode.)
RefusedExists(s, o, dev) == IF dev /\ HasName(s, o.d, o.n) /\ HasFree(s) THEN [s EXCEPT !.zomb = @ \cup {MinFree(s)}] ELSE s

Mkdir(s, o) ==          \* debugfs mkdir = ext2fs_mkdir (+ expand_dir and retry)
   IF ~(CanName(s, o.d, o.n) /\ HasFree(s)) THEN RefusedExists(s, o, DevMkdirExistsLeak) ELSE
   IF MkdirRefusedLinks(s.links[o.d]) THEN s ELSE          \* EMLINK
   LET i == MinFree(s)
       s1 == NewInode(s, i, FTDIR, 2, o.sz)
       s2 == [s1 EXCEPT !.dd = With(@, i, o.d), !.ent = With(@, i, <<>>)]
       s3 == AddName(s2, o.d, o.n, i, FTDIR)
       nl == MkdirLinks(s, o.d)
   IN Expand([s3 EXCEPT !.links[o.d] = nl,
                        !.sat = IF ~DevMkdirNoNlinkRule /\ DirNlink /\ nl = 1 THEN @ \cup {o.d} ELSE @], o.d, o.exp)

Creat(s, o, t) ==       \* debugfs write / symlink / mknod: new inode with count 1, one name
   IF ~(CanName(s, o.d, o.n) /\ HasFree(s)) THEN RefusedExists(s, o, DevSymlinkExistsLeak /\ t = 7) ELSE
   LET i == MinFree(s) IN Expand(AddName(NewInode(s, i, t, 1, o.sz), o.d, o.n, i, t), o.d, o.exp)

RawLink(s, o, fit) ==   \* debugfs ln: ext2fs_link only, no expansion, no count
   IF ~(CanName(s, o.d, o.n) /\ o.i \in Alloc(s) /\ fit) THEN s
   ELSE Reskew(AddName(s, o.d, o.n, o.i, s.ty[o.i]))

HardLink(s, o) ==       \* create_inode.c add_link: link (+ expand) and i_links_count++  (in-tree callers: non-directories only)
   IF ~(CanName(s, o.d, o.n) /\ o.i \in Alloc(s) /\ s.ty[o.i] # FTDIR) THEN s
   ELSE Expand([AddName(s, o.d, o.n, o.i, s.ty[o.i]) EXCEPT !.links[o.i] = (@ + 1) % LinkMod], o.d, o.exp)

RawUnlink(s, o) ==      \* debugfs unlink
   IF ~HasName(s, o.d, o.n) THEN s ELSE Reskew(DelName(s, o.d, o.n))

Rm(s, o) ==             \* debugfs rm: refuse directories; --count; unlink; release at zero
   IF ~HasName(s, o.d, o.n) THEN s ELSE
   LET i == s.ent[o.d][o.n][1] IN
   IF i \notin Alloc(s) \/ s.ty[i] = FTDIR THEN s ELSE
   LET l1 == (s.links[i] + LinkMod - 1) % LinkMod
       s1 == DelName([s EXCEPT !.links[i] = l1], o.d, o.n)
   IN IF l1 # 0 THEN s1
      ELSE LET s2 == Release(s1, i, o.fe) IN
           [s2 EXCEPT !.taint = IF \E e \in Entries(s2) : s2.ent[e[1]][e[2]][1] = i THEN @ \cup {i} ELSE @]

Rmdir(s, o) ==          \* debugfs rmdir: must be an empty directory; count := 0; unlink; release; parent-- if > 1
   IF ~HasName(s, o.d, o.n) THEN s ELSE
   LET i == s.ent[o.d][o.n][1] IN
   IF i \notin Alloc(s) \/ s.ty[i] # FTDIR \/ i \notin DOMAIN s.ent \/ DOMAIN s.ent[i] # {} THEN s ELSE
   LET p == s.dd[i]
       s1 == Release(DelName(s, o.d, o.n), i, o.fe)
       s2 == IF p \notin Alloc(s1) THEN s1
             ELSE IF RmdirParentLinks(s1.links[p]) # s1.links[p] THEN [s1 EXCEPT !.links[p] = RmdirParentLinks(@)]
             ELSE [s1 EXCEPT !.skew[p] = @ - 1]          \* a parent count of 0 or 1 is left alone: the balance moves
   IN [s2 EXCEPT !.taint = IF \E e \in Entries(s2) : s2.ent[e[1]][e[2]][1] = i THEN @ \cup {i} ELSE @]

KillFile(s, o) ==       \* debugfs kill_file <ino>: release, names untouched
   IF o.i \notin Alloc(s) \/ o.i = Root THEN s
   \* the victim's i_links_count is not touched: with a count above 0 the inode-table slot still looks in use (e2fsck: "in use, but
   \* has dtime set") until the inode number is allocated again -- a zombie the raw operation is entitled to (it stays tainted)
   ELSE LET s1 == Release(s, o.i, o.fe) IN Reskew([s1 EXCEPT !.taint = @ \cup {o.i}, !.zomb = IF s.links[o.i] > 0 THEN @ \cup {o.i} ELSE @])

SetLinks(s, o) ==       \* debugfs sif <ino> links_count v
   IF o.i \notin Alloc(s) THEN s ELSE Reskew([s EXCEPT !.links[o.i] = o.v % LinkMod])

SetEa(s, o) ==          \* an xattr value too large for the inode body: one xattr block
   IF o.i \notin Alloc(s) \/ s.ea[o.i] = 1 THEN s
   ELSE [s EXCEPT !.ea[o.i] = 1, !.blk[o.i] = @ + 1, !.fb = @ - 1]

\* e2fsck -fyD on a consistent filesystem: every directory is rewritten, the namespace does not change
Rehash(s, o) == s

Apply(s, o, fit) == Clean(
   CASE o.op = "mkdir"   -> Mkdir(s, o)
     [] o.op = "create"  -> Creat(s, o, 1)
     [] o.op = "symlink" -> Creat(s, o, 7)
     [] o.op = "mknod"   -> Creat(s, o, o.v)
     [] o.op = "link"    -> RawLink(s, o, fit)
     [] o.op = "hlink"   -> HardLink(s, o)
     [] o.op = "unlink"  -> RawUnlink(s, o)
     [] o.op = "rm"      -> Rm(s, o)
     [] o.op = "rmdir"   -> Rmdir(s, o)
     [] o.op = "kill"    -> KillFile(s, o)
     [] o.op = "setlinks" -> SetLinks(s, o)
     [] o.op = "setea"   -> SetEa(s, o)
     [] o.op = "fsckD"   -> Rehash(s, o)
     [] OTHER            -> s)

\* ------------------------------------------------------------------ invariants (on a state record)
TypeOK(s) ==
   /\ DOMAIN s.links = Alloc(s) /\ DOMAIN s.ea = Alloc(s) /\ DOMAIN s.skew = Alloc(s) /\ DOMAIN s.blk = Alloc(s)
   /\ DOMAIN s.dd = {i \in Alloc(s) : s.ty[i] = FTDIR} /\ DOMAIN s.ent = DOMAIN s.dd
   /\ \A i \in Alloc(s) : s.ty[i] \in 1..7 /\ s.links[i] \in 0..(LinkMod - 1) /\ s.blk[i] >= 0
   /\ Root \in Alloc(s) /\ s.ty[Root] = FTDIR
\* stored count + what raw operations took away = what the reference model demands (mod 2^16)
LinksRule(s) == LET R == RefMap(s) IN
                \A i \in Alloc(s) : \/ (s.links[i] + s.skew[i]) % LinkMod = R[i] % LinkMod
                                     \/ SaturatedR(s, R, i)
\* no inode is both free and referenced, unless the history released it while names pointed at it
NoFreeReferenced(s) == \A e \in Dangling(s) : s.ent[e[1]][e[2]][1] \in s.taint
\* links = refs exactly when the history is balanced; and a balanced history leaves a consistent filesystem
Balanced(s) == (\A i \in Alloc(s) : s.skew[i] = 0) /\ s.taint = {} /\ s.leak = 0 /\ s.zomb = {}
BalancedIsConsistent(s) == Balanced(s) /\ Structure(s) => Consistent(s)
\* removed objects release their blocks; an inode-table slot that looks in use although the inode is free comes from kill_file only
NoLeak(s) == s.leak = 0 /\ s.zomb \subseteq s.taint
SumBlk(s) == LET RECURSIVE Sm(_) Sm(T) == IF T = {} THEN 0 ELSE LET x == CHOOSE y \in T : TRUE IN s.blk[x] + Sm(T \ {x}) IN Sm(Alloc(s))
=============================================================================
