------------------------------- MODULE UndoIo -------------------------------
(* lib/ext2fs/undo_io.c + misc/e2undo.c (property C12).

   Unit: one granule = 1024 bytes (E2UNDO_MIN_BLOCK_SIZE).  Channel block size, undo block size
   (tdb_data_size), filesystem offset, byte counts and byte offsets are all in granules.

   dev, len   logical content of the backing channel (what a read through it returns) and its length;
              content: 0 = zero / hole, g + 1 = original content of granule g, 1000 k + g = written by operation k at g
   ch         struct undo_private_data + channel->block_size
   uf         the undo file: header, superblock copy, and the blocks from block 2 on (fb[i] = file block i + 1);
              a block is a key block (sequence of keys), a data block, or a hole
   pend       the write call in flight: undo_write_tdb saves one undo block per step (SaveStep), then the call
              reaches the backing channel (Apply) -- so the write-ahead invariant U1 is evaluated in between
   dmg        file blocks of the undo file hit by damage (0 = header, 1 = superblock copy)

   Dev* constants switch on the literal behaviour of the pinned tree where it breaks the property:
     DevByteOffTwice  undo_write_byte adds the filesystem offset before calling undo_write_tdb, which adds it again
     DevAbsTiling     undo_write_tdb numbers undo blocks by absolute device offset but reads the old content of block
                      n at n * tdb + offset % tdb (and try_reopen_undo_file rebuilds the map without the offset)
     DevChanUnits     key.fsblk is in units of the channel block size of that moment, the header announces the block
                      size of the last index write; an undo block that is not a multiple of the channel block size
                      is read from the channel block boundary below it
     DevReopenFull    try_reopen_undo_file leaves a full key block current (the writer had already moved on)
     DevExtendShort   a key that ends with a short block (short read at the end of the device) is extended by the next
                      contiguous block, although every block starts on an undo block boundary in the file and e2undo reads
                      the data of a key as one contiguous run
   The registered configuration has all of them FALSE (behaviour after the fix patches).                            *)
EXTENDS Integers, Sequences, FiniteSets, TLC
CONSTANTS N,               \* original device length
          MaxLen,          \* bound on the device length (writes past the old end)
          TdbSizes, BlkSizes, Offsets,
          KpbPerG,         \* keys per key block = tdb * KpbPerG - 1          (code: 64)
          MaxExt,          \* E2UNDO_MAX_EXTENT_BLOCKS                         (code: 512)
          MaxOps, MaxRuns, MaxSpan,
          DevByteOffTwice, DevAbsTiling, DevChanUnits, DevReopenFull, DevExtendShort
VARIABLES dev, len, ch, uf, pend, nops, nruns, res, dmg
vars == <<dev, len, ch, uf, pend, nops, nruns, res, dmg>>

Zero == 0
Orig(g) == g + 1
Tag(k, g) == 1000 * k + g          \* content written by operation k at device granule g
Garbage == -1
Foreign == -2
Dev0 == [g \in 0..(MaxLen - 1) |-> IF g < N THEN Orig(g) ELSE Zero]
Kpb(t) == t * KpbPerG - 1
CeilDiv(a, b) == (a + b - 1) \div b
Min2(a, b) == IF a < b THEN a ELSE b
Max2(a, b) == IF a > b THEN a ELSE b

KBlock(ks) == [t |-> "k", keys |-> ks, d |-> <<>>]
DBlock(x)  == [t |-> "d", keys |-> <<>>, d |-> x]
Hole       == [t |-> "h", keys |-> <<>>, d |-> <<>>]
FB(fb, n)  == IF n >= 2 /\ n - 1 <= Len(fb) THEN fb[n - 1] ELSE Hole
PutBlk(fb, n, b) == IF n - 1 <= Len(fb) THEN [fb EXCEPT ![n - 1] = b]
                    ELSE fb \o [i \in 1..(n - 2 - Len(fb)) |-> Hole] \o <<b>>

NoCh == [open |-> FALSE, bs |-> 1, tdb |-> 0, tdbw |-> 0, off |-> 0, written |-> {}, ublk |-> 3, kblk |-> 2,
         kib |-> 0, nkeys |-> 0, keyb |-> <<>>, unit |-> 0, hstate |-> 0]
NoHdr == [nkeys |-> 0, tdb |-> 0, fsbs |-> 0, state |-> 0, off |-> 0]
NoUf == [exists |-> FALSE, hdr |-> NoHdr, sb |-> Zero, fb |-> <<>>]
NoPend == [kind |-> "none", blk |-> 0, cnt |-> 0, next |-> 0, last |-> -1, lo |-> 0, hi |-> 0, val |-> 0, grow |-> FALSE, err |-> FALSE]
NoRes == [kind |-> "none", writes |-> 0, needcheck |-> FALSE]

DevAt(d, ln, g) == IF g >= 0 /\ g < ln THEN d[g] ELSE Zero

\* ------------------------------------------------------------------ write_undo_indexes()
\* key block (rolling over to a fresh one when full), then header and superblock copy
WriteIndexes(c, u, d, ln) ==
   LET kpb == Kpb(c.tdb)
       fb1 == IF c.kib > 0 THEN PutBlk(u.fb, c.kblk, KBlock(SubSeq(c.keyb, 1, Min2(c.kib, kpb)))) ELSE u.fb
       roll == c.kib > 0 /\ c.kib = kpb
       c1  == IF roll THEN [c EXCEPT !.keyb = <<>>, !.kib = 0, !.kblk = c.ublk, !.ublk = c.ublk + 1] ELSE c
       c2  == IF c1.unit = 0 THEN [c1 EXCEPT !.unit = c1.bs] ELSE c1
       hdr == [nkeys |-> c2.nkeys, tdb |-> IF c2.tdbw = 1 THEN c2.tdb ELSE 0,
               fsbs |-> IF DevChanUnits THEN c2.bs ELSE c2.unit, state |-> c2.hstate, off |-> c2.off]
   IN [c |-> c2, u |-> [exists |-> TRUE, hdr |-> hdr, sb |-> DevAt(d, ln, c2.off + 1), fb |-> fb1]]

\* ------------------------------------------------------------------ undo_setup_tdb()
Setup(c) == IF c.tdbw = 1 THEN c
            ELSE [c EXCEPT !.tdbw = 1, !.kblk = 2, !.unit = IF c.unit = 0 THEN c.tdb ELSE c.unit]

\* ------------------------------------------------------------------ one iteration of the loop in undo_write_tdb()
SaveOne(c, u, d, ln, tb) ==
   IF tb \in c.written THEN [c |-> c, u |-> u, st |-> "skip"]
   ELSE
   LET c0  == [c EXCEPT !.written = c.written \cup {tb}]
       tdb == c.tdb
       bs  == c.bs
       P   == IF DevAbsTiling THEN tb * tdb + (c.off % tdb) - c.off ELSE tb * tdb       \* fs-relative start
       backing == P \div bs
       Pr  == IF tdb % bs = 0 THEN backing * bs
              ELSE IF DevChanUnits THEN backing * bs ELSE tb * tdb                      \* where the read happens
       n   == Max2(0, Min2(tdb, ln - (Pr + c.off)))
       data == [i \in 1..n |-> d[Pr + c.off + i - 1]]
       U   == IF DevChanUnits THEN bs ELSE c.unit
       target == IF DevChanUnits THEN backing ELSE P \div U
       lastk == IF c.kib > 0 THEN c.keyb[c.kib] ELSE [fsblk |-> 0, size |-> 0, crc |-> <<>>, gpos |-> 0]
       extend == /\ c.kib > 0
                 /\ (DevExtendShort \/ lastk.size % tdb = 0)
                 /\ (lastk.fsblk * U + U - 1 + lastk.size) \div U = target
                 /\ MaxExt * tdb > lastk.size + n
       keyb1 == IF extend THEN [c.keyb EXCEPT ![c.kib] = [lastk EXCEPT !.size = lastk.size + n, !.crc = lastk.crc \o data]]
                ELSE SubSeq(c.keyb, 1, c.kib) \o <<[fsblk |-> target, size |-> n, crc |-> data, gpos |-> Pr]>>
       c1  == [c0 EXCEPT !.keyb = keyb1, !.kib = IF extend THEN c.kib ELSE c.kib + 1,
                         !.nkeys = IF extend THEN c.nkeys ELSE c.nkeys + 1, !.ublk = c.ublk + 1]
       u1  == [u EXCEPT !.fb = PutBlk(u.fb, c.ublk, DBlock(data))]
   IN IF n = 0 THEN [c |-> c0, u |-> u, st |-> "empty"]       \* nothing there to save: "continue" before the index write
      ELSE LET w == WriteIndexes(c1, u1, d, ln) IN [c |-> w.c, u |-> w.u, st |-> "saved"]

\* size / first / last undo block of undo_write_tdb(channel, blk, cnt)
OpSize(c, cnt) == IF cnt = 1 THEN c.bs ELSE IF cnt < 0 THEN -cnt ELSE cnt * c.bs
OpFirst(c, blk) == (IF DevAbsTiling THEN blk * c.bs + c.off ELSE blk * c.bs) \div c.tdb
OpLast(c, blk, cnt) == ((IF DevAbsTiling THEN blk * c.bs + c.off ELSE blk * c.bs) + OpSize(c, cnt) - 1) \div c.tdb

\* retval of undo_write_tdb: the EXT2_ET_SHORT_READ of a block that starts at or beyond the end of the device is
\* still in retval when the loop ends, unless a later block was saved: such a call fails and never reaches the
\* backing channel (the blocks stay marked, so that repeating the call succeeds)
ErrAfter(err, st) == IF st = "skip" THEN err ELSE st = "empty"
RECURSIVE SaveAll(_, _, _, _, _, _, _)
SaveAll(c, u, d, ln, tb, last, err) ==
   IF tb > last THEN [c |-> c, u |-> u, err |-> err]
   ELSE LET r == SaveOne(c, u, d, ln, tb) IN SaveAll(r.c, r.u, d, ln, tb + 1, last, ErrAfter(err, r.st))

\* the arguments undo_write_byte passes to undo_write_tdb
ByteBlk(c, o)    == IF DevByteOffTwice THEN (o + c.off) \div c.bs ELSE o \div c.bs
ByteCnt(c, o, m) == IF DevByteOffTwice THEN CeilDiv(m + ((o + c.off) % c.bs), c.bs) ELSE CeilDiv(m + (o % c.bs), c.bs)

\* a call: kind, a, n  ->  (blk, cnt) given to undo_write_tdb and the effect on the backing channel
\*   wblk  write_blk64(a, n)     wneg  write_blk64(a, -n)     wbyte  write_byte(a, n)
\*   zero  zeroout(a, n)         disc  discard(a, n)
CallBlk(c, kind, a, n) == IF kind = "wbyte" THEN ByteBlk(c, a) ELSE a
CallCnt(c, kind, a, n) == IF kind = "wbyte" THEN ByteCnt(c, a, n) ELSE IF kind = "wneg" THEN -n ELSE n
CallLo(c, kind, a, n)  == (IF kind = "wbyte" THEN a ELSE a * c.bs) + c.off
CallHi(c, kind, a, n)  == CallLo(c, kind, a, n) + (IF kind \in {"wbyte", "wneg"} THEN n ELSE n * c.bs)
CallVal(kind, k)       == IF kind \in {"zero", "disc"} THEN 0 ELSE k          \* 0: zeroes, k: Tag(k, g)

ApplyDev(d, ln, lo, hi, val, grow) ==
   [g \in 0..(MaxLen - 1) |-> IF g >= lo /\ g < hi /\ (grow \/ g < ln) THEN (IF val = 0 THEN Zero ELSE Tag(val, g)) ELSE d[g]]
ApplyLen(ln, hi, grow) == IF grow THEN Max2(ln, hi) ELSE ln

\* ------------------------------------------------------------------ reading the undo file (e2undo.c main(), and
\* the same walk in try_reopen_undo_file)
ReadData(u, dm, fileblk, size) ==
   [x \in 1..size |->
      LET bn == fileblk + (x - 1) \div u.hdr.tdb
          o  == (x - 1) % u.hdr.tdb
          b  == FB(u.fb, bn)
      IN IF bn \in dm THEN Garbage
         ELSE IF b.t = "d" THEN (IF o + 1 <= Len(b.d) THEN b.d[o + 1] ELSE Zero)
         ELSE IF b.t = "h" THEN Zero ELSE Garbage]

RECURSIVE KeysOfBlock(_, _, _, _, _, _, _)
\* keys j..m of key block kb, the first one's data starting at file block pos
KeysOfBlock(u, dm, kb, j, m, pos, acc) ==
   IF j > m THEN [ok |-> TRUE, keys |-> acc, pos |-> pos]
   ELSE LET k == kb.keys[j]
            dat == ReadData(u, dm, pos, k.size)
        IN IF k.size > MaxExt * u.hdr.tdb \/ dat # k.crc THEN [ok |-> FALSE, keys |-> acc, pos |-> pos]
           ELSE KeysOfBlock(u, dm, kb, j + 1, m, pos + CeilDiv(k.size, u.hdr.tdb),
                            Append(acc, [fsblk |-> k.fsblk, size |-> k.size, data |-> dat, fileblk |-> pos, gpos |-> k.gpos]))

RECURSIVE ReadKeysFrom(_, _, _, _, _)
ReadKeysFrom(u, dm, i, lblk, acc) ==
   IF i >= u.hdr.nkeys THEN [ok |-> TRUE, keys |-> acc]
   ELSE LET kb == FB(u.fb, lblk)
            m  == Min2(Kpb(u.hdr.tdb), u.hdr.nkeys - i)
        IN IF kb.t # "k" \/ lblk \in dm \/ Len(kb.keys) < m THEN [ok |-> FALSE, keys |-> acc]
           ELSE LET r == KeysOfBlock(u, dm, kb, 1, m, lblk + 1, acc)
                IN IF ~r.ok THEN [ok |-> FALSE, keys |-> r.keys]
                   ELSE ReadKeysFrom(u, dm, i + Kpb(u.hdr.tdb), r.pos, r.keys)

HdrOk(u, dm) == u.exists /\ 0 \notin dm /\ u.hdr.tdb >= 1 /\ u.hdr.fsbs >= 1
ReadKeys(u, dm) == IF HdrOk(u, dm) THEN ReadKeysFrom(u, dm, 0, 2, <<>>) ELSE [ok |-> FALSE, keys |-> <<>>]

\* ------------------------------------------------------------------ try_reopen_undo_file()
\* (the superblock comparison happens before the offset option reaches the channel: it reads byte 1024 of the device)
RECURSIVE ReopenWalk(_, _, _, _)
\* returns the channel fields rebuilt from the keys: written, ublk, kblk, kib, keyb
ReopenWalk(u, i, lblk, acc) ==
   IF i >= u.hdr.nkeys THEN acc
   ELSE LET kb == FB(u.fb, lblk)
            m  == Min2(Kpb(u.hdr.tdb), u.hdr.nkeys - i)
            sizes == [j \in 1..m |-> CeilDiv(kb.keys[j].size, u.hdr.tdb)]
            tot == LET RECURSIVE S(_) S(j) == IF j = 0 THEN 0 ELSE S(j - 1) + sizes[j] IN S(m)
            marks == UNION {LET ub == (kb.keys[j].fsblk * u.hdr.fsbs) \div u.hdr.tdb IN ub..(ub + sizes[j] - 1) : j \in 1..m}
        IN ReopenWalk(u, i + Kpb(u.hdr.tdb), lblk + 1 + tot,
                      [written |-> acc.written \cup marks, ublk |-> lblk + 1 + tot, kblk |-> lblk, kib |-> m,
                       keyb |-> kb.keys])

RECURSIVE KeyBlocksOk(_, _, _, _)
\* the key blocks are checked (magic, crc) while they are walked; the data blocks are not read here
KeyBlocksOk(u, dm, i, lblk) ==
   IF i >= u.hdr.nkeys THEN TRUE
   ELSE LET kb == FB(u.fb, lblk)
            m  == Min2(Kpb(u.hdr.tdb), u.hdr.nkeys - i)
        IN /\ kb.t = "k" /\ lblk \notin dm /\ Len(kb.keys) >= m
           /\ LET RECURSIVE S(_) S(j) == IF j = 0 THEN 0 ELSE S(j - 1) + CeilDiv(kb.keys[j].size, u.hdr.tdb)
              IN KeyBlocksOk(u, dm, i + Kpb(u.hdr.tdb), lblk + 1 + S(m))

ReopenOk(u, dm, d, ln) == /\ HdrOk(u, dm)
                          /\ ln >= 2 /\ 1 \notin dm /\ u.sb = d[1]
                          /\ (DevChanUnits \/ u.hdr.tdb % u.hdr.fsbs = 0)
                          /\ KeyBlocksOk(u, dm, 0, 2)
Reopened(u) ==
   LET w == ReopenWalk(u, 0, 2, [written |-> {}, ublk |-> 3, kblk |-> 2, kib |-> 0, keyb |-> <<>>])
       full == w.kib > 0 /\ w.kib = Kpb(u.hdr.tdb) /\ ~DevReopenFull
   IN [NoCh EXCEPT !.open = TRUE, !.tdb = u.hdr.tdb, !.tdbw = 1, !.unit = u.hdr.fsbs, !.nkeys = u.hdr.nkeys,
                   !.written = w.written, !.hstate = 0,
                   !.ublk = IF full THEN w.ublk + 1 ELSE w.ublk,
                   !.kblk = IF full THEN w.ublk ELSE w.kblk,
                   !.kib = IF full THEN 0 ELSE w.kib,
                   !.keyb = IF full THEN <<>> ELSE w.keyb]

\* ------------------------------------------------------------------ e2undo
\* The keys are replayed sorted by fsblk; qsort gives no promise for equal keys, so both the stable order and its
\* reverse are considered (rev).  What a granule holds afterwards is the data of the last key written over it.
KeyBefore(ks, a, b, rev) == \/ ks[a].fsblk < ks[b].fsblk
                            \/ ks[a].fsblk = ks[b].fsblk /\ (IF rev THEN a > b ELSE a < b)
\* <<key, granule of the key>> pairs of the undo file that announce device granule g
Covers(u, ks, g) == {p \in UNION {{<<i, x>> : x \in 1..ks[i].size} : i \in 1..Len(ks)} :
                        ks[p[1]].fsblk * u.hdr.fsbs + u.hdr.off + p[2] - 1 = g}
Replayed(u, ks, d, rev) ==
   [g \in 0..(MaxLen - 1) |->
      LET cv == Covers(u, ks, g)
      IN IF cv = {} THEN d[g]
         ELSE LET p == CHOOSE p \in cv : \A q \in cv : q = p \/ KeyBefore(ks, q[1], p[1], rev) IN ks[p[1]].data[p[2]]]
ReplayedLen(u, ks, ln) ==
   LET his == {Min2(ks[i].fsblk * u.hdr.fsbs + u.hdr.off + ks[i].size, MaxLen) : i \in 1..Len(ks)} \cup {ln}
   IN CHOOSE m \in his : \A h \in his : h <= m

\* validation precedes the first write (unless forced)
Undo(u, dm, d, ln, rev) ==
   LET rk == ReadKeys(u, dm)
       valid == HdrOk(u, dm) /\ 1 \notin dm /\ u.sb = DevAt(d, ln, u.hdr.off + 1) /\ rk.ok
   IN IF ~valid THEN [refused |-> TRUE, dev |-> d, len |-> ln, writes |-> 0, needcheck |-> FALSE]
      ELSE [refused |-> FALSE, dev |-> Replayed(u, rk.keys, d, rev), len |-> ReplayedLen(u, rk.keys, ln),
            writes |-> Len(rk.keys), needcheck |-> u.hdr.state # 1]

\* ------------------------------------------------------------------ actions
Init == /\ dev = Dev0 /\ len = N /\ ch = NoCh /\ uf = NoUf /\ pend = NoPend /\ nops = 0 /\ nruns = 0
        /\ res = NoRes /\ dmg = {}

\* undo_open (+ reopen), then the options the tools set: tdb_data_size (0 = not given) and offset
OpenCh(off, topt) ==
   /\ ~ch.open /\ nruns < MaxRuns /\ res.kind = "none" /\ dmg = {}
   /\ off + 2 <= N                                          \* the device holds a superblock at the offset
   /\ (uf.exists => off = uf.hdr.off /\ dev[off + 1] # Foreign)   \* the runs of a chain address the same filesystem
   /\ LET c0 == IF uf.exists THEN Reopened(uf) ELSE [NoCh EXCEPT !.open = TRUE]
          c1 == IF topt # 0 /\ (c0.tdb = 0 \/ c0.tdbw = 0) THEN [c0 EXCEPT !.tdbw = -1, !.tdb = topt] ELSE c0
      IN /\ (uf.exists => ReopenOk(uf, dmg, dev, len))
         /\ ch' = [c1 EXCEPT !.off = off]
   /\ nruns' = nruns + 1
   /\ UNCHANGED <<dev, len, uf, pend, nops, res, dmg>>

SetBlk(b) == /\ ch.open /\ pend = NoPend
             /\ ch' = [ch EXCEPT !.bs = b, !.tdb = IF ch.tdb = 0 \/ ch.tdbw = 0 THEN b ELSE ch.tdb]
             /\ UNCHANGED <<dev, len, uf, pend, nops, nruns, res, dmg>>

CallOk(kind, a, n) == /\ ch.open /\ pend = NoPend /\ ch.tdb >= 1
                      /\ CallHi(ch, kind, a, n) <= MaxLen
                      /\ (kind = "disc" => CallHi(ch, kind, a, n) <= len)

Begin(kind, a, n) ==
   /\ CallOk(kind, a, n) /\ nops < MaxOps
   /\ LET c == Setup(ch)
          blk == CallBlk(c, kind, a, n)
          cnt == CallCnt(c, kind, a, n)
      IN /\ ch' = c
         /\ pend' = [kind |-> kind, blk |-> blk, cnt |-> cnt, next |-> OpFirst(c, blk), last |-> OpLast(c, blk, cnt),
                     lo |-> CallLo(c, kind, a, n), hi |-> CallHi(c, kind, a, n), val |-> CallVal(kind, nops + 1),
                     grow |-> kind # "disc", err |-> FALSE]
   /\ nops' = nops + 1
   /\ UNCHANGED <<dev, len, uf, nruns, res, dmg>>

SaveStep == /\ pend.kind # "none" /\ pend.next <= pend.last
            /\ LET r == SaveOne(ch, uf, dev, len, pend.next)
               IN ch' = r.c /\ uf' = r.u /\ pend' = [pend EXCEPT !.next = pend.next + 1, !.err = ErrAfter(pend.err, r.st)]
            /\ UNCHANGED <<dev, len, nops, nruns, res, dmg>>

Apply == /\ pend.kind # "none" /\ pend.next > pend.last
         /\ dev' = IF pend.err THEN dev ELSE ApplyDev(dev, len, pend.lo, pend.hi, pend.val, pend.grow)
         /\ len' = IF pend.err THEN len ELSE ApplyLen(len, pend.hi, pend.grow)
         /\ pend' = NoPend
         /\ UNCHANGED <<ch, uf, nops, nruns, res, dmg>>

\* a whole call in one step (what one line of an API-level trace is); applied = the call returned 0
Call(kind, a, n, applied) ==
   /\ CallOk(kind, a, n)
   /\ LET c == Setup(ch)
          blk == CallBlk(c, kind, a, n)
          cnt == CallCnt(c, kind, a, n)
          r == SaveAll(c, uf, dev, len, OpFirst(c, blk), OpLast(c, blk, cnt), FALSE)
      IN /\ ch' = r.c /\ uf' = r.u
         /\ (r.err => ~applied)
         /\ (~r.err /\ kind \notin {"zero", "disc"} => applied)    \* zeroout / discard may be unimplemented by the host
         /\ dev' = IF applied THEN ApplyDev(dev, len, CallLo(c, kind, a, n), CallHi(c, kind, a, n), CallVal(kind, nops + 1), kind # "disc")
                   ELSE dev
         /\ len' = IF applied THEN ApplyLen(len, CallHi(c, kind, a, n), kind # "disc") ELSE len
   /\ nops' = nops + 1 /\ pend' = NoPend
   /\ UNCHANGED <<nruns, res, dmg>>

\* undo_close (fin) / undo_atexit or UNDO_IO_SIMULATE_UNFINISHED (~fin)
CloseCh(fin) ==
   /\ ch.open /\ pend = NoPend
   /\ LET c == [ch EXCEPT !.hstate = IF fin THEN 1 ELSE ch.hstate]
          r == WriteIndexes(c, uf, dev, len)
      IN uf' = r.u
   /\ ch' = NoCh
   /\ UNCHANGED <<dev, len, pend, nops, nruns, res, dmg>>

Damage(b) == /\ ~ch.open /\ uf.exists /\ dmg = {} /\ res.kind = "none"
             /\ b \in 0..(Len(uf.fb) + 1)
             /\ dmg' = {b}
             /\ UNCHANGED <<dev, len, ch, uf, pend, nops, nruns, res>>

\* the damage is taken back (used by damage sweeps over one undo file; only after a refusal, nothing has changed then)
Repair == /\ dmg # {} /\ res.kind \in {"refused", "dry"}
          /\ dmg' = {} /\ res' = NoRes
          /\ UNCHANGED <<dev, len, ch, uf, pend, nops, nruns>>

\* somebody else changes the superblock between the recorded run and e2undo
Tamper == /\ ~ch.open /\ uf.exists /\ dmg = {} /\ res.kind = "none" /\ dev[uf.hdr.off + 1] # Foreign
          /\ dev' = [dev EXCEPT ![uf.hdr.off + 1] = Foreign]
          /\ UNCHANGED <<len, ch, uf, pend, nops, nruns, res, dmg>>

E2undo(dry, rev) ==
   /\ ~ch.open /\ uf.exists /\ res.kind \in {"none", "refused", "dry"}     \* runs that did not write can be repeated
   /\ LET r == Undo(uf, dmg, dev, len, rev)
      IN /\ dev' = IF dry THEN dev ELSE r.dev
         /\ len' = IF dry THEN len ELSE r.len
         /\ res' = [kind |-> IF r.refused THEN "refused" ELSE IF dry THEN "dry" ELSE "done",
                    writes |-> IF dry THEN 0 ELSE r.writes, needcheck |-> r.needcheck]
   /\ UNCHANGED <<ch, uf, pend, nops, nruns, dmg>>

Kinds == {"wblk", "wneg", "wbyte", "zero", "disc"}
Next == \/ \E off \in Offsets, t \in TdbSizes \cup {0} : OpenCh(off, t)
        \/ \E b \in BlkSizes : SetBlk(b)
        \/ \E kind \in Kinds, a \in 0..(MaxLen - 1), n \in 1..MaxSpan : Begin(kind, a, n)
        \/ SaveStep \/ Apply
        \/ \E fin \in BOOLEAN : CloseCh(fin)
        \/ \E b \in 0..(MaxLen + 8) : Damage(b)
        \/ Tamper \/ Repair
        \/ \E dry \in BOOLEAN : E2undo(dry, FALSE)          \* (U2 covers both replay orders of equal keys)
Spec == Init /\ [][Next]_vars

\* ------------------------------------------------------------------ invariants
\* (U1) write-ahead: a granule of the original device that no longer has its original content is in the undo file,
\*      exactly once, with its original content -- at every moment, also between the steps of one call
U1 == res.kind = "none" /\ dmg = {} =>
        LET changed == {g \in 0..(N - 1) : dev[g] # Dev0[g] /\ dev[g] # Foreign}
            rk == ReadKeys(uf, {})
        IN changed # {} =>
             /\ uf.exists /\ rk.ok
             /\ \A g \in changed :
                  LET cv == Covers(uf, rk.keys, g)
                  IN Cardinality(cv) = 1 /\ \A p \in cv : rk.keys[p[1]].data[p[2]] = Dev0[g]

\* (U2) after the channel is closed, e2undo brings back the original device over its original length -- whatever
\*      order equal keys are replayed in -- and refuses only when nothing was recorded; an unfinished file restores too
\*      and is reported
Closed == ~ch.open /\ uf.exists /\ res.kind = "none" /\ dmg = {} /\ dev[uf.hdr.off + 1] # Foreign
U2 == Closed =>
        LET r == Undo(uf, {}, dev, len, FALSE)
            r2 == Undo(uf, {}, dev, len, TRUE)
        IN /\ \A g \in 0..(N - 1) : r.dev[g] = Dev0[g] /\ r2.dev[g] = Dev0[g]
           /\ (r.refused => uf.hdr.tdb = 0)
           /\ (~r.refused => (r.needcheck <=> uf.hdr.state # 1))

\* (U3) every key is expressed in the unit the header announces: the announced position is where the data was read
U3 == uf.exists /\ dmg = {} =>
        LET rk == ReadKeys(uf, {}) IN rk.ok => \A i \in 1..Len(rk.keys) : rk.keys[i].fsblk * uf.hdr.fsbs = rk.keys[i].gpos

\* (R) a damaged undo file or a foreign superblock is refused without a write; a dry run never writes
R1 == res.kind # "none" /\ (dmg # {} \/ dev[uf.hdr.off + 1] = Foreign) => res.kind = "refused" /\ res.writes = 0
R2 == res.kind \in {"dry", "refused"} => res.writes = 0

\* the reader and the writer agree on the layout: an undamaged file is always readable
Layout == uf.exists /\ uf.hdr.tdb >= 1 /\ uf.hdr.fsbs >= 1 => ReadKeys(uf, {}).ok


\* ------------------------------------------------------------------ the append position
RECURSIVE KeyBlockPos(_, _, _, _)
\* positions of the key blocks as the reader of the format walks them
KeyBlockPos(u, i, lblk, acc) ==
   IF i >= u.hdr.nkeys THEN acc
   ELSE LET kb == FB(u.fb, lblk)
            m  == Min2(Kpb(u.hdr.tdb), u.hdr.nkeys - i)
        IN IF kb.t # "k" \/ Len(kb.keys) < m THEN acc \o <<lblk>>
           ELSE LET RECURSIVE S(_) S(j) == IF j = 0 THEN 0 ELSE S(j - 1) + CeilDiv(kb.keys[j].size, u.hdr.tdb)
                IN KeyBlockPos(u, i + Kpb(u.hdr.tdb), lblk + 1 + S(m), acc \o <<lblk>>)

\* the position at which the writer appends is the end of the file as its reader walks it (a reopened channel too):
\* data block and key block of the next save lie behind every block the file holds, and never on top of each other
AppendPos == ch.open /\ ch.tdbw = 1 /\ uf.exists /\ uf.hdr.tdb >= 1 /\ uf.hdr.fsbs >= 1 =>
               LET rk  == ReadKeys(uf, {})
                   kp  == KeyBlockPos(uf, 0, 2, <<>>)
                   kps == {kp[i] : i \in 1..Len(kp)}
                   ends == {rk.keys[i].fileblk + CeilDiv(rk.keys[i].size, uf.hdr.tdb) : i \in 1..Len(rk.keys)} \cup {p + 1 : p \in kps} \cup {2}
                   fileend == CHOOSE m \in ends : \A x \in ends : x <= m
               IN rk.ok => /\ ch.ublk >= fileend
                           /\ ch.kblk < ch.ublk
                           /\ (ch.kib > 0 => ch.kblk \in kps)
                           /\ (ch.kib = 0 /\ ch.nkeys > 0 => ch.kblk >= fileend)

TypeOK == /\ len \in N..MaxLen /\ nops \in 0..MaxOps /\ nruns \in 0..MaxRuns
          /\ (DevReopenFull \/ ch.kib <= (IF ch.tdb >= 1 THEN Kpb(ch.tdb) ELSE 0))
=============================================================================
