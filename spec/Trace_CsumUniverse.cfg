SPECIFICATION TraceSpec
POSTCONDITION TraceAccepted
CONSTANTS
  DevV1CommitCoversRevoke = TRUE
CHECK_DEADLOCK FALSE
