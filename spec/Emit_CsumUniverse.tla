------------------------- MODULE Emit_CsumUniverse -------------------------
(* Writes the universe of CsumUniverse.tla as JSON (IOEnv.OUT):
     cases / mandatory_cases : [op, g]            image cases of clause (a) (all / in every quick run)
     required                : [op, kind, shapes] witnesses a pre-state must hold
     scenarios / mandatory_scenarios              journal scenarios (magic as a sorted sequence)
   Sanity ASSUMEs: every mandatory element lies in the complete universe (closed-universe rule), every operation that
   changes a checksum input has a mandatory rich pre-state, no Required set is empty where inputs change.            *)
EXTENDS CsumUniverse, Json, IOUtils, SequencesExt, FiniteSetsExt
VARIABLE x
SortedSeq(S) == SortSeq(SetToSeq(S), LAMBDA a, b : a < b)
ScJson(s) == [cfg |-> s.cfg, n |-> s.n, magic |-> SortedSeq(s.magic), r |-> s.r, second |-> s.second, after |-> s.after,
              ver |-> CfgVer(s.cfg), cap |-> TagCap(s.cfg.bs, CfgVer(s.cfg), s.cfg.b64), revcap |-> RevCap(s.cfg.bs, CfgVer(s.cfg), s.cfg.b64)]
MandScen == {s \in AllScenarios : MandatoryScenario(s)}
Req == {[op |-> o, kind |-> k, shapes |-> SetToSeq(Required(o, k))] : o \in Ops, k \in Kinds}
Univ == [cases |-> SetToSeq(Cases), mandatory_cases |-> SetToSeq(Mandatory), required |-> SetToSeq(Req),
         scenarios |-> SetToSeq({ScJson(s) : s \in AllScenarios}), mandatory_scenarios |-> SetToSeq({ScJson(s) : s \in MandScen}),
         shapes |-> SetToSeq(Shapes)]
ASSUME Mandatory \subseteq Cases /\ MandScen \subseteq AllScenarios
\* an operation that changes an input is observed on a rich pre-state in every run
ASSUME \A o \in Ops : Changes(o) # {} => \E c \in Mandatory : c.op = o /\ Rich(c.g)
ASSUME \A o \in Ops : Changes(o) # {} => Required(o, "crc32c") # {}
\* every geometry value and both kinds occur among the mandatory base images
ASSUME \A d \in DescSizes, i \in InodeSizes, k \in Kinds : \E c \in Mandatory : c.op = "base" /\ c.g.dsize = d /\ c.g.isize = i /\ c.g.kind = k
\* every checksummed configuration has an escaped block in a mandatory scenario, in a descriptor of its own and in a full one
ASSUME \A c \in Cfgs : c.req # "none" /\ c.origin = "mkfs" => \E s \in MandScen : s.cfg = c /\ s.magic # {} /\ s.n > TagCap(c.bs, CfgVer(c), c.b64)
ASSUME JsonSerialize(IOEnv.OUT, Univ)
Init == x = 0
Next == x' = x /\ UNCHANGED x
=============================================================================
