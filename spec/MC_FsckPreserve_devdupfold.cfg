SPECIFICATION Spec
CONSTANTS
  Hashes = {0}
  Ids = {1, 2, 3}
  Cap = 2
  LBlks = {}
  DataBlks = {}
  MetaBlks = {9}
  InoExt = 1
  NDirect = 1
  MaxDamage = 0
  MaxRuns = 1
  DevRehashDropsCollision = FALSE
  DevRehashDropsBoundary = FALSE
  DevRebuildDropsLast = FALSE
  DevCsumClearsLeaf = FALSE
  DevSbCsumRefuses = FALSE
  InitExtStates = {"w"}
  InvalidIds = {1}
  CfModes = {"plain", "plain_strict", "folded", "folded_strict"}
  DevRebuildMergesAcrossState = FALSE
  DevEncCheckIgnoresStrict = FALSE
  DevCasefoldOpaqueHashFails = FALSE
  DevDupFoldsPlainDir = TRUE
  BSz = 2
  SizeClasses = {"end"}
  DevSizeLimitInclusive = FALSE
  DevInodeUninitWipes = FALSE
INVARIANT TypeOK
INVARIANT TreeUnchanged
INVARIANT ExitOK
INVARIANT ConsistentAfter
INVARIANT ModeScope
PROPERTY ContractRefined
CHECK_DEADLOCK FALSE
