-------------------------- MODULE Trace_JournalRun --------------------------
(* Trace validation and fault enumeration for C04.  One behaviour per (journal, front-end) run of the real recovery
   (e2fsck -y -E journal_only / e2fsck -fy / debugfs -w -R jr) recorded by harness/iotrace.so:

     {"e":"load","kind":"c03", ext, cfg, jsb, nr, fs0, log, hist} abstract journal encoded into the image by gen/jbd2write.py;
                                                                   ext = 1: the journal is on a device (image file) of its own
     {"e":"load","kind":"obs", ext, jsb0, nr, rfail, init, final, legal} repository j_* image: blocks/versions named from the recorded run
     {"e":"w","d":dev,"k":"blk"|"jsb"|"sb"|"log","b":id,"v":ver}  one pwrite/write on device dev (0 = filesystem image, 1 = journal image),
                                                                   classified by (device, location) against a shadow image per device
     {"e":"fsync","d":dev}                                         a completed fsync/fdatasync of device dev
     {"e":"crash","kept":[..],"img":{blk,jsb,sb},"obs":[..],"jstart":s,"nro":n,"diff":d,"torn":t,"sdiff":x}
                                                                   fault enumeration: the run was cut here, exactly the pending
                                                                   writes `kept` (indexes into pend, which holds the volatile writes
                                                                   of BOTH devices in program order) reached their medium, the image(s)
                                                                   was rebuilt from the recorded payloads (img = its abstraction),
                                                                   the same front-end was run AGAIN on it; obs/jstart/nro = what
                                                                   it left, diff = number of blocks that differ from the result of
                                                                   the uninterrupted run outside the excluded fields
     {"e":"done","obs":[..],"jstart":s,"nro":n}                    end of the uninterrupted run

   Every w / fsync line must be a device-level step of JournalRun (DevWrite with PhaseAllows on the device the location lives on,
   DevFsync(d): only the pending writes of device d become durable); the invariants of
   JournalRun listed in the cfg are evaluated after every line, i.e. on every crash image of every prefix (product form).
   A crash line is accepted only if (a) the image the harness rebuilt is the crash image ImageOf(kept) the spec derives from
   its own pend, and (b) what the real re-run left equals RunAgainOf(that image) = Final, journal empty, flag clear, no other
   block differing.  Final of a generated journal is computed by TLC with the transcription of recovery.c in spec/Jbd2.tla
   (RecoverOf, with the deviations C03 registered as known findings enabled): "what an uninterrupted recovery yields".

   Named deviations of the pinned tree (known findings of C04, enabled in the conformance cfg; anything else is a VIOLATION):
     DevSbPiecemeal       torn = 1: the primary superblock of the rebuilt image fails its checksum; accepted only if the kept set
                          holds a piece of a superblock update that no fsync has completed yet (write_primary_superblock sends the
                          changed words one pwrite at a time, checksum last; the other pieces are lost or not issued yet); no
                          re-run obligation then -- e2fsck cannot open such an image
     DevErrorLostOnCrash  sdiff = 1: the re-run result differs from the uninterrupted result in s_state (ERROR_FS / VALID_FS) only;
                          accepted only if the uninterrupted recovery FAILED (RecoverOf(..).err # "", or a failed commit block
                          recorded in jsb.s_errno) and the crash image already has the journal marked empty: the front-ends empty the
                          journal even after a failed recovery, and the record of the failure reaches the filesystem superblock
                          only in a later flush epoch (after s_errno has been cleared again in the journal superblock) *)
EXTENDS JournalRun, Json, IOUtils
CONSTANTS DevReplayPastBadTag, DevScanAbort, DevAsyncLastBadCommit, DevCommitBreakContinues
VARIABLES l, rerr          \* rerr: error the uninterrupted recovery ends with ("" = success), computed by TLC from the journal
tvars == <<vars, l, rerr>>

J == INSTANCE Jbd2 WITH L <- 1, Blocks <- {}, MaxTxn <- 0, MaxTags <- 0, MaxDmg <- 0, Csum <- 0, Async <- 0, EscSet <- {}, OldTime <- 0,
                        jc <- 0, log <- 0, head <- 0, nseq <- 0, jsb <- 0, nr <- 0, fs <- 0, hist <- 0, ver <- 0, ndmg <- 0, phase <- 0, res <- 0

Tr == ndJsonDeserialize(IOEnv.TRACE)
SeqSet(s) == {s[n] : n \in 1..Len(s)}
IsEvent(e) == l <= Len(Tr) /\ Tr[l].e = e /\ l' = l + 1

CfgOf(x) == [L |-> x.cfg.L, csum |-> x.cfg.csum, async |-> x.cfg.async]
\* versions the log can put into block b: every tag naming b, with the content of the log block it points to
LegalFromLog(cf, lg, b) ==
   UNION {{J!Written(lg, lg[q].tags[n], J!AdvL(cf.L, J!WrapL(cf.L, q + 1), n - 1)) : n \in {m \in 1..Len(lg[q].tags) : lg[q].tags[m].blk = b}}
          : q \in {p \in 1..cf.L : lg[p].t = "desc"}}

Idle == /\ plan' = <<>> /\ cache' = {} /\ i' = 0 /\ todo' = <<>> /\ failed' = FALSE /\ image' = NoImage /\ crashes' = 0
TLoadC03 == /\ IsEvent("load") /\ Tr[l].kind = "c03"
            /\ LET x == Tr[l]  cf == CfgOf(x)  j == [start |-> x.jsb.start, seq |-> x.jsb.seq] IN
                 /\ Len(x.log) = cf.L /\ j.start \in 0..cf.L
                 /\ fin' = J!RecoverOf(cf, x.log, j, x.fs0).fs
                 /\ LET r == J!RecoverOf(cf, x.log, j, x.fs0)
                        e == IF r.err # "" THEN r.err ELSE IF r.failed # 0 THEN "failed commit" ELSE ""   \* j_failed_commit -> jsb.s_errno
                    IN rerr' = e /\ rfail' = (e # "")
                 /\ legal' = [b \in DOMAIN x.fs0 |-> LegalFromLog(cf, x.log, b)]
                 /\ dur' = [blk |-> x.fs0, jsb |-> (IF j.start = 0 THEN 0 ELSE 1), sb |-> x.nr, st |-> 0]
                 /\ x.ext \in {0, 1} /\ ext' = (x.ext = 1)
            /\ pend' = <<>> /\ pc' = "trace" /\ Idle
TLoadObs == /\ IsEvent("load") /\ Tr[l].kind = "obs"
            /\ LET x == Tr[l] IN
                 /\ Len(x.init) = Len(x.final) /\ Len(x.legal) = Len(x.init)
                 /\ fin' = x.final /\ rerr' = (IF x.rfail = 1 THEN "recorded in s_state by the uninterrupted run" ELSE "") /\ rfail' = (x.rfail = 1)
                 /\ legal' = [b \in DOMAIN x.init |-> SeqSet(x.legal[b])]
                 /\ dur' = [blk |-> x.init, jsb |-> x.jsb0, sb |-> x.nr, st |-> 0]
                 /\ x.ext \in {0, 1} /\ ext' = (x.ext = 1)
            /\ pend' = <<>> /\ pc' = "trace" /\ Idle
DevName(d) == IF d = 0 THEN "fs" ELSE "jnl"
\* a write is accepted only on the device its location lives on (journal superblock and log on the journal device iff ext)
TWrite == /\ IsEvent("w") /\ pc = "trace" /\ Tr[l].d \in {0, 1} /\ DevName(Tr[l].d) = DevOf(Tr[l].k)
          /\ DevWrite(E(Tr[l].k, Tr[l].b, Tr[l].v)) /\ UNCHANGED <<uvars, pvars, rerr>>
TFsync == /\ IsEvent("fsync") /\ pc = "trace" /\ Tr[l].d \in {0, 1} /\ (Tr[l].d = 1 => ext)
          /\ DevFsync(DevName(Tr[l].d)) /\ UNCHANGED <<uvars, pvars, rerr>>
TCrash == /\ IsEvent("crash") /\ pc = "trace"
          /\ LET x == Tr[l]  S == SeqSet(x.kept)  img == ImageOf(S)  again == RunAgainOf(img) IN
               /\ S \subseteq All
               /\ x.img.blk = img.blk /\ x.img.jsb = img.jsb /\ x.img.sb = img.sb        \* the rebuilt image is the spec's crash image
               /\ IF x.torn = 1 THEN DevSbPiecemeal /\ S \cap SbIsh # {}        \* a piece of an unfinished superblock update survived
                  ELSE /\ x.obs = again.blk /\ again.blk = fin                           \* RunAgain(crash image) = Final
                       /\ x.jstart = again.jsb /\ x.nro = again.sb /\ x.diff = 0
                       /\ (x.sdiff = 1 => DevErrorLostOnCrash /\ rerr # "" /\ img.jsb = 0)
          /\ UNCHANGED <<vars, rerr>>
TDone == /\ IsEvent("done") /\ pc = "trace"
         /\ Tr[l].obs = fin /\ Tr[l].jstart = 0 /\ Tr[l].nro = 0 /\ Cur.blk = fin
         /\ pc' = "done" /\ UNCHANGED <<dvars, uvars, plan, cache, i, todo, failed, image, crashes, rerr>>

TraceInit == Init /\ l = 1 /\ rerr = "" /\ rfail = FALSE /\ ext = FALSE
TraceNext == TLoadC03 \/ TLoadObs \/ TWrite \/ TFsync \/ TCrash \/ TDone
TraceSpec == TraceInit /\ [][TraceNext]_tvars
TraceAccepted == TLCGet("stats").diameter - 1 = Len(Tr)
=============================================================================
