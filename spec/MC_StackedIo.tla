---------------------------- MODULE MC_StackedIo ----------------------------
(* Model-checking harness for StackedIo (undo_io wrapped around the unix channel): bounded arguments, payload
   tags chosen when the call reaches the real channel, device write failures in any nested call on the real channel
   (the fault sets of MC_UnixIoCache) and failures of the calls on the undo file, each with its own budget -- so that
   "the device fails while the undo file is fine" and the other way round are both explored -- and the VIEW that
   identifies states differing only by a renaming of payload tags.                                             *)
EXTENDS StackedIo
CONSTANTS BlkSizes, NegSizes, ByteLens, Cfgs,
          MaxW,         \* device write attempts of one nested call that the fault choice may hit
          MaxFaults,    \* nested calls on the real channel with injected faults per behaviour
          MaxUFaults,   \* failing calls on the undo file per behaviour
          MaxSave,      \* save reads (undo blocks not yet in the undo file) per outer call
          ZeroOps       \* subset of {"zero", "discard"}
VARIABLES faults, ufaults
mcvars == <<allvars, faults, ufaults>>

Max(S) == CHOOSE x \in S : \A y \in S : y <= x
MinOf(S) == CHOOSE x \in S : \A y \in S : x <= y
AllTags == {0} \cup {dev[g] : g \in G} \cup {logical[g] : g \in G} \cup {oc.lg0[g] : g \in G}
           \cup {oc.data[j] : j \in 1..Len(oc.data)}
           \cup UNION {{slot[i].data[j] : j \in 1..Len(slot[i].data)} : i \in 1..K}
NewTag == 1 + Max(AllTags)
FailSets == {{}} \cup {{k} : k \in 1..MaxW} \cup {{k, k + 1} : k \in 1..MaxW}
Cnts == (1..(D + 2)) \cup {-n : n \in NegSizes}
Fresh(n) == TLCEval([j \in 1..n |-> NewTag])

\* undo_write_tdb(block, count) with the wrapper's block size: the undo blocks (SBG granules, offset 0) the call touches
TdbStart == IF oc.op = "wbyte" THEN (oc.a \div ust.obs) * ust.obs ELSE oc.a * ust.obs
TdbCount == IF oc.op = "wbyte" THEN (oc.b + (oc.a % ust.obs) + ust.obs - 1) \div ust.obs ELSE oc.b
TdbSize == IF TdbCount = 1 THEN ust.obs ELSE IF TdbCount < 0 THEN -TdbCount ELSE TdbCount * ust.obs
TdbBlocks == (TdbStart \div SBG)..((TdbStart + TdbSize - 1) \div SBG)
SaveBlk(n) == (n * SBG) \div ust.obs
SaveCnt == IF SBG % ust.obs = 0 THEN SBG \div ust.obs ELSE -SBG

UKind(pc) == CASE pc = "setup.ublk" -> "blksize" [] pc = "setup.rd" -> "read" [] pc \in {"setup.fl", "ix.ufl"} -> "flush"
               [] pc = "cl.ufile" -> "close" [] OTHER -> "write"
UMayFail(pc, u) == CASE UKind(pc) = "write" -> TRUE [] UKind(pc) \in {"flush", "close"} -> u.udirty [] OTHER -> FALSE
\* a run of calls on U up to the next call on R (or the return); the fa-th of them fails (0 = none)
RECURSIVE Burst(_, _, _, _)
Burst(c, u, fa, fired) ==
   IF c.pc \notin USites THEN [c |-> c, u |-> u, fired |-> fired]
   ELSE LET r == IF fa = 1 /\ UMayFail(c.pc, u) THEN 1 ELSE 0
            n == UNext(c, u, UKind(c.pc), r)
        IN Burst(n.c, n.u, fa - 1, fired \/ r = 1)

MCInit == InitWith(TLCEval([g \in G |-> 1])) /\ SInit /\ faults = 0 /\ ufaults = 0
Idle == /\ oc.pc = "idle" /\ UNCHANGED <<faults, ufaults>>
        /\ \/ \E blk \in G, cnt \in Cnts : OBegin("read", blk, cnt, <<>>)
           \/ \E blk \in G, cnt \in Cnts : OBegin("write", blk, cnt, <<>>)
           \/ \E off \in G, n \in ByteLens : OBegin("wbyte", off, n, <<>>)
           \/ \E blk \in G, n \in 1..(D + 1), op \in ZeroOps : OBegin(op, blk, n, <<>>)
           \/ OBegin("flush", 0, 0, <<>>)
           \/ OBegin("close", 0, 0, <<>>)
           \/ \E nbs \in BlkSizes : nbs # ust.obs /\ OBegin("blksize", nbs, 0, <<>>)
           \/ (~open /\ \E c \in Cfgs : OOpen(c[1], c[2], c[3], 0, FALSE))
OnR == /\ oc.pc \in {"rd.real", "save", "ix.rd", "fl.real", "cl.real", "bs.real", "ix.sb1", "ix.sb2"} /\ UNCHANGED ufaults
       /\ \E F \in FailSets :
             /\ (F # {}) => faults < MaxFaults
             /\ faults' = faults + (IF F = {} THEN 0 ELSE 1)
             /\ CASE oc.pc = "rd.real" -> NRead(oc.a, oc.b, F)
                  [] oc.pc = "ix.rd"   -> NRead(1, -SBG, F)
                  [] oc.pc = "save"    -> \/ (oc.ns < MaxSave /\ \E n \in TdbBlocks : NRead(SaveBlk(n), SaveCnt, F))
                                          \/ CASE oc.op = "write" -> NWrite(oc.a, oc.b, Fresh(Span(oc.a, oc.b)), F)
                                                [] oc.op = "wbyte" -> NWByte(oc.a, oc.b, Fresh(oc.b), F)
                                                [] OTHER -> \E zok \in BOOLEAN : NZero(oc.op, oc.a, oc.b, zok, NewTag, F)
                  [] oc.pc = "fl.real" -> NFlush(F)
                  [] oc.pc = "cl.real" -> NClose(F)
                  [] oc.pc = "bs.real" -> NBlksize(oc.a, F)
                  [] oc.pc = "ix.sb1"  -> NBlksize(SBG, F)
                  [] oc.pc = "ix.sb2"  -> NBlksize(oc.bs0, F)
OnU == /\ oc.pc \in USites /\ UNCHANGED <<vars, ores, ounrep, faults>>
       /\ \E fa \in 0..10 :
             LET b == Burst(oc, ust, fa, FALSE) IN
             /\ (fa > 0) => (ufaults < MaxUFaults /\ b.fired)
             /\ ufaults' = ufaults + (IF fa > 0 THEN 1 ELSE 0)
             /\ oc' = b.c /\ ust' = b.u
Return == oc.pc = "ret" /\ OFinish(oc.ret) /\ UNCHANGED <<faults, ufaults>>
MCNext == Idle \/ OnR \/ OnU \/ Return
MCSpec == MCInit /\ [][MCNext]_mcvars

\* ---- VIEW: canonical renaming of tags per granule, as in MC_UnixIoCache, with the outer call's copies added
Cov(g) == SelectSeq([i \in 1..K |-> i], LAMBDA i : slot[i].use /\ g \in SlotGr(slot[i]))
OData(g) == IF g \in oc.rng /\ Len(oc.data) = Cardinality(oc.rng) THEN <<oc.data[g - First(oc.rng) + 1]>> ELSE <<>>
CopySeq(g) == <<logical[g], dev[g]>> \o [k \in 1..Len(Cov(g)) |-> slot[Cov(g)[k]].data[g - slot[Cov(g)[k]].blk * bs + 1]]
              \o <<oc.lg0[g]>> \o OData(g)
Ren(g, v) == IF v = UNK THEN v
             ELSE LET q == CopySeq(g) IN CHOOSE k \in 1..Len(q) : q[k] = v /\ \A m \in 1..(k - 1) : q[m] # v
CfgPlain == {<<FALSE, FALSE, FALSE>>}
CfgFault == {<<FALSE, FALSE, FALSE>>, <<FALSE, FALSE, TRUE>>}
CfgWt == {<<TRUE, FALSE, FALSE>>, <<TRUE, FALSE, TRUE>>}
MCView == <<[g \in G |-> <<Ren(g, logical[g]), Ren(g, dev[g]), Ren(g, oc.lg0[g]), [j \in 1..Len(OData(g)) |-> Ren(g, OData(g)[j])]>>],
            [i \in 1..K |-> [blk |-> slot[i].blk, use |-> slot[i].use, dirty |-> slot[i].dirty, werr |-> slot[i].werr,
                             data |-> [j \in 1..Len(slot[i].data) |-> Ren(slot[i].blk * bs + j - 1, slot[i].data[j])]]],
            lru, bs, cfg, open, unrep, faults, ufaults,
            <<res.rok, res.op \in {"flush", "close"} /\ res.ret = 0>>,
            [oc EXCEPT !.lg0 = <<>>, !.data = Len(oc.data), !.tags = <<>>], ust, ores, ounrep>>
=============================================================================
