--------------------------- MODULE CsumCoverage ---------------------------
(* C14 clause (b): which bytes of each metadata object type the ext4 on-disk format puts under the object's checksum.
   Written from the format description (Documentation: ext4 wiki "Checksums", lib/ext2fs/ext2_fs.h structure layouts),
   independently of lib/ext2fs/csum.c.  An object is described by a record
       [type, isize, hi, dsize, nbytes, ehmax, bs, coff, count, tail]
   (only the fields its type needs are meaningful, the others are 0):
     sb       superblock, 1024 bytes, crc32c over bytes 0..1019, checksum at 1020..1023
     gd       group descriptor of dsize bytes (s_desc_size: 32, 64, 128 ...; every byte up to dsize is covered, also the ones
              no field uses yet), checksum field at 30..31 skipped (crc32c & 0xFFFF, or crc16)
     bb / ib  bitmap: the first nbytes bytes (clusters_per_group/8, inodes_per_group/8); the rest of the block is padding
     inode    isize bytes (s_inode_size: 128, 256, 512 ...); i_checksum_lo (124..125) skipped; i_checksum_hi (130..131) skipped
              iff hi = 1 (extra_isize >= 4)
     extblk   extent block: header + ehmax entries (12 bytes each); the 4-byte tail follows
     dirleaf  directory leaf / linear block: everything before the 12-byte tail
     dxnode   htree root / interior node: bytes before coff + 8*count (the used index entries), plus the 4 reserved bytes of the
              tail at `tail`; unused index slots and the checksum itself are not covered
     xblk     xattr block: the whole block with h_checksum (16..19) skipped
     mmp      MMP block: bytes 0..1019
     jsb      journal superblock (v2/v3 checksums): 1024 bytes with s_checksum (252..255) skipped                         *)
EXTENDS Integers

Covered(r, off) ==
   CASE r.type = "sb"      -> off >= 0 /\ off < 1020
     [] r.type = "gd"      -> off >= 0 /\ off < r.dsize /\ off \notin {30, 31}
     [] r.type = "bb"      -> off >= 0 /\ off < r.nbytes
     [] r.type = "ib"      -> off >= 0 /\ off < r.nbytes
     [] r.type = "inode"   -> off >= 0 /\ off < r.isize /\ off \notin {124, 125} /\ (r.hi = 1 => off \notin {130, 131})
     [] r.type = "extblk"  -> off >= 0 /\ off < 12 + 12 * r.ehmax
     [] r.type = "dirleaf" -> off >= 0 /\ off < r.bs - 12
     [] r.type = "dxnode"  -> off >= 0 /\ (off < r.coff + 8 * r.count \/ (off >= r.tail /\ off < r.tail + 4))
     [] r.type = "xblk"    -> off >= 0 /\ off < r.bs /\ off \notin 16..19
     [] r.type = "mmp"     -> off >= 0 /\ off < 1020
     [] r.type = "jsb"     -> off >= 0 /\ off < 1024 /\ off \notin 252..255
     [] OTHER              -> FALSE

\* where the stored checksum itself lives (never covered)
CsumField(r) ==
   CASE r.type = "sb"      -> 1020..1023
     [] r.type = "gd"      -> {30, 31}
     [] r.type = "inode"   -> {124, 125} \cup (IF r.hi = 1 THEN {130, 131} ELSE {})
     [] r.type = "extblk"  -> (12 + 12 * r.ehmax)..(12 + 12 * r.ehmax + 3)
     [] r.type = "dirleaf" -> (r.bs - 4)..(r.bs - 1)
     [] r.type = "dxnode"  -> (r.tail + 4)..(r.tail + 7)
     [] r.type = "xblk"    -> 16..19
     [] r.type = "mmp"     -> 1020..1023
     [] r.type = "jsb"     -> 252..255
     [] OTHER              -> {}          \* bitmaps: the checksum lives in the group descriptor

\* checksums the format stores truncated to 16 bits: a changed covered byte leaves them unchanged once in 65536
Truncated(r) == r.type \in {"gd"} \/ (r.type \in {"bb", "ib"} /\ r.dsize = 32) \/ (r.type = "inode" /\ r.hi = 0)

ObjSize(r) ==
   CASE r.type \in {"sb", "mmp", "jsb"} -> 1024
     [] r.type = "gd" -> r.dsize
     [] r.type = "inode" -> r.isize
     [] OTHER -> r.bs
=============================================================================
