---------------------------- MODULE Emit_Backups ----------------------------
(* The conformance universe of C20, enumerated by the specification and written as JSON (IOEnv.OUT):
     geoms   the concrete geometries (block size, blocks per group, group count, feature profile)
     ops     per geometry index, the tool runs that may follow (each maps to one action of Backups.tla:
             resize -> Resize, resize64 -> Resize64, tunefeat -> TuneFeature, uuid -> TuneUUID, isize -> TuneISize,
             fsck/primfeat -> EnvPrimary ; FsckRepair, fsck/primgd -> EnvPrimary ; FsckFromBackup,
             fsck/freecnt -> (data corruption) ; FsckRepair, fsck/stalebk -> (first backup stale) ; FsckRepair)
   A universe element is (geometry, sequence of <= 3 ops of that geometry, every prescribed backup location of the
   final image [+ plain e2fsck when the group size is the default one, field `plain`]).  checks/c20.py runs all singles
   and a seeded sample of pairs and triples (sizes in the evidence file).
   Block sizes: the feature / group-count lattice is explored with 1k blocks (small groups keep many-group images tiny);
   the recovery clauses (e2fsck -b, plain e2fsck = get_backup_sb's loop over block sizes and its group-size guess, the
   fall-back after damaged descriptors) range over EVERY block size of the format (BackupSearch!BlockSizes) with the
   default group size, 2 and 4 groups (sparse image files).  `bsizes` / `bboundary` repeat the spec's block-size set and
   its boundary catalogue so that the check can make sure its fixed quick part covers every one of them.            *)
EXTENDS Naturals, Sequences, FiniteSets, Json, IOUtils, SequencesExt, BackupSearch
VARIABLE x
Profiles == {"sparse", "none", "ss2_0", "ss2_1", "ss2_2", "metabg", "metabg64", "flex", "ss2_2_metabg"}
Counts == {1, 2, 3, 4, 8, 10, 26, 28, 34, 50}
G(bs, bpg, n, p) == [bs |-> bs, bpg |-> bpg, groups |-> n, prof |-> p, plain |-> bpg = DefaultBpg(bs)]
Geoms == {G(1024, 256, n, p) : n \in Counts, p \in Profiles}
         \cup {G(4096, 256, n, p) : n \in {2, 10, 28}, p \in {"sparse", "ss2_2", "metabg64", "flex"}}        \* first_data_block = 0
         \cup {G(2048, 512, n, p) : n \in {3, 9}, p \in {"sparse", "none", "metabg"}}
         \cup {G(1024, 8192, n, p) : n \in {2, 4}, p \in {"sparse", "flex", "ss2_1", "ss2_2", "metabg", "rsv"}}   \* default group size: plain e2fsck
         \cup {G(4096, 32768, 2, p) : p \in {"sparse", "flex"}} \cup {G(2048, 16384, 3, "sparse")}              \* default group size, first_data_block = 0
         \cup {G(1024, 1024, n, p) : n \in {4, 10, 28}, p \in {"rsv"}}                                       \* resize_inode + flex_bg
         \cup {G(1024, 256, 82, p) : p \in {"sparse", "metabg64", "ss2_2"}}
         \cup {G(bs, DefaultBpg(bs), n, p) : bs \in BlockSizes, n \in {2, 4}, p \in {"sparse", "flex", "ss2_2", "metabg64"}}   \* every block size, default group size
ResizeTargets(g) == ({1, 2, 3, 4, 8, 10, 26, 28, 34, 50} \cup {g.groups - 1, g.groups + 1, g.groups + 7}) \ {0, g.groups}
Op(k, n, a) == [k |-> k, n |-> n, a |-> a]
Ops(g) == {Op("resize", t, "") : t \in {t \in ResizeTargets(g) : g.bpg < 8192 \/ t <= 5}}
          \cup {Op("resize64", 0, "")}
          \* (a journal has >= 1024 blocks: 8 ... 64 MiB of real writes with 8k ... 64k blocks: not in this universe)
          \cup {Op("tunefeat", 0, f) : f \in (IF g.bs <= 4096 THEN {"journal"} ELSE {}) \cup {"csum", "dirindex"} \cup (IF g.prof = "none" THEN {"sparse"} ELSE {})}
          \cup {Op("uuid", 0, u) : u \in {"A", "B"}}
          \cup (IF g.prof = "none" THEN {Op("isize", 256, "")} ELSE {})
          \cup {Op("fsck", 0, r) : r \in {"primfeat", "primgd", "freecnt", "stalebk"}}
GeomSeq == SetToSeq(Geoms)
Univ == [geoms |-> GeomSeq, ops |-> [i \in 1..Len(GeomSeq) |-> SetToSeq(Ops(GeomSeq[i]))],
         bsizes |-> SetToSeq(BlockSizes), bboundary |-> SetToSeq(BoundaryBlockSizes)]
ASSUME JsonSerialize(IOEnv.OUT, Univ)
Init == x = 0
Next == x' = x
=============================================================================
