----------------------------- MODULE IoChannel -----------------------------
(* Property view of C17 (block I/O layer), nothing implementation-shaped.

   The channel addresses a device of NG granules (a granule is the unit in which all offsets and sizes of a
   history are expressed; every byte of a granule has the same history, so the content of a granule is one
   value, the tag of the write that produced it; 0 = zeroes).

     logical[g]   what a read of granule g must return: the value most recently written through the channel
                  (initially the backing file's content).  UNK = the caller has been told that a device write
                  for g failed (or that a write covering g failed): no obligation until g is written again.
     backing[g]   content of the backing file.
     obs          what the caller observed of the last call:
                     op    "open" | "read" | "write" (any content-changing call: write_blk, write_byte, zeroout,
                           discard on a file) | "flush" | "close" | "other" (set_blksize, set_option)
                     rng   granules addressed;  data  values returned (read) or written (write) on rng
                     ret   0 = success
                     F     granules for which a device write failed during the call
                     rep   the failure was reported (ret # 0 or the channel's write_error handler was called)
     unrep        some device write failed and was never reported.

   The property:   Read returns logical;  after a successful Flush/Close backing = logical;
                   a failed device write is reported (at the latest before Close returns success).        *)
EXTENDS Integers, FiniteSets
CONSTANTS NG
VARIABLES logical, backing, obs, unrep
ioVars == <<logical, backing, obs, unrep>>
UNK == -2
G == 0..(NG - 1)

Agrees(want, have, S) == \A g \in S : want[g] = UNK \/ have[g] = want[g]

\* the step relation: what (logical, backing, unrep) may become given the observation o of the call; lg0 / u0 = before the
\* call, lg1 / bk1 / u1 = after it.  (State-function form, so that it can be evaluated at every level of a stack of managers:
\* StackedIo evaluates it for the calls made on a wrapping manager, whose steps are several calls on the wrapped channel.)
LogicalOK(o, lg0, lg1) ==
   LET wrote == o.op = "write"
       base  == [g \in G |-> IF wrote /\ g \in o.rng THEN (IF o.ret = 0 THEN o.data[g] ELSE UNK) ELSE lg0[g]]
   IN \A g \in G : \/ lg1[g] = base[g]
                   \/ (g \in o.F /\ o.rep /\ lg1[g] = UNK)                      \* reported loss
                   \/ (wrote /\ o.ret # 0 /\ g \in o.rng /\ lg1[g] \in {lg0[g], o.data[g]})
CoherentOK(o, lg0) == (o.op = "read" /\ o.ret = 0) => Agrees(lg0, o.data, o.rng)
DurableOK(o, lg1, bk1) == (o.op \in {"flush", "close"} /\ o.ret = 0) => Agrees(lg1, bk1, G)
UnrepAfter(o, u0) == u0 \/ (o.F # {} /\ ~o.rep)
StepRel(o, lg0, lg1, bk1, u0, u1) ==
   /\ LogicalOK(o, lg0, lg1)
   /\ CoherentOK(o, lg0)                                                         \* coherent
   /\ DurableOK(o, lg1, bk1)                                                     \* durable on flush / close
   /\ u1 = UnrepAfter(o, u0)
   /\ (o.op = "close" /\ o.ret = 0) => ~u1                                       \* failures reported before close succeeds
StepOK(o) == StepRel(o, logical, logical', backing', unrep, unrep')

\* stand-alone form (tiny constants only): any observation, any outcome the property allows
CONSTANTS Tags
Rngs == {a..b : a, b \in G} \ {{}}
Obs == UNION {[op : {"read", "write", "flush", "close", "other"}, rng : {R}, ret : {0, 1},
               data : [R -> Tags], F : SUBSET G, rep : BOOLEAN] : R \in Rngs}
Init == /\ backing \in [G -> Tags] /\ logical = backing /\ unrep = FALSE
        /\ obs = [op |-> "open", rng |-> {}, ret |-> 0, data |-> <<>>, F |-> {}, rep |-> FALSE]
Next == \E o \in Obs : \E lg \in [G -> Tags \cup {UNK}] : \E bk \in [G -> Tags] : \E u \in BOOLEAN :
           /\ (o.F # {} /\ o.ret # 0) => o.rep
           /\ obs' = o /\ logical' = lg /\ backing' = bk /\ unrep' = u /\ StepOK(o)
Spec == Init /\ [][Next]_ioVars

\* refinement form: the observation is whatever obs' is
NextObs == StepOK(obs')
=============================================================================
