----------------------------- MODULE IoChannel -----------------------------
(* Property view of C17 (block I/O layer), nothing implementation-shaped.

   The channel addresses a device of NG granules (a granule is the unit in which all offsets and sizes of a
   history are expressed; every byte of a granule has the same history, so the content of a granule is one
   value, the tag of the write that produced it; 0 = zeroes).

     logical[g]   what a read of granule g must return: the value most recently written through the channel
                  (initially the backing file's content).  UNK = the caller has been told that a device write
                  for g failed (or that a write covering g failed): no obligation until g is written again.
     backing[g]   content of the backing file.
     obs          what the caller observed of the last call:
                     op    "open" | "read" | "write" (any content-changing call: write_blk, write_byte, zeroout,
                           discard on a file) | "flush" | "close" | "other" (set_blksize, set_option)
                     rng   granules addressed;  data  values returned (read) or written (write) on rng
                     ret   0 = success
                     F     granules for which a device write failed during the call
                     rep   the failure was reported (ret # 0 or the channel's write_error handler was called)
     unrep        some device write failed and was never reported.

   The property:   Read returns logical;  after a successful Flush/Close backing = logical;
                   a failed device write is reported (at the latest before Close returns success).        *)
EXTENDS Integers, FiniteSets
CONSTANTS NG
VARIABLES logical, backing, obs, unrep
ioVars == <<logical, backing, obs, unrep>>
UNK == -2
G == 0..(NG - 1)

Agrees(want, have, S) == \A g \in S : want[g] = UNK \/ have[g] = want[g]

\* the step relation: what (logical, backing, unrep) may become given the observation o of the call
StepOK(o) ==
   LET wrote == o.op = "write"
       base  == [g \in G |-> IF wrote /\ g \in o.rng THEN (IF o.ret = 0 THEN o.data[g] ELSE UNK) ELSE logical[g]]
   IN /\ \A g \in G : \/ logical'[g] = base[g]
                      \/ (g \in o.F /\ o.rep /\ logical'[g] = UNK)                 \* reported loss
                      \/ (wrote /\ o.ret # 0 /\ g \in o.rng /\ logical'[g] \in {logical[g], o.data[g]})
      /\ (o.op = "read" /\ o.ret = 0) => Agrees(logical, o.data, o.rng)             \* coherent
      /\ (o.op \in {"flush", "close"} /\ o.ret = 0) => Agrees(logical', backing', G)  \* durable on flush / close
      /\ unrep' = (unrep \/ (o.F # {} /\ ~o.rep))
      /\ (o.op = "close" /\ o.ret = 0) => ~unrep'                                   \* failures reported before close succeeds

\* stand-alone form (tiny constants only): any observation, any outcome the property allows
CONSTANTS Tags
Rngs == {a..b : a, b \in G} \ {{}}
Obs == UNION {[op : {"read", "write", "flush", "close", "other"}, rng : {R}, ret : {0, 1},
               data : [R -> Tags], F : SUBSET G, rep : BOOLEAN] : R \in Rngs}
Init == /\ backing \in [G -> Tags] /\ logical = backing /\ unrep = FALSE
        /\ obs = [op |-> "open", rng |-> {}, ret |-> 0, data |-> <<>>, F |-> {}, rep |-> FALSE]
Next == \E o \in Obs : \E lg \in [G -> Tags \cup {UNK}] : \E bk \in [G -> Tags] : \E u \in BOOLEAN :
           /\ (o.F # {} /\ o.ret # 0) => o.rep
           /\ obs' = o /\ logical' = lg /\ backing' = bk /\ unrep' = u /\ StepOK(o)
Spec == Init /\ [][Next]_ioVars

\* refinement form: the observation is whatever obs' is
NextObs == StepOK(obs')
=============================================================================
