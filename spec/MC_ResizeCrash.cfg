SPECIFICATION ProtoSpec
INVARIANT CrashInvariant
CHECK_DEADLOCK FALSE
