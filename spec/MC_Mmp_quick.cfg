\* quick: 2 nodes, the kinds that take part in the protocol (fsckn, skip, peek are in MC_Mmp.cfg), one interval, atomic read-write pairs: all invariants hold
SPECIFICATION Spec
CONSTANTS
  Nodes = {1, 2}
  Seqs = {1, 2}
  KindSet = {"rw", "rwd", "fsck", "ro", "clear"}
  RwPolls = {0, 1}
  FsckPolls = {0, 1}
  MinIval = 1
  Upd = 3
  IvalSet = {1}
  TickSet = {1}
  MaxCrash = 1
  AllowCorrupt = TRUE
  DevNonAtomic = FALSE
  DevSeqCollision = FALSE
  DevSameNodename = FALSE
  DevStopUnconditional = FALSE
  DevNoSecondWait = FALSE
  DevNoFsckMarker = FALSE
  DevDumpClobbers = FALSE
INVARIANT TypeOK
INVARIANT MutualExclusion
INVARIANT NoFalseClean
INVARIANT DetectableOverlap
INVARIANT WrittenValid
INVARIANT SkipNeverWrites
INVARIANT AbortLeavesBlock
CHECK_DEADLOCK FALSE
