------------------------- MODULE Emit_FsckPreserve -------------------------
(* Writes the universe of real inputs that FsckPreserve enumerates as JSON (IOEnv.OUT):
   {"modes": [...], "dirfamily": [[entry class, name length, collision class], ...], "mapshapes": [...], "layouts": [...],
    "summarykinds": [[field, value class], ...], "gdcsum": [...]}                                                            *)
EXTENDS FsckPreserve, Json, IOUtils
Univ == [modes |-> SetToSeq(Modes), dirfamily |-> SetToSeq(DirFamily), quickdirfamily |-> SetToSeq(QuickDirFamily), mapshapes |-> SetToSeq(MapShapes),
         layouts |-> SetToSeq(StartLayouts), extstatefamily |-> SetToSeq(ExtStateFamily), cfdirfamily |-> SetToSeq(CfDirFamily),
         validnamekinds |-> SetToSeq(ValidNameKinds), twinnamekinds |-> SetToSeq(TwinNameKinds), invalidnamekinds |-> SetToSeq(InvalidNameKinds), sizefamily |-> SetToSeq(SizeFamily), sizelimits |-> SetToSeq({[bs |-> b] @@ SizeLimits[b] : b \in SizeBlockSizes}),
         summarykinds |-> SetToSeq(SummaryKinds), gdcsum |-> SetToSeq(GdCsumVariants)]
ASSUME JsonSerialize(IOEnv.OUT, Univ)
EmitInit == FALSE /\ leaves = <<>> /\ index = <<>> /\ indexed = FALSE /\ cfm = "plain" /\ exts = <<>> /\ kind = "" /\ meta = {} /\ fsize = 0 /\ bitmap = {}
            /\ freecnt = 0 /\ uninit = FALSE /\ badcsum = {} /\ dmg = 0 /\ runs = 0 /\ tree = {} /\ tree0 = {} /\ cons = TRUE
            /\ exit = 0 /\ mode = "" /\ dmgd = FALSE /\ dch = FALSE /\ mch = FALSE /\ lin3 = FALSE
EmitNext == UNCHANGED vars
=============================================================================
