---------------------------- MODULE MC_Backups ----------------------------
(* Model checking of Backups.tla: every geometry up to MaxG groups (no sparse_super / sparse_super / sparse_super2 with
   0, 1, 2 backups) x meta_bg x descriptors-per-block, every sequence of at most MaxSteps tool runs (resize to a boundary
   group count, 64bit conversion, tune2fs feature / UUID / inode-size change, e2fsck -fy after a primary-only change or
   after the primary descriptors were damaged), then DestroyPrimary and RecoverFrom(every prescribed location) /
   RecoverPlain (e2fsck's own search, for every <<block size, blocks per group>> of Geos).                           *)
EXTENDS Backups
CONSTANTS Dpbs, ResizeSet, MaxSteps,
          Geos,           \* set of <<block size, blocks per group>> pairs mke2fs may be asked for
          GdOnly          \* BOOLEAN: also explore the loss of the primary descriptors alone (superblock intact)
\* every block size of the format with its default group size + a non-default group size at both ends
AllGeos == {<<bs, DefaultBpg(bs)>> : bs \in BlockSizes} \cup {<<MinBlockSize, 256>>, <<MaxBlockSize, 256>>}
OneGeo == {<<MinBlockSize, DefaultBpg(MinBlockSize)>>}                         \* the geometry dimension switched off (1k blocks, 8192 per group)
GeoSet == Geos
MkGeo(p) == [bs |-> p[1], bpg |-> p[2], first |-> FirstData(p[1])]
Kinds == {"none", "sparse", "ss2_0", "ss2_1", "ss2_2"}
Nb(kind) == CASE kind = "ss2_0" -> 0 [] kind = "ss2_1" -> 1 [] kind = "ss2_2" -> 2 [] OTHER -> -1
MkSb(gdc, dpb, kind, mb) ==
   [gdc |-> gdc, dpb |-> dpb, sparse |-> kind # "none", ss2 |-> Nb(kind) >= 0, metabg |-> mb,
    bk |-> IF Nb(kind) >= 0 THEN MkfsBk(Nb(kind), gdc) ELSE <<0, 0>>, feat |-> 0, uuid |-> 0, blocks |-> gdc, inodes |-> gdc, rsv |-> 0, fixed |-> 0]
MkGd(s, e) == [i \in 1..DescB(s) |-> <<e, Min(s.dpb, s.gdc - (i - 1) * s.dpb)>>]
GdSane == \A i \in 1..Len(prim.gd) : prim.gd[i] # <<>>
Targets == (ResizeSet \cup {Cur.gdc - 1, Cur.gdc + 1, Cur.dpb, Cur.dpb + 1, Cur.dpb + 2, 2 * Cur.dpb - 1, 2 * Cur.dpb + 1}) \cap (1..MaxG)
Init == Blank
DoMkfs == /\ rec = "blank"
          /\ \E gdc \in 1..MaxG, dpb \in Dpbs, kind \in Kinds, mb \in BOOLEAN, p \in GeoSet :
                LET s == MkSb(gdc, dpb, kind, mb) IN Mkfs(s, MkGd(s, 0), MkGeo(p))
DoResize == \E n \in Targets : n # Cur.gdc /\
               LET s == [Cur EXCEPT !.gdc = n, !.blocks = n, !.inodes = n, !.bk = IF Cur.ss2 THEN ResizeBk(Cur.bk, Cur.gdc, n) ELSE Cur.bk]
               IN Resize(s, MkGd(s, steps + 1))
DoResize64 == \E d \in Dpbs \ {Cur.dpb} : LET s == [Cur EXCEPT !.dpb = d, !.fixed = 1 - @] IN Resize64(s, MkGd(s, steps + 1))
DoTuneFeat == \/ \E full \in BOOLEAN : TuneFeature([Cur EXCEPT !.feat = 1 - @], prim.gd, full)
              \/ ~Cur.sparse /\ TuneFeature([Cur EXCEPT !.sparse = TRUE], prim.gd, FALSE)
DoTuneUUID == \E full \in BOOLEAN : TuneUUID([Cur EXCEPT !.uuid = 1 - @], prim.gd, full)
DoTuneISize == LET s == [Cur EXCEPT !.fixed = 1 - @] IN TuneISize(s, MkGd(s, steps + 1))
DoEnv == \/ EnvPrimary([Cur EXCEPT !.feat = 1 - @], prim.gd)
         \/ EnvPrimary(Cur, [prim.gd EXCEPT ![1] = <<>>])
DoFsck == \/ GdSane /\ \E force \in BOOLEAN : FsckRepair(force)
          \/ ~GdSane /\ FsckFromBackup
Next == \/ DoMkfs
        \/ Alive /\ steps < MaxSteps /\ GdSane /\ last # "env" /\ (DoResize \/ DoResize64 \/ DoTuneFeat \/ DoTuneUUID \/ DoTuneISize)
        \/ Alive /\ steps < MaxSteps /\ GdSane /\ DoEnv
        \/ Alive /\ steps < MaxSteps /\ DoFsck
        \/ DestroyPrimary(TRUE)
        \/ GdOnly /\ DestroyPrimary(FALSE)
        \/ \E g \in 1..MaxG : RecoverFrom(g)
        \/ RecoverPlain
        \/ RecoverPlainGd
Spec == Init /\ [][Next]_vars
ASSUME BackupsClosedForm
\* block arithmetic: the block `e2fsck -b` is given for group g, and the position get_backup_sb probes for a listed group
\* once it uses the filesystem's own block and group size, are the first block of that group (ext2fs_group_first_block2),
\* for every block size of the format; the default group size is ext2fs_initialize's (Geometry!Compute: Min(bs * 8, 65528))
ASSUME \A bs \in BlockSizes : /\ DefaultBpg(bs) = Min(bs * 8, 65528) /\ DefaultBpg(bs) % 8 = 0
                              /\ \A bpg \in {256, DefaultBpg(bs)}, g \in 1..60 :
                                    ProbeAt(bs, bpg, g) = GroupAt(bs, bpg, FirstData(bs), g)
ASSUME BlockSizes = {1024, 2048, 4096, 8192, 16384, 32768, 65536} /\ BoundaryBlockSizes = {1024, 4096, 8192, 65536}
=============================================================================
