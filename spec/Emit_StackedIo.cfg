INIT EInit
NEXT ENext
CONSTANTS
  NG = 4
  K = 2
  D = 1
  InitBS = 1
  DevInvalSkipsClean = FALSE
  DevZeroBypassesCache = FALSE
  DevWriteEvictErrLost = FALSE
  TogglePre = TRUE
  SBG = 1
  IgnoredSites = {"setup.ublk", "setup.rd", "ix.sb1", "ix.sb2", "cl.ufile"}
CHECK_DEADLOCK FALSE
