SPECIFICATION Spec
CONSTANTS
  NFiles = 1
  NCuts = 7
  MaxOps = 4
  CPB = 2
  DevSetSizeStaleBuffer = FALSE
INVARIANT Refines
INVARIANT ReadRefines
INVARIANT NoScribble
INVARIANT BlockMapping
CHECK_DEADLOCK FALSE
