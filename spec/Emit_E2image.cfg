SPECIFICATION EmitSpec
CONSTANTS
  NB = 4
  L2N = 2
  RPB = 4
  CacheN = 2
  MClasses = {"free"}
  AllModes = {FALSE}
  DevEaInodeDataSkipped = FALSE
  DevLastByteZeroed = FALSE
  DevL1VsVirtualSize = FALSE
CHECK_DEADLOCK FALSE
