--------------------------- MODULE Emit_StackedIo ---------------------------
(* Writes the fault-position catalogue of StackedIo.tla as JSON (IOEnv.OUT): the outer entry points, the backing stores,
   the cells <<entry point, store hit first>> the conformance part of checks/c17.py has to cover with injected write
   failures on histories applied to the undo_io wrapper, and the nested call sites with the ones whose result is dropped. *)
EXTENDS StackedIo, Json, IOUtils, SequencesExt
VARIABLE x
Out == [ops |-> SetToSeq(OuterOps), stores |-> SetToSeq(Stores),
        cells |-> SetToSeq({[op |-> c[1], store |-> c[2]] : c \in FaultCells}),
        rsites |-> SetToSeq(RSites), usites |-> SetToSeq(USites), ignored |-> SetToSeq(IgnoredSites)]
ASSUME JsonSerialize(IOEnv.OUT, Out)
EInit == x = 0
ENext == UNCHANGED x
=============================================================================
