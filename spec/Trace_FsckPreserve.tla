------------------------- MODULE Trace_FsckPreserve -------------------------
(***************************************************************************)
(* C05 conformance.  A behaviour is what happened to ONE image:            *)
(*                                                                         *)
(*   {"e":"Base","img":..,"st":<projection of the reader>}                 *)
(*   {"e":"Restore"}                     a fresh copy of the base image    *)
(*   {"e":"Damage","recipe":..,"st":..}  summary-only corruption applied   *)
(*        (st omitted: same damaged projection as the previous Damage line)*)
(*   {"e":"Fsck","mode":m,"exit":x,"same":k,"st":..,"dch":b,"mch":b,"lin3":b} *)
(*        the real e2fsck was run in mode m on the current image; st is    *)
(*        the projection of the image afterwards (same = 1: the projection *)
(*        is identical to the one before the run, same = 2: identical to   *)
(*        the base image's, and st is omitted)                             *)
(*                                                                         *)
(* Every line drives the ABSTRACT variables of FsckPreserve (tree, tree0,  *)
(* cons, exit, mode, dmgd, dch, mch) with what was observed: tree from the *)
(* reader's namespace projection restricted to the fields the property     *)
(* names, cons from Ext4Abs!Consistent evaluated here, conjunct by         *)
(* conjunct, on the projected image.  After every line the invariants of   *)
(* FsckPreserve (TreeUnchanged, ExitOK, ConsistentAfter) are evaluated on  *)
(* the new state; a failing one prints BADLINE with its name and the scan  *)
(* goes on, so one TLC run triages a whole batch.  BaseConsistent /        *)
(* DamageConfined are the preconditions of the universe (a consistent      *)
(* start; damage that moved no ownership fact): their failure excludes the *)
(* input, it is not a violation.                                           *)
(* ModeScope (which representation a mode may rewrite) is not part of the  *)
(* property text: a failure prints DIVERGE (information).                  *)
(***************************************************************************)
EXTENDS FsckPreserve, Json, IOUtils

A == INSTANCE Ext4Abs

VARIABLES l, failed, basefailed, dmgfailed, sbbad, g0uninit, backupok, dmgfacts, cfinv
tvars == <<vars, l, failed, basefailed, dmgfailed, sbbad, g0uninit, backupok, dmgfacts, cfinv>>

Tr == ndJsonDeserialize(IOEnv.TRACE)

Opt(t, f, d) == IF f \in DOMAIN t THEN t[f] ELSE d

\* the observable tree, restricted to what the property text lists: path, type, byte content (digest), size, mode,
\* ownership, link count, symlink target, extended attributes (name -> value digest).  Inode numbers, times, flags,
\* block numbers and the size of a directory are representation.
PropFields(t) ==
    [path |-> t.path, type |-> t.type, size |-> Opt(t, "size", <<0, 0>>), mode |-> Opt(t, "mode", -1),
     uid |-> Opt(t, "uid", -1), gid |-> Opt(t, "gid", -1), nlink |-> Opt(t, "nlink", -1),
     digest |-> Opt(t, "digest", ""), target |-> Opt(t, "target", ""), xattrs |-> Opt(t, "xattrs", <<>>)]
TreeObs(st) == IF A!Usable(st) THEN {PropFields(st.tree[k]) : k \in DOMAIN st.tree} ELSE {"unreadable"}

\* A recipe rewrites only bitmap bits, counts, descriptor flags, bg_itable_unused or a stored checksum (by construction,
\* gen/c05_summary.py), so the abstract tree is by definition the one before the damage (FsckPreserve!DamageContract) even
\* when a reader that honours the damaged summaries no longer finds every file (INODE_UNINIT, bg_itable_unused).  What the
\* damaged image must still satisfy is that no ownership fact moved: a recipe after which the claims themselves look
\* wrong (or the reader cannot certify its own projection) hit something else and is outside the universe.
OwnershipConjuncts == {"Fatal", "Cert", "InRange", "NotFixedMeta", "SingleOwner"}

BaseConsistent == (mode = "none" /\ dmg = 0) => cons
DamageConfined == (mode = "none" /\ dmg > 0) => failed \cap OwnershipConjuncts = {}

(***************************************************************************)
(* Known findings, modelled as named deviations (DESIGN 3.5) that are       *)
(* ENABLED in the conformance configuration.  A line that is only accepted  *)
(* because of a deviation prints DEVIATION with its name (the check routes  *)
(* it to the known-findings list); everything else is still a BADLINE.      *)
(*  DevSbCsumRefuses: the primary superblock of the image handed to e2fsck  *)
(*    fails only its checksum (reader fact sb.csum_ok) and no backup sits   *)
(*    where the default geometry puts it (non-default group size, first     *)
(*    data block, or a single group): e2fsck -fy gives up with exit 8.      *)
(*  DevInodeUninitWipes: group 0 carries INODE_UNINIT under a valid         *)
(*    descriptor checksum: pass 1 skips the group, the root is "not         *)
(*    allocated", files are released.                                       *)
(*  DevCasefoldOpaqueHashFails: the image handed to e2fsck holds a          *)
(*    casefolded, indexed directory with a name that is not valid UTF-8     *)
(*    (reader fact cfinv, logged with the run).  The pinned tree cannot     *)
(*    hash such a name: it reports the index as invalid, clears it, cannot  *)
(*    rebuild it and leaves the former root block without a checksum tail   *)
(*    (exit 1 with an inconsistent result; preen: exit 4).  The files must  *)
(*    still be unchanged.                                                   *)
(***************************************************************************)
DefaultBackupReachable(st) ==
    /\ st.geo.gdc > 1
    /\ st.geo.bpg = 8 * st.geo.bs
    /\ st.geo.first = (IF st.geo.bs = 1024 THEN 1 ELSE 0)
DevSb == DevSbCsumRefuses /\ sbbad /\ ~backupok /\ exit' = 8 /\ mode' # "p"
DevG0 == DevInodeUninitWipes /\ g0uninit
DevCf == DevCasefoldOpaqueHashFails /\ cfinv'
DevCfExit == DevCf /\ mode' = "p" /\ exit' = 4

Note(name, ok) == ok \/ PrintT(<<"BADLINE", l, name>>)
Note2(name, ok, dev, devname) == ok \/ (IF dev THEN PrintT(<<"DEVIATION", l, devname>>) ELSE PrintT(<<"BADLINE", l, name>>))
Note3(name, ok, dev1, devname1, dev2, devname2) ==
    ok \/ (IF dev1 THEN PrintT(<<"DEVIATION", l, devname1>>) ELSE IF dev2 THEN PrintT(<<"DEVIATION", l, devname2>>) ELSE PrintT(<<"BADLINE", l, name>>))
FsckChecks ==
    /\ Note2("TreeUnchanged", TreeUnchanged', DevG0, "DevInodeUninitWipes")
    /\ Note3("ExitOK", ExitOK', DevSb, "DevSbCsumRefuses", DevCfExit, "DevCasefoldOpaqueHashFails")
    /\ Note3("ConsistentAfter", ConsistentAfter', DevG0, "DevInodeUninitWipes", DevCf, "DevCasefoldOpaqueHashFails")
    /\ (ModeScope' \/ PrintT(<<"DIVERGE", l>>))
    /\ (failed' = {} \/ PrintT(<<"FAILED", l, failed'>>))
Checks ==
    /\ Note("TreeUnchanged", TreeUnchanged')
    /\ Note("ExitOK", ExitOK')
    /\ Note("ConsistentAfter", ConsistentAfter')
    /\ Note("BaseConsistent", BaseConsistent')
    /\ Note("DamageConfined", DamageConfined')
    /\ (ModeScope' \/ PrintT(<<"DIVERGE", l>>))
    /\ (failed' = {} \/ PrintT(<<"FAILED", l, failed'>>))

IsEvent(e) == l <= Len(Tr) /\ Tr[l].e = e /\ l' = l + 1

TBase ==
    /\ IsEvent("Base")
    /\ LET st == Tr[l].st
           f  == A!FailedConjuncts(st)
           t  == TreeObs(st)
       IN  tree0' = t /\ tree' = t /\ failed' = f /\ basefailed' = f /\ dmgfailed' = {} /\ cons' = (f = {})
    /\ mode' = "none" /\ exit' = 0 /\ dmgd' = FALSE /\ dch' = FALSE /\ mch' = FALSE /\ lin3' = FALSE /\ dmg' = 0 /\ runs' = 0
    /\ backupok' = DefaultBackupReachable(Tr[l].st) /\ sbbad' = FALSE /\ g0uninit' = FALSE /\ dmgfacts' = <<FALSE, FALSE>> /\ cfinv' = FALSE
    /\ UNCHANGED repvars
    /\ Checks

TRestore ==
    /\ IsEvent("Restore")
    /\ tree' = tree0 /\ failed' = basefailed /\ cons' = (basefailed = {})
    /\ mode' = "none" /\ exit' = 0 /\ dmgd' = FALSE /\ dch' = FALSE /\ mch' = FALSE /\ lin3' = FALSE /\ dmg' = 0 /\ runs' = 0
    /\ sbbad' = FALSE /\ g0uninit' = FALSE /\ cfinv' = FALSE
    /\ UNCHANGED <<repvars, tree0, basefailed, dmgfailed, backupok, dmgfacts>>
    /\ Checks

TDamage ==
    /\ IsEvent("Damage")
    /\ IF "st" \in DOMAIN Tr[l]
       THEN LET st == Tr[l].st
                f  == A!FailedConjuncts(st)
                sb == A!Usable(st) /\ ~st.sb.csum_ok
                g0 == A!Usable(st) /\ Len(st.gd) >= 1 /\ "INODE_UNINIT" \in Rng(st.gd[1].flags)
            IN  failed' = f /\ cons' = (f = {}) /\ dmgfailed' = f /\ sbbad' = sb /\ g0uninit' = g0 /\ dmgfacts' = <<sb, g0>>
       ELSE /\ failed' = dmgfailed /\ cons' = (dmgfailed = {})                         \* same damaged projection as the last Damage line
            /\ sbbad' = dmgfacts[1] /\ g0uninit' = dmgfacts[2] /\ UNCHANGED <<dmgfailed, dmgfacts>>
    /\ DamageContract
    /\ dmg' = dmg + 1
    /\ UNCHANGED <<repvars, tree0, basefailed, exit, dmgd, dch, mch, lin3, runs, backupok, cfinv>>
    /\ Checks

TFsck ==
    /\ IsEvent("Fsck")
    /\ LET r == Tr[l] IN
         /\ r.mode \in Modes
         /\ mode' = r.mode /\ exit' = r.exit
         /\ dmgd' = ~cons                                   \* the image handed to e2fsck was not consistent
         /\ dch' = (r.dch = 1) /\ mch' = (r.mch = 1) /\ lin3' = (r.lin3 = 1) /\ cfinv' = (Opt(r, "cfinv", 0) = 1)
         /\ CASE r.same = 1 -> UNCHANGED <<tree, failed, cons>>
              [] r.same = 2 -> tree' = tree0 /\ failed' = basefailed /\ cons' = (basefailed = {})
              [] OTHER -> LET f == A!FailedConjuncts(r.st) IN tree' = TreeObs(r.st) /\ failed' = f /\ cons' = (f = {})
    /\ runs' = runs + 1
    /\ sbbad' = FALSE /\ g0uninit' = FALSE            \* they describe the image that was handed to this run
    /\ UNCHANGED <<repvars, tree0, basefailed, dmgfailed, dmg, backupok, dmgfacts>>
    /\ FsckChecks

TraceInit ==
    /\ l = 1 /\ failed = {} /\ basefailed = {} /\ dmgfailed = {} /\ sbbad = FALSE /\ g0uninit = FALSE /\ backupok = FALSE /\ dmgfacts = <<FALSE, FALSE>> /\ cfinv = FALSE
    /\ tree = {} /\ tree0 = {} /\ cons = TRUE /\ exit = 0 /\ mode = "none" /\ dmgd = FALSE /\ dch = FALSE /\ mch = FALSE /\ lin3 = FALSE
    /\ leaves = <<>> /\ index = <<>> /\ indexed = FALSE /\ cfm = "plain" /\ exts = <<>> /\ kind = "ext" /\ meta = {} /\ fsize = 0
    /\ bitmap = {} /\ freecnt = 0 /\ uninit = FALSE /\ badcsum = {} /\ dmg = 0 /\ runs = 0
TraceNext == TBase \/ TRestore \/ TDamage \/ TFsck
TraceSpec == TraceInit /\ [][TraceNext]_tvars
TraceAccepted == TLCGet("stats").diameter - 1 = Len(Tr)
=============================================================================
