SPECIFICATION TraceSpec
CONSTANTS
  DevPass0VerdictForgotten = FALSE
POSTCONDITION TraceAccepted
CHECK_DEADLOCK FALSE
