--------------------------- MODULE Emit_TreeGen ---------------------------
(* C18: writes the tree universe of TreeGen.tla out for the concretiser.
   - the value catalogues (IOEnv.OUT, JSON): the numbers behind every class name;
   - one line <<"TREE", json>> on TLC's output per completed tree of every simulated behaviour (tlc -simulate -seed).
   The invariant EmitTree is always TRUE; it exists for its printing side effect and also evaluates TreeOK.        *)
EXTENDS TreeGen, Json, IOUtils
\* kind weights of the simulated universe (regular files carry most of the boundary catalogue)
KindSeqSim == <<"reg", "reg", "reg", "reg", "dir", "dir", "lnk", "lnk", "hard", "hard", "chr", "blk", "fifo", "sock">>
Catalogue == [sizes |-> [c \in SizeClasses |-> SizeCat[c]], modes |-> [c \in ModeClasses |-> ModeBits[c]],
              owners |-> [c \in OwnerClasses |-> OwnerOf[c]], mtimes |-> [c \in MtimeClasses |-> MtimeOf[c]],
              xattrs |-> [c \in XattrClasses |-> XattrCat[c]], targets |-> [c \in TargetClasses |-> TargetLen[c]],
              devs |-> [c \in DevClasses |-> DevOf[c]], names |-> [c \in NameClasses |-> NameLen[c]]]
ASSUME JsonSerialize(IOEnv.OUT, Catalogue)
KindSeqWide == <<"reg", "reg", "reg", "reg", "reg", "reg", "dir", "lnk", "hard", "fifo">>
KindSeqLink == <<"dir", "dir", "reg", "fifo", "hard", "hard", "hard">>
\* link groups of every file type: one node of each linkable kind per round, half of the weight on further names
KindSeqLinks == <<"dir", "dir", "dir", "reg", "lnk", "chr", "blk", "fifo", "sock", "hard", "hard", "hard", "hard", "hard", "hard", "hard", "hard">>
KindSeqShapes == <<"dir", "reg", "lnk", "chr", "blk", "fifo", "sock", "hard">>
\* model-checking mode (every tree of a small configuration, no seed): the link-shape trees -- for every linkable kind a group of
\* two or three names inside one directory, across two directories, below / above the first name
EmitLinkShapes == (phase = "done" /\ LinkShape(tree)) => (TreeOK(tree) /\ PrintT(<<"TREE", ToJson(tree)>>))
\* only the trees on which hard-link detection by inode number alone would go wrong (cross-device sub-universe)
EmitSensitive == (phase = "done" /\ LinkSensitive(tree)) => (TreeOK(tree) /\ PrintT(<<"TREE", ToJson(tree)>>))
EmitTree == (phase = "done") => (TreeOK(tree) /\ PrintT(<<"TREE", ToJson(tree)>>))
=============================================================================
