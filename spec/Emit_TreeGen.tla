--------------------------- MODULE Emit_TreeGen ---------------------------
(* C18: writes the tree universe of TreeGen.tla out for the concretiser.
   - the value catalogues (IOEnv.OUT, JSON): the numbers behind every class name;
   - one line <<"TREE", json>> on TLC's output per completed tree of every simulated behaviour (tlc -simulate -seed).
   The invariant EmitTree is always TRUE; it exists for its printing side effect and also evaluates TreeOK.        *)
EXTENDS TreeGen, Json, IOUtils
\* kind weights of the simulated universe (regular files carry most of the boundary catalogue)
KindSeqSim == <<"reg", "reg", "reg", "reg", "dir", "dir", "lnk", "lnk", "hard", "hard", "chr", "blk", "fifo", "sock">>
Catalogue == [sizes |-> [c \in SizeClasses |-> SizeCat[c]], modes |-> [c \in ModeClasses |-> ModeBits[c]],
              owners |-> [c \in OwnerClasses |-> OwnerOf[c]], mtimes |-> [c \in MtimeClasses |-> MtimeOf[c]],
              xattrs |-> [c \in XattrClasses |-> XattrCat[c]], targets |-> [c \in TargetClasses |-> TargetLen[c]],
              devs |-> [c \in DevClasses |-> DevOf[c]], names |-> [c \in NameClasses |-> NameLen[c]]]
ASSUME JsonSerialize(IOEnv.OUT, Catalogue)
KindSeqWide == <<"reg", "reg", "reg", "reg", "reg", "reg", "dir", "lnk", "hard", "fifo">>
KindSeqLink == <<"dir", "dir", "reg", "reg", "hard", "hard", "hard">>
\* only the trees on which hard-link detection by inode number alone would go wrong (cross-device sub-universe)
EmitSensitive == (phase = "done" /\ LinkSensitive(tree)) => (TreeOK(tree) /\ PrintT(<<"TREE", ToJson(tree)>>))
EmitTree == (phase = "done") => (TreeOK(tree) /\ PrintT(<<"TREE", ToJson(tree)>>))
=============================================================================
