SPECIFICATION TraceSpec
CONSTANTS
  Root = 2
  FirstIno = 11
  NInodes = 2048
  LinkMax = 65000
  LinkMod = 65536
  DirNlink = FALSE
  FileType = TRUE
  DevMkdirNoNlinkRule = FALSE
  DevKillLeaksEaBlock = FALSE
  DevMkdirExistsLeak = FALSE
  DevSymlinkExistsLeak = FALSE
INVARIANT InvTypeOK
INVARIANT InvLinksRule
INVARIANT InvNoFreeReferenced
INVARIANT InvBalancedIsConsistent
INVARIANT InvNoLeak
INVARIANT InvLayout
POSTCONDITION TraceAccepted
CHECK_DEADLOCK FALSE
