SPECIFICATION Spec
CONSTANTS
  MaxN = 6
  DevFfzEmpty = FALSE
  DevGetEmpty = FALSE
  DevRemoveRet = FALSE
  DevSetRangeOr = FALSE
  DevCmpLast = FALSE
INVARIANT Structural
INVARIANT Refines
INVARIANT ResultsAgree
CHECK_DEADLOCK FALSE
